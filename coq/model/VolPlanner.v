(* Model of the volume planners of weed/shell (C15):
     command_volume_balance.go, command_volume_server_evacuate.go,
     command_volume_fix_replication.go, storage/super_block/replica_placement.go.
   Executable definitions only; proofs are in proof/VolPlannerProofs.v.

   Transition-system form.  The Go planners sort with sort.Slice (not stable) and
   iterate maps, so the model does not compute "the" plan: it defines which step
   is ENABLED in a bookkeeping state ([*_step_ok]) and which traces are accepted
   ([*_accepts]): every recorded step must be enabled, the bookkeeping is advanced
   exactly as the Go code advances it, and the run must end where the algorithm
   stops.  Names: data centers, racks, nodes, collections, disk types are numbers
   (the harness numbers the strings; rack numbers are local to a data center as
   the Go keys are "dc rack"). *)
From Coq Require Import List NArith ZArith Bool Arith.
Import ListNotations.

(* ---------- locations and replica placement ---------- *)
Record loc := { l_dc : N; l_rack : N; l_node : N }.

(* location.String() equality / the triple comparison of isGoodMove, adjustAfterMove *)
Definition loc_eqb (a b : loc) : bool :=
  (l_dc a =? l_dc b)%N && (l_rack a =? l_rack b)%N && (l_node a =? l_node b)%N.

(* location.Rack() = "dc rack" *)
Definition rack_of (l : loc) : N * N := (l_dc l, l_rack l).
Definition rack_dec (a b : N * N) : {a = b} + {a <> b}.
Proof. decide equality; apply N.eq_dec. Defined.
Definition rack_eqb (a b : N * N) : bool := if rack_dec a b then true else false.

(* super_block.ReplicaPlacement *)
Record rp := { rp_dc : nat; rp_rack : nat; rp_same : nat }.

(* NewReplicaPlacementFromByte(byte(x)) with the error IGNORED (all callers use
   `rp, _ :=`): "%03d" digits left to right, stop at the first digit > 2. *)
Definition rp_of_byte (b0 : N) : rp :=
  let b := (b0 mod 256)%N in
  let d0 := (b / 100)%N in let d1 := ((b / 10) mod 10)%N in let d2 := (b mod 10)%N in
  if (2 <? d0)%N then {| rp_dc := 0; rp_rack := 0; rp_same := 0 |}
  else if (2 <? d1)%N then {| rp_dc := N.to_nat d0; rp_rack := 0; rp_same := 0 |}
  else if (2 <? d2)%N then {| rp_dc := N.to_nat d0; rp_rack := N.to_nat d1; rp_same := 0 |}
  else {| rp_dc := N.to_nat d0; rp_rack := N.to_nat d1; rp_same := N.to_nat d2 |}.

(* GetCopyCount *)
Definition copy_count (p : rp) : nat := rp_dc p + rp_rack p + rp_same p + 1.

(* the Go maps map[string]bool / map[string]int over a replica list *)
Definition dcs (l : list loc) : list N := nodup N.eq_dec (map l_dc l).
Definition racks (l : list loc) : list (N * N) := nodup rack_dec (map rack_of l).
Definition cnt_dc (l : list loc) (d : N) : nat := count_occ N.eq_dec (map l_dc l) d.
Definition cnt_rack (l : list loc) (k : N * N) : nat := count_occ rack_dec (map rack_of l) k.
Definition in_dc (d : N) (l : list loc) : list loc := filter (fun r => (l_dc r =? d)%N) l.

(* isGoodMove (command_volume_balance.go) *)
Definition is_good_move (p : rp) (reps : list loc) (src tgt : loc) : bool :=
  if existsb (fun r => loc_eqb r tgt) reps then false (* never move to existing nodes *)
  else
    let after := tgt :: filter (fun r => negb (l_node r =? l_node src)%N) reps in
    Nat.eqb (length (dcs after)) (rp_dc p + 1) &&
    Nat.eqb (length (racks after)) (rp_rack p + rp_dc p + 1) &&
    forallb (fun k => Nat.eqb (cnt_rack after k) (rp_same p + 1)) (racks after).

(* findTopKeys + isAmong: the key's count is the maximum *)
Definition is_top {K} (keys : list K) (cnt : K -> nat) (k : K) : bool :=
  forallb (fun k' => cnt k' <=? cnt k) keys.

(* satisfyReplicaPlacement (command_volume_fix_replication.go) *)
Definition satisfy (p : rp) (reps : list loc) (c : loc) : bool :=
  if existsb (fun r => loc_eqb r c) reps then false (* avoid duplicated volume on the same data node *)
  else if negb (existsb (N.eqb (l_dc c)) (dcs reps)) then
    (* different from existing dcs *) length (dcs reps) <? rp_dc p + 1
  else if negb (is_top (dcs reps) (cnt_dc reps) (l_dc c)) then false (* not on one of the primary dcs *)
  else
    let indc := in_dc (l_dc c) reps in
    if negb (existsb (rack_eqb (rack_of c)) (racks indc)) then
      (* different from existing racks *) length (racks indc) <? rp_rack p + 1
    else if negb (is_top (racks indc) (cnt_rack indc) (rack_of c)) then false (* not on the primary rack *)
    else cnt_rack indc (rack_of c) <? rp_same p + 1.

(* ---------- what "satisfies the replication setting xyz" means (the spec) ----------
   As the master grows volumes: one main data center holding y+1 racks, x other
   data centers with one copy each; in the main data center one main rack with
   z+1 servers, the y other racks with one copy each; all on distinct servers.
   [sub_placement]: the set can still be completed to such a layout. *)
Definition nodup_nodes (l : list loc) : bool :=
  Nat.eqb (length (nodup N.eq_dec (map l_node l))) (length l).

Definition main_rack_ok (p : rp) (inD : list loc) (R : N * N) : bool :=
  forallb (fun k => rack_eqb k R || Nat.eqb (cnt_rack inD k) 1) (racks inD) &&
  (cnt_rack inD R <=? rp_same p + 1).

Definition main_dc_ok (p : rp) (l : list loc) (D : N) : bool :=
  forallb (fun d => (d =? D)%N || Nat.eqb (cnt_dc l d) 1) (dcs l) &&
  (length (racks (in_dc D l)) <=? rp_rack p + 1) &&
  existsb (main_rack_ok p (in_dc D l)) (racks (in_dc D l)).

Definition sub_placement (p : rp) (l : list loc) : bool :=
  nodup_nodes l && (length (dcs l) <=? rp_dc p + 1) &&
  match l with [] => true | _ => existsb (main_dc_ok p l) (dcs l) end.

Definition valid_placement (p : rp) (l : list loc) : bool :=
  sub_placement p l && Nat.eqb (length l) (copy_count p).

(* an over-replicated volume "satisfies its replication setting" when copy_count of its
   copies form a valid layout (the others are surplus) *)
Fixpoint sublists_k {A} (k : nat) (l : list A) : list (list A) :=
  match k, l with
  | O, _ => [[]]
  | S _, [] => []
  | S k', x :: l' => map (cons x) (sublists_k k' l') ++ sublists_k k l'
  end.
Definition has_valid_subset (p : rp) (l : list loc) : bool :=
  existsb (valid_placement p) (sublists_k (copy_count p) l).

(* the holder list after a move, on locations (see [relocate] below) *)
Fixpoint relocate_loc (from to : loc) (l : list loc) : list loc :=
  match l with
  | [] => []
  | r :: l' => if loc_eqb r from then to :: l' else r :: relocate_loc from to l'
  end.

(* ---------- cluster snapshot (master_pb.TopologyInfo) ---------- *)
Record vol := { v_id : N; v_coll : N; v_rp : N; v_size : N; v_ro : bool; v_dt : N;
                v_mtime : N; v_crev : N }.
(* DiskInfo: Type, MaxVolumeCount, VolumeCount, VolumeInfos *)
Record disk := { d_type : N; d_max : Z; d_count : Z; d_vols : list vol }.
Record node := { n_loc : loc; n_disks : list disk }.
(* eachDataNode order *)
Definition snapshot := list node.

Record replica := { r_loc : loc; r_info : vol }.
Definition locs (rs : list replica) : list loc := map r_loc rs.

Definition n_id (n : node) : N := l_node (n_loc n).
Definition all_vols (n : node) : list vol := flat_map d_vols (n_disks n).
Definition disk_of (n : node) (dt : N) : option disk := find (fun d => (d_type d =? dt)%N) (n_disks n).
Definition find_node (s : snapshot) (id : N) : option node := find (fun n => (n_id n =? id)%N) s.
Definition vols_of_dt (n : node) (dt : N) : list vol := filter (fun v => (v_dt v =? dt)%N) (all_vols n).

(* capacityByMaxVolumeCount / capacityByFreeVolumeCount (uint64 subtraction cast to
   int = the signed difference for counts below 2^63) *)
Definition cap_max (n : node) (dt : N) : Z :=
  match disk_of n dt with Some d => d_max d | None => 0%Z end.
Definition cap_free (n : node) (dt : N) : Z :=
  match disk_of n dt with Some d => (d_max d - d_count d)%Z | None => 0%Z end.

(* collectVolumeReplicaLocations *)
Definition reps_of (s : snapshot) (vid : N) : list replica :=
  flat_map (fun n => map (fun v => {| r_loc := n_loc n; r_info := v |})
                         (filter (fun v => (v_id v =? vid)%N) (all_vols n))) s.
Definition all_vids (s : snapshot) : list N :=
  nodup N.eq_dec (flat_map (fun n => map v_id (all_vols n)) s).

(* ---------- plan steps and what they do to the real cluster ---------- *)
Inductive step :=
| Move (vid dt from to : N)      (* "moving <dt> volume <vid> from => to" *)
| Copy (vid from to : N)         (* "replicating volume <vid> from .. to dataNode .." *)
| Delete (vid at_ : N).          (*"deleting volume <vid> from .." *)

(* the real cluster as far as the property looks at it: who holds which volume,
   and how many volumes of a disk type a server holds *)
Record world := { w_reps : N -> list replica; w_occ : N -> N -> Z }.

Definition init_world (s : snapshot) : world :=
  {| w_reps := reps_of s;
     w_occ := fun id dt => match find_node s id with
                           | Some n => Z.of_nat (length (vols_of_dt n dt)) | None => 0%Z end |}.

Definition upd1 {V} (f : N -> V) (k : N) (v : V) : N -> V := fun k' => if (k' =? k)%N then v else f k'.
Definition upd2 (f : N -> N -> Z) (a b : N) (d : Z) : N -> N -> Z :=
  fun a' b' => if (a' =? a)%N && (b' =? b)%N then (f a' b' + d)%Z else f a' b'.

(* adjustAfterMove on volumeReplicas = the real effect of a move on the holder list:
   the first replica located at [from] is now at [to] *)
Fixpoint relocate (from to : loc) (rs : list replica) : list replica :=
  match rs with
  | [] => []
  | r :: rs' => if loc_eqb (r_loc r) from then {| r_loc := to; r_info := r_info r |} :: rs'
                else r :: relocate from to rs'
  end.
Fixpoint remove_at (at_ : N) (rs : list replica) : list replica :=
  match rs with
  | [] => []
  | r :: rs' => if (l_node (r_loc r) =? at_)%N then rs' else r :: remove_at at_ rs'
  end.
Definition replica_at (rs : list replica) (id : N) : option replica :=
  find (fun r => (l_node (r_loc r) =? id)%N) rs.
Definition holds (rs : list replica) (id : N) : bool :=
  existsb (fun r => (l_node (r_loc r) =? id)%N) rs.

Definition loc_of (s : snapshot) (id : N) : loc :=
  match find_node s id with Some n => n_loc n | None => {| l_dc := 0; l_rack := 0; l_node := id |} end.

Definition apply_step (s : snapshot) (w : world) (st : step) : world :=
  match st with
  | Move vid dt from to =>
      {| w_reps := upd1 (w_reps w) vid (relocate (loc_of s from) (loc_of s to) (w_reps w vid));
         w_occ := upd2 (upd2 (w_occ w) from dt (-1)) to dt 1 |}
  | Copy vid from to =>
      match replica_at (w_reps w vid) from with
      | Some r => {| w_reps := upd1 (w_reps w) vid (w_reps w vid ++ [{| r_loc := loc_of s to; r_info := r_info r |}]);
                     w_occ := upd2 (w_occ w) to (v_dt (r_info r)) 1 |}
      | None => w
      end
  | Delete vid at_ =>
      match replica_at (w_reps w vid) at_ with
      | Some r => {| w_reps := upd1 (w_reps w) vid (remove_at at_ (w_reps w vid));
                     w_occ := upd2 (w_occ w) at_ (v_dt (r_info r)) (-1) |}
      | None => w
      end
  end.

(* ---------- the property, per step, on the real cluster (the oracle) ---------- *)
Definition max_of (s : snapshot) (id dt : N) : Z :=
  match find_node s id with Some n => cap_max n dt | None => 0%Z end.

Record verdict4 := { ok_coloc : bool; ok_cap : bool; ok_pres : bool; ok_repair : bool }.
Definition v4_and (a b : verdict4) : verdict4 :=
  {| ok_coloc := ok_coloc a && ok_coloc b; ok_cap := ok_cap a && ok_cap b;
     ok_pres := ok_pres a && ok_pres b; ok_repair := ok_repair a && ok_repair b |}.
Definition v4_true : verdict4 := {| ok_coloc := true; ok_cap := true; ok_pres := true; ok_repair := true |}.
Definition v4_all (a : verdict4) : bool := ok_coloc a && ok_cap a && ok_pres a && ok_repair a.

Definition prop_step (s : snapshot) (w : world) (st : step) : verdict4 :=
  match st with
  | Move vid dt from to =>
      let rs := w_reps w vid in
      {| ok_coloc := negb (holds rs to);
         ok_cap := (w_occ w to dt <? max_of s to dt)%Z;
         ok_pres := match replica_at rs from with
                    | None => false (* nothing to move *)
                    | Some r =>
                        let p := rp_of_byte (v_rp (r_info r)) in
                        implb (valid_placement p (locs rs))
                              (valid_placement p (locs (relocate (loc_of s from) (loc_of s to) rs)))
                    end;
         ok_repair := true |}
  | Copy vid from to =>
      let rs := w_reps w vid in
      match replica_at rs from with
      | None => {| ok_coloc := false; ok_cap := false; ok_pres := false; ok_repair := false |}
      | Some r =>
          let p := rp_of_byte (v_rp (r_info r)) in
          {| ok_coloc := negb (holds rs to);
             ok_cap := (w_occ w to (v_dt (r_info r)) <? max_of s to (v_dt (r_info r)))%Z;
             (* a satisfied volume stays satisfied (a copy onto a satisfied volume would
                over-replicate it: repair must not touch it) *)
             ok_pres := implb (valid_placement p (locs rs)) (valid_placement p (loc_of s to :: locs rs));
             (* the copy satisfies the replication setting: a set that could still be completed
                to a valid layout can still be completed after the copy *)
             ok_repair := implb (sub_placement p (locs rs)) (sub_placement p (loc_of s to :: locs rs)) |}
      end
  | Delete vid at_ =>
      let rs := w_reps w vid in
      match replica_at rs at_, rs with
      | Some _, r0 :: _ =>
          (* only surplus copies are purged, and if copy_count of the copies formed a valid
             layout before the purge, copy_count of the remaining ones still do *)
          let p := rp_of_byte (v_rp (r_info r0)) in
          {| ok_coloc := true; ok_cap := true; ok_repair := true;
             ok_pres := (copy_count p <=? length (remove_at at_ rs)) &&
                        implb (has_valid_subset p (locs rs)) (has_valid_subset p (locs (remove_at at_ rs))) |}
      | _, _ => {| ok_coloc := false; ok_cap := false; ok_pres := false; ok_repair := false |}
      end
  end.

Fixpoint prop_trace (s : snapshot) (w : world) (tr : list step) : verdict4 :=
  match tr with
  | [] => v4_true
  | st :: tr' => v4_and (prop_step s w st) (prop_trace s (apply_step s w st) tr')
  end.
Fixpoint run_trace (s : snapshot) (w : world) (tr : list step) : world :=
  match tr with [] => w | st :: tr' => run_trace s (apply_step s w st) tr' end.

(* ====================================================================== *)
(* volume.balance                                                          *)
(* ====================================================================== *)
(* one call of balanceSelectedVolume: collection filter (None = ALL_COLLECTIONS),
   disk type, writable / read-only pass *)
Record phase := { ph_coll : option N; ph_dt : N; ph_ro : bool }.

(* the two selectVolumes predicates of balanceVolumeServersByDiskType *)
Definition selects (limit : N) (ph : phase) (v : vol) : bool :=
  (match ph_coll ph with None => true | Some c => (v_coll v =? c)%N end) &&
  (v_dt v =? ph_dt ph)%N &&
  (if ph_ro ph then v_ro v || (limit <=? v_size v)%N else negb (v_ro v) && (v_size v <? limit)%N).

(* Do / balanceVolumeServers: for each collection, for each disk type: writable, read-only *)
Definition phases_of (colls : list (option N)) (dts : list N) : list phase :=
  flat_map (fun c => flat_map (fun dt => [ {| ph_coll := c; ph_dt := dt; ph_ro := false |};
                                           {| ph_coll := c; ph_dt := dt; ph_ro := true |} ]) dts) colls.

(* bookkeeping of a run: selectedVolumes per node and the shared volumeReplicas
   (whose update by adjustAfterMove is exactly [relocate], so it is kept in the world) *)
Record bstate := { b_sel : N -> list vol; b_w : world }.

(* per phase constants: nodesWithCapacity with capacityFunc, selectedVolumeCount, volumeMaxCount,
   candidate sort key (sortWritableVolumes: Size, sortReadOnlyVolumes: Id) *)
Record bctx := { bc_nodes : list (loc * Z); bc_sel_total : Z; bc_max_total : Z; bc_key : vol -> N }.

Definition init_sel (limit : N) (s : snapshot) (ph : phase) : N -> list vol :=
  fun id => match find_node s id with
            | Some n => filter (selects limit ph) (all_vols n) | None => [] end.

Definition sumZ (l : list Z) : Z := fold_right Z.add 0%Z l.

Definition mk_bctx (limit : N) (s : snapshot) (ph : phase) : bctx :=
  {| bc_nodes := filter (fun nc => (0 <? snd nc)%Z) (map (fun n => (n_loc n, cap_max n (ph_dt ph))) s);
     bc_sel_total := sumZ (map (fun n => Z.of_nat (length (filter (selects limit ph) (all_vols n)))) s);
     bc_max_total := sumZ (map (fun n => cap_max n (ph_dt ph)) s);
     bc_key := if ph_ro ph then v_id else v_size |}.

Definition nsel (st : bstate) (n : loc * Z) : Z := Z.of_nat (length (b_sel st (l_node (fst n)))).

(* float64 ratios len/capacity compared exactly (capacities > 0; exact for counts < 2^26) *)
Definition ratio_lt (st : bstate) (n m : loc * Z) : bool := (nsel st n * snd m <? nsel st m * snd n)%Z.
(* fullNode.localVolumeRatio > idealVolumeRatio *)
Definition above_ideal (c : bctx) (st : bstate) (n : loc * Z) : bool :=
  (bc_sel_total c * snd n <? nsel st n * bc_max_total c)%Z.
(* emptyNode.localVolumeNextRatio <= idealVolumeRatio *)
Definition next_fits (c : bctx) (st : bstate) (n : loc * Z) : bool :=
  ((nsel st n + 1) * bc_max_total c <=? bc_sel_total c * snd n)%Z.

(* maybeMoveOneVolume's two tests (shared with evacuate): [sel_tgt] = emptyNode.selectedVolumes *)
(* (repaired: isGoodMove is consulted for every replication setting, 000 included) *)
Definition movable (w : world) (sel_tgt : list vol) (v : vol) (src tgt : loc) : bool :=
  is_good_move (rp_of_byte (v_rp v)) (locs (w_reps w (v_id v))) src tgt &&
  negb (existsb (fun x => (v_id x =? v_id v)%N) sel_tgt).

Definition bmovable (st : bstate) (v : vol) (src tgt : loc) : bool :=
  movable (b_w st) (b_sel st (l_node tgt)) v src tgt.

Definition find_cap (c : bctx) (id : N) : option (loc * Z) :=
  find (fun n => (l_node (fst n) =? id)%N) (bc_nodes c).

(* no candidate of [f] can go to [n] *)
Definition none_movable (st : bstate) (f n : loc * Z) : bool :=
  forallb (fun x => negb (bmovable st x (fst f) (fst n))) (b_sel st (l_node (fst f))).

(* Move vid from=>to is what one iteration of the `for hasMoved` loop can do, for SOME
   order sort.Slice may leave ties in:
   - [f] is last after sorting by ratio: no node has a larger ratio;
   - the scan over the other nodes in ascending ratio reaches [t]: every node with a
     strictly smaller ratio passed the ratio test and took no candidate;
   - [t] passes the ratio test and [v] is the first candidate (by key) it takes. *)
Definition balance_step_ok (c : bctx) (st : bstate) (vid dt from to : N) : bool :=
  match find_cap c from, find_cap c to,
        find (fun x => (v_id x =? vid)%N) (b_sel st from) with
  | Some f, Some t, Some v =>
      negb (from =? to)%N && (v_dt v =? dt)%N &&
      forallb (fun n => negb (ratio_lt st f n)) (bc_nodes c) &&
      above_ideal c st f && next_fits c st t &&
      forallb (fun n => (l_node (fst n) =? from)%N || negb (ratio_lt st n t) ||
                        (next_fits c st n && none_movable st f n)) (bc_nodes c) &&
      bmovable st v (fst f) (fst t) &&
      forallb (fun x => negb (bc_key c x <? bc_key c v)%N || negb (bmovable st x (fst f) (fst t)))
              (b_sel st from)
  | _, _, _ => false
  end.

(* the loop can end here: for some max-ratio node [f], either it is not above the ideal
   or every node that is necessarily scanned before the first failing ratio test takes nothing *)
Definition balance_terminal (c : bctx) (st : bstate) : bool :=
  existsb (fun f =>
    forallb (fun n => negb (ratio_lt st f n)) (bc_nodes c) &&
    (negb (above_ideal c st f) ||
     forallb (fun n =>
        (l_node (fst n) =? l_node (fst f))%N ||
        (* some node failing the ratio test may be sorted before n *)
        existsb (fun b => negb (l_node (fst b) =? l_node (fst f))%N && negb (next_fits c st b) &&
                          negb (ratio_lt st n b)) (bc_nodes c) ||
        none_movable st f n) (bc_nodes c)))
    (bc_nodes c).

Fixpoint remove_vid (vid : N) (l : list vol) : list vol :=
  match l with [] => [] | x :: l' => if (v_id x =? vid)%N then l' else x :: remove_vid vid l' end.

(* adjustAfterMove *)
Definition balance_advance (s : snapshot) (st : bstate) (vid dt from to : N) : bstate :=
  match find (fun x => (v_id x =? vid)%N) (b_sel st from) with
  | Some v =>
      {| b_sel := upd1 (upd1 (b_sel st) from (remove_vid vid (b_sel st from))) to (v :: b_sel st to);
         b_w := apply_step s (b_w st) (Move vid dt from to) |}
  | None => st
  end.

(* one phase: consume the moves whose volume is selected on their source *)
Fixpoint balance_phase (s : snapshot) (c : bctx) (st : bstate) (tr : list step)
  : option (bstate * list step) :=
  let finish := match bc_nodes c with
                | [] => None (* nodesWithCapacity[len-1] panics *)
                | _ => if balance_terminal c st then Some (st, tr) else None end in
  match tr with
  | Move vid dt from to :: tr' =>
      if existsb (fun x => (v_id x =? vid)%N) (b_sel st from) then
        if balance_step_ok c st vid dt from to
        then balance_phase s c (balance_advance s st vid dt from to) tr' else None
      else finish
  | _ => finish
  end.

Fixpoint balance_phases (limit : N) (s : snapshot) (phs : list phase) (w : world) (tr : list step)
  : option world :=
  match phs with
  | [] => match tr with [] => Some w | _ => None end
  | ph :: phs' =>
      match balance_phase s (mk_bctx limit s ph) {| b_sel := init_sel limit s ph; b_w := w |} tr with
      | Some (st, tr') => balance_phases limit s phs' (b_w st) tr'
      | None => None
      end
  end.

Definition balance_accepts (limit : N) (s : snapshot) (colls : list (option N)) (dts : list N)
  (tr : list step) : option world :=
  balance_phases limit s (phases_of colls dts) (init_world s) tr.

(* ====================================================================== *)
(* volumeServer.evacuate (evacuateNormalVolumes, dry-run or not: same plan) *)
(* ====================================================================== *)
Inductive eevent :=
| EMove (vid dt to : N)    (* moving ... this => to *)
| ESkip (vid : N)          (* skipping non moveable volume *)
| EFail (vid : N).         (* error "failed to move volume", the run stops *)

(* float64 len(selected)/free with free possibly 0 (+Inf, or NaN for 0/0) or negative *)
Inductive fl := FNaN | FInf | FFin (num den : Z).
Definition mkfl (a b : Z) : fl :=
  if (b =? 0)%Z then (if (a =? 0)%Z then FNaN else FInf)
  else if (0 <? b)%Z then FFin a b else FFin (- a) (- b).
Definition fl_gt (x y : fl) : bool :=
  match x, y with
  | FNaN, _ | _, FNaN => false
  | FInf, FInf => false
  | FInf, _ => true
  | _, FInf => false
  | FFin a b, FFin c d => (c * b <? a * d)%Z
  end.
Definition is_nan (x : fl) : bool := match x with FNaN => true | _ => false end.

(* moveAwayOneNormalVolume: other nodes re-select "same disk type" from their
   (never updated) info, are sorted by len(selected)/free DESCENDING, the first one that
   maybeMoveOneVolume accepts gets the volume.  No free-slot test. *)
Definition evac_ratio (n : node) (dt : N) : fl :=
  mkfl (Z.of_nat (length (vols_of_dt n dt))) (cap_free n dt).
Definition evac_movable (w : world) (this : loc) (v : vol) (n : node) : bool :=
  movable w (vols_of_dt n (v_dt v)) v this (n_loc n).
Definition others_of (s : snapshot) (this : N) : list node :=
  filter (fun n => negb (n_id n =? this)%N) s.

Definition evac_target_ok (s : snapshot) (w : world) (this : loc) (v : vol) (to : N) : bool :=
  let others := others_of s (l_node this) in
  match find (fun n => (n_id n =? to)%N) others with
  | None => false
  | Some t =>
      evac_movable w this v t &&
      (* a NaN key breaks the order relation: any order may result *)
      (existsb (fun n => is_nan (evac_ratio n (v_dt v))) others ||
       forallb (fun n => negb (fl_gt (evac_ratio n (v_dt v)) (evac_ratio t (v_dt v))) ||
                         negb (evac_movable w this v n)) others)
  end.
Definition evac_no_target (s : snapshot) (w : world) (this : loc) (v : vol) : bool :=
  forallb (fun n => negb (evac_movable w this v n)) (others_of s (l_node this)).

Fixpoint evac_run (s : snapshot) (this : loc) (skip : bool) (w : world) (vs : list vol) (evs : list eevent)
  : bool :=
  match vs, evs with
  | [], [] => true
  | v :: vs', EMove vid dt to :: evs' =>
      (vid =? v_id v)%N && (dt =? v_dt v)%N && evac_target_ok s w this v to &&
      evac_run s this skip (apply_step s w (Move vid dt (l_node this) to)) vs' evs'
  | v :: vs', ESkip vid :: evs' =>
      skip && (vid =? v_id v)%N && evac_no_target s w this v && evac_run s this skip w vs' evs'
  | v :: _, [EFail vid] => negb skip && (vid =? v_id v)%N && evac_no_target s w this v
  | _, _ => false
  end.

(* thisNode.info.DiskInfos is a map: the disks are visited in any order *)
Fixpoint insert_all {A} (x : A) (l : list A) : list (list A) :=
  match l with
  | [] => [[x]]
  | y :: l' => (x :: l) :: map (cons y) (insert_all x l')
  end.
Fixpoint perms {A} (l : list A) : list (list A) :=
  match l with [] => [[]] | x :: l' => flat_map (insert_all x) (perms l') end.

Definition evac_steps (this : N) (evs : list eevent) : list step :=
  flat_map (fun e => match e with EMove vid dt to => [Move vid dt this to] | _ => [] end) evs.

Definition evac_accepts (s : snapshot) (this : N) (skip : bool) (evs : list eevent) : bool :=
  match find_node s this with
  | None => false (* "not found in this cluster" *)
  | Some n => existsb (fun ds => evac_run s (n_loc n) skip (init_world s) (flat_map d_vols ds) evs)
                      (perms (n_disks n))
  end.

(* ====================================================================== *)
(* volume.fix.replication                                                  *)
(* ====================================================================== *)
Inductive fevent :=
| FOver (vid : N)            (* "volume %d replication %s, but over replicated" *)
| FDelete (vid at_ : N)      (* "deleting volume %d from %s" *)
| FCopy (vid from to : N)    (* "replicating volume %d %s from %s to dataNode %s" *)
| FNoPlace (vid : N).        (* "failed to place volume %d replica" *)

Definition head_rp (rs : list replica) : rp :=
  match rs with r :: _ => rp_of_byte (v_rp (r_info r)) | [] => rp_of_byte 0 end.
Definition under_vids (s : snapshot) : list N :=
  filter (fun vid => length (reps_of s vid) <? copy_count (head_rp (reps_of s vid))) (all_vids s).
Definition over_vids (s : snapshot) : list N :=
  filter (fun vid => copy_count (head_rp (reps_of s vid)) <? length (reps_of s vid)) (all_vids s).

(* pickOneReplicaToDelete's order: CompactRevision, ModifiedAtSecond, Size *)
Definition older (a b : vol) : bool :=
  if negb (v_crev a =? v_crev b)%N then (v_crev a <? v_crev b)%N
  else if negb (v_mtime a =? v_mtime b)%N then (v_mtime a <? v_mtime b)%N
  else if negb (v_size a =? v_size b)%N then (v_size a <? v_size b)%N else false.
(* replicas[0] after sort.Slice: an element no other is strictly older than *)
Definition delete_ok (rs : list replica) (at_ : N) : bool :=
  existsb (fun r => (l_node (r_loc r) =? at_)%N &&
                    forallb (fun r' => negb (older (r_info r') (r_info r))) rs) rs.

(* pickOneReplicaToCopyFrom: first replica with the largest ModifiedAtSecond *)
Fixpoint pick_from (best : replica) (rs : list replica) : replica :=
  match rs with
  | [] => best
  | r :: rs' => pick_from (if (v_mtime (r_info best) <? v_mtime (r_info r))%N then r else best) rs'
  end.

(* fixOneUnderReplicatedVolume: allLocations sorted by free slots descending (sort.Slice),
   the first with fn(dst) > 0 && satisfyReplicaPlacement gets the copy.  [replicas] are those
   of the snapshot (each volume is handled once); the free counts are MaxVolumeCount -
   VolumeCount with VolumeCount++ for every copy planned so far in this run ([planned],
   repaired: formerly FreeVolumeCount--, a field nobody reads). *)
Definition fix_free (planned : N -> N -> Z) (n : node) (dt : N) : Z :=
  (cap_free n dt - planned (n_id n) dt)%Z.

Definition fix_dst_ok (planned : N -> N -> Z) (rs : list replica) (src : replica) (n : node) : bool :=
  (0 <? fix_free planned n (v_dt (r_info src)))%Z &&
  satisfy (rp_of_byte (v_rp (r_info src))) (locs rs) (n_loc n).

Definition fix_src (s : snapshot) (vid : N) : option replica :=
  match reps_of s vid with [] => None | r0 :: rs' => Some (pick_from r0 (r0 :: rs')) end.

Definition fix_copy_ok (s : snapshot) (planned : N -> N -> Z) (vid from to : N) : bool :=
  match fix_src s vid with
  | None => false
  | Some src =>
      let rs := reps_of s vid in
      let dt := v_dt (r_info src) in
      (l_node (r_loc src) =? from)%N &&
      match find_node s to with
      | None => false
      | Some t =>
          fix_dst_ok planned rs src t &&
          forallb (fun n => negb (fix_free planned t dt <? fix_free planned n dt)%Z ||
                            negb (fix_dst_ok planned rs src n)) s
      end
  end.
Definition fix_noplace_ok (s : snapshot) (planned : N -> N -> Z) (vid : N) : bool :=
  match fix_src s vid with
  | None => false
  | Some src => forallb (fun n => negb (fix_dst_ok planned (reps_of s vid) src n)) s
  end.

Fixpoint remove_N (x : N) (l : list N) : list N :=
  match l with [] => [] | y :: l' => if (y =? x)%N then l' else y :: remove_N x l' end.
Definition mem_N (x : N) (l : list N) : bool := existsb (N.eqb x) l.

Definition fev_vid (e : fevent) : N :=
  match e with FOver v | FDelete v _ | FCopy v _ _ | FNoPlace v => v end.

(* fixUnderReplicatedVolumes: for each under-replicated vid (map order)
   fixOneUnderReplicatedVolume, retried only when it returns an error (repaired: `break`
   after success, formerly `continue`).  Errors come from the copy RPC only, so without
   RPC failures every volume is handled exactly once whatever -retry says. *)
Fixpoint fix_under_run (s : snapshot) (planned : N -> N -> Z) (pending : list N)
  (evs : list fevent) : bool :=
  match evs with
  | [] => match pending with [] => true | _ => false end
  | FCopy vid from to :: evs' =>
      mem_N vid pending && fix_copy_ok s planned vid from to &&
      fix_under_run s
        (match fix_src s vid with
         | Some src => upd2 planned to (v_dt (r_info src)) 1 | None => planned end)
        (remove_N vid pending) evs'
  | FNoPlace vid :: evs' =>
      mem_N vid pending && fix_noplace_ok s planned vid &&
      fix_under_run s planned (remove_N vid pending) evs'
  | _ => false
  end.

Fixpoint take_overs (evs : list fevent) : list N * list fevent :=
  match evs with
  | FOver v :: evs' => let '(a, b) := take_overs evs' in (v :: a, b)
  | _ => ([], evs)
  end.
Fixpoint is_perm_N (a b : list N) : bool :=
  match a with
  | [] => match b with [] => true | _ => false end
  | x :: a' => mem_N x b && is_perm_N a' (remove_N x b)
  end.

(* Do (after collectTopologyInfo) with takeAction = false *)
Definition fix_accepts (s : snapshot) (retry : nat) (evs : list fevent) : bool :=
  match s with
  | [] => match evs with [] => true | _ => false end (* "no data nodes at all" *)
  | _ =>
    let '(overs, rest) := take_overs evs in
    is_perm_N overs (over_vids s) &&
    match over_vids s with
    | _ :: _ =>
        (* fixOverReplicatedVolumes, dry-run: the first over-replicated volume only, in the
           order of overReplicatedVolumeIds = the order the "over replicated" lines were printed *)
        match overs, rest with
        | v0 :: _, [FDelete vid at_] =>
            (vid =? v0)%N && mem_N vid (over_vids s) && delete_ok (reps_of s vid) at_
        | _, _ => false
        end
    | [] => fix_under_run s (fun _ _ => 0%Z) (under_vids s) rest
    end
  end.

(* ====================================================================== *)
(* decidable triggers of the known findings (hypotheses of the partial theorems) *)
(* ====================================================================== *)
(* k=0  balance tests (selected+1)/max <= ideal only: slots used by volumes outside the
   selection are not counted.  Per phase, on the state the phase starts in:
   [unsel n] = volumes of the disk type on n that are not selected. *)
Definition phase_unsel (c : bctx) (dt : N) (st : bstate) (n : loc * Z) : Z :=
  (w_occ (b_w st) (l_node (fst n)) dt - nsel st n)%Z.
Definition trig_balance_cap_phase (c : bctx) (dt : N) (st : bstate) : bool :=
  existsb (fun n => ((snd n - phase_unsel c dt st n) * bc_max_total c <? bc_sel_total c * snd n)%Z)
          (bc_nodes c).
(* the same along a whole accepted run *)
Fixpoint balance_phase_end (s : snapshot) (c : bctx) (st : bstate) (tr : list step) : bstate * list step :=
  match tr with
  | Move vid dt from to :: tr' =>
      if existsb (fun x => (v_id x =? vid)%N) (b_sel st from)
      then balance_phase_end s c (balance_advance s st vid dt from to) tr' else (st, tr)
  | _ => (st, tr)
  end.
Fixpoint trig_balance_cap (limit : N) (s : snapshot) (phs : list phase) (w : world) (tr : list step) : bool :=
  match phs with
  | [] => false
  | ph :: phs' =>
      let c := mk_bctx limit s ph in
      let st0 := {| b_sel := init_sel limit s ph; b_w := w |} in
      trig_balance_cap_phase c (ph_dt ph) st0 ||
      (let '(st, tr') := balance_phase_end s c st0 tr in trig_balance_cap limit s phs' (b_w st) tr')
  end.

(* k=1  evacuate never tests free slots: some other server cannot take all volumes of a
   disk type of the evacuated server *)
Definition trig_evac_cap (s : snapshot) (this : N) : bool :=
  match find_node s this with
  | None => false
  | Some t =>
      existsb (fun n => existsb (fun v =>
          (cap_max n (v_dt v) <? w_occ (init_world s) (n_id n) (v_dt v)
                                 + Z.of_nat (length (vols_of_dt t (v_dt v))))%Z) (all_vols t))
        (others_of s this)
  end.

(* (repaired, no trigger any more: repair counts the copies it planned; -retry does not
   repeat a successful repair; isGoodMove is consulted for replication 000 too) *)

(* the master's VolumeCount of a disk is at least the number of its volumes of that type
   (hypothesis of the repair capacity theorem; decidable) *)
Definition counts_okb (s : snapshot) : bool :=
  forallb (fun n => forallb (fun d =>
      match disk_of n (d_type d) with
      | Some d' => (Z.of_nat (length (vols_of_dt n (d_type d))) <=? d_count d')%Z
      | None => true end) (n_disks n)) s.

(* k=2  isGoodMove counts data centers and racks globally: with x>=1 and y>=2 a move can
   take a rack out of the main data center *)
Definition rp_trig (p : rp) : bool := (1 <=? rp_dc p) && (2 <=? rp_rack p).
Definition trig_rp_xy (s : snapshot) : bool :=
  existsb (fun n => existsb (fun v => rp_trig (rp_of_byte (v_rp v))) (all_vols n)) s.

Definition fix_steps (evs : list fevent) : list step :=
  flat_map (fun e => match e with
                     | FCopy vid from to => [Copy vid from to]
                     | FDelete vid at_ => [Delete vid at_]
                     | _ => [] end) evs.

(* ====================================================================== *)
(* PER-STEP triggers: a failing clause of ONE step is excused only by the trigger of *)
(* THAT step (moved volume / target server), never by another volume of the snapshot *)
(* ====================================================================== *)
(* [excused clause trig]: every step either satisfies the clause or lies in the trigger set *)
Fixpoint excused (clause : verdict4 -> bool) (trig : world -> step -> bool)
  (s : snapshot) (w : world) (tr : list step) : bool :=
  match tr with
  | [] => true
  | st :: tr' => (clause (prop_step s w st) || trig w st) && excused clause trig s (apply_step s w st) tr'
  end.

Definition all_steps (chk : world -> step -> bool) : snapshot -> world -> list step -> bool :=
  excused (fun _ => false) chk.

(* k=2 per step: the replication setting of the MOVED replica has x>=1 and y>=2 *)
Definition step_rp_trig (w : world) (st : step) : bool :=
  match st with
  | Move vid _ from _ =>
      match replica_at (w_reps w vid) from with
      | Some r => rp_trig (rp_of_byte (v_rp (r_info r)))
      | None => false
      end
  | _ => false
  end.

(* k=1 per step: the TARGET of this move cannot take all volumes of the moved volume's
   disk type that the evacuated server holds *)
Definition evac_cap_trig (s : snapshot) (this to dt : N) : bool :=
  match find_node s this with
  | None => false
  | Some t => (max_of s to dt <? w_occ (init_world s) to dt + Z.of_nat (length (vols_of_dt t dt)))%Z
  end.
Definition step_evac_trig (s : snapshot) (this : N) (w : world) (st : step) : bool :=
  match st with Move _ dt _ to => evac_cap_trig s this to dt | _ => false end.

(* k=0 per step: the TARGET of this move holds so many unselected volumes (at the start
   of the phase) that its ideal share does not fit *)
Definition node_cap_trig (c : bctx) (dt : N) (st0 : bstate) (n : loc * Z) : bool :=
  ((snd n - phase_unsel c dt st0 n) * bc_max_total c <? bc_sel_total c * snd n)%Z.
Fixpoint balance_phase_cap_excused (s : snapshot) (c : bctx) (dt : N) (st0 st : bstate) (tr : list step)
  : bool * (bstate * list step) :=
  match tr with
  | Move vid dt' from to :: tr' =>
      if existsb (fun x => (v_id x =? vid)%N) (b_sel st from) then
        let ok := ok_cap (prop_step s (b_w st) (Move vid dt' from to)) ||
                  match find_cap c to with Some t => node_cap_trig c dt st0 t | None => false end in
        let '(b, r) := balance_phase_cap_excused s c dt st0 (balance_advance s st vid dt' from to) tr' in
        (ok && b, r)
      else (true, (st, tr))
  | _ => (true, (st, tr))
  end.
Fixpoint balance_cap_excused (limit : N) (s : snapshot) (phs : list phase) (w : world) (tr : list step) : bool :=
  match phs with
  | [] => true
  | ph :: phs' =>
      let c := mk_bctx limit s ph in
      let st0 := {| b_sel := init_sel limit s ph; b_w := w |} in
      let '(b, (st, tr')) := balance_phase_cap_excused s c (ph_dt ph) st0 st0 tr in
      b && balance_cap_excused limit s phs' (b_w st) tr'
  end.

(* k=3  pickOneReplicaToDelete ranks by age only: the purged copy may be the one the layout
   needs.  Per step: copy_count of the volume's copies form a valid layout, and some OLDEST
   copy (a possible replicas[0]) is needed by every such subset *)
Definition delete_pres_trig (rs : list replica) : bool :=
  let p := head_rp rs in
  has_valid_subset p (locs rs) &&
  existsb (fun r => forallb (fun r' => negb (older (r_info r') (r_info r))) rs &&
                    negb (has_valid_subset p (locs (remove_at (l_node (r_loc r)) rs)))) rs.
Definition step_delete_trig (w : world) (st : step) : bool :=
  match st with Delete vid _ => delete_pres_trig (w_reps w vid) | _ => false end.

(* a purge never goes below the copy count (the part of the Delete clause that holds) *)
Definition purge_count_ok (w : world) (st : step) : bool :=
  match st with
  | Delete vid at_ => copy_count (head_rp (w_reps w vid)) <=? length (remove_at at_ (w_reps w vid))
  | _ => true
  end.

(* VolumeCount of every disk after a dry-run repair: the planned copies are counted *)
Fixpoint fix_planned (s : snapshot) (planned : N -> N -> Z) (evs : list fevent) : N -> N -> Z :=
  match evs with
  | [] => planned
  | FCopy vid _ to :: evs' =>
      fix_planned s (match fix_src s vid with
                     | Some src => upd2 planned to (v_dt (r_info src)) 1 | None => planned end) evs'
  | _ :: evs' => fix_planned s planned evs'
  end.
Definition fix_final_count (s : snapshot) (evs : list fevent) (id dt : N) : option Z :=
  match find_node s id with
  | Some n => match disk_of n dt with
              | Some d => Some (d_count d + fix_planned s (fun _ _ => 0%Z) evs id dt)%Z
              | None => None end
  | None => None
  end.

(* ====================================================================== *)
(* volumeServer.evacuate, EC half (evacuateEcVolumes / moveAwayOneEcVolume, dry-run or  *)
(* not: same plan).  EC shards are looked at on the hard-drive disk "" only (where     *)
(* addEcVolumeShards / deleteEcVolumeShards keep their books); snapshots list an EC     *)
(* volume at most once per server.                                                      *)
(* ====================================================================== *)
(* e_free = EcNode.freeEcSlot as collectEcVolumeServersByDc computes it;
   e_vols = EcShardInfos: volume id, shard ids in ascending order (ShardBits.ShardIds) *)
Record ecnode := { e_id : N; e_free : Z; e_vols : list (N * list N) }.
Inductive ecevent :=
| EcMove (vid shard to : N)   (* "moving ec volume <vid>.<shard> this => to" *)
| EcStuck (vid : N)           (* "failed to move away ec volume <vid>" printed (-skipNonMoveable) *)
| EcFail (vid : N).           (* the same as the returned error: the run stops *)

Definition ec_entry (n : ecnode) (vid : N) : option (N * list N) :=
  find (fun p => (fst p =? vid)%N) (e_vols n).
(* localShardIdCount *)
Definition ec_count (n : ecnode) (vid : N) : nat :=
  match ec_entry n vid with Some p => length (snd p) | None => 0 end.
Definition ec_has (n : ecnode) (vid sh : N) : bool :=
  match ec_entry n vid with Some p => existsb (N.eqb sh) (snd p) | None => false end.
Fixpoint ec_add_to (vs : list (N * list N)) (vid sh : N) : list (N * list N) :=
  match vs with
  | [] => [(vid, [sh])]
  | p :: vs' => if (fst p =? vid)%N
                then (vid, if existsb (N.eqb sh) (snd p) then snd p else snd p ++ [sh]) :: vs'
                else p :: ec_add_to vs' vid sh
  end.
(* addEcVolumeShards with one shard id: freeEcSlot decreases by the number of NEW bits *)
Definition ec_add (n : ecnode) (vid sh : N) : ecnode :=
  {| e_id := e_id n;
     e_free := if ec_has n vid sh then e_free n else (e_free n - 1)%Z;
     e_vols := ec_add_to (e_vols n) vid sh |}.
Definition ec_put (others : list ecnode) (to vid sh : N) : list ecnode :=
  map (fun n => if (e_id n =? to)%N then ec_add n vid sh else n) others.
Definition ec_find (others : list ecnode) (id : N) : option ecnode :=
  find (fun n => (e_id n =? id)%N) others.

(* one shard: otherNodes sorted by localShardIdCount ascending (sort.Slice), the first one gets
   the shard.  No free-slot test, no look at racks. *)
Definition ec_target_ok (others : list ecnode) (vid to : N) : bool :=
  match ec_find others to with
  | Some t => forallb (fun n => ec_count t vid <=? ec_count n vid) others
  | None => false
  end.

Fixpoint ec_shards_run (others : list ecnode) (vid : N) (shs : list N) (evs : list ecevent)
  : option (list ecnode * list ecevent) :=
  match shs with
  | [] => Some (others, evs)
  | sh :: shs' =>
      match evs with
      | EcMove v s to :: evs' =>
          if (v =? vid)%N && (s =? sh)%N && ec_target_ok others vid to
          then ec_shards_run (ec_put others to vid sh) vid shs' evs' else None
      | _ => None
      end
  end.

Fixpoint ec_evac_run (others : list ecnode) (skip : bool) (vols : list (N * list N)) (evs : list ecevent)
  : bool :=
  match vols with
  | [] => match evs with [] => true | _ => false end
  | (vid, shs) :: vols' =>
      match others, shs with
      | _ :: _, _ :: _ =>
          match ec_shards_run others vid shs evs with
          | Some (o', evs') => ec_evac_run o' skip vols' evs'
          | None => false
          end
      | _, _ =>
          (* no other server, or an entry without shards: hasMoved stays false *)
          match evs with
          | EcStuck v :: evs' => skip && (v =? vid)%N && ec_evac_run others skip vols' evs'
          | [EcFail v] => negb skip && (v =? vid)%N
          | _ => false
          end
      end
  end.

Definition ec_evac_accepts (es : list ecnode) (this : N) (skip : bool) (evs : list ecevent) : bool :=
  match ec_find es this with
  | None => false (* "not found in this cluster" *)
  | Some t => ec_evac_run (filter (fun n => negb (e_id n =? this)%N) es) skip (e_vols t) evs
  end.

(* the capacity clause for EC shards, per step, on the (bookkept = real) free EC slots *)
Fixpoint ec_cap_steps (trig : N -> bool) (others : list ecnode) (evs : list ecevent) : bool :=
  match evs with
  | [] => true
  | EcMove vid sh to :: evs' =>
      (match ec_find others to with Some t => (0 <? e_free t)%Z | None => false end || trig to) &&
      ec_cap_steps trig (ec_put others to vid sh) evs'
  | _ :: evs' => ec_cap_steps trig others evs'
  end.
Definition ec_ok_cap := ec_cap_steps (fun _ => false).
(* k=4  moveAwayOneEcVolume never tests freeEcSlot.  Per step: THIS target cannot take all shards
   the evacuated server holds *)
Definition ec_total (vols : list (N * list N)) : Z :=
  fold_right (fun p a => (Z.of_nat (length (snd p)) + a)%Z) 0%Z vols.
Definition ec_cap_trig (es : list ecnode) (this to : N) : bool :=
  match ec_find es this, ec_find es to with
  | Some t, Some n => (e_free n <? ec_total (e_vols t))%Z
  | _, _ => false
  end.
Definition ec_others (es : list ecnode) (this : N) : list ecnode :=
  filter (fun n => negb (e_id n =? this)%N) es.
