(* Model of volume compaction (C04):
     weed/storage/volume_vacuum.go   Compact -> copyDataAndGenerateIndexFile (VolumeFileScanner4Vacuum.VisitNeedle),
                                     Compact2 -> copyDataBasedOnIndexFile, CommitCompact, makeupDiff
     weed/storage/needle_map/memdb.go   MemDb Set/Delete/AscendingVisit/SaveToIdx/LoadFromIdx
     weed/storage/volume_loading.go, volume_checking.go   load -> CheckAndFixVolumeDataIntegrity
     weed/storage/needle_map_memory.go  doLoading, NeedleMap.Put/Delete (what is appended to the .idx)
     weed/storage/volume_write.go    writeNeedle2 (volume TTL stamped on the needle), isFileUnchanged
   It extends the record-level volume model of C01 (model/Volume.v, imported read-only):
   the .dat file is the list of appended records, the needle map a finite map; added here
   is the .idx file (the log NeedleMap.Put/Delete append), because both compaction
   algorithms and makeupDiff work from it.
   Time is explicit: every event carries the clock reading (ns) that becomes AppendAtNs,
   [now_s] is the second-granular clock Compact/Compact2 read, the volume TTL is a parameter.
   Executable definitions only; proofs are in proof/CompactionProofs.v.
   Everything mirrors the Go code as it is. *)
From Coq Require Import List NArith ZArith Bool.
From SW Require Import model.Volume.
Import ListNotations.
Local Open Scope N_scope.

(* ---------- the .idx file ---------- *)
(* one 16/17-byte entry; [ie_off] is the actual byte offset (stored value * NeedlePaddingSize) *)
Record ientry := { ie_key : N; ie_off : N; ie_size : Z }.
Definition idxlog := list ientry.          (* newest entry first *)

Fixpoint idx_get (l : idxlog) (k : N) : option ientry :=
  match l with
  | [] => None
  | e :: l' => if ie_key e =? k then Some e else idx_get l' k
  end.

Record cvol := { cv : vol; cidx : idxlog }.
Definition cinit : cvol := {| cv := init; cidx := [] |}.

(* ---------- TTL helpers ---------- *)
(* n.Ttl == needle.EMPTY_TTL (ReadTTL("") and LoadTTLFromBytes(0,0) return that pointer) *)
Definition ttl_is_empty (t : N * N) : bool := (fst t =? 0) && (snd t =? 0).
(* TTL.String() == "" *)
Definition ttl_str_empty (t : N * N) : bool := (fst t =? 0) || (snd t =? 0) || (6 <? snd t).

(* writeNeedle2: a needle without TTL written to a TTL volume gets the volume's TTL *)
Definition adjust (vt : N * N) (n : needle) : needle :=
  if ttl_is_empty (n_ttl n) && negb (ttl_is_empty vt) then
    {| n_id := n_id n; n_cookie := n_cookie n; n_data := n_data n;
       n_flags := N.lor (n_flags n) 16 (* SetHasTtl *);
       n_name := n_name n; n_mime := n_mime n; n_pairs := n_pairs n;
       n_lastmod := n_lastmod n; n_ttl := vt |}
  else n.

(* ---------- write / delete, with the .idx log ---------- *)
Definition w_fail (e : err) : wres := {| w_err := e; w_unchanged := false; w_size := 0 |}.

(* doWriteRequest; isFileUnchanged answers false at once when the volume has a TTL *)
Definition c_do_write (vt : N * N) (s : cvol) (n : needle) (at_ns : N) : cvol * wres :=
  let st := cv s in
  if ttl_str_empty vt && is_file_unchanged st n
  then (s, {| w_err := ENone; w_unchanged := true; w_size := 0 |})
  else
    let g := nm_get (nm st) (n_id n) in
    let cookie_check :=
      match g with
      | Some nv =>
          match find_rec (recs st) (nv_off nv) with     (* ReadNeedleHeader at the mapped offset *)
          | Some r => if n_cookie (r_n r) =? n_cookie n then ENone else ECookie
          | None => EOther
          end
      | None => ENone
      end in
    match cookie_check with
    | ENone =>
        let st1 := fst (fst (append st n at_ns)) in
        let off := snd (fst (append st n at_ns)) in
        let size := snd (append st n at_ns) in
        let newer := match g with Some nv => nv_off nv <? off | None => true end in
        if newer then
          (* nm.Put: CompactMap.Set + one .idx entry *)
          ({| cv := with_nm st1 (nm_set (nm st1) (n_id n) {| nv_off := off; nv_size := Z.of_N size |});
              cidx := {| ie_key := n_id n; ie_off := off; ie_size := Z.of_N size |} :: cidx s |},
           {| w_err := ENone; w_unchanged := false; w_size := size |})
        else ({| cv := st1; cidx := cidx s |}, {| w_err := ENone; w_unchanged := false; w_size := size |})
    | e => (s, w_fail e)
    end.

(* Store.WriteVolumeNeedle -> writeNeedle2 -> syncWrite -> doWriteRequest *)
Definition c_write (vt : N * N) (s : cvol) (n : needle) (at_ns : N) : cvol * wres :=
  if is_read_only (cv s) then (s, w_fail EReadOnly)
  else c_do_write vt s (adjust vt n) at_ns.

(* Store.DeleteVolumeNeedle -> doDeleteRequest: tombstone record + nm.Delete, which appends
   (key, offset of the tombstone record, TombstoneFileSize) to the .idx *)
Definition c_delete (s : cvol) (id cookie : N) (at_ns : N) : cvol * err * Z :=
  let st := cv s in
  if no_write_or_delete st then (s, EReadOnly, 0%Z)
  else
    match nm_get (nm st) id with
    | Some nv =>
        if size_valid (nv_size nv) then
          let st1 := fst (fst (append st (tombstone id cookie) at_ns)) in
          ({| cv := with_nm st1 (nm_delete (nm st1) id);
              cidx := {| ie_key := id; ie_off := dat_end st; ie_size := (-1)%Z |} :: cidx s |},
           ENone, nv_size nv)
        else (s, ENone, 0%Z)
    | None => (s, ENone, 0%Z)
    end.

Definition round8 (x : N) : N := x + (8 - x mod 8) mod 8.

(* The .dat file grows to [off] bytes without any needle being visible there (the harness
   extends the file with a hole; stands for a volume that already holds that much data). *)
Definition c_pad (s : cvol) (off : N) : cvol :=
  let st := cv s in
  if dat_end st <? round8 off then
    {| cv := {| recs := recs st; nm := nm st; dat_end := round8 off;
                no_write_or_delete := no_write_or_delete st; no_write_can_delete := no_write_can_delete st |};
       cidx := cidx s |}
  else s.

Inductive cop :=
| CWrite (n : needle)          (* Store.WriteVolumeNeedle *)
| CDelete (id cookie : N)      (* Store.DeleteVolumeNeedle *)
| CPad (off : N).
Definition cevent := (N * cop)%type.      (* clock reading (ns) taken during the operation *)

Inductive cres :=
| RWrite (e : err) (unchanged : bool) (size : N)
| RDelete (e : err) (size : Z)
| RPad.

Definition c_step (vt : N * N) (s : cvol) (ev : cevent) : cvol * cres :=
  match snd ev with
  | CWrite n => let r := c_write vt s n (fst ev) in
                (fst r, RWrite (w_err (snd r)) (w_unchanged (snd r)) (w_size (snd r)))
  | CDelete id c => let r := c_delete s id c (fst ev) in (fst (fst r), RDelete (snd (fst r)) (snd r))
  | CPad off => (c_pad s off, RPad)
  end.

Definition c_exec (vt : N * N) (s : cvol) (h : list cevent) : cvol :=
  fold_left (fun s ev => fst (c_step vt s ev)) h s.

Fixpoint c_outs (vt : N * N) (s : cvol) (h : list cevent) : list cres :=
  match h with
  | [] => []
  | ev :: h' => snd (c_step vt s ev) :: c_outs vt (fst (c_step vt s ev)) h'
  end.

(* ---------- MemDb: an ordered map key -> (offset, size) ---------- *)
Definition memdb := list ientry.            (* ascending by key, one entry per key *)

Fixpoint db_set (db : memdb) (e : ientry) : memdb :=
  match db with
  | [] => [e]
  | x :: db' =>
      if ie_key e <? ie_key x then e :: db
      else if ie_key e =? ie_key x then e :: db'
      else x :: db_set db' e
  end.

Definition db_del (db : memdb) (k : N) : memdb := filter (fun x => negb (ie_key x =? k)) db.

(* offset.IsZero() || size.IsDeleted() *)
Definition entry_dead (e : ientry) : bool := (ie_off e =? 0) || size_deleted (ie_size e).

(* MemDb.LoadFromIdx: replay the .idx oldest entry first *)
Definition db_load (idx : idxlog) : memdb :=
  fold_right (fun e db => if entry_dead e then db_del db (ie_key e) else db_set db e) [] idx.

(* MemDb.SaveToIdx: ascending visit, dead entries skipped; the result is an .idx file *)
Definition save_idx (db : memdb) : idxlog := rev (filter (fun e => negb (entry_dead e)) db).

(* ---------- the two copy loops ---------- *)
Inductive alg := Scan (* Volume.Compact *) | Index (* Volume.Compact2 *).

(* uint64(v.Ttl.Minutes()*60): the product is computed in uint32 *)
Definition ttl_secs32 (vt : N * N) : N := (ttl_minutes vt * 60) mod 4294967296.

(* n.HasTtl() && now >= n.LastModified + uint64(volumeTtl.Minutes()*60), on the parsed record *)
Definition ttl_dropped (vt : N * N) (now_s : N) (v : view) : bool :=
  has_ttl (v_flags v) && (v_lastmod v + ttl_secs32 vt <=? now_s).

Record cacc := { a_recs : list rec; a_end : N; a_db : memdb }.
Definition acc0 : cacc := {| a_recs := []; a_end := 8 (* SuperBlockSize *); a_db := [] |}.

(* nm.Set(n.Id, ToOffset(newOffset), n.Size); n.Append(dst); newOffset += n.DiskSize() *)
Definition copy_rec (a : cacc) (r : rec) : cacc :=
  {| a_recs := {| r_off := a_end a; r_size := r_size r; r_at := r_at r; r_n := r_n r |} :: a_recs a;
     a_end := a_end a + actual_size (r_size r);
     a_db := db_set (a_db a) {| ie_key := n_id (r_n r); ie_off := a_end a; ie_size := Z.of_N (r_size r) |} |}.

(* VolumeFileScanner4Vacuum.VisitNeedle: TTL filter, then the LIVE needle map must point at
   this very record with a positive size *)
Definition scan_visit (vt : N * N) (now_s : N) (live : nmap) (a : cacc) (r : rec) : cacc :=
  if ttl_dropped vt now_s (view_of_rec r) then a
  else
    match nm_get live (n_id (r_n r)) with
    | Some nv =>
        if (nv_off nv =? r_off r) && (0 <? nv_size nv)%Z && size_valid (nv_size nv) then copy_rec a r else a
    | None => a
    end.

(* copyDataAndGenerateIndexFile: ScanVolumeFile visits the records in file order *)
Definition compact_scan (vt : N * N) (now_s : N) (s : cvol) : cacc :=
  fold_left (scan_visit vt now_s (nm (cv s))) (rev (recs (cv s))) acc0.

(* copyDataBasedOnIndexFile: the visit of one entry of the MemDb loaded from the .idx *)
Definition index_visit (vt : N * N) (now_s : N) (st : vol) (a : cacc) (e : ientry) : cacc :=
  if entry_dead e then a
  else
    match read_data st (ie_off e) (ie_size e) with     (* n.ReadData; an error skips the entry *)
    | None => a
    | Some r => if ttl_dropped vt now_s (view_of_rec r) then a else copy_rec a r
    end.

Definition compact_index (vt : N * N) (now_s : N) (s : cvol) : cacc :=
  fold_left (index_visit vt now_s (cv s)) (db_load (cidx s)) acc0.

(* the .cpd / .cpx pair *)
Record files := { f_recs : list rec; f_end : N; f_idx : idxlog }.

Definition files_of (a : cacc) : files :=
  {| f_recs := a_recs a; f_end := a_end a; f_idx := save_idx (a_db a) |}.

Definition compact (al : alg) (vt : N * N) (now_s : N) (s : cvol) : files :=
  files_of (match al with Scan => compact_scan vt now_s s | Index => compact_index vt now_s s end).

(* ---------- makeupDiff ---------- *)
(* The offset of the copied .idx entry is replaced as a whole:
     OffsetToBytes(idxEntryBytes[NeedleIdSize:NeedleIdSize+OffsetSize], ToOffset(offset))
   (repaired; before, only bytes 8..12 were patched and with -tags 5BytesOffset the fifth
   offset byte of the OLD entry survived).  ToOffset is exact below MaxPossibleVolumeSize,
   as everywhere else in this model, so the entry simply gets the new offset (0 for a delete)
   and the offset width no longer matters. *)

(* fakeDelNeedle: Id = key, Cookie = 0x12345678, no data *)
Definition fake_del (key : N) : needle := tombstone key 305419896.

Definition makeup_one (old : vol) (F : files) (e : ientry) : files :=
  if negb (ie_off e =? 0) && negb (ie_size e =? 0)%Z && size_valid (ie_size e) then
    (* updated needle: the raw blob is copied from the old .dat to the end of the new one *)
    {| f_recs := match find_rec (recs old) (ie_off e) with
                 | Some r => {| r_off := f_end F; r_size := r_size r; r_at := r_at r; r_n := r_n r |} :: f_recs F
                 | None => f_recs F
                 end;
       f_end := f_end F + actual_size (Z.to_N (ie_size e));
       f_idx := {| ie_key := ie_key e; ie_off := f_end F; ie_size := ie_size e |} :: f_idx F |}
  else
    (* deleted needle (tombstone, or an empty blob whose size is 0) *)
    {| f_recs := {| r_off := f_end F; r_size := 0; r_at := 0; r_n := fake_del (ie_key e) |} :: f_recs F;
       f_end := f_end F + actual_size 0;
       f_idx := {| ie_key := ie_key e; ie_off := 0; ie_size := ie_size e |} :: f_idx F |}.

(* the .idx entries appended after lastCompactIndexOffset (n1 entries existed then) *)
Definition diff_entries (n1 : nat) (idx2 : idxlog) : idxlog := firstn (length idx2 - n1) idx2.

(* incrementedHasUpdatedIndexEntry: newest entry per key; the Go map is then iterated in an
   unspecified order [ord] (a list of keys) *)
Definition makeup (ord : list N) (F : files) (n1 : nat) (s2 : cvol) : files :=
  fold_left (fun F k => match idx_get (diff_entries n1 (cidx s2)) k with
                        | Some e => makeup_one (cv s2) F e
                        | None => F
                        end) ord F.

Fixpoint dedup (seen : list N) (l : list N) : list N :=
  match l with
  | [] => []
  | k :: l' => if existsb (N.eqb k) seen then dedup seen l' else k :: dedup (k :: seen) l'
  end.
(* the keys makeupDiff has to deal with (newest first); any permutation of it is a possible [ord] *)
Definition touched (n1 : nat) (s2 : cvol) : list N := dedup [] (map ie_key (diff_entries n1 (cidx s2))).

(* ---------- CommitCompact: rename, then Volume.load ---------- *)
Inductive vres := VOk | VEof | VMismatch | VTrunc (tail : N) | VErr.

(* doCheckAndFixVolumeData on one .idx entry (version 3) *)
Definition verify_entry (rs : list rec) (fend : N) (e : ientry) : vres :=
  if ie_off e =? 0 then VOk
  else if (ie_size e <? 0)%Z then
    (* verifyDeletedNeedleIntegrity: the last 32 bytes of the .dat must be a Size = 0 record of this key *)
    match rs with
    | r :: _ => if (r_off r + 32 =? fend) && (r_size r =? 0) && (n_id (r_n r) =? ie_key e) then VOk else VErr
    | [] => VErr
    end
  else
    (* verifyNeedleIntegrity *)
    match find_rec rs (ie_off e) with
    | None => if fend <=? ie_off e then VEof (* ReadNeedleHeader: io.EOF *) else VMismatch
    | Some r =>
        if negb (Z.of_N (r_size r) =? ie_size e)%Z then VMismatch
        else
          let tail := ie_off e + actual_size (r_size r) in
          if tail =? fend then VOk
          else if tail <? fend then VTrunc tail      (* "Truncate %s from %d bytes to %d bytes!" *)
          else VErr
    end.

(* CheckAndFixVolumeDataIntegrity: the last (up to) 10 entries, newest first.
   Result: how many newest .idx entries are cut off, where the .dat is truncated, error or not *)
Fixpoint check_loop (rs : list rec) (fend : N) (l : idxlog) (i drop : nat) (last_mismatch : bool)
  : nat * option N * bool :=
  match l with
  | [] => (drop, None, last_mismatch && Nat.eqb drop 0)
  | e :: l' =>
      match verify_entry rs fend e with
      | VEof => check_loop rs fend l' (S i) i false
      | VMismatch => check_loop rs fend l' (S i) drop true
      | VOk => (drop, None, false)
      | VTrunc t => (drop, Some t, false)
      | VErr => (drop, None, true)
      end
  end.

Definition check_files (F : files) : nat * option N * bool :=
  check_loop (f_recs F) (f_end F) (firstn 10 (f_idx F)) 1 0 false.

(* doLoading: replay of the .idx into a fresh CompactMap, oldest entry first *)
Definition load_idx (idx : idxlog) : nmap :=
  fold_right (fun e m =>
    if negb (ie_off e =? 0) && size_valid (ie_size e)
    then nm_set m (ie_key e) {| nv_off := ie_off e; nv_size := ie_size e |}
    else nm_delete m (ie_key e)) [] idx.

Definition commit (F : files) : vol :=
  let c := check_files F in
  let drop := fst (fst c) in
  {| recs := match snd (fst c) with
             | Some t => filter (fun r => r_off r <? t) (f_recs F)
             | None => f_recs F
             end;
     nm := load_idx (skipn drop (f_idx F));
     dat_end := match snd (fst c) with Some t => t | None => f_end F end;
     no_write_or_delete := snd c;          (* a failed integrity check makes the volume read-only *)
     no_write_can_delete := false |}.

(* ---------- the two runs the property compares ---------- *)
Record cfg := { g_vttl : N * N }.

(* makeupDiff fails when the .idx was empty when the compaction started
   (lastCompactIndexOffset = 0) and has entries now: its backwards loop
   "for idxOffset := indexSize - 16; uint64(idxOffset) >= lastCompactIndexOffset; idxOffset -= 16"
   cannot end, reaches a negative offset and returns "offset -16 for index file is invalid" *)
Definition makeup_fails (n1 : nat) (s2 : cvol) : bool :=
  Nat.eqb n1 0 && negb (Nat.eqb (length (cidx s2)) 0).

(* the .dat / .idx pair of a running volume *)
Definition old_files (s : cvol) : files :=
  {| f_recs := recs (cv s); f_end := dat_end (cv s); f_idx := cidx s |}.

(* run h1, Compact/Compact2, run h2, CommitCompact: the files that get loaded.
   When makeupDiff fails, CommitCompact removes .cpd/.cpx and reloads the old files. *)
Definition compacted_files (g : cfg) (al : alg) (now_s : N) (ord : list N) (h1 h2 : list cevent) : files :=
  let s1 := c_exec (g_vttl g) cinit h1 in
  let s2 := c_exec (g_vttl g) s1 h2 in
  if makeup_fails (length (cidx s1)) s2 then old_files s2
  else makeup ord (compact al (g_vttl g) now_s s1) (length (cidx s1)) s2.

Definition compacted (g : cfg) (al : alg) (now_s : N) (ord : list N) (h1 h2 : list cevent) : vol :=
  commit (compacted_files g al now_s ord h1 h2).

(* the same history on a volume that is never compacted *)
Definition twin (g : cfg) (h1 h2 : list cevent) : vol := cv (c_exec (g_vttl g) cinit (h1 ++ h2)).

Definition default_ord (g : cfg) (h1 h2 : list cevent) : list N :=
  let s1 := c_exec (g_vttl g) cinit h1 in
  touched (length (cidx s1)) (c_exec (g_vttl g) s1 h2).

(* what a reader obtains: Some (count, needle) or nothing (not found / deleted / expired / error) *)
Definition readable (x : err * Z * view) : option (Z * view) :=
  match fst (fst x) with ENone => Some (snd (fst x), snd x) | _ => None end.

Definition read_of (st : vol) (now_ns : N) (id : N) : option (Z * view) :=
  readable (store_read st id 0 false now_ns).

(* ---------- hypotheses of the partial theorem = complements of the finding triggers ---------- *)
Definition ev_needle (ev : cevent) : option needle := match snd ev with CWrite n => Some n | _ => None end.

(* finding 0: a write with an empty payload *)
Definition has_empty (h : list cevent) : bool :=
  existsb (fun ev => match ev_needle ev with Some n => blen (n_data n) =? 0 | None => false end) h.

(* finding 1: a needle written before the compaction that the compaction filter drops although
   a read (at [now_r], ns) would still return it *)
Definition ttl_ok (vt : N * N) (now_s now_r : N) (ev : cevent) : bool :=
  match ev_needle ev with
  | Some n => let v := view_of (adjust vt n) in
              negb (ttl_dropped vt now_s v) || view_expired v (fst ev) now_r
  | None => true
  end.
Definition ttl_consistent (vt : N * N) (now_s now_r : N) (h1 : list cevent) : bool :=
  forallb (ttl_ok vt now_s now_r) h1.

(* finding 2: the integrity check of the reload changes the files *)
Definition check_noop (c : nat * option N * bool) : bool :=
  Nat.eqb (fst (fst c)) 0 && match snd (fst c) with None => true | Some _ => false end && negb (snd c).
Definition reload_noop (g : cfg) (al : alg) (now_s : N) (ord : list N) (h1 h2 : list cevent) : bool :=
  check_noop (check_files (compacted_files g al now_s ord h1 h2)).

(* histories of writes and deletes only *)
Definition no_pad (h : list cevent) : bool :=
  forallb (fun ev => match snd ev with CPad _ => false | _ => true end) h.

(* ---------- "the last operation on the key is a delete" ---------- *)
Definition mentions (id : N) (ev : cevent) : bool :=
  match snd ev with
  | CWrite n => n_id n =? id
  | CDelete k _ => k =? id
  | CPad _ => false
  end.

Fixpoint last_is_delete (id : N) (h : list cevent) : bool :=
  match h with
  | [] => false
  | ev :: h' =>
      if existsb (mentions id) h' then last_is_delete id h'
      else match snd ev with CDelete k _ => k =? id | _ => false end
  end.

(* no empty payload was written to this key *)
Definition no_empty_on (id : N) (h : list cevent) : bool :=
  forallb (fun ev => match snd ev with
                     | CWrite n => negb (n_id n =? id) || negb (blen (n_data n) =? 0)
                     | _ => true
                     end) h.

(* ---------- writers running concurrently with the copy loop ---------- *)
(* Volume.Compact takes no lock: while ScanVolumeFile walks the .dat, writers append records
   and change the LIVE needle map that VisitNeedle consults.  [sched] lists, for the visit of
   the 1st, 2nd, ... record, the operations that complete between the moment the scanner has
   read that record from the file and the moment VisitNeedle looks the key up in the map.
   The scanner reads the file as it grows, so records appended during the scan are visited
   too.  When the scanner reaches the end of the file the scan is over; operations still in
   [sched] then happen after it.  With [sched = []] this is [compact_scan]. *)
Fixpoint scan_il (vt : N * N) (now_s : N) (sched : list (list cevent)) (s : cvol) (i : nat) (a : cacc) : cacc :=
  match sched with
  | [] => fold_left (scan_visit vt now_s (nm (cv s))) (skipn i (rev (recs (cv s)))) a
  | evs :: sched' =>
      match nth_error (rev (recs (cv s))) i with
      | Some r => let s' := c_exec vt s evs in
                  scan_il vt now_s sched' s' (S i) (scan_visit vt now_s (nm (cv s')) a r)
      | None => a
      end
  end.

(* Compact2 loads the .idx into a private MemDb before its loop and reads the append-only
   .dat at the offsets found there: operations during its loop are the same as after it. *)
Definition compact_il (al : alg) (vt : N * N) (now_s : N) (sched : list (list cevent)) (s : cvol) : files :=
  files_of (match al with Scan => scan_il vt now_s sched s 0 acc0 | Index => compact_index vt now_s s end).

(* run h1, start Compact/Compact2, the operations of [sched] during the copy loop, the
   operations of h2 after it, CommitCompact *)
Definition compacted_files_il (g : cfg) (al : alg) (now_s : N) (ord : list N)
    (h1 : list cevent) (sched : list (list cevent)) (h2 : list cevent) : files :=
  let s1 := c_exec (g_vttl g) cinit h1 in
  let s2 := c_exec (g_vttl g) s1 (concat sched ++ h2) in
  if makeup_fails (length (cidx s1)) s2 then old_files s2
  else makeup ord (compact_il al (g_vttl g) now_s sched s1) (length (cidx s1)) s2.

(* per-key forms of the hypotheses *)
Definition writes_key (id : N) (ev : cevent) : bool :=
  match ev_needle ev with Some n => n_id n =? id | None => false end.
Definition ttl_consistent_on (id : N) (vt : N * N) (now_s now_r : N) (h1 : list cevent) : bool :=
  forallb (fun ev => negb (writes_key id ev) || ttl_ok vt now_s now_r ev) h1.

(* the volume (with its .idx) that serves requests after CommitCompact *)
Definition committed (F : files) : cvol :=
  {| cv := commit F; cidx := skipn (fst (fst (check_files F))) (f_idx F) |}.
