(* C20: the two wire encodings of a chunk reference.

   A filer_pb.FileChunk names its blob by the string field file_id ("3,0b00000001"), by the
   structured field fid {volume_id, file_key, cookie}, or by both.  All forms reach the filer:
   upload results carry the string only, LookupDirectoryEntry answers carry both, ListEntries
   answers of stores with native prefix listing (leveldb*, SQL) and metadata events carry the
   structured field only.  A chunk ID is the DECODED (volume id, needle key, cookie) triple
   (an N in model/Chunks.v: the harness keeps volume id and cookie constant and shows the key);
   every decision about which chunks are garbage must be a function of the decoded ids.

     weed/pb/filer_pb/filer_pb_helper.go   GetFileIdString (the string if present, else the fid object),
                                           BeforeEntrySerialization / AfterEntryDeserialization
     weed/filer/filechunks.go              DoMinusChunks
     weed/filer/filer_deletion.go          deleteChunksIfNotNew, DeleteChunks, DirectDeleteChunks
     weed/filer/entry_codec.go             EqualEntry (proto.Equal on the chunk MESSAGES)
     weed/server/filer_grpc_server.go      UpdateEntry

   Part A models the references themselves and the id comparisons on them; part B is the state
   machine of model/HardLink.v with the encodings of a request as an extra input.  The model's
   operation ([op]) is the decoded request; the specification (model/FilerGC.v) never sees an
   encoding.  Executable definitions only; proofs are in proof/FilerGCWire.v. *)
From Coq Require Import List NArith ZArith Bool String.
From SW Require Import model.Chunks model.HardLink model.FilerGC.
Import ListNotations.
Local Open Scope N_scope.

(* ================= A: chunk references on the wire ================= *)
(* w_str: the file_id string, parsed (None = ""); w_fid: the fid object (None = nil).  When both are
   present they may even disagree: the string wins everywhere (GetFileIdString, BeforeEntrySerialization). *)
Record wchunk := mk_wchunk {
  w_str : option N; w_fid : option N;
  w_off : N; w_size : N; w_mtime : N; w_man : bool
}.

(* FileChunk.GetFileIdString; 0 stands for the empty string of a chunk without any reference *)
Definition get_id (w : wchunk) : N :=
  match w_str w with
  | Some i => i
  | None => match w_fid w with Some i => i | None => 0 end
  end.

Definition decode (w : wchunk) : chunk := Chunk (get_id w) (w_off w) (w_size w) (w_mtime w) (w_man w).

(* DoMinusChunks (and the same loop in deleteChunksIfNotNew): a map keyed by GetFileIdString of bs,
   probed with GetFileIdString of every chunk of as *)
Definition do_minus_w (a b : list wchunk) : list wchunk :=
  filter (fun c => negb (existsb (fun d => get_id d =? get_id c) b)) a.

(* the class of defect this file is about: one side keyed by the raw string field *)
Definition raw_id (w : wchunk) : N := match w_str w with Some i => i | None => 0 end.
Definition do_minus_raw (a b : list wchunk) : list wchunk :=
  filter (fun c => negb (existsb (fun d => raw_id d =? get_id c) b)) a.

(* DeleteChunks / DirectDeleteChunks hand GetFileIdString of every chunk to the sink *)
Definition sink_ids_w (cs : list wchunk) : list N := map get_id cs.

(* the three encodings of a decoded chunk *)
Definition encode (enc : N) (c : chunk) : wchunk :=
  mk_wchunk (if enc =? 1 then None else Some (c_fid c)) (if enc =? 2 then None else Some (c_fid c))
            (c_off c) (c_size c) (c_mtime c) (c_manifest c).

(* ================= B: the encodings of a request as an input of the state machine ================= *)
(* (decoded chunk id, encoding) for every chunk reference of the request:
   0 = file_id string and fid object, 1 = fid object only, 2 = file_id string only *)
Definition sent := list (N * N).

(* the request's chunk with this id came without fid object.  (cleanupChunks calls GetFileIdString on every
   chunk of the request, which also WRITES the string field: afterwards every chunk has its string, and
   the fid object only if it was sent.) *)
Definition lacks_fid (sn : sent) (c : chunk) : bool :=
  existsb (fun ke => (fst ke =? c_fid c) && (snd ke =? 2)) sn.

(* FilerServer.UpdateEntry, with EqualEntry as it is: proto.Equal on the chunk messages.  The stored chunks
   always carry both fields (BeforeEntrySerialization parses the string, AfterEntryDeserialization prints the
   object), so an unchanged entry is recognised only if every chunk it keeps was sent with its fid object *)
Definition grpc_update_w (ev : env) (s : st) (p : path) (e : hentry) (sn : sent) : res :=
  match find_entry ev s p with
  | None => (s, ENotFound, [])
  | Some ex =>
      match cleanup_chunks ev (Some ex) (h_chunks e) with
      | None => (s, EManifest, [])
      | Some (chunks, garbage) =>
          let new := set_chunks e chunks in
          if hentry_eqb ex new && negb (existsb (lacks_fid sn) chunks) then (s, OK, [])
          else
            let (s1, r) := filer_update s p ex new in
            if is_err r then (s1, r, []) else (s1, OK, expand_delete ev garbage)
      end
  end.

Definition mount_write_w (ev : env) (s : st) (p : path) (cs : list chunk) (mt : N) (via_create : bool) (sn : sent) : res :=
  match find_entry ev s p with
  | None => (s, ENotFound, [])
  | Some e0 =>
      let e := set_mtime (set_chunks e0 cs) mt in
      if via_create then grpc_create ev s p e false else grpc_update_w ev s p e sn
  end.

(* every other handler reads chunk ids through GetFileIdString only: the encodings are ignored *)
Definition step_w (ev : env) (s : st) (o : op) (sn : sent) : res :=
  match o with
  | Update p e => scoped p (grpc_update_w ev s p e sn) s
  | Write p cs mt via => scoped p (mount_write_w ev s p cs mt via sn) s
  | _ => step ev s o
  end.

Fixpoint run_w (ev : env) (s : st) (ops : list op) (sns : list sent) : list res :=
  match ops with
  | [] => []
  | o :: ops' =>
      let r := step_w ev s o (hd [] sns) in r :: run_w ev (st_of r) ops' (tl sns)
  end.

(* the decidable condition under which the encoding is visible: an UpdateEntry request whose entry equals
   the stored one (after cleanupChunks) and keeps a chunk that was sent without fid object *)
Definition update_enc_visible (ev : env) (s : st) (p : path) (e : hentry) (sn : sent) : bool :=
  match find_entry ev s p with
  | Some ex =>
      match cleanup_chunks ev (Some ex) (h_chunks e) with
      | Some (chunks, _) => hentry_eqb ex (set_chunks e chunks) && existsb (lacks_fid sn) chunks
      | None => false
      end
  | None => false
  end.

Definition enc_visible (ev : env) (s : st) (o : op) (sn : sent) : bool :=
  match o with
  | Update p e => in_scope p && update_enc_visible ev s p e sn
  | Write p cs mt false =>
      in_scope p &&
      match find_entry ev s p with
      | Some e0 => update_enc_visible ev s p (set_mtime (set_chunks e0 cs) mt) sn
      | None => false
      end
  | _ => false
  end.

(* the C20 property at every step of the encoding-aware run *)
Fixpoint c20_run_ok_w (ev : env) (s : st) (ops : list op) (sns : list sent) : bool :=
  match ops with
  | [] => true
  | o :: ops' =>
      let r := step_w ev s o (hd [] sns) in
      step_prop ev s o (refs ev s) (refs ev (st_of r)) (sched_of r) && c20_run_ok_w ev (st_of r) ops' (tl sns)
  end.

(* the sent list the harness reports for an operation must name the chunks the operation brings
   (create / update / append / write: exactly the decoded ids of the request, in order) *)
Definition sent_matches (o : op) (sn : sent) : bool :=
  match o with
  | Create _ _ _ | Update _ _ | Append _ _ | Write _ _ _ _ =>
      list_eqb N.eqb (map fst sn) (fids (op_chunks o)) && forallb (fun ke => snd ke <=? 2) sn
  | _ => true
  end.

(* the hypothesis of the partial theorems along the encoding-aware run *)
Fixpoint c20_hist_quiet_w (ev : env) (s : st) (ops : list op) (sns : list sent) : bool :=
  match ops with
  | [] => true
  | o :: ops' => c20_quiet ev s o && c20_hist_quiet_w ev (st_of (step_w ev s o (hd [] sns))) ops' (tl sns)
  end.
