(* Model of weed/sequence/{memory,etcd,snowflake}_sequencer.go and of
   Topology.NextVolumeId (weed/topology/topology.go, cluster_commands.go) -- C13.
   Executable definitions only; proofs are in proof/SeqProofs.v.

   Concurrency: a run is a list of ATOMIC steps taken by several actors; what is
   atomic is what the code's locks (and, for etcd, single KeysAPI calls) make
   atomic.  Theorems quantify over all such lists. *)
From Coq Require Import List NArith Bool Arith.
Import ListNotations.
Local Open Scope N_scope.

(* ------------------------------------------------------------------ *)
(* Observable events and the property's executable oracle              *)
(* ------------------------------------------------------------------ *)

(* A client that is returned (fid with key s, count c) uses the keys
   s, s+1 .. s+c-1 (fid, fid_1 .. fid_{c-1}; needle.ParsePath adds the delta). *)
Inductive ev :=
| Ret (m : nat) (s c : N)   (* master/actor m handed out the keys s .. s+c-1 *)
| Max (m : nat) (k : N).    (* master m finished Sequence.SetMax(k): key k is in use *)

Definition in_range (x s c : N) : Prop := s <= x /\ x < s + c.

(* e1 happened before e2 *)
Definition ev_ok (e1 e2 : ev) : Prop :=
  match e1, e2 with
  | Ret _ s1 c1, Ret _ s2 c2 => forall x, ~ (in_range x s1 c1 /\ in_range x s2 c2)
  | Max m k, Ret m' s c => m = m' -> forall x, in_range x s c -> k < x
  | _, _ => True
  end.

Definition ev_okb (e1 e2 : ev) : bool :=
  match e1, e2 with
  | Ret _ s1 c1, Ret _ s2 c2 => (c1 =? 0) || (c2 =? 0) || (s1 + c1 <=? s2) || (s2 + c2 <=? s1)
  | Max m k, Ret m' s c => negb (Nat.eqb m m') || (c =? 0) || (k <? s)
  | _, _ => true
  end.

Fixpoint trace_okb (tr : list ev) : bool :=
  match tr with
  | [] => true
  | e :: tr' => forallb (ev_okb e) tr' && trace_okb tr'
  end.

(* linear-time shortcut for long traces: only Ret events, each starting at or
   after the end of every earlier one; equal to trace_okb whenever it says yes
   (proof/SeqProofs.v: trace_okb_fast_eq) *)
Fixpoint chain_okb (hi : N) (tr : list ev) : bool :=
  match tr with
  | [] => true
  | Ret _ s c :: tr' => (hi <=? s) && chain_okb (s + c) tr'
  | Max _ _ :: _ => false
  end.
Definition trace_okb_fast (tr : list ev) : bool :=
  if chain_okb 0 tr then true else trace_okb tr.   (* not [||]: vm_compute is strict in arguments *)

(* generic list cell access (masters, snowflake nodes) *)
Fixpoint setnth {A} (l : list A) (i : nat) (x : A) : list A :=
  match l, i with
  | [], _ => []
  | _ :: l', O => x :: l'
  | y :: l', S i' => y :: setnth l' i' x
  end.

(* generic run of a step function: final state and the output of every step *)
Fixpoint grun {S I E : Type} (step : S -> I -> S * option E) (s : S) (l : list I) : S * list (option E) :=
  match l with
  | [] => (s, [])
  | i :: l' => let '(s', e) := step s i in
               let '(sf, tr) := grun step s' l' in (sf, e :: tr)
  end.

(* a per-step guard holds along the whole run *)
Fixpoint gall {S I E : Type} (step : S -> I -> S * option E) (g : S -> I -> bool) (s : S) (l : list I) : bool :=
  match l with
  | [] => true
  | i :: l' => g s i && gall step g (fst (step s i)) l'
  end.

(* number of leading steps whose guard holds (the run up to the first guard failure) *)
Fixpoint gfit_len {St I E : Type} (step : St -> I -> St * option E) (g : St -> I -> bool) (s : St) (l : list I) : nat :=
  match l with
  | [] => O
  | i :: l' => if g s i then Datatypes.S (gfit_len step g (fst (step s i)) l') else O
  end.

Fixpoint somes {E : Type} (l : list (option E)) : list E :=
  match l with
  | [] => []
  | Some e :: l' => e :: somes l'
  | None :: l' => somes l'
  end.

(* ------------------------------------------------------------------ *)
(* 1. MemorySequencer: one uint64 counter under sequenceLock            *)
(* ------------------------------------------------------------------ *)
Definition two64 : N := 18446744073709551616.
Definition w64 (x : N) : N := x mod two64.

Inductive mop := MNext (count : N) | MSetMax (k : N).

Definition mem_init : N := 1.   (* NewMemorySequencer: counter: 1 *)

Definition mem_step (c : N) (o : mop) : N * option ev :=
  match o with
  | MNext count => (w64 (c + count), Some (Ret 0 c count))                  (* ret := counter; counter += count *)
  | MSetMax k => ((if c <=? k then w64 (k + 1) else c), Some (Max 0 k))     (* if counter <= seen { counter = seen+1 } *)
  end.

Definition mem_run (c : N) (ops : list mop) : N * list (option ev) := grun mem_step c ops.

(* the 64-bit key space is not exhausted: no addition of the run wraps *)
Definition mem_guard (c : N) (o : mop) : bool :=
  match o with
  | MNext count => c + count <? two64
  | MSetMax k => if c <=? k then k + 1 <? two64 else true
  end.
Definition mem_fits (c : N) (ops : list mop) : bool := gall mem_step mem_guard c ops.

Definition mem_fit_len (c : N) (ops : list mop) : nat := gfit_len mem_step mem_guard c ops.

(* leader change: the old leader ran ops1; the new leader's sequencer is fresh
   (counter 1), its first step is the heartbeat SetMax(k), then it runs ops2.
   k is the largest key WRITTEN on the volume servers (store.go CollectHeartbeat:
   MaxFileKey), not the largest key handed out. *)
Definition relabel (m : nat) (e : ev) : ev :=
  match e with Ret _ s c => Ret m s c | Max _ k => Max m k end.
(* largest key of a range (0 for an empty range / a Max event) *)
Definition ev_hi (e : ev) : N :=
  match e with Ret _ s c => if c =? 0 then 0 else s + c - 1 | Max _ _ => 0 end.
(* finding 4 trigger, per event of the old leader: it contains a key above k *)
Definition fo_unwritten (k : N) (e : ev) : bool := k <? ev_hi e.
Definition fo_trigger (tr1 : list ev) (k : N) : bool := existsb (fo_unwritten k) tr1.

(* ------------------------------------------------------------------ *)
(* 2. EtcdSequencer: per master (currentSeqId, maxSeqId, sequencer.dat) *)
(*    + the shared etcd key /master/sequence.  Every KeysAPI call       *)
(*    (Get / Set-with-PrevValue / Create) is one atomic step.           *)
(*    Arithmetic is uint64 (w64) wherever the Go code adds/subtracts.   *)
(* ------------------------------------------------------------------ *)
Definition etcd_steps : N := 500.   (* DefaultEtcdSteps *)

(* reqSteps := DefaultEtcdSteps; if count > DefaultEtcdSteps { reqSteps += count }   (uint64) *)
Definition reqsteps (count : N) : N := if etcd_steps <? count then w64 (etcd_steps + count) else etcd_steps.

Inductive why := Boot | Beat.   (* who runs setMaxSequenceToEtcd: NewEtcdSequencer / SetMax *)

Inductive pc :=
| Idle
| Down                               (* no sequencer object (not started, or start failed) *)
| NextGet (count : N)                (* batchGetSequenceFromEtcd: about to Get *)
| NextSet (count prev : N)           (*   about to Set(prev+steps, PrevValue=prev) *)
| MaxGet (w : why) (k : N)           (* setMaxSequenceToEtcd(k): about to Get *)
| MaxCreate (w : why) (k : N)        (*   key not found: about to Create(k) *)
| MaxSet (w : why) (k prev : N).     (*   about to Set(k, PrevValue=prev) *)

Record mst := { cur : N; mx : N; file : N; p : pc }.

Definition set_pc (m : mst) (q : pc) : mst := {| cur := cur m; mx := mx m; file := file m; p := q |}.

(* an etcd call either works, fails without effect, or takes effect but the
   answer is lost (the client sees an error) *)
Inductive fault := Ok | Err | ErrAfter.

Inductive act :=
| ANext (count : N)      (* NextFileId(count) is called *)
| ASetMax (k : N)        (* SetMax(k) is called *)
| ABoot                  (* the master (re)starts: NewEtcdSequencer; a running one is abandoned *)
| ATick (f : fault).     (* the pending KeysAPI call of this master is executed *)

(* model events carry two diagnostic tags that the implementation cannot show:
   MRetErr: NextFileId returned 0 because etcd failed; MMax .. false: a SetMax
   that did not move the sequence past k *)
Inductive mev :=
| MRet (m : nat) (s c : N)
| MRetErr (m : nat) (c : N)
| MMax (m : nat) (k : N) (safe : bool).

Definition vis (e : mev) : ev :=
  match e with
  | MRet m s c => Ret m s c
  | MRetErr m c => Ret m 0 c      (* `return 0`: PickForWrite hands out key 0 *)
  | MMax m k _ => Max m k
  end.

(* setMaxSequenceToEtcd returned v *)
Definition max_done (i : nat) (m : mst) (w : why) (k v : N) : mst * option mev :=
  match w with
  | Beat => ({| cur := v; mx := v; file := v; p := Idle |}, Some (MMax i k (k <? v)))   (* currentSeqId, maxSeqId = maxId, maxId *)
  | Boot => ({| cur := v; mx := v; file := file m; p := Idle |}, None)
  end.

(* setMaxSequenceToEtcd returned an error *)
Definition max_fail (i : nat) (m : mst) (w : why) (k : N) : mst * option mev :=
  match w with
  | Beat => (set_pc m Idle, Some (MMax i k false))   (* logged, SetMax returns, nothing changed *)
  | Boot => (set_pc m Down, None)                    (* NewEtcdSequencer fails *)
  end.

Definition hit (st : option N) (prev : N) : bool :=
  match st with Some v => v =? prev | None => false end.

Definition mstep (i : nat) (st : option N) (m : mst) (a : act) : option N * mst * option mev :=
  match a with
  | ABoot => (st, set_pc m (MaxGet Boot (file m)), None)      (* maxValue read from sequencer.dat *)
  | ANext count =>
      match p m with
      | Idle =>
          if w64 (cur m + count) <? mx m                       (* !((cur + count) >= max), uint64 addition *)
          then (st, {| cur := w64 (cur m + count); mx := mx m; file := file m; p := Idle |}, Some (MRet i (cur m) count))
          else if reqsteps count =? 0                          (* batchGetSequenceFromEtcd: step <= 0: error, no call *)
          then (st, m, Some (MRetErr i count))
          else (st, set_pc m (NextGet count), None)
      | _ => (st, m, None)
      end
  | ASetMax k =>
      match p m with
      | Idle =>
          if mx m <? k                                         (* seenValue > es.maxSeqId *)
          then (st, set_pc m (MaxGet Beat k), None)
          else (st, m, Some (MMax i k (k <? cur m)))
      | _ => (st, m, None)
      end
  | ATick f =>
      match p m with
      | Idle | Down => (st, m, None)
      | NextGet count =>
          match f, st with
          | Ok, Some v => (st, set_pc m (NextSet count v), None)
          | _, _ => (st, set_pc m Idle, Some (MRetErr i count))    (* Get failed / key not found: return 0 *)
          end
      | NextSet count prev =>
          let steps := reqsteps count in
          match f with
          | Ok =>
              if hit st prev
              then let maxid := w64 (prev + steps) in          (* endSeqValue = prevSeqValue + step *)
                   let c0 := w64 (maxid + two64 - steps) in    (* maxId - reqSteps *)
                   (Some maxid,
                    {| cur := w64 (c0 + count); mx := maxid; file := maxid; p := Idle |},
                    Some (MRet i c0 count))                    (* cur,max = maxId-steps,maxId; ret = cur; cur += count *)
              else (st, set_pc m (NextGet count), None)        (* compare failed: retry *)
          | Err => (st, set_pc m (NextGet count), None)
          | ErrAfter => ((if hit st prev then Some (w64 (prev + steps)) else st), set_pc m (NextGet count), None)
          end
      | MaxGet w k =>
          match f, st with
          | Ok, None => (st, set_pc m (MaxCreate w k), None)
          | Ok, Some v =>
              if k <=? v                                       (* prevSeq >= maxSeq: return prevSeq *)
              then let '(m', e) := max_done i m w k v in (st, m', e)
              else (st, set_pc m (MaxSet w k v), None)
          | _, _ => let '(m', e) := max_fail i m w k in (st, m', e)
          end
      | MaxCreate w k =>
          match f with
          | Ok => ((match st with None => Some k | Some _ => st end), set_pc m (MaxGet w k), None)   (* created, or NodeExist: continue *)
          | Err => let '(m', e) := max_fail i m w k in (st, m', e)
          | ErrAfter => let '(m', e) := max_fail i m w k in ((match st with None => Some k | Some _ => st end), m', e)
          end
      | MaxSet w k prev =>
          match f with
          | Ok =>
              if hit st prev then (Some k, set_pc m (MaxGet w k), None)
              else let '(m', e) := max_fail i m w k in (st, m', e)      (* compare failed: return 0, err *)
          | Err => let '(m', e) := max_fail i m w k in (st, m', e)
          | ErrAfter => let '(m', e) := max_fail i m w k in ((if hit st prev then Some k else st), m', e)
          end
      end
  end.

Definition mst0 : mst := {| cur := 0; mx := 0; file := 1; p := Down |}.   (* openSequenceFile writes "1:1" *)

Record est := { store : option N; masters : list mst }.

Definition einit (n : nat) : est := {| store := None; masters := repeat mst0 n |}.

Definition estep (s : est) (ia : nat * act) : est * option mev :=
  let '(i, a) := ia in
  if Nat.ltb i (length (masters s)) then
    let '(st', m', e) := mstep i (store s) (nth i (masters s) mst0) a in
    ({| store := st'; masters := setnth (masters s) i m' |}, e)
  else (s, None).

Definition erun (s : est) (sched : list (nat * act)) : est * list (option mev) := grun estep s sched.

Definition etcd_trace (n : nat) (sched : list (nat * act)) : list mev := somes (snd (erun (einit n) sched)).

(* no uint64 operation of this step wraps (finding 3 is the complement) *)
Definition mguard (m : mst) (a : act) : bool :=
  match a with
  | ANext count =>
      match p m with
      | Idle => (cur m + count <? two64) && (etcd_steps + count <? two64)
      | _ => true
      end
  | ATick _ =>
      match p m with
      | NextSet count prev => (etcd_steps + count <? two64) && (prev + reqsteps count <? two64)
      | _ => true
      end
  | _ => true
  end.
Definition eguard (s : est) (ia : nat * act) : bool := mguard (nth (fst ia) (masters s) mst0) (snd ia).
Definition etcd_fits (n : nat) (sched : list (nat * act)) : bool := gall estep eguard (einit n) sched.
(* the steps before the first one at which a uint64 operation wraps *)
Definition etcd_fit_len (n : nat) (sched : list (nat * act)) : nat := gfit_len estep eguard (einit n) sched.

(* triggers of the two etcd findings, evaluated on the model's run *)
Definition is_reterr (e : mev) : bool := match e with MRetErr _ _ => true | _ => false end.
Definition is_unsafe_max (e : mev) : bool := match e with MMax _ _ false => true | _ => false end.
Definition etcd_err_trigger (tr : list mev) : bool := existsb is_reterr tr.
Definition etcd_setmax_trigger (tr : list mev) : bool := existsb is_unsafe_max tr.
(* per event: an event that carries neither tag *)
Definition untagged (e : mev) : bool := negb (is_reterr e) && negb (is_unsafe_max e).

(* ------------------------------------------------------------------ *)
(* 3. SnowflakeSequencer (github.com/bwmarrin/snowflake Node.Generate)  *)
(* ------------------------------------------------------------------ *)
Record sfnode := { sf_time : N; sf_step : N }.
Definition sfnode0 : sfnode := {| sf_time := 0; sf_step := 0 |}.

(* now<<timeShift | node<<nodeShift | step, timeShift = 22, nodeShift = 12 *)
Definition sf_id (now nid step : N) : N :=
  N.lor (N.shiftl now 22) (N.lor (N.shiftl nid 12) step).

(* `now`: the clock reading at entry (ms since the epoch); `spin`: the reading
   that ends the `for now <= n.time` loop when the 12-bit step rolls over *)
Definition sf_generate (nid : N) (n : sfnode) (now spin : N) : sfnode * N :=
  let '(now', step') :=
    if now =? sf_time n then
      let s := N.land (sf_step n + 1) 4095 in          (* (step + 1) & stepMask *)
      if s =? 0 then (spin, s) else (now, s)
    else (now, 0) in
  ({| sf_time := now'; sf_step := step' |}, sf_id now' nid step').

(* one NextFileId(count) on node number i: the count is ignored *)
Record sfcall := { sc_node : nat; sc_count : N; sc_now : N; sc_spin : N }.

Definition sf_step1 (nids : list N) (sts : list sfnode) (c : sfcall) : list sfnode * option ev :=
  let i := sc_node c in
  if Nat.ltb i (length sts) then
    let '(n', id) := sf_generate (nth i nids 0) (nth i sts sfnode0) (sc_now c) (sc_spin c) in
    (setnth sts i n', Some (Ret i id (sc_count c)))
  else (sts, None).

Definition sf_run (nids : list N) (sts : list sfnode) (calls : list sfcall) : list sfnode * list (option ev) :=
  grun (sf_step1 nids) sts calls.

Definition sf_init (nids : list N) : list sfnode := repeat sfnode0 (length nids).

(* finding 1 trigger: a call with count > 1 *)
Definition sf_count_trigger (calls : list sfcall) : bool := existsb (fun c => 1 <? sc_count c) calls.

(* hypotheses of the partial theorem, decidable on the input *)
Fixpoint nodup_N (l : list N) : bool :=
  match l with
  | [] => true
  | x :: l' => negb (existsb (N.eqb x) l') && nodup_N l'
  end.
Definition sf_nodes_ok (nids : list N) : bool := forallb (fun x => x <? 1024) nids && nodup_N nids.
(* finding 5 trigger: two nodes (masters) with the same 10-bit id, hash(address) & 0x3ff *)
Definition sf_collision_trigger (nids : list N) : bool := negb (nodup_N nids).

(* the clock never runs backwards on a node, the spin reading is later than the
   stored time, and the time fits 41 bits *)
Definition two41 : N := 2199023255552.
Definition sf_guard (sts : list sfnode) (c : sfcall) : bool :=
  let n := nth (sc_node c) sts sfnode0 in
  (sf_time n <=? sc_now c) && (sf_time n <? sc_spin c) && (sc_now c <? two41) && (sc_spin c <? two41) &&
  (0 <? sc_now c).
Definition sf_clock_ok (nids : list N) (sts : list sfnode) (calls : list sfcall) : bool :=
  gall (sf_step1 nids) sf_guard sts calls.

(* ------------------------------------------------------------------ *)
(* 4. Topology.NextVolumeId: read max, raft Do(MaxVolumeIdCommand(next)) *)
(* ------------------------------------------------------------------ *)
Definition two32 : N := 4294967296.

Inductive vstep :=
| VRead (a : nat)              (* actor a: vid := GetMaxVolumeId(); next := vid.Next() *)
| VApply (a : nat) (ok : bool) (* raft Do: ok -> Apply: UpAdjustMaxVolumeId(next), return next; else error *)
| VHb (v : N).                 (* a heartbeat registers volume v: UpAdjustMaxVolumeId(v) *)

Record vst := { vmax : N; vpend : list (nat * N) }.
Definition vinit : vst := {| vmax := 0; vpend := [] |}.

Fixpoint vfind (l : list (nat * N)) (a : nat) : option N :=
  match l with
  | [] => None
  | (b, x) :: l' => if Nat.eqb a b then Some x else vfind l' a
  end.
Definition vdrop (l : list (nat * N)) (a : nat) : list (nat * N) :=
  filter (fun bx => negb (Nat.eqb a (fst bx))) l.

(* the event of a returned volume id v to actor a is written Ret a v 1 *)
Definition vstep1 (s : vst) (o : vstep) : vst * option ev :=
  match o with
  | VRead a =>
      match vfind (vpend s) a with
      | Some _ => (s, None)
      | None => ({| vmax := vmax s; vpend := (a, (vmax s + 1) mod two32) :: vpend s |}, None)   (* VolumeId(uint32(vid)+1) *)
      end
  | VApply a ok =>
      match vfind (vpend s) a with
      | None => (s, None)
      | Some next =>
          if ok then ({| vmax := N.max (vmax s) next; vpend := vdrop (vpend s) a |}, Some (Ret a next 1))
          else ({| vmax := vmax s; vpend := vdrop (vpend s) a |}, None)
      end
  | VHb v => ({| vmax := N.max (vmax s) v; vpend := vpend s |}, None)   (* if n.maxVolumeId < vid { n.maxVolumeId = vid } *)
  end.

Definition vrun (s : vst) (sched : list vstep) : vst * list (option ev) := grun vstep1 s sched.

(* the growth lock (VolumeGrowth.accessLock): at most one NextVolumeId in flight *)
Definition vlock_guard (s : vst) (o : vstep) : bool :=
  match o with VRead _ => match vpend s with [] => true | _ => false end | _ => true end.
Definition vlocked (s : vst) (sched : list vstep) : bool := gall vstep1 vlock_guard s sched.

(* the 32-bit volume id space is not exhausted, and reported ids are 32 bit *)
Definition vfit_guard (s : vst) (o : vstep) : bool :=
  match o with VRead _ => vmax s + 1 <? two32 | VHb v => v <? two32 | _ => true end.
Definition vfits (s : vst) (sched : list vstep) : bool := gall vstep1 vfit_guard s sched.

(* volume ids known to the master after a run: registered by heartbeats or handed out *)
Fixpoint vknown (sched : list vstep) (outs : list (option ev)) : list N :=
  match sched, outs with
  | VHb v :: sched', _ :: outs' => v :: vknown sched' outs'
  | _ :: sched', Some (Ret _ v _) :: outs' => v :: vknown sched' outs'
  | _ :: sched', _ :: outs' => vknown sched' outs'
  | _, _ => []
  end.

Fixpoint rets (l : list (option ev)) : list N :=
  match l with
  | [] => []
  | Some (Ret _ v _) :: l' => v :: rets l'
  | _ :: l' => rets l'
  end.
