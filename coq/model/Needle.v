(* Model of the needle on-disk format (C02):
     weed/storage/needle/needle_read_write.go   prepareWriteBuffer / Append, ReadBytes / ReadData,
                                                readNeedleDataVersion2, ReadNeedleHeader, ReadNeedleBody(Bytes),
                                                PaddingLength, NeedleBodyLength, GetActualSize
     weed/storage/needle/crc.go                 CRC.Value (the CRC32-Castagnoli itself is an oracle: [crc])
     weed/storage/volume_read.go                ScanVolumeFileFrom
     weed/util/bytes.go                         big-endian put/get
   Executable definitions only; proofs are in proof/NeedleProofs.v.

   Bytes are [N] values < 256, byte strings are [list N].  Needle versions 2 and 3
   (every version other than 3 is treated as Version2; Version1 is not modelled).

   Interface for other models:  [needle], [encode], [read_bytes]/[read_data] (decode),
   [body_size] (n.Size), [actual_size], [padding_length], [parse_header], [scan],
   [scan_copy] (what a scan-based copy such as Volume.Compact writes). *)
From Coq Require Import List NArith Bool.
Import ListNotations.
Local Open Scope N_scope.

(* ---------- byte strings ---------- *)
Definition len {A} (l : list A) : N := N.of_nat (length l).
(* firstn / skipn with a binary counter (sizes read from a damaged file can be huge; no
   conversion to unary numbers) *)
Fixpoint takeN {A} (k : N) (l : list A) : list A :=
  match l with
  | [] => []
  | x :: r => if k =? 0 then [] else x :: takeN (N.pred k) r
  end.
Fixpoint dropN {A} (k : N) (l : list A) : list A :=
  match l with
  | [] => []
  | x :: r => if k =? 0 then l else dropN (N.pred k) r
  end.

(* util.Uint{16,32,64}toBytes: k bytes, big endian, of v mod 256^k *)
Fixpoint be_encode (k : nat) (v : N) : list N :=
  match k with
  | O => []
  | S k' => be_encode k' (v / 256) ++ [v mod 256]
  end.
(* util.BytesToUint{16,32,64} (no overflow for <= 8 bytes) *)
Definition be_decode (l : list N) : N := fold_left (fun a b => a * 256 + b) l 0.

(* ---------- constants (weed/storage/types, needle.go, needle_read_write.go) ---------- *)
Definition CookieSize : N := 4.
Definition NeedleIdSize : N := 8.
Definition SizeSize : N := 4.
Definition NeedleHeaderSize : N := 16.        (* CookieSize + NeedleIdSize + SizeSize *)
Definition NeedleChecksumSize : N := 4.
Definition TimestampSize : N := 8.
Definition NeedlePaddingSize : N := 8.
Definition LastModifiedBytesLength : N := 5.
Definition TtlBytesLength : N := 2.
Definition FlagIsCompressed : N := 1.          (* 0x01 *)
Definition FlagHasName : N := 2.               (* 0x02 *)
Definition FlagHasMime : N := 4.               (* 0x04 *)
Definition FlagHasLastModifiedDate : N := 8.   (* 0x08 *)
Definition FlagHasTtl : N := 16.               (* 0x10 *)
Definition FlagHasPairs : N := 32.             (* 0x20 *)
Definition FlagIsChunkManifest : N := 128.     (* 0x80 *)

(* ---------- the needle (the fields a writer supplies; Size/DataSize/NameSize/MimeSize are
   computed by prepareWriteBuffer and appear in [dneedle] on the read side) ---------- *)
Record needle := {
  cookie : N;                 (* uint32 *)
  id : N;                     (* uint64 *)
  data : list N;
  flags : N;                  (* byte *)
  name : list N;
  mime : list N;
  pairs_size : N;             (* uint16, set by the caller (CreateNeedleFromRequest: len(pairs)) *)
  pairs : list N;
  last_modified : N;          (* uint64, 5 bytes stored *)
  ttl : option (N * N);       (* *TTL: None = nil, Some (Count, Unit) *)
  checksum : N;               (* CRC (raw, before CRC.Value) *)
  append_at_ns : N            (* uint64, version 3 *)
}.

Definition has_flag (f bit : N) : bool := negb (N.land f bit =? 0).
Definition is_compressed (n : needle) := has_flag (flags n) FlagIsCompressed.
Definition has_name (n : needle) := has_flag (flags n) FlagHasName.
Definition has_mime (n : needle) := has_flag (flags n) FlagHasMime.
Definition has_lm (n : needle) := has_flag (flags n) FlagHasLastModifiedDate.
Definition has_ttl (n : needle) := has_flag (flags n) FlagHasTtl.
Definition has_pairs (n : needle) := has_flag (flags n) FlagHasPairs.
Definition is_chunk_manifest (n : needle) := has_flag (flags n) FlagIsChunkManifest.

(* CRC.Value(): uint32(c>>15 | c<<17) + 0xa282ead8.  For c < 2^32 the two shifted parts
   have disjoint bits, so the OR is the sum below. *)
Definition crc_value (c : N) : N :=
  (c / 32768 + (c mod 32768) * 131072 + 2726488792) mod 4294967296.

(* ---------- sizes ---------- *)
(* if len(n.Name) >= math.MaxUint8 { NameSize = 255 } else { NameSize = uint8(len) } *)
Definition name_size (n : needle) : N := if 255 <=? len (name n) then 255 else len (name n).
(* n.MimeSize = uint8(len(n.Mime)) *)
Definition mime_size (n : needle) : N := len (mime n) mod 256.
(* n.DataSize = uint32(len(n.Data)); blobs of 4 GiB are out of scope, no wrap modelled *)
Definition data_size (n : needle) : N := len (data n).

(* n.Size as computed by prepareWriteBuffer *)
Definition body_size (n : needle) : N :=
  if 0 <? data_size n then
    4 + data_size n + 1
    + (if has_name n then 1 + name_size n else 0)
    + (if has_mime n then 1 + mime_size n else 0)
    + (if has_lm n then LastModifiedBytesLength else 0)
    + (if has_ttl n then TtlBytesLength else 0)
    + (if has_pairs n then 2 + pairs_size n else 0)
  else 0.

Definition ts_size (v : N) : N := if v =? 3 then TimestampSize else 0.

(* PaddingLength: 1..8 *)
Definition padding_length (size v : N) : N :=
  NeedlePaddingSize - ((NeedleHeaderSize + size + NeedleChecksumSize + ts_size v) mod NeedlePaddingSize).
(* NeedleBodyLength *)
Definition body_length (size v : N) : N := size + NeedleChecksumSize + ts_size v + padding_length size v.
(* GetActualSize *)
Definition actual_size (size v : N) : N := NeedleHeaderSize + body_length size v.

(* ---------- prepareWriteBuffer ---------- *)
Definition header_bytes (n : needle) : list N :=
  be_encode 4 (cookie n) ++ be_encode 8 (id n) ++ be_encode 4 (body_size n).

Definition name_field (n : needle) : list N :=
  if has_name n then name_size n :: takeN (name_size n) (name n) else [].
Definition mime_field (n : needle) : list N :=
  if has_mime n then mime_size n :: mime n else [].
Definition lm_field (n : needle) : list N :=
  if has_lm n then be_encode 5 (last_modified n) else [].
(* if n.HasTtl() && n.Ttl != nil *)
Definition ttl_field (n : needle) : list N :=
  if has_ttl n then match ttl n with Some (c, u) => [c; u] | None => [] end else [].
Definition pairs_field (n : needle) : list N :=
  if has_pairs n then be_encode 2 (pairs_size n) ++ pairs n else [].

Definition body_bytes (n : needle) : list N :=
  if 0 <? data_size n then
    be_encode 4 (data_size n) ++ data n ++ [flags n]
    ++ name_field n ++ mime_field n ++ lm_field n ++ ttl_field n ++ pairs_field n
  else [].

(* The padding is whatever the 24-byte scratch buffer [header] holds after the checksum
   (and timestamp): version 2: header[4:12] = the low 4 bytes of LastModified (if it was
   written) or the high 4 bytes of the id, then the low 4 bytes of the id;
   version 3: header[12:20] = the size field, then zeros. *)
Definition pad_source (v : N) (n : needle) : list N :=
  if v =? 3 then be_encode 4 (body_size n) ++ [0; 0; 0; 0]
  else (if (0 <? data_size n) && has_lm n then be_encode 4 (last_modified n)
        else be_encode 4 (id n / 4294967296)) ++ be_encode 4 (id n).

Definition tail_bytes (v : N) (n : needle) : list N :=
  be_encode 4 (crc_value (checksum n))
  ++ (if v =? 3 then be_encode 8 (append_at_ns n) else [])
  ++ takeN (padding_length (body_size n) v) (pad_source v n).

Definition encode (v : N) (n : needle) : list N :=
  header_bytes n ++ body_bytes n ++ tail_bytes v n.

(* ---------- read side ---------- *)
(* the Go Needle struct after a read *)
Record dneedle := {
  d_n : needle;
  d_size : N;         (* Size as the uint32 read from the header *)
  d_data_size : N;
  d_name_size : N;
  d_mime_size : N
}.

Inductive status :=
| SOk
| SSizeMismatch            (* ErrorSizeMismatch / "entry not found" *)
| SRange (k : N)           (* "index out of range k" *)
| SCrc                     (* "CRC error! Data On Disk Corrupted" *)
| SPanic                   (* run-time panic: n.Flags = bytes[index] with index = len(bytes) *)
| SShort.                  (* ReadNeedleBlob: short read *)

Definition empty_needle : needle :=
  {| cookie := 0; id := 0; data := []; flags := 0; name := []; mime := []; pairs_size := 0;
     pairs := []; last_modified := 0; ttl := None; checksum := 0; append_at_ns := 0 |}.
Definition empty_dneedle : dneedle :=
  {| d_n := empty_needle; d_size := 0; d_data_size := 0; d_name_size := 0; d_mime_size := 0 |}.

(* field updates *)
Definition n_set_data (n : needle) x := {| cookie := cookie n; id := id n; data := x; flags := flags n; name := name n; mime := mime n; pairs_size := pairs_size n; pairs := pairs n; last_modified := last_modified n; ttl := ttl n; checksum := checksum n; append_at_ns := append_at_ns n |}.
Definition n_set_flags (n : needle) x := {| cookie := cookie n; id := id n; data := data n; flags := x; name := name n; mime := mime n; pairs_size := pairs_size n; pairs := pairs n; last_modified := last_modified n; ttl := ttl n; checksum := checksum n; append_at_ns := append_at_ns n |}.
Definition n_set_name (n : needle) x := {| cookie := cookie n; id := id n; data := data n; flags := flags n; name := x; mime := mime n; pairs_size := pairs_size n; pairs := pairs n; last_modified := last_modified n; ttl := ttl n; checksum := checksum n; append_at_ns := append_at_ns n |}.
Definition n_set_mime (n : needle) x := {| cookie := cookie n; id := id n; data := data n; flags := flags n; name := name n; mime := x; pairs_size := pairs_size n; pairs := pairs n; last_modified := last_modified n; ttl := ttl n; checksum := checksum n; append_at_ns := append_at_ns n |}.
Definition n_set_pairs_size (n : needle) x := {| cookie := cookie n; id := id n; data := data n; flags := flags n; name := name n; mime := mime n; pairs_size := x; pairs := pairs n; last_modified := last_modified n; ttl := ttl n; checksum := checksum n; append_at_ns := append_at_ns n |}.
Definition n_set_pairs (n : needle) x := {| cookie := cookie n; id := id n; data := data n; flags := flags n; name := name n; mime := mime n; pairs_size := pairs_size n; pairs := x; last_modified := last_modified n; ttl := ttl n; checksum := checksum n; append_at_ns := append_at_ns n |}.
Definition n_set_lm (n : needle) x := {| cookie := cookie n; id := id n; data := data n; flags := flags n; name := name n; mime := mime n; pairs_size := pairs_size n; pairs := pairs n; last_modified := x; ttl := ttl n; checksum := checksum n; append_at_ns := append_at_ns n |}.
Definition n_set_ttl (n : needle) x := {| cookie := cookie n; id := id n; data := data n; flags := flags n; name := name n; mime := mime n; pairs_size := pairs_size n; pairs := pairs n; last_modified := last_modified n; ttl := x; checksum := checksum n; append_at_ns := append_at_ns n |}.
Definition n_set_checksum (n : needle) x := {| cookie := cookie n; id := id n; data := data n; flags := flags n; name := name n; mime := mime n; pairs_size := pairs_size n; pairs := pairs n; last_modified := last_modified n; ttl := ttl n; checksum := x; append_at_ns := append_at_ns n |}.
Definition n_set_append (n : needle) x := {| cookie := cookie n; id := id n; data := data n; flags := flags n; name := name n; mime := mime n; pairs_size := pairs_size n; pairs := pairs n; last_modified := last_modified n; ttl := ttl n; checksum := checksum n; append_at_ns := x |}.

Definition d_upd (d : dneedle) (f : needle -> needle) : dneedle :=
  {| d_n := f (d_n d); d_size := d_size d; d_data_size := d_data_size d; d_name_size := d_name_size d; d_mime_size := d_mime_size d |}.
Definition d_set_data_size (d : dneedle) x := {| d_n := d_n d; d_size := d_size d; d_data_size := x; d_name_size := d_name_size d; d_mime_size := d_mime_size d |}.
Definition d_set_name_size (d : dneedle) x := {| d_n := d_n d; d_size := d_size d; d_data_size := d_data_size d; d_name_size := x; d_mime_size := d_mime_size d |}.
Definition d_set_mime_size (d : dneedle) x := {| d_n := d_n d; d_size := d_size d; d_data_size := d_data_size d; d_name_size := d_name_size d; d_mime_size := x |}.

(* ParseNeedleHeader: cookie, id, size *)
Definition parse_header (bs : list N) : N * N * N :=
  (be_decode (takeN 4 bs), be_decode (takeN 8 (dropN 4 bs)), be_decode (takeN 4 (dropN 12 bs))).

Definition header_needle (c i s : N) : dneedle :=
  {| d_n := {| cookie := c; id := i; data := []; flags := 0; name := []; mime := []; pairs_size := 0;
               pairs := []; last_modified := 0; ttl := None; checksum := 0; append_at_ns := 0 |};
     d_size := s; d_data_size := 0; d_name_size := 0; d_mime_size := 0 |}.

(* readNeedleDataVersion2, written over the not yet consumed suffix [rest] of the body
   instead of (bytes, index): "index < lenBytes" is "rest <> []", "k+index > lenBytes" is
   "len rest < k". *)
Inductive step_res :=
| Cont (rest : list N) (d : dneedle)
| Stop (d : dneedle) (s : status).

Definition step_data (rest : list N) (d : dneedle) : step_res :=
  match rest with
  | [] => Cont [] d
  | _ =>
      (* kept for the records the writer produces (body of 0 or >= 4 bytes); bodies of 1..3
         bytes answer the artificial SRange 0 here.  [read_bytes] and [scan_from] use the
         faithful [step_data_x] below. *)
      if len rest <? 4 then Stop d (SRange 0) else
      let ds := be_decode (takeN 4 rest) in
      let d1 := d_set_data_size d ds in
      let r1 := dropN 4 rest in
      if len r1 <? ds then Stop d1 (SRange 1) else
      let d2 := d_upd d1 (fun n => n_set_data n (takeN ds r1)) in
      match dropN ds r1 with
      | [] => Stop d2 SPanic
      | f :: r2 => Cont r2 (d_upd d2 (fun n => n_set_flags n f))
      end
  end.

Definition step_name (rest : list N) (d : dneedle) : step_res :=
  match rest with
  | [] => Cont [] d
  | b :: r1 =>
      if has_name (d_n d) then
        let d1 := d_set_name_size d b in
        if len r1 <? b then Stop d1 (SRange 2)
        else Cont (dropN b r1) (d_upd d1 (fun n => n_set_name n (takeN b r1)))
      else Cont rest d
  end.

Definition step_mime (rest : list N) (d : dneedle) : step_res :=
  match rest with
  | [] => Cont [] d
  | b :: r1 =>
      if has_mime (d_n d) then
        let d1 := d_set_mime_size d b in
        if len r1 <? b then Stop d1 (SRange 3)
        else Cont (dropN b r1) (d_upd d1 (fun n => n_set_mime n (takeN b r1)))
      else Cont rest d
  end.

Definition step_lm (rest : list N) (d : dneedle) : step_res :=
  match rest with
  | [] => Cont [] d
  | _ =>
      if has_lm (d_n d) then
        if len rest <? LastModifiedBytesLength then Stop d (SRange 4)
        else Cont (dropN 5 rest) (d_upd d (fun n => n_set_lm n (be_decode (takeN 5 rest))))
      else Cont rest d
  end.

(* LoadTTLFromBytes: (0,0) is EMPTY_TTL, whose value is TTL{0,0} *)
Definition step_ttl (rest : list N) (d : dneedle) : step_res :=
  match rest with
  | [] => Cont [] d
  | _ =>
      if has_ttl (d_n d) then
        match rest with
        | c :: u :: r2 => Cont r2 (d_upd d (fun n => n_set_ttl n (Some (c, u))))
        | _ => Stop d (SRange 5)
        end
      else Cont rest d
  end.

Definition step_pairs (rest : list N) (d : dneedle) : step_res :=
  match rest with
  | [] => Cont [] d
  | _ =>
      if has_pairs (d_n d) then
        if len rest <? 2 then Stop d (SRange 6) else
        let ps := be_decode (takeN 2 rest) in
        let d1 := d_upd d (fun n => n_set_pairs_size n ps) in
        let r1 := dropN 2 rest in
        if len r1 <? ps then Stop d1 (SRange 7)
        else Cont (dropN ps r1) (d_upd d1 (fun n => n_set_pairs n (takeN ps r1)))
      else Cont rest d
  end.

Definition and_then (r : step_res) (f : list N -> dneedle -> step_res) : step_res :=
  match r with Cont rest d => f rest d | Stop d s => Stop d s end.

Definition read_v2 (body : list N) (d : dneedle) : step_res :=
  and_then (and_then (and_then (and_then (and_then (step_data body d) step_name) step_mime) step_lm) step_ttl) step_pairs.

(* The same with the bytes that FOLLOW the body in the blob ([ext]: checksum, timestamp,
   padding).  Go slices bytes[0:4] within the CAPACITY of the blob, so for a body of 1..3
   bytes DataSize is read across the end of the body and the bounds check that follows
   answers "index out of range 1".  The writer never produces such a body; a damaged or
   foreign file can.  For bodies of 0 or >= 4 bytes [ext] is not looked at
   (NeedleProofs.read_v2_x_eq). *)
Definition step_data_x (ext rest : list N) (d : dneedle) : step_res :=
  match rest with
  | [] => Cont [] d
  | _ =>
      let ds := be_decode (takeN 4 (rest ++ ext)) in
      let d1 := d_set_data_size d ds in
      let r1 := dropN 4 rest in
      if (len rest <? 4) || (len r1 <? ds) then Stop d1 (SRange 1) else
      let d2 := d_upd d1 (fun n => n_set_data n (takeN ds r1)) in
      match dropN ds r1 with
      | [] => Stop d2 SPanic
      | f :: r2 => Cont r2 (d_upd d2 (fun n => n_set_flags n f))
      end
  end.

Definition read_v2_x (ext body : list N) (d : dneedle) : step_res :=
  and_then (and_then (and_then (and_then (and_then (step_data_x ext body d) step_name) step_mime) step_lm) step_ttl) step_pairs.

(* what ReadNeedleBodyBytes leaves in the needle: an error return keeps what was decoded so
   far, the run-time panic (SPanic) does not return *)
Definition body_result (r : step_res) : option dneedle :=
  match r with
  | Stop _ SPanic => None
  | Stop d _ => Some d
  | Cont _ d => Some d
  end.

Section WithCrc.
  (* oracle: NewCRC(b), i.e. CRC32-Castagnoli of the byte string (github.com/klauspost/crc32);
     model/NeedleCrc.v defines it ([crc32c]), the statements here hold for any function *)
  Variable crc : list N -> N.

  (* Needle.ReadBytes(bytes, offset, size, version); [size] is the size the caller expects
     (from the needle map) *)
  Definition read_bytes (bs : list N) (size v : N) : dneedle * status :=
    let '(c, i, hs) := parse_header bs in
    let d0 := header_needle c i hs in
    if negb (hs =? size) then (d0, SSizeMismatch) else
    match read_v2_x (dropN (NeedleHeaderSize + hs) bs) (takeN hs (dropN NeedleHeaderSize bs)) d0 with
    | Stop d s => (d, s)
    | Cont _ d1 =>
        let tl := dropN (NeedleHeaderSize + size) bs in
        let newc := crc (data (d_n d1)) in
        if (0 <? size) && negb (be_decode (takeN 4 tl) =? crc_value newc) then (d1, SCrc) else
        let d2 := if 0 <? size then d_upd d1 (fun n => n_set_checksum n newc) else d1 in
        let d3 := if v =? 3 then d_upd d2 (fun n => n_set_append n (be_decode (takeN 8 (dropN 4 tl)))) else d2 in
        (d3, SOk)
    end.

  (* Needle.ReadData: ReadNeedleBlob(offset, size) then ReadBytes *)
  Definition read_data (file : list N) (off size v : N) : dneedle * status :=
    let blob := takeN (actual_size size v) (dropN off file) in
    if len blob <? actual_size size v then (empty_dneedle, SShort)
    else read_bytes blob size v.

  (* ScanVolumeFileFrom with a visitor that asks for the body and never fails; [rest] is the
     file content from [off] on.  Result: the (needle, offset) pairs handed to VisitNeedle.
     Sizes >= 2^31 (negative Size) are outside the model. *)
  Fixpoint scan_from (fuel : nat) (v : N) (rest : list N) (off : N) : list (dneedle * N) :=
    match fuel with
    | O => []
    | S fuel' =>
        (* ReadNeedleHeader: a short read is io.EOF, the scan ends *)
        if len rest <? NeedleHeaderSize then [] else
        let '(c, i, hs) := parse_header rest in
        let d0 := header_needle c i hs in
        let bl := body_length hs v in
        let body := takeN bl (dropN NeedleHeaderSize rest) in
        (* ReadNeedleBody: a short read is logged and ignored; the needle is visited with
           its header only and the next header read hits the end of the file *)
        if len body <? bl then [(d0, off)] else
        (* ReadNeedleBodyBytes: the error of readNeedleDataVersion2 is only logged; its
           run-time panic (n.Flags = bytes[index] at the end of the body) leaves
           ScanVolumeFileFrom: that record and everything behind it is not visited *)
        match body_result (read_v2_x (dropN hs body) (takeN hs body) d0) with
        | None => []
        | Some d1 =>
        let d2 := d_upd d1 (fun n => n_set_checksum n (crc (data (d_n d1)))) in
        let d3 := if v =? 3 then d_upd d2 (fun n => n_set_append n (be_decode (takeN 8 (dropN (hs + NeedleChecksumSize) body)))) else d2 in
        (d3, off) :: scan_from fuel' v (dropN (NeedleHeaderSize + bl) rest) (off + NeedleHeaderSize + bl)
        end
    end.

  Definition scan (v : N) (file : list N) (off : N) : list (dneedle * N) :=
    scan_from (length file) v (dropN off file) off.

  (* does the scan end in that panic? (same walk) *)
  Fixpoint scan_panics_from (fuel : nat) (v : N) (rest : list N) : bool :=
    match fuel with
    | O => false
    | S fuel' =>
        if len rest <? NeedleHeaderSize then false else
        let '(c, i, hs) := parse_header rest in
        let bl := body_length hs v in
        let body := takeN bl (dropN NeedleHeaderSize rest) in
        if len body <? bl then false else
        match body_result (read_v2_x (dropN hs body) (takeN hs body) (header_needle c i hs)) with
        | None => true
        | Some _ => scan_panics_from fuel' v (dropN (NeedleHeaderSize + bl) rest)
        end
    end.

  Definition scan_panics (v : N) (file : list N) (off : N) : bool :=
    scan_panics_from (length file) v (dropN off file).

  (* The scan-based copy (Volume.Compact: ScanVolumeFile with VolumeFileScanner4Vacuum, and
     any other visitor that re-appends what it is handed): every visited needle is written
     again with Needle.Append.  The needle-map and TTL filters of the vacuum visitor are not
     part of this model (they belong to C04): every visit is copied.  Per visit VisitNeedle
     records (new offset, n.Size as read from the old header) in the new index BEFORE Append
     recomputes n.Size, then advances by DiskSize of the recomputed size. *)
  Fixpoint copy_entries (v : N) (vs : list (dneedle * N)) (noff : N) : list (N * N) :=
    match vs with
    | [] => []
    | (d, _) :: vs' => (noff, d_size d) :: copy_entries v vs' (noff + actual_size (body_size (d_n d)) v)
    end.

  Definition copy_bytes (v : N) (vs : list (dneedle * N)) : list N :=
    concat (map (fun p => encode v (d_n (fst p))) vs).

  (* [npre]: what the copy starts with (the super block with its compaction revision
     incremented); the records follow *)
  Definition scan_copy (v : N) (npre file : list N) (off : N) : list N :=
    npre ++ copy_bytes v (scan v file off).

  Definition scan_copy_index (v : N) (npre file : list N) (off : N) : list (N * N) :=
    copy_entries v (scan v file off) (len npre).
End WithCrc.

(* ---------- what a reader is entitled to get back ---------- *)
(* The blob a needle denotes: fields whose flag is not set are not part of it (they are not
   stored); the append timestamp exists in version 3 only. *)
Definition view (v : N) (n : needle) : needle :=
  {| cookie := cookie n; id := id n; data := data n; flags := flags n;
     name := if has_name n then name n else [];
     mime := if has_mime n then mime n else [];
     pairs_size := if has_pairs n then pairs_size n else 0;
     pairs := if has_pairs n then pairs n else [];
     last_modified := if has_lm n then last_modified n else 0;
     ttl := if has_ttl n then ttl n else None;
     checksum := checksum n;
     append_at_ns := if v =? 3 then append_at_ns n else 0 |}.

Definition dview (v : N) (n : needle) : dneedle :=
  {| d_n := view v n; d_size := body_size n; d_data_size := data_size n;
     d_name_size := if has_name n then name_size n else 0;
     d_mime_size := if has_mime n then mime_size n else 0 |}.

(* what is left of a needle written with empty data: header and timestamp only *)
Definition stripped (v : N) (n : needle) (ck : N) : dneedle :=
  {| d_n := {| cookie := cookie n; id := id n; data := []; flags := 0; name := []; mime := [];
               pairs_size := 0; pairs := []; last_modified := 0; ttl := None; checksum := ck;
               append_at_ns := if v =? 3 then append_at_ns n else 0 |};
     d_size := 0; d_data_size := 0; d_name_size := 0; d_mime_size := 0 |}.

(* ---------- decidable equality helpers (used by the check and by examples) ---------- *)
Fixpoint bytes_eqb (a b : list N) : bool :=
  match a, b with
  | [], [] => true
  | x :: a', y :: b' => (x =? y) && bytes_eqb a' b'
  | _, _ => false
  end.

Definition ttl_eqb (a b : option (N * N)) : bool :=
  match a, b with
  | None, None => true
  | Some (c1, u1), Some (c2, u2) => (c1 =? c2) && (u1 =? u2)
  | _, _ => false
  end.

Definition needle_eqb (a b : needle) : bool :=
  (cookie a =? cookie b) && (id a =? id b) && bytes_eqb (data a) (data b) && (flags a =? flags b)
  && bytes_eqb (name a) (name b) && bytes_eqb (mime a) (mime b) && (pairs_size a =? pairs_size b)
  && bytes_eqb (pairs a) (pairs b) && (last_modified a =? last_modified b) && ttl_eqb (ttl a) (ttl b)
  && (checksum a =? checksum b) && (append_at_ns a =? append_at_ns b).

Definition dneedle_eqb (a b : dneedle) : bool :=
  needle_eqb (d_n a) (d_n b) && (d_size a =? d_size b) && (d_data_size a =? d_data_size b)
  && (d_name_size a =? d_name_size b) && (d_mime_size a =? d_mime_size b).

Definition status_code (s : status) : N :=
  match s with
  | SOk => 0 | SSizeMismatch => 1 | SCrc => 2 | SPanic => 3 | SShort => 4 | SRange k => 10 + k
  end.
