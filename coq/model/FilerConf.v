(* Model of weed/filer/filer_conf.go: FilerConf over a ptrie (C23).
   Executable definitions only; proofs are in proof/FilerConfProofs.v. *)
From Coq Require Import List NArith Bool String Arith.
Import ListNotations.
Local Open Scope string_scope.

Record conf := {
  collection : string; replication : string; ttl : string; disk_type : string;
  fsync : bool; growth : N; read_only : bool }.

Definition empty_conf : conf :=
  {| collection := ""; replication := ""; ttl := ""; disk_type := "";
     fsync := false; growth := 0%N; read_only := false |}.

Definition rule := (string * conf)%type.
(* ptrie contents: one value per key; order of the list is irrelevant to matching *)
Definition rules := list rule.

Definition str_nonempty (s : string) : bool := negb (String.eqb s "").

(* util.Nvl(b, a): first non-empty *)
Definition nvl (b a : string) : string := if str_nonempty b then b else a.

(* mergePathConf(a, b) *)
Definition merge (a b : conf) : conf :=
  {| collection := nvl (collection b) (collection a);
     replication := nvl (replication b) (replication a);
     ttl := nvl (ttl b) (ttl a);
     disk_type := if str_nonempty (disk_type b) then disk_type b else disk_type a;
     fsync := fsync b || fsync a;
     growth := if (0 <? growth b)%N then growth b else growth a;
     read_only := if read_only b then read_only b else read_only a |}.

(* AddLocationConf: ptrie.Put replaces the value of an existing key *)
Definition remove_key (p : string) (rs : rules) : rules :=
  filter (fun r => negb (String.eqb (fst r) p)) rs.
Definition put (rs : rules) (p : string) (c : conf) : rules := (p, c) :: remove_key p rs.
(* DeleteLocationConf: walk and re-insert everything but the key *)
Definition del (rs : rules) (p : string) : rules := remove_key p rs.

(* MatchPrefix visits the stored keys that prefix the input, shortest first
   (a walk from the trie root). *)
Fixpoint insert_by_len (r : rule) (l : list rule) : list rule :=
  match l with
  | [] => [r]
  | x :: l' => if Nat.leb (String.length (fst r)) (String.length (fst x)) then r :: l else x :: insert_by_len r l'
  end.
Definition sort_by_len (l : list rule) : list rule := fold_right insert_by_len [] l.

Definition matching (rs : rules) (path : string) : list rule :=
  sort_by_len (filter (fun r => String.prefix (fst r) path) rs).

Definition match_rule (rs : rules) (path : string) : conf :=
  fold_left merge (map snd (matching rs path)) empty_conf.

(* ---- reference resolver (the property's oracle): per field, the value of the
   longest matching rule that sets the field ---- *)
Definition best (set : conf -> bool) (rs : rules) (path : string) : option rule :=
  fold_left (fun acc r =>
    if String.prefix (fst r) path && set (snd r) then
      match acc with
      | None => Some r
      | Some b => if Nat.ltb (String.length (fst b)) (String.length (fst r)) then Some r else acc
      end
    else acc) rs None.

Definition ref_field {A} (set : conf -> bool) (get : conf -> A) (dflt : A) rs path : A :=
  match best set rs path with Some r => get (snd r) | None => dflt end.

Definition set_collection c := str_nonempty (collection c).
Definition set_replication c := str_nonempty (replication c).
Definition set_ttl c := str_nonempty (ttl c).
Definition set_disk_type c := str_nonempty (disk_type c).
Definition set_fsync c := fsync c.
Definition set_growth c := (0 <? growth c)%N.
Definition set_read_only c := read_only c.

Definition ref_match (rs : rules) (path : string) : conf :=
  {| collection := ref_field set_collection collection "" rs path;
     replication := ref_field set_replication replication "" rs path;
     ttl := ref_field set_ttl ttl "" rs path;
     disk_type := ref_field set_disk_type disk_type "" rs path;
     fsync := ref_field set_fsync fsync false rs path;
     growth := ref_field set_growth growth 0%N rs path;
     read_only := ref_field set_read_only read_only false rs path |}.

Definition conf_eqb (a b : conf) : bool :=
  String.eqb (collection a) (collection b) && String.eqb (replication a) (replication b) &&
  String.eqb (ttl a) (ttl b) && String.eqb (disk_type a) (disk_type b) &&
  Bool.eqb (fsync a) (fsync b) && N.eqb (growth a) (growth b) && Bool.eqb (read_only a) (read_only b).

Definition rule_eqb (a b : rule) : bool := String.eqb (fst a) (fst b) && conf_eqb (snd a) (snd b).

(* ---- the declarative oracle, executable: "v is the value of a longest matching rule
   that sets the field, or the default when no matching rule sets it" ---- *)
Definition cands (set : conf -> bool) (rs : rules) (path : string) : list rule :=
  filter (fun r => String.prefix (fst r) path && set (snd r)) rs.

Definition field_ok {A} (eqb : A -> A -> bool) (set : conf -> bool) (get : conf -> A) (dflt : A)
    (rs : rules) (path : string) (v : A) : bool :=
  match cands set rs path with
  | [] => eqb v dflt
  | cs => existsb (fun r => eqb v (get (snd r)) &&
                   forallb (fun r' => Nat.leb (String.length (fst r')) (String.length (fst r))) cs) cs
  end.

Definition match_ok (rs : rules) (path : string) (c : conf) : bool :=
  field_ok String.eqb set_collection collection "" rs path (collection c) &&
  field_ok String.eqb set_replication replication "" rs path (replication c) &&
  field_ok String.eqb set_ttl ttl "" rs path (ttl c) &&
  field_ok String.eqb set_disk_type disk_type "" rs path (disk_type c) &&
  field_ok Bool.eqb set_fsync fsync false rs path (fsync c) &&
  field_ok N.eqb set_growth growth 0%N rs path (growth c) &&
  field_ok Bool.eqb set_read_only read_only false rs path (read_only c).

(* ---- ToProto: ptrie.Walk visits the stored keys in byte-lexicographic order
   (pre-order over children sorted by first byte) ---- *)
Fixpoint insert_by_key (r : rule) (l : list rule) : list rule :=
  match l with
  | [] => [r]
  | x :: l' => if String.leb (fst r) (fst x) then r :: l else x :: insert_by_key r l'
  end.
Definition dump (rs : rules) : list rule := fold_right insert_by_key [] rs.

(* ---- operation histories ---- *)
Inductive op :=
| Add (p : string) (c : conf)     (* AddLocationConf of a conf whose LocationPrefix is p *)
| Del (p : string)                (* DeleteLocationConf *)
| Match (path : string)           (* MatchStorageRule *)
| Load (l : list rule)            (* LoadFromBytes of a filer.conf with these locations, into the same FilerConf *)
| Reload                          (* ToText, then LoadFromBytes of that text into a fresh FilerConf which replaces this one *)
| LoadBad                         (* LoadFromBytes of text that is not a filer.conf *)
| Dump.                           (* ToProto *)

Inductive obs :=
| ODone                           (* returned, err = nil *)
| OPanic                          (* the call panicked (ptrie.Put indexes key[0]) *)
| OErr                            (* returned an error *)
| OConf (lp : string) (c : conf)  (* the PathConf returned by MatchStorageRule, with its LocationPrefix *)
| ORules (l : list rule).         (* ToProto().Locations in order: (LocationPrefix, settings) *)

(* doLoadConf: AddLocationConf one by one; an empty prefix panics out of the loop *)
Fixpoint load (rs : rules) (l : list rule) : rules * obs :=
  match l with
  | [] => (rs, ODone)
  | r :: l' => if str_nonempty (fst r) then load (put rs (fst r) (snd r)) l' else (rs, OPanic)
  end.

(* finding 0: an empty location prefix *)
Definition op_empty_prefix (o : op) : bool :=
  match o with
  | Add p _ => negb (str_nonempty p)
  | Load l => existsb (fun r => negb (str_nonempty (fst r))) l
  | _ => false
  end.

Definition step_with (m : rules -> string -> conf) (rs : rules) (o : op) : rules * obs :=
  match o with
  | Add p c => if str_nonempty p then (put rs p c, ODone) else (rs, OPanic)
  | Del p => (del rs p, ODone)
  | Match path => (rs, OConf "" (m rs path))
  | Load l => load rs l
  | Reload => load [] (dump rs)
  | LoadBad => (rs, OErr)
  | Dump => (rs, ORules (dump rs))
  end.

Fixpoint run_with (m : rules -> string -> conf) (rs : rules) (ops : list op) : list obs :=
  match ops with
  | [] => []
  | o :: ops' => let '(rs', out) := step_with m rs o in out :: run_with m rs' ops'
  end.

Definition step := step_with match_rule.
Definition run := run_with match_rule.
(* the same history through the reference resolver *)
Definition ref_step := step_with ref_match.
Definition ref_run := run_with ref_match.
