(* Model of weed/filer/filer_conf.go: FilerConf over a ptrie (C23).
   Executable definitions only; proofs are in proof/FilerConfProofs.v. *)
From Coq Require Import List NArith Bool String Arith.
Import ListNotations.
Local Open Scope string_scope.

Record conf := {
  collection : string; replication : string; ttl : string; disk_type : string;
  fsync : bool; growth : N; read_only : bool }.

Definition empty_conf : conf :=
  {| collection := ""; replication := ""; ttl := ""; disk_type := "";
     fsync := false; growth := 0%N; read_only := false |}.

Definition rule := (string * conf)%type.
(* ptrie contents: one value per key; order of the list is irrelevant to matching *)
Definition rules := list rule.

Definition str_nonempty (s : string) : bool := negb (String.eqb s "").

(* util.Nvl(b, a): first non-empty *)
Definition nvl (b a : string) : string := if str_nonempty b then b else a.

(* mergePathConf(a, b) *)
Definition merge (a b : conf) : conf :=
  {| collection := nvl (collection b) (collection a);
     replication := nvl (replication b) (replication a);
     ttl := nvl (ttl b) (ttl a);
     disk_type := if str_nonempty (disk_type b) then disk_type b else disk_type a;
     fsync := fsync b || fsync a;
     growth := if (0 <? growth b)%N then growth b else growth a;
     read_only := if read_only b then read_only b else read_only a |}.

(* AddLocationConf: ptrie.Put replaces the value of an existing key *)
Definition remove_key (p : string) (rs : rules) : rules :=
  filter (fun r => negb (String.eqb (fst r) p)) rs.
Definition put (rs : rules) (p : string) (c : conf) : rules := (p, c) :: remove_key p rs.
(* DeleteLocationConf: walk and re-insert everything but the key *)
Definition del (rs : rules) (p : string) : rules := remove_key p rs.

(* MatchPrefix visits the stored keys that prefix the input, shortest first
   (a walk from the trie root). *)
Fixpoint insert_by_len (r : rule) (l : list rule) : list rule :=
  match l with
  | [] => [r]
  | x :: l' => if Nat.leb (String.length (fst r)) (String.length (fst x)) then r :: l else x :: insert_by_len r l'
  end.
Definition sort_by_len (l : list rule) : list rule := fold_right insert_by_len [] l.

Definition matching (rs : rules) (path : string) : list rule :=
  sort_by_len (filter (fun r => String.prefix (fst r) path) rs).

Definition match_rule (rs : rules) (path : string) : conf :=
  fold_left merge (map snd (matching rs path)) empty_conf.

(* ---- reference resolver (the property's oracle): per field, the value of the
   longest matching rule that sets the field ---- *)
Definition best (set : conf -> bool) (rs : rules) (path : string) : option rule :=
  fold_left (fun acc r =>
    if String.prefix (fst r) path && set (snd r) then
      match acc with
      | None => Some r
      | Some b => if Nat.ltb (String.length (fst b)) (String.length (fst r)) then Some r else acc
      end
    else acc) rs None.

Definition ref_field {A} (set : conf -> bool) (get : conf -> A) (dflt : A) rs path : A :=
  match best set rs path with Some r => get (snd r) | None => dflt end.

Definition set_collection c := str_nonempty (collection c).
Definition set_replication c := str_nonempty (replication c).
Definition set_ttl c := str_nonempty (ttl c).
Definition set_disk_type c := str_nonempty (disk_type c).
Definition set_fsync c := fsync c.
Definition set_growth c := (0 <? growth c)%N.
Definition set_read_only c := read_only c.

Definition ref_match (rs : rules) (path : string) : conf :=
  {| collection := ref_field set_collection collection "" rs path;
     replication := ref_field set_replication replication "" rs path;
     ttl := ref_field set_ttl ttl "" rs path;
     disk_type := ref_field set_disk_type disk_type "" rs path;
     fsync := ref_field set_fsync fsync false rs path;
     growth := ref_field set_growth growth 0%N rs path;
     read_only := ref_field set_read_only read_only false rs path |}.

Definition conf_eqb (a b : conf) : bool :=
  String.eqb (collection a) (collection b) && String.eqb (replication a) (replication b) &&
  String.eqb (ttl a) (ttl b) && String.eqb (disk_type a) (disk_type b) &&
  Bool.eqb (fsync a) (fsync b) && N.eqb (growth a) (growth b) && Bool.eqb (read_only a) (read_only b).

(* ---- operation histories ---- *)
Inductive op :=
| Add (p : string) (c : conf)
| Del (p : string)
| Match (path : string).

Definition step (rs : rules) (o : op) : rules * option conf :=
  match o with
  | Add p c => (put rs p c, None)
  | Del p => (del rs p, None)
  | Match path => (rs, Some (match_rule rs path))
  end.

Fixpoint run (rs : rules) (ops : list op) : list (option conf) :=
  match ops with
  | [] => []
  | o :: ops' => let '(rs', out) := step rs o in out :: run rs' ops'
  end.

(* the same history through the reference resolver *)
Definition ref_step (rs : rules) (o : op) : rules * option conf :=
  match o with
  | Add p c => (put rs p c, None)
  | Del p => (del rs p, None)
  | Match path => (rs, Some (ref_match rs path))
  end.
Fixpoint ref_run (rs : rules) (ops : list op) : list (option conf) :=
  match ops with
  | [] => []
  | o :: ops' => let '(rs', out) := ref_step rs o in out :: ref_run rs' ops'
  end.
