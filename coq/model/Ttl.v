(* Model of the TTL rules of SeaweedFS (property C09).
     weed/storage/needle/volume_ttl.go   TTL, ReadTTL, Minutes, String, ToBytes,
                                         LoadTTLFromBytes, ToUint32, SecondsToTTL
     weed/storage/needle/needle.go       CreateNeedleFromRequest (ttl=, ts=)
     weed/storage/volume_write.go        writeNeedle2 / doWriteRequest
     weed/storage/volume_read.go         readNeedle: expiry test on read
     weed/storage/volume_vacuum.go       compaction filter (both Compact and Compact2)
     weed/storage/volume.go, store.go    expired / expiredLongEnough / heartbeat deletion
     weed/filer/filer.go                 FindEntry expiry
   Executable definitions only; proofs are in proof/TtlProofs.v.
   Time is an explicit input: [now] in nanoseconds since the epoch (time.Now()),
   the code's second-granular clock reads are [now / 10^9]. *)
From Coq Require Import List NArith ZArith Bool String Ascii DecimalString.
Import ListNotations.
Local Open Scope N_scope.

(* ---------- TTL = (Count byte, Unit byte) ---------- *)
Record ttl := { t_count : N; t_unit : N }.

Definition EMPTY_TTL : ttl := {| t_count := 0; t_unit := 0 |}.
(* stored unit types: Empty=0 Minute=1 Hour=2 Day=3 Week=4 Month=5 Year=6 *)

Definition ttl_eqb (a b : ttl) : bool := (t_count a =? t_count b) && (t_unit a =? t_unit b).

(* TTL.Minutes(): uint32 arithmetic; 255*60*24*365 < 2^32, so no wrap for a byte count *)
Definition minutes (t : ttl) : N :=
  match t_unit t with
  | 1 => t_count t
  | 2 => t_count t * 60
  | 3 => t_count t * 60 * 24
  | 4 => t_count t * 60 * 24 * 7
  | 5 => t_count t * 60 * 24 * 30
  | 6 => t_count t * 60 * 24 * 365
  | _ => 0
  end.

(* ToBytes / LoadTTLFromBytes / ToUint32 / LoadTTLFromUint32 *)
Definition to_bytes (t : ttl) : N * N := (t_count t, t_unit t).
Definition load_from_bytes (b0 b1 : N) : ttl :=
  if (b0 =? 0) && (b1 =? 0) then EMPTY_TTL else {| t_count := b0; t_unit := b1 |}.
Definition to_uint32 (t : ttl) : N :=
  if t_count t =? 0 then 0 else t_count t * 256 + t_unit t.
Definition load_from_uint32 (v : N) : ttl := load_from_bytes ((v / 256) mod 256) (v mod 256).

(* decimal printing: strconv.Itoa / fmt "%d" *)
Definition dec (n : N) : string := NilEmpty.string_of_uint (N.to_uint n).
Definition dec_z (z : Z) : string :=
  if (z <? 0)%Z then String "-" (dec (Z.abs_N z)) else dec (Z.to_N z).

Definition unit_char (u : N) : option ascii :=
  match u with
  | 1 => Some "m"%char | 2 => Some "h"%char | 3 => Some "d"%char
  | 4 => Some "w"%char | 5 => Some "M"%char | 6 => Some "y"%char
  | _ => None
  end.

(* TTL.String() *)
Definition ttl_string (t : ttl) : string :=
  if t_count t =? 0 then EmptyString else
  match unit_char (t_unit t) with
  | Some c => (dec (t_count t) ++ String c EmptyString)%string
  | None => EmptyString
  end.

(* toStoredByte *)
Definition to_stored_byte (c : ascii) : N :=
  match N_of_ascii c with
  | 109 => 1 (* m *) | 104 => 2 (* h *) | 100 => 3 (* d *)
  | 119 => 4 (* w *) | 77 => 5 (* M *) | 121 => 6 (* y *)
  | _ => 0
  end.

Definition is_digit (c : ascii) : bool := let n := N_of_ascii c in (48 <=? n) && (n <=? 57).

(* strconv.Atoi on inputs shorter than 19 bytes: optional sign, then one or more
   decimal digits; anything else is a syntax error and the value is 0. *)
Definition digits_value (s : string) : option N :=
  match s with
  | EmptyString => None
  | _ => match NilEmpty.uint_of_string s with
         | Some u => Some (N.of_uint u)
         | None => None
         end
  end.
Definition atoi (s : string) : Z :=
  match s with
  | String c r =>
      if Ascii.eqb c "-" then match digits_value r with Some n => (- Z.of_N n)%Z | None => 0%Z end
      else if Ascii.eqb c "+" then match digits_value r with Some n => Z.of_N n | None => 0%Z end
      else match digits_value s with Some n => Z.of_N n | None => 0%Z end
  | EmptyString => 0%Z
  end.

(* byte(count): two's complement truncation *)
Definition byte_of_z (z : Z) : N := Z.to_N (z mod 256)%Z.

(* the string without its last byte, and the last byte *)
Fixpoint split_last (s : string) : string * ascii :=
  match s with
  | EmptyString => (EmptyString, zero)
  | String c EmptyString => (EmptyString, c)
  | String c r => let '(b, l) := split_last r in (String c b, l)
  end.

(* ReadTTL: the TTL value it returns (its error value is property C08's business) *)
Definition read_ttl (s : string) : ttl :=
  match s with
  | EmptyString => EMPTY_TTL
  | _ =>
      let '(body, last) := split_last s in
      if is_digit last
      then {| t_count := byte_of_z (atoi s); t_unit := 1 |}
      else {| t_count := byte_of_z (atoi body); t_unit := to_stored_byte last |}
  end.

(* ---------- SecondsToTTL(seconds int32) ---------- *)
Definition fmt_ttl (q : Z) (c : ascii) : string := (dec_z q ++ String c EmptyString)%string.

Definition SEC_YEAR : Z := 31536000.   (* 3600*24*365 *)
Definition SEC_MONTH : Z := 2592000.   (* 3600*24*30 *)
Definition SEC_WEEK : Z := 604800.     (* 3600*24*7 *)
Definition SEC_DAY : Z := 86400.       (* 3600*24 *)
Definition SEC_HOUR : Z := 3600.
Definition SEC_MINUTE : Z := 60.

(* Go's % and / on int32 truncate toward zero: Z.rem / Z.quot *)
Definition seconds_to_ttl (s : Z) : string :=
  let exact U := (Z.rem s U =? 0)%Z && (Z.quot s U <? 256)%Z in
  let fits U := (Z.quot s U <? 256)%Z in
  if (s =? 0)%Z then EmptyString
  else if exact SEC_YEAR then fmt_ttl (Z.quot s SEC_YEAR) "y"
  else if exact SEC_MONTH then fmt_ttl (Z.quot s SEC_MONTH) "M"
  else if exact SEC_WEEK then fmt_ttl (Z.quot s SEC_WEEK) "w"
  else if exact SEC_DAY then fmt_ttl (Z.quot s SEC_DAY) "d"
  else if exact SEC_HOUR then fmt_ttl (Z.quot s SEC_HOUR) "h"
  else if fits SEC_MINUTE then fmt_ttl (Z.quot s SEC_MINUTE) "m"
  else if fits SEC_HOUR then fmt_ttl (Z.quot s SEC_HOUR) "h"
  else if fits SEC_DAY then fmt_ttl (Z.quot s SEC_DAY) "d"
  else if fits SEC_WEEK then fmt_ttl (Z.quot s SEC_WEEK) "w"
  else if fits SEC_MONTH then fmt_ttl (Z.quot s SEC_MONTH) "M"
  else if fits SEC_YEAR then fmt_ttl (Z.quot s SEC_YEAR) "y"
  else EmptyString.

(* the TTL of the volumes (and, by inheritance in writeNeedle2, of the chunks) a
   filer entry with TtlSec = s is stored in: StorageOption.TtlString -> master ReadTTL *)
Definition filer_volume_ttl (s : Z) : ttl := read_ttl (seconds_to_ttl s).

(* a TTL of 0 minutes means "no expiry" everywhere in the volume code *)
Definition ttl_covers (t : ttl) (s : Z) : bool :=
  (minutes t =? 0) || (s <=? 60 * Z.of_N (minutes t))%Z.

(* s is exactly a byte count of one of the six units *)
Definition representable (s : Z) : bool :=
  existsb (fun U => (Z.rem s U =? 0)%Z && (Z.quot s U <? 256)%Z)
          [SEC_YEAR; SEC_MONTH; SEC_WEEK; SEC_DAY; SEC_HOUR; SEC_MINUTE].

(* ---------- stored needles ---------- *)
Definition NS : N := 1000000000.       (* nanoseconds per second *)
Definition MIN_NS : N := 60000000000.  (* time.Minute *)

(* the fields of a stored record (as Needle.ReadData returns them) the TTL rules read *)
Record needle := {
  has_ttl : bool;            (* FlagHasTtl *)
  has_lm : bool;             (* FlagHasLastModifiedDate *)
  n_ttl : ttl;
  last_modified : N;         (* seconds; 0 when the flag is absent *)
  append_at_ns : N           (* version 3 records *)
}.

(* CreateNeedleFromRequest: ttl= and ts= query parameters, [parse_s] = time.Now().Unix()
   when the request is parsed.  n.Ttl != EMPTY_TTL is a pointer comparison:
   ReadTTL returns the EMPTY_TTL pointer only for the empty string. *)
Definition create_needle (req_ttl : string) (ts parse_s : N) : needle :=
  {| has_ttl := negb (String.eqb req_ttl EmptyString);
     has_lm := true;
     n_ttl := read_ttl req_ttl;
     last_modified := if ts =? 0 then parse_s else ts;
     append_at_ns := 0 |}.

(* writeNeedle2 + doWriteRequest into a volume created with TTL string [vttl_s]
   (v.Ttl != EMPTY_TTL: again the pointer), appended at [append_ns]; the record
   keeps 5 bytes of LastModified. *)
Definition write_needle (vttl_s : string) (n : needle) (append_ns : N) : needle :=
  let inherit := negb (has_ttl n) && negb (String.eqb vttl_s EmptyString) in
  {| has_ttl := has_ttl n || inherit;
     has_lm := has_lm n;
     n_ttl := if inherit then read_ttl vttl_s
              else if has_ttl n then n_ttl n      (* ToBytes, then LoadTTLFromBytes *)
              else EMPTY_TTL;
     last_modified := if has_lm n then last_modified n mod 2^40 else 0;
     append_at_ns := append_ns |}.

(* ---------- the read-side rule: Volume.readNeedle ---------- *)
Definition expiring (n : needle) : bool :=
  has_ttl n && negb (minutes (n_ttl n) =? 0) && has_lm n.

Definition read_deadline (n : needle) : N := append_at_ns n + minutes (n_ttl n) * MIN_NS.

Definition read_visible (now : N) (n : needle) : bool :=
  if negb (has_ttl n) then true
  else if minutes (n_ttl n) =? 0 then true
  else if negb (has_lm n) then true
  else now <? read_deadline n.     (* time.Now().Before(appendAt + ttl) *)

(* ---------- the compaction rule (VisitNeedle and copyDataBasedOnIndexFile):
     n.HasTtl() && now >= n.LastModified + uint64(v.Ttl.Minutes()*60)
   the product is uint32 ---------- *)
Definition volume_span_s (vttl : ttl) : N := (minutes vttl * 60) mod 2^32.
Definition compact_deadline_s (vttl : ttl) (n : needle) : N := last_modified n + volume_span_s vttl.
Definition compaction_keeps (now_s : N) (vttl : ttl) (n : needle) : bool :=
  negb (has_ttl n && (compact_deadline_s vttl n <=? now_s)).

(* ---------- volume expiry: Volume.expired, expiredLongEnough, Store.CollectHeartbeat ---------- *)
Record volume := {
  v_ttl : ttl;
  v_last_mod : N;      (* lastModifiedTsSeconds *)
  v_size : N;          (* .dat size reported in the heartbeat *)
  v_limit : N;         (* volumeSizeLimit *)
  v_io_error : bool    (* lastIoError != nil *)
}.

Definition SUPER_BLOCK_SIZE : N := 8.
Definition MAX_TTL_VOLUME_REMOVAL_DELAY : N := 10.

Definition volume_expired (now_s : N) (v : volume) : bool :=
  if v_limit v =? 0 then false
  else if v_size v <=? SUPER_BLOCK_SIZE then false
  else if minutes (v_ttl v) =? 0 then false
  else (Z.of_N (minutes (v_ttl v)) <? Z.quot (Z.of_N now_s - Z.of_N (v_last_mod v)) 60)%Z.

Definition expired_long_enough (now_s : N) (v : volume) (max_delay : N) : bool :=
  if minutes (v_ttl v) =? 0 then false
  else
    let m := minutes (v_ttl v) in
    let d := if max_delay <? m / 10 then max_delay else m / 10 in
    ((m + d) mod 2^32) * 60 + v_last_mod v <? now_s.

(* CollectHeartbeat: the volume is dropped from the heartbeat when expired, and its
   files are deleted when it expired long enough ago or has an IO error *)
Definition volume_deleted (now_s : N) (v : volume) : bool :=
  volume_expired now_s v &&
  (expired_long_enough now_s v MAX_TTL_VOLUME_REMOVAL_DELAY || v_io_error v).

(* doWriteRequest: the volume's stamp follows the largest LastModified written
   ([lm]: the in-memory n.LastModified of the request, all 64 bits of it) *)
Definition vol_stamp_after_write (stamp : N) (lm : N) : N :=
  if stamp <? lm then lm else stamp.

(* ---------- histories: a volume created (or loaded) at t0, one upload into it ---------- *)
Record upload := {
  u_vttl : string;       (* TTL the volume was created with *)
  u_req_ttl : string;    (* ttl= of the upload *)
  u_ts : N;              (* ts= of the upload, 0 when absent *)
  u_t0_s : N;            (* volume creation/load time: initial stamp *)
  u_parse_s : N;         (* clock when the request is parsed *)
  u_append_ns : N;       (* clock when the record is appended *)
  u_size : N; u_limit : N; u_io_error : bool
}.

Definition stored_of (u : upload) : needle :=
  write_needle (u_vttl u) (create_needle (u_req_ttl u) (u_ts u) (u_parse_s u)) (u_append_ns u).

Definition volume_of (u : upload) : volume :=
  {| v_ttl := read_ttl (u_vttl u);
     v_last_mod := vol_stamp_after_write (u_t0_s u)
                     (last_modified (create_needle (u_req_ttl u) (u_ts u) (u_parse_s u)));
     v_size := u_size u; v_limit := u_limit u; v_io_error := u_io_error u |}.

(* clocks only move forward *)
Definition upload_ordered (u : upload) : bool :=
  (u_t0_s u <=? u_parse_s u) && (u_parse_s u * NS <=? u_append_ns u).

(* the decidable trigger sets of the confirmed findings (see proof/TtlProofs.v):
   compaction measures from LastModified with the VOLUME's TTL, a read from
   AppendAtNs with the NEEDLE's TTL *)
Definition compaction_early (vttl : ttl) (n : needle) : bool :=
  has_ttl n &&
  (negb (expiring n) || (compact_deadline_s vttl n * NS <? read_deadline n)).

(* earliest second at which CollectHeartbeat deletes the volume (when it can at all) *)
Definition delete_from_s (v : volume) : N :=
  let m := minutes (v_ttl v) in
  let d := if MAX_TTL_VOLUME_REMOVAL_DELAY <? m / 10 then MAX_TTL_VOLUME_REMOVAL_DELAY else m / 10 in
  let a := v_last_mod v + (m + 1) * 60 in                 (* first second with m < lived minutes *)
  let b := ((m + d) mod 2^32) * 60 + v_last_mod v + 1 in  (* first second past the removal delay *)
  if v_io_error v then a else N.max a b.

Definition volume_can_expire (v : volume) : bool :=
  negb (v_limit v =? 0) && negb (v_size v <=? SUPER_BLOCK_SIZE) && negb (minutes (v_ttl v) =? 0).

Definition expiry_early (v : volume) (n : needle) : bool :=
  volume_can_expire v &&
  (negb (expiring n) || (delete_from_s v * NS <? read_deadline n)).

(* ---------- filer: Filer.FindEntry / doListDirectoryEntries ----------
   Crtime is stored in whole seconds; expired iff Crtime + TtlSec is Before(now) *)
Definition entry_visible (now : N) (crtime_s : N) (ttl_sec : Z) : bool :=
  negb ((0 <? ttl_sec)%Z && (crtime_s * NS + Z.to_N ttl_sec * NS <? now)).

(* ---------- filer: entries of one directory over histories ----------
   weed/filer/filer.go CreateEntry / UpdateEntry / FindEntry / doListDirectoryEntries,
   weed/server/filer_grpc_server.go UpdateEntry (FindEntry, then Filer.UpdateEntry).
   The store keeps Crtime and Mtime in whole seconds.  Every operation reads the
   clock once ([now], nanoseconds).  The expiry test reads Crtime, never Mtime;
   Filer.UpdateEntry copies the old entry's Crtime into the new one. *)
Record fentry := {
  fe_crtime : N;          (* Attr.Crtime, seconds *)
  fe_mtime : N;           (* Attr.Mtime, seconds *)
  fe_ttl : Z;             (* Attr.TtlSec, int32 *)
  fe_chunks : list N      (* ids of the chunks the entry points at *)
}.

Definition fstore := list (N * fentry).     (* name id -> entry *)

Fixpoint fs_get (st : fstore) (p : N) : option fentry :=
  match st with
  | [] => None
  | (q, e) :: r => if p =? q then Some e else fs_get r p
  end.

(* insert or replace, keeping ascending name order (the order a listing returns) *)
Fixpoint fs_put (st : fstore) (p : N) (e : fentry) : fstore :=
  match st with
  | [] => [(p, e)]
  | (q, x) :: r =>
      if p =? q then (p, e) :: r
      else if p <? q then (p, e) :: st
      else (q, x) :: fs_put r p e
  end.

Definition fs_del (st : fstore) (p : N) : fstore := filter (fun qe => negb (fst qe =? p)) st.

Definition fe_visible (now : N) (e : fentry) : bool := entry_visible now (fe_crtime e) (fe_ttl e).

(* Filer.FindEntry: an expired entry is deleted from the store and not returned *)
Definition filer_find (now : N) (st : fstore) (p : N) : fstore * option fentry :=
  match fs_get st p with
  | None => (st, None)
  | Some e => if fe_visible now e then (st, Some e) else (fs_del st p, None)
  end.

(* Filer.UpdateEntry(old, e): entry.Attr.Crtime = oldEntry.Attr.Crtime; Store.UpdateEntry *)
Definition fe_merge (old e : fentry) : fentry :=
  {| fe_crtime := fe_crtime old; fe_mtime := fe_mtime e; fe_ttl := fe_ttl e; fe_chunks := fe_chunks e |}.

(* doListDirectoryEntries: expired entries are deleted and skipped *)
Definition fs_expire (now : N) (st : fstore) : fstore := filter (fun qe => fe_visible now (snd qe)) st.

Inductive fop :=
| FInsert (p : N) (e : fentry)                 (* Store.InsertEntry: the entry exactly as given *)
| FCreate (p : N) (e : fentry) (excl : bool)   (* Filer.CreateEntry(entry, o_excl) *)
| FUpdate (p : N) (e : fentry)                 (* gRPC UpdateEntry: FindEntry, Filer.UpdateEntry(old, e) *)
| FFind (p : N)                                (* Filer.FindEntry *)
| FList                                        (* Filer.ListDirectoryEntries of the directory *)
| FDelete (p : N).                             (* Store.DeleteEntry *)

Inductive fres :=
| RDone (err : N)                              (* 0 ok, 1 EEXIST, 2 not found *)
| RFound (o : option fentry)
| RListed (l : list (N * fentry)).

Definition filer_step (now : N) (st : fstore) (o : fop) : fstore * fres :=
  match o with
  | FInsert p e => (fs_put st p e, RDone 0)
  | FCreate p e excl =>
      let '(st1, old) := filer_find now st p in
      match old with
      | None => (fs_put st1 p e, RDone 0)
      | Some oe => if excl then (st1, RDone 1) else (fs_put st1 p (fe_merge oe e), RDone 0)
      end
  | FUpdate p e =>
      let '(st1, old) := filer_find now st p in
      match old with
      | None => (st1, RDone 2)
      | Some oe => (fs_put st1 p (fe_merge oe e), RDone 0)
      end
  | FFind p => let '(st1, r) := filer_find now st p in (st1, RFound r)
  | FList => (fs_expire now st, RListed (fs_expire now st))
  | FDelete p => (fs_del st p, RDone 0)
  end.

(* a history: every operation with the clock it read; the result and the store after it *)
Fixpoint filer_run (st : fstore) (l : list (N * fop)) : fstore * list (fres * fstore) :=
  match l with
  | [] => (st, [])
  | (now, o) :: r =>
      let '(st1, res) := filer_step now st o in
      let '(st2, out) := filer_run st1 r in
      (st2, (res, st1) :: out)
  end.

(* the data an entry points at outlives the entry: chunk [n] can be read at every
   instant at which an entry with this Crtime and TtlSec is visible *)
Definition chunk_outlives (crtime_s : N) (ttl_sec : Z) (n : needle) : bool :=
  negb (expiring n) ||
  ((0 <? ttl_sec)%Z && (crtime_s * NS + Z.to_N ttl_sec * NS <? read_deadline n)).

Definition fe_safe (tab : N -> needle) (e : fentry) : bool :=
  forallb (fun c => chunk_outlives (fe_crtime e) (fe_ttl e) (tab c)) (fe_chunks e).

(* the entry an operation leaves in the store *)
Definition fop_stored (now : N) (st : fstore) (o : fop) : option fentry :=
  match o with
  | FInsert p e => Some e
  | FCreate p e excl =>
      match snd (filer_find now st p) with
      | None => Some e
      | Some oe => if excl then None else Some (fe_merge oe e)
      end
  | FUpdate p e =>
      match snd (filer_find now st p) with
      | None => None
      | Some oe => Some (fe_merge oe e)
      end
  | _ => None
  end.

(* decidable discipline of a history: whatever a write leaves in the store points
   only at chunks that outlive it *)
Fixpoint filer_run_safe (tab : N -> needle) (st : fstore) (l : list (N * fop)) : bool :=
  match l with
  | [] => true
  | (now, o) :: r =>
      match fop_stored now st o with Some e => fe_safe tab e | None => true end &&
      filer_run_safe tab (fst (filer_step now st o)) r
  end.

(* an operation that neither removes nor re-inserts name p behind the filer's back
   and, when it writes p, keeps TtlSec = s *)
Definition fop_keeps (p : N) (s : Z) (o : fop) : bool :=
  match o with
  | FInsert q _ => negb (q =? p)
  | FDelete q => negb (q =? p)
  | FCreate q e _ => negb (q =? p) || (fe_ttl e =? s)%Z
  | FUpdate q e => negb (q =? p) || (fe_ttl e =? s)%Z
  | FFind _ | FList => true
  end.
