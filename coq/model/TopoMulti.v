(* Multi-layout / object-identity model of the master's volume bookkeeping (C11).
   Built on model/TopoLayout.v: every VolumeLayout is a TopoLayout.layout and the
   per-layout functions (register_layout, unregister_layout, ensure,
   set_unavailable, remove_writable) are the ones of TopoLayout.v.  Added here:
     * several layouts, keyed by a layout key (collection / replication / ttl:
       Topology.GetVolumeLayout); the key travels with every volume info;
     * DataNode OBJECTS: a location list stores *DataNode pointers but compares
       Ip:Port (VolumeLocationList.Set / Remove).  Lists hold addresses; the
       pointer an entry currently carries is kept in [ms_ptr];
     * heartbeat STREAMS (MasterServer.SendHeartbeat): a stream gets its object
       from Rack.GetOrCreateDataNode and unregisters THAT object when it ends;
       two streams of one address may overlap (reconnect before the master saw
       the old stream end);
     * Topology.Lookup("") and VolumeLayout.PickForWrite.
   Executable definitions only. *)
From Coq Require Import List NArith Bool.
From SW Require Import model.TopoLayout.
Import ListNotations.
Local Open Scope N_scope.

(* a volume entry of a heartbeat: the fields of TopoLayout.vinfo plus the layout key *)
Record minfo := { mi_vi : vinfo; mi_key : N }.

(* *DataNode *)
Record obj := {
  ob_addr : N;                 (* Ip:Port *)
  ob_rack : N;                 (* the rack it was created under *)
  ob_linked : bool;            (* Parent() != nil *)
  ob_vols : vols;              (* disk.volumes *)
  ob_keys : list (N * N)       (* vid -> layout key of the stored info *)
}.

Record mcfg := {
  mc_copies : list N;          (* layout key -> rp.GetCopyCount() *)
  mc_asmin : bool;
  mc_limit : N
}.
Definition cfg_of (mc : mcfg) (k : N) : cfg :=
  {| c_copy := nth (N.to_nat k) (mc_copies mc) 1; c_asmin := mc_asmin mc; c_limit := mc_limit mc |}.

(* pointer table: (layout key, vid, address) -> object id *)
Definition pkey := (N * N * N)%type.
Definition pk_eqb (a b : pkey) : bool :=
  let '(a1, a2, a3) := a in let '(b1, b2, b3) := b in (a1 =? b1) && (a2 =? b2) && (a3 =? b3).
Fixpoint pget (k : pkey) (m : list (pkey * N)) : option N :=
  match m with
  | [] => None
  | (k', o) :: m' => if pk_eqb k' k then Some o else pget k m'
  end.
Fixpoint pset (k : pkey) (o : N) (m : list (pkey * N)) : list (pkey * N) :=
  match m with
  | [] => [(k, o)]
  | (k', o') :: m' => if pk_eqb k' k then (k, o) :: m' else (k', o') :: pset k o m'
  end.

(* VolumeLayout.crowded of every layout: (layout key, vid) pairs.  The code keeps
   crowded a subset of writables: setVolumeCrowded only runs for a vid found in
   writables and removeFromWritable also deletes the vid from crowded. *)
Definition crowd := list (N * N).
Definition cmem (k v : N) (cr : crowd) : bool := existsb (fun kv : N * N => (fst kv =? k) && (snd kv =? v)) cr.
(* after a layout call that only removed from (or only added to) the writables of
   layout k, leaving them as w: the crowded vids of k that left writables are gone *)
Definition ckeep (k : N) (w : list N) (cr : crowd) : crowd :=
  filter (fun kv : N * N => negb (fst kv =? k) || mem (snd kv) w) cr.

Record mstate := {
  ms_objs : list (N * obj);        (* object id -> object; ids in creation order, never removed *)
  ms_slot : list (N * N);          (* stream id -> object id of the open stream *)
  ms_lays : list (N * layout);     (* layout key -> layout (absent = empty) *)
  ms_ptr : list (pkey * N);
  ms_crowd : crowd
}.
Definition minit : mstate := {| ms_objs := []; ms_slot := []; ms_lays := []; ms_ptr := []; ms_crowd := [] |}.

Definition lay (ls : list (N * layout)) (k : N) : layout :=
  match aget k ls with Some l => l | None => empty_layout end.

Definition empty_obj : obj := {| ob_addr := 0; ob_rack := 0; ob_linked := false; ob_vols := []; ob_keys := [] |}.
Definition oget (os : list (N * obj)) (o : N) : obj :=
  match aget o os with Some x => x | None => empty_obj end.
Definition key_of (ob : obj) (v : N) : N := match aget v (ob_keys ob) with Some k => k | None => 0 end.

(* the DataNodes the location list of (k, v) points to, as a TopoLayout.nodes
   value: address -> volumes of the pointed object (dn.GetVolumesById) *)
Definition view (os : list (N * obj)) (ptr : list (pkey * N)) (k v : N) : nodes :=
  flat_map (fun p : pkey * N =>
              let '(k', v', a) := fst p in
              if (k' =? k) && (v' =? v) then [(a, ob_vols (oget os (snd p)))] else []) ptr.

(* ---------- DataNode.UpdateVolumes / DeltaUpdateVolumes with keys ---------- *)
Record mupd := { mu_vols : vols; mu_keys : list (N * N); mu_new : list minfo; mu_chg : list minfo }.

Definition m_aou (u : mupd) (a : minfo) : mupd :=
  let vi := mi_vi a in
  match aget (vi_id vi) (mu_vols u) with
  | None => {| mu_vols := aset (vi_id vi) vi (mu_vols u); mu_keys := aset (vi_id vi) (mi_key a) (mu_keys u);
               mu_new := mu_new u ++ [a]; mu_chg := mu_chg u |}
  | Some old =>
      {| mu_vols := aset (vi_id vi) vi (mu_vols u); mu_keys := aset (vi_id vi) (mi_key a) (mu_keys u);
         mu_new := mu_new u;
         mu_chg := if Bool.eqb (vi_ro old) (vi_ro vi) then mu_chg u else mu_chg u ++ [a] |}
  end.

(* volumes UpdateVolumes reports as deleted, with the STORED info and key *)
Definition m_deleted (ob : obj) (actual : list minfo) : list minfo :=
  map (fun p => {| mi_vi := snd p; mi_key := key_of ob (fst p) |})
      (filter (fun p => negb (in_actual (map mi_vi actual) (fst p))) (ob_vols ob)).

Definition with_vols (ob : obj) (vs : vols) (ks : list (N * N)) : obj :=
  {| ob_addr := ob_addr ob; ob_rack := ob_rack ob; ob_linked := ob_linked ob; ob_vols := vs; ob_keys := ks |}.
Definition unlinked (ob : obj) : obj :=
  {| ob_addr := ob_addr ob; ob_rack := ob_rack ob; ob_linked := false; ob_vols := ob_vols ob; ob_keys := ob_keys ob |}.

(* ---------- layout calls routed by key ---------- *)
Definition lp := (list (N * layout) * list (pkey * N) * crowd)%type.

(* Topology.RegisterVolumeLayout(v, dn) = VolumeLayout.RegisterVolume (may remove
   the vid from writables), then EnsureCorrectWritables (may put it back: it has
   left crowded by then) *)
Definition m_register (mc : mcfg) (os : list (N * obj)) (o : N) (x : lp) (a : minfo) : lp :=
  let '(ls, ptr, cr) := x in
  let k := mi_key a in let v := vi_id (mi_vi a) in let n := ob_addr (oget os o) in
  let ptr' := pset (k, v, n) o ptr in
  let l1 := register_volume (cfg_of mc k) (view os ptr' k v) (mi_vi a) n (lay ls k) in
  let l2 := register_layout (cfg_of mc k) (view os ptr' k v) (mi_vi a) n (lay ls k) in
  (aset k l2 ls, ptr', ckeep k (l_writ l2) (ckeep k (l_writ l1) cr)).

(* Topology.UnRegisterVolumeLayout(v, dn): the layout named by v's own fields *)
Definition m_unregister (mc : mcfg) (os : list (N * obj)) (o : N) (x : lp) (a : minfo) : lp :=
  let '(ls, ptr, cr) := x in
  let k := mi_key a in let v := vi_id (mi_vi a) in let n := ob_addr (oget os o) in
  let l' := unregister_layout (cfg_of mc k) (view os ptr k v) v n (lay ls k) in
  (aset k l' ls, ptr, ckeep k (l_writ l') cr).

Definition m_ensure (mc : mcfg) (os : list (N * obj)) (x : lp) (a : minfo) : lp :=
  let '(ls, ptr, cr) := x in
  let k := mi_key a in let v := vi_id (mi_vi a) in
  let l' := ensure (cfg_of mc k) (view os ptr k v) v (lay ls k) in
  (aset k l' ls, ptr, ckeep k (l_writ l') cr).

(* ---------- events ---------- *)
Inductive mevent :=
| MConnect (s n r : N)                       (* stream s starts for address n under rack r: GetOrCreateDataNode *)
| MFull (s : N) (vs : list minfo)            (* full heartbeat on stream s *)
| MIncr (s : N) (news dels : list (N * N))   (* incremental heartbeat: (vid, key) short infos *)
| MCollect                                   (* CollectDeadNodeAndFullVolumes + SetVolumeCapacityFull *)
| MClose (s : N).                            (* stream s ends: UnRegisterDataNode(its object) *)

Definition set_obj (o : N) (ob : obj) (s : mstate) (x : lp) : mstate :=
  {| ms_objs := aset o ob (ms_objs s); ms_slot := ms_slot s; ms_lays := fst (fst x); ms_ptr := snd (fst x); ms_crowd := snd x |}.

(* Rack.GetOrCreateDataNode: the linked child of rack r with this Ip:Port, else a new one *)
Definition find_obj (os : list (N * obj)) (n r : N) : option N :=
  match filter (fun p => ob_linked (snd p) && (ob_addr (snd p) =? n) && (ob_rack (snd p) =? r)) os with
  | p :: _ => Some (fst p)
  | [] => None
  end.

Definition m_connect (st n r : N) (s : mstate) : mstate :=
  match find_obj (ms_objs s) n r with
  | Some o => {| ms_objs := ms_objs s; ms_slot := aset st o (ms_slot s); ms_lays := ms_lays s; ms_ptr := ms_ptr s; ms_crowd := ms_crowd s |}
  | None =>
      let o := N.of_nat (length (ms_objs s)) in
      {| ms_objs := ms_objs s ++ [(o, {| ob_addr := n; ob_rack := r; ob_linked := true; ob_vols := []; ob_keys := [] |})];
         ms_slot := aset st o (ms_slot s); ms_lays := ms_lays s; ms_ptr := ms_ptr s; ms_crowd := ms_crowd s |}
  end.

(* Topology.SyncDataNodeRegistration *)
Definition m_full (mc : mcfg) (o : N) (actual : list minfo) (s : mstate) : mstate :=
  let ob := oget (ms_objs s) o in
  let dels := m_deleted ob actual in
  let vs1 := fold_left (fun m d => adel (vi_id (mi_vi d)) m) dels (ob_vols ob) in
  let u := fold_left m_aou actual {| mu_vols := vs1; mu_keys := ob_keys ob; mu_new := []; mu_chg := [] |} in
  let ob' := with_vols ob (mu_vols u) (mu_keys u) in
  let os := aset o ob' (ms_objs s) in
  let x1 := fold_left (m_register mc os o) (mu_new u) (ms_lays s, ms_ptr s, ms_crowd s) in
  let x2 := fold_left (m_unregister mc os o) dels x1 in
  let x3 := fold_left (m_ensure mc os) (mu_chg u) x2 in
  set_obj o ob' s x3.

Definition short_minfo (p : N * N) : minfo := {| mi_vi := short_info (fst p); mi_key := snd p |}.

(* Topology.IncrementalSyncDataNodeRegistration *)
Definition m_incr (mc : mcfg) (o : N) (news dels : list (N * N)) (s : mstate) : mstate :=
  let ob := oget (ms_objs s) o in
  let nv := map short_minfo news in
  let dv := map short_minfo dels in
  let vs1 := fold_left (fun m d => adel (vi_id (mi_vi d)) m) dv (ob_vols ob) in
  let u := fold_left m_aou nv {| mu_vols := vs1; mu_keys := ob_keys ob; mu_new := []; mu_chg := [] |} in
  let ob' := with_vols ob (mu_vols u) (mu_keys u) in
  let os := aset o ob' (ms_objs s) in
  let x1 := fold_left (m_register mc os o) nv (ms_lays s, ms_ptr s, ms_crowd s) in
  let x2 := fold_left (m_unregister mc os o) dv x1 in
  set_obj o ob' s x2.

(* NodeImpl.CollectDeadNodeAndFullVolumes, per volume v of every DataNode under a rack:
       if v.Size >= volumeSizeLimit                                    -> chanFullVolumes
       else if float64(v.Size) > float64(volumeSizeLimit)*growThreshold -> chanCrowdedVolumes
   growThreshold is the master's 0.9: grow_num / grow_den, compared exactly
   (size * 10 > limit * 9). *)
Definition grow_num : N := 9.
Definition grow_den : N := 10.
Definition is_full (mc : mcfg) (sz : N) : bool := mc_limit mc <=? sz.            (* v.Size >= volumeSizeLimit *)
Definition is_crowded (mc : mcfg) (sz : N) : bool :=
  negb (is_full mc sz) && (mc_limit mc * grow_num <? sz * grow_den).              (* else if size > limit*0.9 *)

(* the sweep walks the tree: linked objects only; SetVolumeCapacityFull /
   SetVolumeCrowded go to the layout named by the STORED info.  Within one sweep
   writables only shrink, SetVolumeCrowded adds a vid only while it is in
   writables and removeFromWritable deletes it from crowded: whatever the order
   in which the volumes are visited, crowded ends as (old + reported crowded)
   restricted to the final writables. *)
Definition m_collect (mc : mcfg) (s : mstate) : mstate :=
  let sel (f : N -> bool) := flat_map (fun p : N * obj =>
                 if ob_linked (snd p)
                 then map (fun q => (key_of (snd p) (fst q), fst q))
                          (filter (fun q : N * vinfo => f (vi_size (snd q))) (ob_vols (snd p)))
                 else []) (ms_objs s) in
  let full := sel (is_full mc) in
  let ls := fold_left (fun ls kv => aset (fst kv) (set_capacity_full (snd kv) (lay ls (fst kv))) ls) full (ms_lays s) in
  let cr := fold_left (fun cr kv => if cmem (fst kv) (snd kv) cr then cr else cr ++ [kv]) (sel (is_crowded mc)) (ms_crowd s) in
  {| ms_objs := ms_objs s; ms_slot := ms_slot s; ms_lays := ls; ms_ptr := ms_ptr s;
     ms_crowd := filter (fun kv : N * N => mem (snd kv) (l_writ (lay ls (fst kv)))) cr |}.

(* Topology.UnRegisterDataNode(dn): SetVolumeUnavailable in the layout of every
   STORED info, then unlink; the object keeps its volumes *)
Definition m_close (mc : mcfg) (st : N) (s : mstate) : mstate :=
  match aget st (ms_slot s) with
  | None => s
  | Some o =>
      let ob := oget (ms_objs s) o in
      let ls := fold_left (fun ls (q : N * vinfo) =>
                             let k := key_of ob (fst q) in
                             aset k (set_unavailable (cfg_of mc k) (ob_addr ob) (fst q) (lay ls k)) ls)
                          (ob_vols ob) (ms_lays s) in
      (* SetVolumeUnavailable only removes from writables *)
      {| ms_objs := aset o (unlinked ob) (ms_objs s); ms_slot := adel st (ms_slot s); ms_lays := ls; ms_ptr := ms_ptr s;
         ms_crowd := filter (fun kv : N * N => mem (snd kv) (l_writ (lay ls (fst kv)))) (ms_crowd s) |}
  end.

Definition mstep (mc : mcfg) (s : mstate) (e : mevent) : mstate :=
  match e with
  | MConnect st n r => m_connect st n r s
  | MFull st vs => match aget st (ms_slot s) with Some o => m_full mc o vs s | None => s end
  | MIncr st news dels => match aget st (ms_slot s) with Some o => m_incr mc o news dels s | None => s end
  | MCollect => m_collect mc s
  | MClose st => m_close mc st s
  end.

Definition mrun (mc : mcfg) (s : mstate) (es : list mevent) : mstate := fold_left (mstep mc) es s.
Fixpoint mtrace (mc : mcfg) (s : mstate) (es : list mevent) : list mstate :=
  match es with
  | [] => []
  | e :: es' => let s' := mstep mc s e in s' :: mtrace mc s' es'
  end.

(* ---------- observation points ---------- *)
(* Topology.Lookup(""): the first layout (Go map order) that has an entry for
   the vid answers, even with an EMPTY list: the possible answers *)
Definition lookup_candidates (s : mstate) (v : N) : list (list N) :=
  flat_map (fun p : N * layout => match aget v (l_loc (snd p)) with Some x => [x] | None => [] end) (ms_lays s).
(* the answer when it is determined *)
Definition mlookup (s : mstate) (v : N) : option (list N) :=
  match lookup_candidates s v with
  | [] => Some []
  | [x] => Some x
  | _ => None
  end.
Definition mwritable (s : mstate) (k v : N) : bool := mem v (l_writ (lay (ms_lays s) k)).
(* VolumeLayout.crowded of layout k *)
Definition mcrowded (s : mstate) (k : N) : list N :=
  map snd (filter (fun kv : N * N => fst kv =? k) (ms_crowd s)).

(* VolumeLayout.PickForWrite with a DataCenter (+ Rack) option dereferences
   dn.GetDataCenter() of every location of every writable vid: it panics when
   one of them is an unlinked object *)
Definition ptr_obj (s : mstate) (k v a : N) : obj :=
  match pget (k, v, a) (ms_ptr s) with Some o => oget (ms_objs s) o | None => empty_obj end.
Definition pick_panics (s : mstate) (k : N) : bool :=
  existsb (fun v => existsb (fun a => negb (ob_linked (ptr_obj s k v a))) (loc (lay (ms_lays s) k) v))
          (l_writ (lay (ms_lays s) k)).
(* the vids PickForWrite(DataCenter, Rack r) may return *)
Definition pick_rack (s : mstate) (k r : N) : list N :=
  filter (fun v => existsb (fun a => ob_rack (ptr_obj s k v a) =? r) (loc (lay (ms_lays s) k) v))
         (l_writ (lay (ms_lays s) k)).

(* ---------- the cluster state as the volume servers reported it ---------- *)
(* per address: vid -> last reported (size, read-only, key).  An incremental
   "new" message about a volume already reported carries no size / read-only
   flag: the last full report stays the reference. *)
Definition rinfo := (N * bool * N)%type.
Record truth := {
  t_open : list (N * N);                    (* open stream -> address *)
  t_rep : list (N * list (N * rinfo))       (* address -> reports *)
}.
Definition tinit : truth := {| t_open := []; t_rep := [] |}.
Definition t_of (t : truth) (n : N) : list (N * rinfo) := match aget n (t_rep t) with Some x => x | None => [] end.

Definition tstep (t : truth) (e : mevent) : truth :=
  match e with
  | MConnect st n _ => {| t_open := aset st n (t_open t); t_rep := t_rep t |}
  | MFull st vs =>
      match aget st (t_open t) with
      | None => t
      | Some n => {| t_open := t_open t;
                     t_rep := aset n (fold_left (fun m a => aset (vi_id (mi_vi a)) (vi_size (mi_vi a), vi_ro (mi_vi a), mi_key a) m) vs []) (t_rep t) |}
      end
  | MIncr st news dels =>
      match aget st (t_open t) with
      | None => t
      | Some n =>
          let m1 := fold_left (fun m d => adel (fst d) m) dels (t_of t n) in
          let m2 := fold_left (fun m a => match aget (fst a) m with Some _ => m | None => aset (fst a) (0, false, snd a) m end) news m1 in
          {| t_open := t_open t; t_rep := aset n m2 (t_rep t) |}
      end
  | MCollect => t
  | MClose st =>
      match aget st (t_open t) with
      | None => t
      | Some n =>
          let op := adel st (t_open t) in
          (* the server is gone only when no other stream of it is open *)
          if existsb (fun p => snd p =? n) op then {| t_open := op; t_rep := t_rep t |}
          else {| t_open := op; t_rep := adel n (t_rep t) |}
      end
  end.

Definition t_holders (t : truth) (v : N) : list N :=
  map fst (filter (fun p : N * list (N * rinfo) => match aget v (snd p) with Some _ => true | None => false end) (t_rep t)).
Definition t_info (t : truth) (n v : N) : option rinfo := aget v (t_of t n).

(* the clauses of the property for a vid offered by layout k *)
Definition t_copies_ok (mc : mcfg) (t : truth) (k v : N) : bool :=
  enough (cfg_of mc k) (nlen (t_holders t v)).
Definition t_rw_ok (t : truth) (v : N) : bool :=
  forallb (fun n => match t_info t n v with Some (_, ro, _) => negb ro | None => false end) (t_holders t v).
Definition t_size_ok (mc : mcfg) (t : truth) (v : N) : bool :=
  forallb (fun n => match t_info t n v with Some (sz, _, _) => sz <? mc_limit mc | None => false end) (t_holders t v).
Definition t_crit (mc : mcfg) (t : truth) (k v : N) : bool :=
  t_copies_ok mc t k v && t_rw_ok t v && t_size_ok mc t v.

(* ---------- triggers of the known findings: per vid, on the history prefix ---------- *)
(* finding 0: a full heartbeat reported v at or over the size limit *)
Definition ev_size_v (mc : mcfg) (v : N) (e : mevent) : bool :=
  match e with
  | MFull _ vs => existsb (fun a => (vi_id (mi_vi a) =? v) && (mc_limit mc <=? vi_size (mi_vi a))) vs
  | _ => false
  end.
Definition trig_size_v (mc : mcfg) (es : list mevent) (v : N) : bool := existsb (ev_size_v mc v) es.

(* the keys v was reported under *)
Definition ev_keys_v (v : N) (e : mevent) : list N :=
  match e with
  | MFull _ vs => map mi_key (filter (fun a => vi_id (mi_vi a) =? v) vs)
  | MIncr _ news dels => map snd (filter (fun a : N * N => fst a =? v) (news ++ dels))
  | _ => []
  end.
Fixpoint all_same (l : list N) : bool :=
  match l with
  | x :: ((y :: _) as l') => (x =? y) && all_same l'
  | _ => true
  end.
(* finding 4: v was reported under two layout keys (by any servers) *)
Definition trig_split_v (es : list mevent) (v : N) : bool := negb (all_same (flat_map (ev_keys_v v) es)).

(* finding 1: one server reported v under a key other than the one it last
   reported v under (the truth is threaded through the prefix) *)
Fixpoint trig_relayout_from (t : truth) (es : list mevent) (v : N) : bool :=
  match es with
  | [] => false
  | e :: es' =>
      (match e with
       | MFull st _ | MIncr st _ _ =>
           match aget st (t_open t) with
           | Some n => match t_info t n v with
                       | Some (_, _, k) => existsb (fun k' => negb (k' =? k)) (ev_keys_v v e)
                       | None => false
                       end
           | None => false
           end
       | _ => false
       end) || trig_relayout_from (tstep t e) es' v
  end.
Definition trig_relayout_v (es : list mevent) (v : N) : bool := trig_relayout_from tinit es v.

(* finding 2: a stream of an address started while another stream of the same
   address was open, and that address reported v at some time *)
Fixpoint overlapped_from (t : truth) (es : list mevent) : list N :=
  match es with
  | [] => []
  | e :: es' =>
      (match e with
       | MConnect st n _ => if existsb (fun p => negb (fst p =? st) && (snd p =? n)) (t_open t) then [n] else []
       | _ => []
       end) ++ overlapped_from (tstep t e) es'
  end.
Fixpoint reported_from (t : truth) (es : list mevent) (n v : N) : bool :=
  match es with
  | [] => false
  | e :: es' =>
      (match e with
       | MFull st _ | MIncr st _ _ =>
           match aget st (t_open t) with
           | Some n' => (n' =? n) && negb (match ev_keys_v v e with [] => true | _ => false end)
           | None => false
           end
       | _ => false
       end) || reported_from (tstep t e) es' n v
  end.
Definition trig_object_v (es : list mevent) (v : N) : bool :=
  existsb (fun n => reported_from tinit es n v) (overlapped_from tinit es).

(* finding 3: an incremental "new" message for a vid whose server last reported
   it read-only or at/over the limit; until that server's next full heartbeat
   or the end of its streams *)
Fixpoint clobbered_from (mc : mcfg) (t : truth) (cl : list N) (es : list mevent) (v : N) : list N :=
  match es with
  | [] => cl
  | e :: es' =>
      let cl' :=
        match e with
        | MIncr st news _ =>
            match aget st (t_open t) with
            | Some n => match t_info t n v with
                        | Some (sz, ro, _) =>
                            if existsb (fun a : N * N => fst a =? v) news && (ro || (mc_limit mc <=? sz))
                            then lset n cl else cl
                        | None => cl
                        end
            | None => cl
            end
        | MFull st _ | MClose st =>
            match aget st (t_open t) with Some n => lremove n cl | None => cl end
        | _ => cl
        end in
      clobbered_from mc (tstep t e) cl' es' v
  end.
Definition trig_clobber_v (mc : mcfg) (es : list mevent) (v : N) : bool :=
  match clobbered_from mc tinit [] es v with [] => false | _ => true end.

(* ---------- plain histories: one layout key, one stream per address, streams
   of one address never overlap, every address always under the same rack ---------- *)
Definition plain_event (k : N) (e : mevent) : bool :=
  match e with
  | MConnect st n r => (st =? n) && (r =? n mod 2)
  | MFull st vs => forallb (fun a => mi_key a =? k) vs
  | MIncr st news dels => forallb (fun a : N * N => snd a =? k) (news ++ dels)
  | _ => true
  end.

(* translation of a plain history to the single-layout events of TopoLayout.v *)
Definition to_single (e : mevent) : list event :=
  match e with
  | MConnect _ _ _ => []
  | MFull st vs => [EFull st (map mi_vi vs)]
  | MIncr st news dels => [EIncr st (map fst news) (map fst dels)]
  | MCollect => [ECollect]
  | MClose st => [EDisconnect st]
  end.

(* ---------- single-layout form of the per-vid trigger of finding 0 ---------- *)
Definition reports_full_v (c : cfg) (v : N) (e : event) : bool :=
  match e with
  | EFull _ vs => existsb (fun vi => (vi_id vi =? v) && (c_limit c <=? vi_size vi)) vs
  | _ => false
  end.
Definition trigger_size_v (c : cfg) (es : list event) (v : N) : bool := existsb (reports_full_v c v) es.

(* ---------- single-layout form: the sizes the servers last REPORTED ----------
   (the single-layout counterpart of [truth]: node -> vid -> last reported size;
   an incremental "new" message carries no size: for a volume already reported
   the last full report stays the reference, for an unknown one the size is 0) *)
Definition srep := list (N * list (N * N)).
Definition srep_of (r : srep) (n : N) : list (N * N) := match aget n r with Some x => x | None => [] end.
Definition srstep (r : srep) (e : event) : srep :=
  match e with
  | EFull n vs => aset n (fold_left (fun m a => aset (vi_id a) (vi_size a) m) vs []) r
  | EIncr n news dels =>
      let m1 := fold_left (fun m d => adel d m) dels (srep_of r n) in
      let m2 := fold_left (fun m a => match aget a m with Some _ => m | None => aset a 0 m end) news m1 in
      aset n m2 r
  | ECollect => r
  | EDisconnect n => adel n r
  end.
Definition sreported (es : list event) : srep := fold_left srstep es [].
Definition rsize (r : srep) (n v : N) : option N := aget v (srep_of r n).

(* finding 3 in its size form, per (node, vid): an incremental "new" message of
   node n names v while n's last reported size of v is at or over the limit (the
   registered size becomes 0); it ends with n's next full heartbeat or disconnect *)
Definition cl_step (c : cfg) (v : N) (r : srep) (cl : list N) (e : event) : list N :=
  match e with
  | EIncr n news _ =>
      if mem v news && match rsize r n v with Some sz => c_limit c <=? sz | None => false end
      then n :: cl else cl
  | EFull n _ | EDisconnect n => filter (fun m => negb (m =? n)) cl
  | ECollect => cl
  end.
Fixpoint clobbered_size (c : cfg) (v : N) (r : srep) (cl : list N) (es : list event) : list N :=
  match es with
  | [] => cl
  | e :: es' => clobbered_size c v (srstep r e) (cl_step c v r cl e) es'
  end.
Definition trigger_clobber_size_v (c : cfg) (es : list event) (v : N) : bool :=
  match clobbered_size c v [] [] es with [] => false | _ => true end.
