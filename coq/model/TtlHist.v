(* C09 — histories of uploads of ONE key into one volume (weed/storage/volume_write.go:
   writeNeedle2, doWriteRequest, isFileUnchanged; volume_read.go readNeedle;
   volume.go expired).  Which upload does the lifetime count from?  The code as it is:
   isFileUnchanged returns false whenever v.Ttl.String() != "", so EVERY acknowledged
   upload into a TTL volume appends a new record (fresh AppendAtNs, the volume's stamp
   raised); in a volume without TTL an upload with the same cookie and the same bytes
   as the stored record is acknowledged WITHOUT a new record (isUnchanged = true). *)
From Coq Require Import List NArith ZArith Bool String.
From SW Require Import model.Ttl.
Import ListNotations.
Local Open Scope N_scope.

(* the live record of the key: the fields the TTL rules read, its cookie, and which
   content it holds (contents are numbered; checksum and bytes equal iff same number) *)
Record hrec := { hr_needle : needle; hr_cookie : N; hr_data : N }.

Record hstate := {
  h_rec : option hrec;     (* needle map entry of the key -> stored record *)
  h_stamp : N              (* lastModifiedTsSeconds *)
}.

Inductive hop :=
| HUpload (req_ttl : string) (ts : N) (cookie data : N)
          (parse_s : N)      (* clock when CreateNeedleFromRequest ran *)
          (append_ns : N)    (* clock doWriteRequest reads IF it appends *)
| HAge (append_ns stamp : N) (* harness device, not an API: the stored record's AppendAtNs
                                and the volume's stamp are rewritten (time passes) *)
| HRead (now : N)            (* Store.ReadVolumeNeedle *)
| HExpired (now_s size limit : N).   (* Volume.expired *)

Inductive hres :=
| HAck (unchanged : bool)    (* upload acknowledged; isUnchanged *)
| HRefused                   (* mismatching cookie *)
| HData (o : option N)       (* read: the content returned, None = not found *)
| HExp (b : bool)
| HAged.

(* Volume.isFileUnchanged *)
Definition is_file_unchanged (vttl_s : string) (st : hstate) (cookie data : N) : bool :=
  if negb (String.eqb (ttl_string (read_ttl vttl_s)) EmptyString) then false
  else match h_rec st with
       | Some r => (hr_cookie r =? cookie) && (hr_data r =? data)
       | None => false
       end.

Definition hvolume (vttl_s : string) (st : hstate) (size limit : N) : volume :=
  {| v_ttl := read_ttl vttl_s; v_last_mod := h_stamp st; v_size := size; v_limit := limit; v_io_error := false |}.

Definition hset_append (a : N) (r : hrec) : hrec :=
  {| hr_needle := {| has_ttl := has_ttl (hr_needle r); has_lm := has_lm (hr_needle r); n_ttl := n_ttl (hr_needle r);
                     last_modified := last_modified (hr_needle r); append_at_ns := a |};
     hr_cookie := hr_cookie r; hr_data := hr_data r |}.

(* the record an upload appends *)
Definition hstored (vttl_s req_ttl : string) (ts cookie data parse_s append_ns : N) : hrec :=
  {| hr_needle := write_needle vttl_s (create_needle req_ttl ts parse_s) append_ns;
     hr_cookie := cookie; hr_data := data |}.

Definition hstep (vttl_s : string) (st : hstate) (o : hop) : hstate * hres :=
  match o with
  | HUpload req ts cookie data parse_s append_ns =>
      if is_file_unchanged vttl_s st cookie data then (st, HAck true)
      else
        match h_rec st with
        | Some r =>
            if negb (hr_cookie r =? cookie) then (st, HRefused)
            else ({| h_rec := Some (hstored vttl_s req ts cookie data parse_s append_ns);
                     h_stamp := vol_stamp_after_write (h_stamp st) (last_modified (create_needle req ts parse_s)) |},
                  HAck false)
        | None =>
            ({| h_rec := Some (hstored vttl_s req ts cookie data parse_s append_ns);
                h_stamp := vol_stamp_after_write (h_stamp st) (last_modified (create_needle req ts parse_s)) |},
             HAck false)
        end
  | HAge a s => ({| h_rec := option_map (hset_append a) (h_rec st); h_stamp := s |}, HAged)
  | HRead now =>
      (st, HData (match h_rec st with
                  | Some r => if read_visible now (hr_needle r) then Some (hr_data r) else None
                  | None => None end))
  | HExpired now_s size limit => (st, HExp (volume_expired now_s (hvolume vttl_s st size limit)))
  end.

Fixpoint hrun (vttl_s : string) (st : hstate) (l : list hop) : hstate * list (hres * hstate) :=
  match l with
  | [] => (st, [])
  | o :: r =>
      let '(st1, res) := hstep vttl_s st o in
      let '(st2, out) := hrun vttl_s st1 r in
      (st2, (res, st1) :: out)
  end.

(* ---- the promise over a history: the record the LAST ACKNOWLEDGED upload asked for
   (with the append clock of that upload), moved by the aging steps after it ---- *)
Definition hwant_step (vttl_s : string) (st : hstate) (w : option hrec) (o : hop) : option hrec :=
  match o, snd (hstep vttl_s st o) with
  | HUpload req ts cookie data parse_s append_ns, HAck _ => Some (hstored vttl_s req ts cookie data parse_s append_ns)
  | HAge a _, _ => option_map (hset_append a) w
  | _, _ => w
  end.

Fixpoint hwant (vttl_s : string) (st : hstate) (w : option hrec) (l : list hop) : option hrec :=
  match l with
  | [] => w
  | o :: r => hwant vttl_s (fst (hstep vttl_s st o)) (hwant_step vttl_s st w o) r
  end.

(* what a read at [now] must return by the promise *)
Definition hpromise (now : N) (w : option hrec) : option N :=
  match w with
  | Some r => if read_visible now (hr_needle r) then Some (hr_data r) else None
  | None => None
  end.
Definition hread (now : N) (st : hstate) : option N := hpromise now (h_rec st).

(* the volume has a TTL in the sense of isFileUnchanged *)
Definition ttl_volume (vttl_s : string) : bool := negb (String.eqb (ttl_string (read_ttl vttl_s)) EmptyString).

(* trigger of finding 6, per step: an upload acknowledged as unchanged (no new record)
   although the record it would have written differs from the stored one *)
Definition hrec_eqb (a b : hrec) : bool :=
  let x := hr_needle a in let y := hr_needle b in
  Bool.eqb (has_ttl x) (has_ttl y) && Bool.eqb (has_lm x) (has_lm y) && ttl_eqb (n_ttl x) (n_ttl y) &&
  (last_modified x =? last_modified y) && (append_at_ns x =? append_at_ns y) &&
  (hr_cookie a =? hr_cookie b) && (hr_data a =? hr_data b).

Definition dedup_step (vttl_s : string) (st : hstate) (o : hop) : bool :=
  match o with
  | HUpload req ts cookie data parse_s append_ns => is_file_unchanged vttl_s st cookie data
  | _ => false
  end.

Fixpoint dedup_trigger (vttl_s : string) (st : hstate) (l : list hop) : bool :=
  match l with
  | [] => false
  | o :: r => dedup_step vttl_s st o || dedup_trigger vttl_s (fst (hstep vttl_s st o)) r
  end.
