(* CRC32-Castagnoli as the needle code computes it (C02):
     weed/storage/needle/crc.go     NewCRC(b) = CRC(0).Update(b) = crc32.Update(0, castagnoliTable, b)
     github.com/klauspost/crc32     Update(crc, tab, p) = ^update(^crc, tab, p), reflected polynomial 0x82F63B78
   Table-free, bit by bit: one register step per input bit.  The table-driven / slicing-by-8 /
   SSE4.2 code paths of the library compute the same function; that is not proved here but
   validated: the correspondence check compares [crc32c] with the value Go computed for
   every byte string that occurs in a case (check/C02.v, [c_crcs], [c_crc_extra], [f_crc]).
   Executable definitions only; proofs are in proof/NeedleCrcProofs.v. *)
From Coq Require Import List NArith Bool.
Import ListNotations.
Local Open Scope N_scope.

(* crc32.Castagnoli = 0x82f63b78 (bit-reversed form of 0x1EDC6F41) *)
Definition crc_poly : N := 2197175160.

(* one bit: shift the register right; if a 1 fell out, subtract (xor) the polynomial *)
Definition crc_shift1 (r : N) : N :=
  if N.odd r then N.lxor (N.div2 r) crc_poly else N.div2 r.

Definition crc_shift8 (r : N) : N :=
  crc_shift1 (crc_shift1 (crc_shift1 (crc_shift1 (crc_shift1 (crc_shift1 (crc_shift1 (crc_shift1 r))))))).

(* one byte: crc = tab[byte(crc) ^ b] ^ (crc >> 8), which is eight bit steps of crc ^ b *)
Definition crc_upd (r x : N) : N := crc_shift8 (N.lxor r x).

Definition crc_reg (r : N) (l : list N) : N := fold_left crc_upd l r.

(* NewCRC(b): register preset to all ones, result complemented *)
Definition crc32c (l : list N) : N := N.lxor (crc_reg 4294967295 l) 4294967295.

(* one byte of a byte string xor-ed with a mask *)
Fixpoint flip_byte (l : list N) (pos mask : N) : list N :=
  match l with
  | [] => []
  | x :: r => if pos =? 0 then N.lxor x mask :: r else x :: flip_byte r (N.pred pos) mask
  end.
