(* Model of the volume server's signed-token access control (C34):
     weed/security/jwt.go                       GetJwt, DecodeJwt
     weed/security/guard.go                     Guard.WhiteList (isWriteActive, checkWhiteList)
     weed/server/common.go                      parseURLPath
     weed/server/volume_server_handlers.go      privateStoreHandler, publicReadOnlyHandler, maybeCheckJwtAuthorization
     weed/server/volume_server_handlers_read.go / _write.go   order of the steps before the store is consulted
     weed/storage/needle/needle.go              CreateNeedleFromRequest: how an upload finds its file id in the path
   The JWT library (github.com/golang-jwt/jwt v3.2.1: parsing, HMAC verification, exp/nbf/iat)
   is an ORACLE: every token string of a case comes with the facts the harness knows
   from how it built the token.  Executable definitions only; proofs in proof/JwtProofs.v.
   The model is faithful to the code as it is, i.e. WITH the repair in PostHandler (the
   upload's needle must equal the needle of the checked fid) and WITH the repair in
   DeleteHandler (the errors of NewVolumeId / ParsePath are answered 400 after the token
   check; formerly finding C34/0: they were ignored and the store consulted with volume 0 /
   needle 0).
   needle.NewVolumeId, ParseNeedleIdCookie, Needle.ParsePath and ParseFileIdFromString are
   modelled numerically (parse_vid, parse_nic, parse_path_st, claim_den). *)
From Coq Require Import List NArith ZArith Bool String Ascii Arith.
Import ListNotations.
Local Open Scope string_scope.

Definition sempty (s : string) : bool := match s with EmptyString => true | _ => false end.

(* ---- Go string primitives on ASCII strings ---- *)
Definition c_us : ascii := "_"%char.
Definition c_slash : ascii := "/"%char.
Definition c_comma : ascii := ","%char.
Definition c_dot : ascii := "."%char.

Fixpoint count_char (c : ascii) (s : string) : nat :=
  match s with
  | EmptyString => O
  | String a s' => (if Ascii.eqb a c then 1 else 0) + count_char c s'
  end.

(* strings.LastIndex(s, c) for a one-character c *)
Fixpoint last_index_nat (c : ascii) (s : string) : option nat :=
  match s with
  | EmptyString => None
  | String a s' => match last_index_nat c s' with
                   | Some i => Some (S i)
                   | None => if Ascii.eqb a c then Some O else None
                   end
  end.
Definition last_index (c : ascii) (s : string) : Z :=
  match last_index_nat c s with Some i => Z.of_nat i | None => (-1)%Z end.

Definition slen (s : string) : Z := Z.of_nat (String.length s).
(* s[lo:hi]; None = "slice bounds out of range" panic *)
Definition go_slice (s : string) (lo hi : Z) : option string :=
  if ((0 <=? lo) && (lo <=? hi) && (hi <=? slen s))%Z
  then Some (substring (Z.to_nat lo) (Z.to_nat (hi - lo)) s)
  else None.
Definition go_from (s : string) (lo : Z) : option string := go_slice s lo (slen s).

(* strings.Split(s, sep) for a one-character separator *)
Fixpoint split_on (sep : ascii) (s : string) : list string :=
  match s with
  | EmptyString => [EmptyString]
  | String c s' =>
      if Ascii.eqb c sep then EmptyString :: split_on sep s'
      else match split_on sep s' with
           | [] => [String c EmptyString]
           | h :: t => String c h :: t
           end
  end.

(* ---- parseURLPath(path) -> (vid, fid); None = the function panics ---- *)
Definition parse_url_path (path : string) : option (string * string) :=
  match count_char c_slash path with
  | 3 =>
      let parts := split_on c_slash path in
      Some (nth 1 parts "", nth 2 parts "")
  | 2 =>
      let parts := split_on c_slash path in
      let vid := nth 1 parts "" in
      let fid := nth 2 parts "" in
      let dot := last_index c_dot fid in
      if (0 <? dot)%Z then
        match go_slice fid 0 dot with Some f => Some (vid, f) | None => None end
      else Some (vid, fid)
  | _ =>
      let sep := last_index c_slash path in
      match go_from path sep with               (* path[sepIndex:] *)
      | None => None
      | Some tail =>
          let comma := last_index c_comma tail in   (* relative to sepIndex ... *)
          if (comma <=? 0)%Z then
            match go_from path (sep + 1) with Some v => Some (v, "") | None => None end
          else
            let dot := last_index c_dot tail in
            (* ... but used as an absolute index *)
            match go_slice path (sep + 1) comma with
            | None => None
            | Some vid =>
                if (0 <? dot)%Z then
                  match go_slice path (comma + 1) dot with Some f => Some (vid, f) | None => None end
                else
                  match go_from path (comma + 1) with Some f => Some (vid, f) | None => None end
            end
      end
  end.

(* ---- CreateNeedleFromRequest: the file id an upload writes to ----
     commaSep := strings.LastIndex(path, ","); dotSep := strings.LastIndex(path, ".")
     fid := path[commaSep+1:]; if dotSep > 0 { fid = path[commaSep+1 : dotSep] }      *)
Definition upload_fid (path : string) : option string :=
  let comma := last_index c_comma path in
  let dot := last_index c_dot path in
  if (0 <? dot)%Z then go_slice path (comma + 1) dot else go_from path (comma + 1).

(* ---- strconv.ParseUint(s, 10|16, bits): non-empty, digits only (no sign, no prefix, no
     underscore: those need base 0), value below 2^bits ---- *)
Definition digit_of (hex : bool) (c : ascii) : option N :=
  let n := N_of_ascii c in
  if ((48 <=? n) && (n <=? 57))%N then Some (n - 48)%N
  else if (hex && (97 <=? n) && (n <=? 102))%N then Some (n - 87)%N
  else if (hex && (65 <=? n) && (n <=? 70))%N then Some (n - 55)%N
  else None.
Fixpoint parse_digits (hex : bool) (s : string) (acc : N) : option N :=
  match s with
  | EmptyString => Some acc
  | String c s' =>
      match digit_of hex c with
      | Some d => parse_digits hex s' (acc * (if hex then 16 else 10) + d)%N
      | None => None
      end
  end.
Definition parse_uint (hex : bool) (bits : N) (s : string) : option N :=
  if sempty s then None
  else match parse_digits hex s 0 with
       | Some v => if (v <? 2 ^ bits)%N then Some v else None
       | None => None
       end.

(* needle.NewVolumeId(vid) = strconv.ParseUint(vid, 10, 32) *)
Definition parse_vid (vid : string) : option N := parse_uint false 32 vid.

(* needle.ParseNeedleIdCookie: the last CookieSize*2 = 8 characters are the cookie (hex, 32 bit), what
   is before them the needle id (hex, 64 bit); at most (NeedleIdSize+CookieSize)*2 = 24 characters *)
Definition parse_nic (s : string) : option (N * N) :=
  let len := String.length s in
  if Nat.leb len 8 then None
  else if Nat.ltb 24 len then None
  else match parse_uint true 64 (substring 0 (len - 8) s), parse_uint true 32 (substring (len - 8) 8 s) with
       | Some id, Some ck => Some (id, ck)
       | _, _ => None
       end.

(* fid[0:deltaIndex], fid[deltaIndex+1:] when deltaIndex = LastIndex(fid, "_") > 0 *)
Definition split_delta (fid : string) : string * string :=
  match last_index_nat c_us fid with
  | Some (S i) => (substring 0 (S i) fid, substring (S (S i)) (String.length fid - S (S i)) fid)
  | _ => (fid, "")
  end.

(* Needle.ParsePath(fid) on a fresh Needle: ((n.Id, n.Cookie) as the call leaves them, err == nil).
   The delta is ADDED to the id (uint64 wrap); an unparsable delta leaves id and cookie set *)
Definition parse_path_st (fid : string) : (N * N) * bool :=
  if Nat.leb (String.length fid) 8 then ((0, 0)%N, false)
  else
    let (base, delta) := split_delta fid in
    match parse_nic base with
    | None => ((0, 0)%N, false)
    | Some (id, ck) =>
        if sempty delta then ((id, ck), true)
        else match parse_uint false 64 delta with
             | Some d => ((((id + d) mod 2 ^ 64)%N, ck), true)
             | None => ((id, ck), false)
             end
    end.
Definition parse_path (fid : string) : option (N * N) :=
  let (st, ok) := parse_path_st fid in if ok then Some st else None.

(* needle.ParseFileIdFromString(claim): split at the FIRST comma (index > 0), NewVolumeId,
   ParseNeedleIdCookie: the (volume, key, cookie) a claim text denotes *)
Fixpoint index_nat (c : ascii) (s : string) : option nat :=
  match s with
  | EmptyString => None
  | String a s' => if Ascii.eqb a c then Some O
                   else match index_nat c s' with Some i => Some (S i) | None => None end
  end.
Definition claim_den (claim : string) : option (N * N * N) :=
  match index_nat c_comma claim with
  | Some (S i) =>
      match parse_vid (substring 0 (S i) claim),
            parse_nic (substring (S (S i)) (String.length claim - S (S i)) claim) with
      | Some vol, Some (id, ck) => Some (vol, id, ck)
      | _, _ => None
      end
  | _ => None
  end.

(* ---- token facts (oracle) ---- *)
Inductive alg :=
| AlgHMAC       (* HS256 / HS384 / HS512: jwt.SigningMethodHMAC *)
| AlgNone       (* "none" *)
| AlgOther      (* registered non-HMAC method: RS256.., ES256.., PS256.. *)
| AlgUnknown.   (* not registered: ParseWithClaims fails before the key function *)

Record token := {
  t_wellformed : bool;     (* three segments; header and claims decode into SeaweedFileIdClaims *)
  t_alg : alg;
  t_signed_with : string;  (* the key under which the signature verifies for the header's alg; "" if none *)
  t_exp_ok : bool;         (* StandardClaims.Valid at request time: exp *)
  t_nbf_ok : bool;         (* nbf *)
  t_iat_ok : bool;         (* iat *)
  t_fid : string;          (* claim "fid" *)
  t_den : option (N * N * N);  (* needle.ParseFileIdFromString(claim) by the REAL parser: volume, key, cookie
                              (check: equals claim_den (t_fid)); used by the property oracle *)
  t_names_target : bool    (* ORACLE used by the property only, from the real parsers: the claim denotes the
                              volume, key and cookie of the needle the store operation addresses (for an
                              upload: the needle CreateNeedleFromRequest builds); key' = key, or
                              key <= key' when the addressed file id carries a _suffix *)
}.

Definition is_hmac (a : alg) : bool := match a with AlgHMAC => true | _ => false end.

(* jwt.ParseWithClaims(tokenString, &SeaweedFileIdClaims{}, keyFunc) returns err == nil and token.Valid *)
Definition decode_ok (key : string) (t : token) : bool :=
  t_wellformed t && is_hmac (t_alg t) && String.eqb (t_signed_with t) key &&
  t_exp_ok t && t_nbf_ok t && t_iat_ok t.

Definition toktab := list (string * token).
Fixpoint lookup (s : string) (tab : toktab) : option token :=
  match tab with
  | [] => None                                   (* unknown string = malformed token *)
  | (k, t) :: tab' => if String.eqb k s then Some t else lookup s tab'
  end.

(* ---- request ---- *)
Inductive meth := GET | HEAD | POST | PUT | DELETE.

Record request := {
  rq_public : bool;        (* arrived on the public (read-only) port *)
  rq_method : meth;
  rq_query_jwt : string;   (* r.URL.Query().Get("jwt") *)
  rq_auth : string;        (* Authorization header *)
  rq_path : string;        (* r.URL.Path *)
  rq_wl_pass : bool        (* the remote host is in the white list *)
}.

Record config := {
  write_key : string;      (* jwt.signing.key *)
  read_key : string;       (* jwt.signing.read.key *)
  wl_active : bool         (* the white list is non-empty *)
}.

(* ---- GetJwt ---- *)
Definition upper (c : ascii) : ascii :=
  let n := nat_of_ascii c in if Nat.leb 97 n && Nat.leb n 122 then ascii_of_nat (n - 32) else c.
Fixpoint upper_s (s : string) : string :=
  match s with EmptyString => EmptyString | String c s' => String (upper c) (upper_s s') end.

Definition get_jwt (rq : request) : string :=
  if negb (sempty (rq_query_jwt rq)) then rq_query_jwt rq
  else
    let bearer := rq_auth rq in
    (* len(bearer) > 7 && strings.ToUpper(bearer[0:6]) == "BEARER"  ->  bearer[7:] ;
       the seventh character is not looked at *)
    if Nat.ltb 7 (String.length bearer) && String.eqb (upper_s (substring 0 6 bearer)) "BEARER"
    then substring 7 (String.length bearer - 7) bearer
    else "".

(* ---- fid = fid[:strings.LastIndex(fid, "_")] when that index is > 0 ---- *)
Definition strip_suffix (fid : string) : string :=
  match last_index_nat c_us fid with
  | Some (S i) => substring 0 (S i) fid
  | _ => fid
  end.

(* ---- maybeCheckJwtAuthorization(r, vid, fid, isWrite) ---- *)
Definition key_for (cfg : config) (is_write : bool) : string :=
  if is_write then write_key cfg else read_key cfg.

Definition check_jwt (tab : toktab) (cfg : config) (is_write : bool) (rq : request) (vid fid : string) : bool :=
  let key := key_for cfg is_write in
  if sempty key then true
  else
    let ts := get_jwt rq in
    if sempty ts then false
    else match lookup ts tab with
         | None => false
         | Some t =>
             if decode_ok key t
             then String.eqb (t_fid t) (vid ++ "," ++ strip_suffix fid)
             else false
         end.

(* ---- the handlers up to the first access to the store ---- *)
Definition addr := (N * N * N)%type.     (* volume, needle id, cookie *)

Inductive hresult :=
| Unauthorized     (* 401 written, handler returns *)
| BadRequest       (* 400 written, handler returns *)
| NoRoute          (* the method is not served on this port: nothing is written *)
| Panicked         (* a slice expression panics; net/http aborts the request *)
| Proceed (vid fid : string) (a : addr).
                   (* the store is consulted: vid, fid are parseURLPath's reading of the path (the
                      texts the token was checked against), a is the volume / needle id / cookie the
                      store operation is called with *)

Definition is_write_method (m : meth) : bool :=
  match m with POST | PUT | DELETE => true | _ => false end.

(* Guard.WhiteList(f): active when the white list or the write key is non-empty;
   checkWhiteList passes when the list is empty *)
Definition whitelist_blocks (cfg : config) (rq : request) : bool :=
  (wl_active cfg || negb (sempty (write_key cfg))) && wl_active cfg && negb (rq_wl_pass rq).

Definition get_or_head (tab : toktab) (cfg : config) (rq : request) : hresult :=
  match parse_url_path (rq_path rq) with
  | None => Panicked
  | Some (vid, fid) =>
      if negb (check_jwt tab cfg false rq vid fid) then Unauthorized
      else match parse_vid vid with
           | None => BadRequest
           | Some vol =>
               match parse_path fid with
               | None => BadRequest
               | Some (id, ck) => Proceed vid fid (vol, id, ck)
               end
           end
  end.

Definition post (tab : toktab) (cfg : config) (rq : request) : hresult :=
  match parse_url_path (rq_path rq) with
  | None => Panicked
  | Some (vid, fid) =>
      match parse_vid vid with
      | None => BadRequest                                   (* NewVolumeId is checked first *)
      | Some vol =>
          if negb (check_jwt tab cfg true rq vid fid) then Unauthorized
          else
            (* needle.CreateNeedleFromRequest finds the file id in the path on its own *)
            match upload_fid (rq_path rq) with
            | None => Panicked
            | Some ufid =>
                match parse_path ufid with
                | None => BadRequest                         (* n.ParsePath(fid) *)
                | Some (uid, uck) =>
                    (* the repair: the needle built from the upload's own reading of the path must
                       be the needle that the checked fid denotes, else 400 *)
                    match parse_path fid with
                    | None => BadRequest
                    | Some (id, ck) =>
                        if ((id =? uid) && (ck =? uck))%N
                        then Proceed vid fid (vol, uid, uck)  (* topology.ReplicatedWrite of reqNeedle *)
                        else BadRequest
                    end
                end
            end
      end
  end.

Definition delete (tab : toktab) (cfg : config) (rq : request) : hresult :=
  match parse_url_path (rq_path rq) with
  | None => Panicked
  | Some (vid, fid) =>
      (* volumeId, ve := needle.NewVolumeId(vid); pe := n.ParsePath(fid); the token check (401);
         then ve != nil -> 400, pe != nil -> 400 (the repair of the former finding C34/0) *)
      if negb (check_jwt tab cfg true rq vid fid) then Unauthorized
      else match parse_vid vid with
           | None => BadRequest
           | Some vol =>
               match parse_path fid with
               | None => BadRequest
               | Some (id, ck) => Proceed vid fid (vol, id, ck)
               end
           end
  end.

Definition handle (tab : toktab) (cfg : config) (rq : request) : hresult :=
  match rq_method rq with
  | GET | HEAD => get_or_head tab cfg rq
  | POST | PUT =>
      if rq_public rq then NoRoute
      else if whitelist_blocks cfg rq then Unauthorized
      else post tab cfg rq
  | DELETE =>
      if rq_public rq then NoRoute
      else if whitelist_blocks cfg rq then Unauthorized
      else delete tab cfg rq
  end.

(* ---- the store step (correspondence): a world of live needles ---- *)
Record nrec := { n_vol : N; n_id : N; n_ck : N; n_content : N }.
  (* n_content: 1 = the data the harness stored at set-up, 2 = the payload of this request *)
Record world := { w_vols : list N; w_live : list nrec }.

Definition same_slot (vol id : N) (r : nrec) : bool := ((n_vol r =? vol) && (n_id r =? id))%N.
Fixpoint find_needle (vol id : N) (l : list nrec) : option nrec :=
  match l with
  | [] => None
  | r :: l' => if same_slot vol id r then Some r else find_needle vol id l'
  end.
Definition has_vol (w : world) (vol : N) : bool := existsb (N.eqb vol) (w_vols w).

Record effect := { e_status : N; e_live : list nrec; e_disclosed : list (N * N) }.

Definition store_step (o : hresult) (m : meth) (w : world) : effect :=
  let same st := {| e_status := st; e_live := w_live w; e_disclosed := [] |} in
  match o with
  | Unauthorized => same 401%N
  | BadRequest => same 400%N
  | NoRoute => same 200%N
  | Panicked => same 0%N
  | Proceed _ _ (vol, id, ck) =>
      let hit := if has_vol w vol then find_needle vol id (w_live w) else None in
      match m with
      | GET | HEAD =>
          match hit with
          | Some r => if (n_ck r =? ck)%N
                      then {| e_status := 200; e_live := w_live w; e_disclosed := [(vol, id)] |}
                      else same 404%N                        (* cookie mismatch *)
          | None => same 404%N
          end
      | POST | PUT =>
          if negb (has_vol w vol) then same 500%N
          else match hit with
               | Some r => if (n_ck r =? ck)%N
                           then {| e_status := 201; e_disclosed := [];
                                   e_live := {| n_vol := vol; n_id := id; n_ck := ck; n_content := 2 |}
                                             :: filter (fun x => negb (same_slot vol id x)) (w_live w) |}
                           else same 500%N                   (* "mismatching cookie" *)
               | None => {| e_status := 201; e_disclosed := [];
                            e_live := {| n_vol := vol; n_id := id; n_ck := ck; n_content := 2 |} :: w_live w |}
               end
      | DELETE =>
          match hit with
          | Some r => if (n_ck r =? ck)%N
                      then {| e_status := 202; e_disclosed := [];
                              e_live := filter (fun x => negb (same_slot vol id x)) (w_live w) |}
                      else same 400%N                        (* "File Random Cookie does not match." *)
          | None => same 404%N
          end
      end
  end.

(* ---- the property's reference: who may touch the file ---- *)
Definition token_good (key : string) (t : token) : bool :=
  decode_ok key t && t_names_target t.

(* presented: the token strings the request carries, wherever they are *)
Definition spec_allows (tab : toktab) (cfg : config) (rq : request) (presented : list string) : bool :=
  let key := key_for cfg (is_write_method (rq_method rq)) in
  sempty key ||
  existsb (fun s => match lookup s tab with Some t => token_good key t | None => false end) presented.

(* a token whose claim denotes (by the real parser) the volume and cookie of a needle and its key, or a
   smaller key when the request carried a _suffix *)
Definition token_opens (key : string) (suffix : bool) (r : nrec) (t : token) : bool :=
  decode_ok key t &&
  match t_den t with
  | Some (vol, k, ck) => ((vol =? n_vol r) && (ck =? n_ck r) && ((k =? n_id r) || (suffix && (k <=? n_id r))))%N
  | None => false
  end.
Definition needle_allowed (tab : toktab) (cfg : config) (rq : request) (presented : list string) (r : nrec) : bool :=
  let key := key_for cfg (is_write_method (rq_method rq)) in
  sempty key ||
  existsb (fun s => match lookup s tab with
                    | Some t => token_opens key (Nat.ltb 0 (count_char c_us (rq_path rq))) r t
                    | None => false end) presented.

Definition is_upload (m : meth) : bool := match m with POST | PUT => true | _ => false end.
