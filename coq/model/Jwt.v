(* Model of the volume server's signed-token access control (C34):
     weed/security/jwt.go                       GetJwt, DecodeJwt
     weed/security/guard.go                     Guard.WhiteList (isWriteActive, checkWhiteList)
     weed/server/common.go                      parseURLPath
     weed/server/volume_server_handlers.go      privateStoreHandler, publicReadOnlyHandler, maybeCheckJwtAuthorization
     weed/server/volume_server_handlers_read.go / _write.go   order of the steps before the store is consulted
     weed/storage/needle/needle.go              CreateNeedleFromRequest: how an upload finds its file id in the path
   The JWT library (github.com/golang-jwt/jwt v3.2.1: parsing, HMAC verification, exp/nbf/iat)
   is an ORACLE: every token string of a case comes with the facts the harness knows
   from how it built the token.  Executable definitions only; proofs in proof/JwtProofs.v.
   The model is faithful to the code as it is, i.e. WITH the repair of finding C34/0 in
   PostHandler (the upload's needle must equal the needle of the checked fid). *)
From Coq Require Import List NArith ZArith Bool String Ascii Arith.
Import ListNotations.
Local Open Scope string_scope.

Definition sempty (s : string) : bool := match s with EmptyString => true | _ => false end.

(* ---- Go string primitives on ASCII strings ---- *)
Definition c_us : ascii := "_"%char.
Definition c_slash : ascii := "/"%char.
Definition c_comma : ascii := ","%char.
Definition c_dot : ascii := "."%char.

Fixpoint count_char (c : ascii) (s : string) : nat :=
  match s with
  | EmptyString => O
  | String a s' => (if Ascii.eqb a c then 1 else 0) + count_char c s'
  end.

(* strings.LastIndex(s, c) for a one-character c *)
Fixpoint last_index_nat (c : ascii) (s : string) : option nat :=
  match s with
  | EmptyString => None
  | String a s' => match last_index_nat c s' with
                   | Some i => Some (S i)
                   | None => if Ascii.eqb a c then Some O else None
                   end
  end.
Definition last_index (c : ascii) (s : string) : Z :=
  match last_index_nat c s with Some i => Z.of_nat i | None => (-1)%Z end.

Definition slen (s : string) : Z := Z.of_nat (String.length s).
(* s[lo:hi]; None = "slice bounds out of range" panic *)
Definition go_slice (s : string) (lo hi : Z) : option string :=
  if ((0 <=? lo) && (lo <=? hi) && (hi <=? slen s))%Z
  then Some (substring (Z.to_nat lo) (Z.to_nat (hi - lo)) s)
  else None.
Definition go_from (s : string) (lo : Z) : option string := go_slice s lo (slen s).

(* strings.Split(s, sep) for a one-character separator *)
Fixpoint split_on (sep : ascii) (s : string) : list string :=
  match s with
  | EmptyString => [EmptyString]
  | String c s' =>
      if Ascii.eqb c sep then EmptyString :: split_on sep s'
      else match split_on sep s' with
           | [] => [String c EmptyString]
           | h :: t => String c h :: t
           end
  end.

(* ---- parseURLPath(path) -> (vid, fid); None = the function panics ---- *)
Definition parse_url_path (path : string) : option (string * string) :=
  match count_char c_slash path with
  | 3 =>
      let parts := split_on c_slash path in
      Some (nth 1 parts "", nth 2 parts "")
  | 2 =>
      let parts := split_on c_slash path in
      let vid := nth 1 parts "" in
      let fid := nth 2 parts "" in
      let dot := last_index c_dot fid in
      if (0 <? dot)%Z then
        match go_slice fid 0 dot with Some f => Some (vid, f) | None => None end
      else Some (vid, fid)
  | _ =>
      let sep := last_index c_slash path in
      match go_from path sep with               (* path[sepIndex:] *)
      | None => None
      | Some tail =>
          let comma := last_index c_comma tail in   (* relative to sepIndex ... *)
          if (comma <=? 0)%Z then
            match go_from path (sep + 1) with Some v => Some (v, "") | None => None end
          else
            let dot := last_index c_dot tail in
            (* ... but used as an absolute index *)
            match go_slice path (sep + 1) comma with
            | None => None
            | Some vid =>
                if (0 <? dot)%Z then
                  match go_slice path (comma + 1) dot with Some f => Some (vid, f) | None => None end
                else
                  match go_from path (comma + 1) with Some f => Some (vid, f) | None => None end
            end
      end
  end.

(* ---- CreateNeedleFromRequest: the file id an upload writes to ----
     commaSep := strings.LastIndex(path, ","); dotSep := strings.LastIndex(path, ".")
     fid := path[commaSep+1:]; if dotSep > 0 { fid = path[commaSep+1 : dotSep] }      *)
Definition upload_fid (path : string) : option string :=
  let comma := last_index c_comma path in
  let dot := last_index c_dot path in
  if (0 <? dot)%Z then go_slice path (comma + 1) dot else go_from path (comma + 1).

(* ---- token facts (oracle) ---- *)
Inductive alg :=
| AlgHMAC       (* HS256 / HS384 / HS512: jwt.SigningMethodHMAC *)
| AlgNone       (* "none" *)
| AlgOther      (* registered non-HMAC method: RS256.., ES256.., PS256.. *)
| AlgUnknown.   (* not registered: ParseWithClaims fails before the key function *)

Record token := {
  t_wellformed : bool;     (* three segments; header and claims decode into SeaweedFileIdClaims *)
  t_alg : alg;
  t_signed_with : string;  (* the key under which the signature verifies for the header's alg; "" if none *)
  t_exp_ok : bool;         (* StandardClaims.Valid at request time: exp *)
  t_nbf_ok : bool;         (* nbf *)
  t_iat_ok : bool;         (* iat *)
  t_fid : string;          (* claim "fid" *)
  t_names_target : bool    (* ORACLE used by the property only: the claim denotes the volume, key and
                              cookie of the file the request operates on (sub-file suffix ignored),
                              compared as numbers *)
}.

Definition is_hmac (a : alg) : bool := match a with AlgHMAC => true | _ => false end.

(* jwt.ParseWithClaims(tokenString, &SeaweedFileIdClaims{}, keyFunc) returns err == nil and token.Valid *)
Definition decode_ok (key : string) (t : token) : bool :=
  t_wellformed t && is_hmac (t_alg t) && String.eqb (t_signed_with t) key &&
  t_exp_ok t && t_nbf_ok t && t_iat_ok t.

Definition toktab := list (string * token).
Fixpoint lookup (s : string) (tab : toktab) : option token :=
  match tab with
  | [] => None                                   (* unknown string = malformed token *)
  | (k, t) :: tab' => if String.eqb k s then Some t else lookup s tab'
  end.

(* ---- request ---- *)
Inductive meth := GET | HEAD | POST | PUT | DELETE.

Record request := {
  rq_public : bool;        (* arrived on the public (read-only) port *)
  rq_method : meth;
  rq_query_jwt : string;   (* r.URL.Query().Get("jwt") *)
  rq_auth : string;        (* Authorization header *)
  rq_path : string;        (* r.URL.Path *)
  rq_vid_ok : bool;        (* ORACLE: needle.NewVolumeId(vid) succeeds, vid from parseURLPath *)
  rq_fid_ok : bool;        (* ORACLE: n.ParsePath(fid) succeeds, fid from parseURLPath *)
  rq_upfid_ok : bool;      (* ORACLE: n.ParsePath(upload_fid path) succeeds *)
  rq_same_needle : bool;   (* ORACLE: ParsePath(fid) succeeds and gives the same needle id and cookie
                              as ParsePath(upload_fid path) — the repaired PostHandler's comparison *)
  rq_wl_pass : bool        (* the remote host is in the white list *)
}.

Record config := {
  write_key : string;      (* jwt.signing.key *)
  read_key : string;       (* jwt.signing.read.key *)
  wl_active : bool         (* the white list is non-empty *)
}.

(* ---- GetJwt ---- *)
Definition upper (c : ascii) : ascii :=
  let n := nat_of_ascii c in if Nat.leb 97 n && Nat.leb n 122 then ascii_of_nat (n - 32) else c.
Fixpoint upper_s (s : string) : string :=
  match s with EmptyString => EmptyString | String c s' => String (upper c) (upper_s s') end.

Definition get_jwt (rq : request) : string :=
  if negb (sempty (rq_query_jwt rq)) then rq_query_jwt rq
  else
    let bearer := rq_auth rq in
    (* len(bearer) > 7 && strings.ToUpper(bearer[0:6]) == "BEARER"  ->  bearer[7:] ;
       the seventh character is not looked at *)
    if Nat.ltb 7 (String.length bearer) && String.eqb (upper_s (substring 0 6 bearer)) "BEARER"
    then substring 7 (String.length bearer - 7) bearer
    else "".

(* ---- fid = fid[:strings.LastIndex(fid, "_")] when that index is > 0 ---- *)
Definition strip_suffix (fid : string) : string :=
  match last_index_nat c_us fid with
  | Some (S i) => substring 0 (S i) fid
  | _ => fid
  end.

(* ---- maybeCheckJwtAuthorization(r, vid, fid, isWrite) ---- *)
Definition key_for (cfg : config) (is_write : bool) : string :=
  if is_write then write_key cfg else read_key cfg.

Definition check_jwt (tab : toktab) (cfg : config) (is_write : bool) (rq : request) (vid fid : string) : bool :=
  let key := key_for cfg is_write in
  if sempty key then true
  else
    let ts := get_jwt rq in
    if sempty ts then false
    else match lookup ts tab with
         | None => false
         | Some t =>
             if decode_ok key t
             then String.eqb (t_fid t) (vid ++ "," ++ strip_suffix fid)
             else false
         end.

(* ---- the handlers up to the first access to the store ---- *)
Inductive hresult :=
| Unauthorized     (* 401 written, handler returns *)
| BadRequest       (* 400 written, handler returns *)
| NoRoute          (* the method is not served on this port: nothing is written *)
| Panicked         (* a slice expression panics; net/http aborts the request *)
| Proceed (vid fid : string).   (* the store is consulted for volume NewVolumeId(vid) and the needle
                                   that ParsePath(fid) denotes *)

Definition is_write_method (m : meth) : bool :=
  match m with POST | PUT | DELETE => true | _ => false end.

(* Guard.WhiteList(f): active when the white list or the write key is non-empty;
   checkWhiteList passes when the list is empty *)
Definition whitelist_blocks (cfg : config) (rq : request) : bool :=
  (wl_active cfg || negb (sempty (write_key cfg))) && wl_active cfg && negb (rq_wl_pass rq).

Definition get_or_head (tab : toktab) (cfg : config) (rq : request) : hresult :=
  match parse_url_path (rq_path rq) with
  | None => Panicked
  | Some (vid, fid) =>
      if negb (check_jwt tab cfg false rq vid fid) then Unauthorized
      else if negb (rq_vid_ok rq) then BadRequest
      else if negb (rq_fid_ok rq) then BadRequest
      else Proceed vid fid
  end.

Definition post (tab : toktab) (cfg : config) (rq : request) : hresult :=
  match parse_url_path (rq_path rq) with
  | None => Panicked
  | Some (vid, fid) =>
      if negb (rq_vid_ok rq) then BadRequest                 (* NewVolumeId is checked first *)
      else if negb (check_jwt tab cfg true rq vid fid) then Unauthorized
      else
        (* needle.CreateNeedleFromRequest finds the file id in the path on its own *)
        match upload_fid (rq_path rq) with
        | None => Panicked
        | Some ufid =>
            if negb (rq_upfid_ok rq) then BadRequest         (* n.ParsePath(fid) *)
            (* repair of finding C34/0: the needle built from the upload's own reading of the
               path must be the needle that the checked fid denotes, else 400 *)
            else if negb (rq_same_needle rq) then BadRequest
            else Proceed vid fid                             (* topology.ReplicatedWrite on that needle *)
        end
  end.

Definition delete (tab : toktab) (cfg : config) (rq : request) : hresult :=
  match parse_url_path (rq_path rq) with
  | None => Panicked
  | Some (vid, fid) =>
      (* the errors of NewVolumeId and ParsePath are ignored *)
      if negb (check_jwt tab cfg true rq vid fid) then Unauthorized
      else Proceed vid fid
  end.

Definition handle (tab : toktab) (cfg : config) (rq : request) : hresult :=
  match rq_method rq with
  | GET | HEAD => get_or_head tab cfg rq
  | POST | PUT =>
      if rq_public rq then NoRoute
      else if whitelist_blocks cfg rq then Unauthorized
      else post tab cfg rq
  | DELETE =>
      if rq_public rq then NoRoute
      else if whitelist_blocks cfg rq then Unauthorized
      else delete tab cfg rq
  end.

(* ---- status after the store was consulted (correspondence only) ---- *)
Inductive target := TExists | TMissing | TNoVolume.

Definition final_status (o : hresult) (m : meth) (tg : target) : N :=
  match o with
  | Unauthorized => 401
  | BadRequest => 400
  | NoRoute => 200
  | Panicked => 0
  | Proceed _ _ =>
      match m, tg with
      | (GET | HEAD), TExists => 200
      | (GET | HEAD), _ => 404
      | (POST | PUT), TNoVolume => 500
      | (POST | PUT), _ => 201
      | DELETE, TExists => 202
      | DELETE, _ => 404
      end
  end%N.

(* ---- the property's reference: who may touch the file ---- *)
Definition token_good (key : string) (t : token) : bool :=
  decode_ok key t && t_names_target t.

(* presented: the token strings the request carries, wherever they are *)
Definition spec_allows (tab : toktab) (cfg : config) (rq : request) (presented : list string) : bool :=
  let key := key_for cfg (is_write_method (rq_method rq)) in
  sempty key ||
  existsb (fun s => match lookup s tab with Some t => token_good key t | None => false end) presented.

Definition is_upload (m : meth) : bool := match m with POST | PUT => true | _ => false end.
