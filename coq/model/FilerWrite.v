(* Model of the filer HTTP write path (C25):
     weed/server/filer_server_handlers_write.go            PostHandler
     weed/server/filer_server_handlers_write_autochunk.go  autoChunk, doPostAutoChunk, doPutAutoChunk, saveMetaData
     weed/server/filer_server_handlers_write_upload.go     uploadReaderToChunks, dataToChunk
   Executable definitions only; proofs are in proof/FilerWriteProofs.v.

   Faithful to the code as it is (after the five C25 repairs; the fifth, append
   onto a directory refused, is in handle_write_fs below):
   * a body read error ends the chunk loop AND is recorded: the request fails
     ("read input: ..." -> 499) and nothing is committed;
   * the first read is inlined only when it is SHORTER than the chunk size (so it
     is the whole body) and smaller than saveToFilerLimit or under /etc;
   * on append every new chunk is shifted by entry.Size() = the current end of
     the file (max of FileSize attribute, chunk extent, inline length);
   * autoChunk rejects maxMB <= 0 and maxMB > 2047 (400), so the int32 chunk size
     1024*1024*maxMB is positive and does not wrap.

   Bytes are [N]; offsets and sizes are [N] (int64/uint64, never negative and
   never near the limits here); the chunk size and the inline limit are [Z]
   (int32 / int64). *)
From Coq Require Import List NArith ZArith Bool.
Import ListNotations.

(* How the request body reader ends after delivering its bytes:
   Eof          io.EOF
   ReadErr      a non-EOF error returned by the Read call AFTER the last bytes
   ReadErrData  a non-EOF error returned TOGETHER with the last bytes
                (both are allowed by the io.Reader contract) *)
Inductive ending := Eof | ReadErr | ReadErrData.
Definition is_err (e : ending) : bool := match e with Eof => false | _ => true end.

(* PostForm: POST multipart/form-data (first part is the file);
   PostRaw : POST with any other content type *)
Inductive method := Put | PostForm | PostRaw.

(* response status class: 201 | >= 400 | anything else *)
Inductive status := Created | Failed | Other.

(* filer_pb.FileChunk: Offset, Size, and the content stored under FileId *)
Record chunk := Ck { ck_off : N; ck_size : N; ck_data : list N }.

(* filer.Entry projection: Attr.FileSize, Content, Chunks, Attr.Md5 (None = nil) *)
Record entry := { e_size : N; e_content : list N; e_chunks : list chunk; e_md5 : option N }.

Definition is_nil {A} (l : list A) : bool := match l with [] => true | _ => false end.

(* ---------- autoChunk: chunk size ---------- *)

(* int32 two's complement wrap *)
Definition wrap32 (z : Z) : Z := ((z + 2147483648) mod 4294967296 - 2147483648)%Z.

(* parsedMaxMB, _ := strconv.ParseInt(query.Get("maxMB"), 10, 32)   (0 when absent)
   maxMB := int32(parsedMaxMB)
   if maxMB <= 0 && fs.option.MaxMB > 0 { maxMB = int32(fs.option.MaxMB) }
   if maxMB <= 0 || maxMB > 2047 { 400; return }
   chunkSize := 1024 * 1024 * maxMB                                  (int32)
   None = the request is rejected with 400 *)
Definition auto_chunk_size (maxmb_q maxmb_opt : Z) : option Z :=
  let m := wrap32 maxmb_q in
  let m := if ((m <=? 0) && (0 <? maxmb_opt))%Z then wrap32 maxmb_opt else m in
  if ((m <=? 0) || (2047 <? m))%Z then None
  else Some (wrap32 (1024 * 1024 * m)).

(* ---------- uploadReaderToChunks ---------- *)

(* dataSize, err := bytesBuffer.ReadFrom(io.LimitReader(partReader, int64(chunkSize)))
   returns (data read, rest of the body, err != nil).  A LimitReader with N <= 0
   returns EOF without touching the underlying reader. *)
Definition read_chunk (cs : Z) (bytes : list N) (e : ending) : list N * list N * bool :=
  if (cs <=? 0)%Z then ([], bytes, false)
  else
    let n := Z.to_nat cs in
    let err := match e with
               | Eof => false
               | ReadErr => Nat.ltb (length bytes) n
               | ReadErrData => Nat.leb (length bytes) n
               end in
    (firstn n bytes, skipn n bytes, err).

(* fileChunks, chunkOffset, an upload failed, the body reader failed,
   smallContent, and the number of body bytes that went through the md5 TeeReader *)
Record upload_result := UR {
  ur_chunks : list chunk; ur_off : N; ur_err : bool; ur_rerr : bool;
  ur_small : list N; ur_hashed : N }.

(* The for-loop.  [upfail]: one flag per upload started, true = dataToChunk
   fails for that chunk after all its retries (oracle for master/volume).
   [inline_ok] = !isAppend(r); [etc] = strings.HasPrefix(r.URL.Path, "/etc"). *)
Fixpoint upload_loop (fuel : nat) (cs limit : Z) (inline_ok etc : bool)
    (bytes : list N) (e : ending) (upfail : list bool)
    (off : N) (acc : list chunk) (uerr : bool) (hashed : N) : upload_result :=
  match fuel with
  | O => UR acc off uerr false [] hashed
  | S fuel' =>
    let '(d, rest, rerr) := read_chunk cs bytes e in
    let dsz := N.of_nat (length d) in
    let hashed' := (hashed + dsz)%N in
    (* if err != nil || dataSize == 0 { readErr = err; break } *)
    if rerr || (dsz =? 0)%N then UR acc off uerr rerr [] hashed'
    (* if chunkOffset == 0 && !isAppend(r) && dataSize < int64(chunkSize) {
         if dataSize < SaveToFilerLimit || under /etc { inline; break } } *)
    else if (off =? 0)%N && inline_ok && (Z.of_N dsz <? cs)%Z && ((Z.of_N dsz <? limit)%Z || etc)
    then UR acc (off + dsz)%N uerr false d hashed'
    else
      (* go dataToChunk(...): on failure uploadErr is set and no chunk is appended *)
      let failed := hd false upfail in
      let acc' := if failed then acc else acc ++ [Ck off dsz d] in
      let uerr' := uerr || failed in
      let off' := (off + dsz)%N in
      (* if dataSize < int64(chunkSize) { break } *)
      if (Z.of_N dsz <? cs)%Z then UR acc' off' uerr' false [] hashed'
      else upload_loop fuel' cs limit inline_ok etc rest e (tl upfail) off' acc' uerr' hashed'
  end.

(* every iteration that continues consumed a full chunk, so this is enough *)
Definition fuel_for (cs : Z) (len : N) : nat := S (Z.to_nat (Z.of_N len / cs)).

Definition ur_failed (r : upload_result) : bool := ur_err r || ur_rerr r.

(* if uploadErr == nil && readErr != nil { uploadErr = "read input: ..." }
   if uploadErr != nil { return nil, md5Hash, 0, uploadErr, nil }
   the chunks were appended in offset order, so the final sort is the identity *)
Definition finish (r : upload_result) : upload_result :=
  if ur_failed r then UR [] 0 (ur_err r) (ur_rerr r) [] (ur_hashed r) else r.

Definition upload_reader_to_chunks (cs limit : Z) (inline_ok etc : bool)
    (bytes : list N) (e : ending) (upfail : list bool) : upload_result :=
  finish (upload_loop (fuel_for cs (N.of_nat (length bytes))) cs limit inline_ok etc
            bytes e upfail 0 [] false 0).

(* ---------- reference reader (the property's oracle) ----------
   What a GET of the entry returns: the inline content if any, else the chunks
   painted in list order (later chunks have later mtimes) over a zero buffer of
   max(FileSize attribute, extent of the chunks) bytes  (filer.FileSize). *)
Definition extent (cks : list chunk) : N :=
  fold_left (fun m c => N.max m (ck_off c + ck_size c)) cks 0%N.

Definition paint (buf : list N) (c : chunk) : list N :=
  let o := N.to_nat (ck_off c) in
  firstn o buf ++ ck_data c ++ skipn (o + length (ck_data c)) buf.

Definition file_end (e : entry) : N := N.max (e_size e) (extent (e_chunks e)).

Definition read_entry (e : entry) : list N :=
  if is_nil (e_content e)
  then fold_left paint (e_chunks e) (repeat 0%N (N.to_nat (file_end e)))
  else e_content e.

(* ---------- saveMetaData ---------- *)

Definition shift_chunk (by_ : N) (c : chunk) : chunk :=
  Ck (ck_off c + by_) (ck_size c) (ck_data c).

(* filer.Entry.Size(): max(max(TotalSize(chunks), FileSize), len(Content)) *)
Definition entry_size (e : entry) : N :=
  N.max (N.max (extent (e_chunks e)) (e_size e)) (N.of_nat (length (e_content e))).

(* [md5] is the hash oracle; [bytes] the request body (the hashed bytes are a
   prefix of it).  Returns (no error, the entry stored under the path afterwards). *)
Definition save_metadata (md5 : list N -> N) (is_append : bool) (pre : option entry)
    (bytes : list N) (ur : upload_result) : bool * option entry :=
  match (if is_append then pre else None) with
  | Some e =>
      (* appendAt := entry.Size(); chunk.Offset += appendAt;
         entry.FileSize = appendAt + chunkOffset; Md5 = nil *)
      if negb (is_nil (e_content e)) then (false, pre)   (* "append to small file is not supported yet" *)
      else (true, Some {| e_size := entry_size e + ur_off ur;
                          e_content := e_content e;
                          e_chunks := e_chunks e ++ map (shift_chunk (entry_size e)) (ur_chunks ur);
                          e_md5 := None |})
  | None =>
      (true, Some {| e_size := ur_off ur;
                     e_content := ur_small ur;
                     e_chunks := ur_chunks ur;
                     e_md5 := Some (md5 (firstn (N.to_nat (ur_hashed ur)) bytes)) |})
  end.

(* ---------- doPostAutoChunk / doPutAutoChunk + the response of autoChunk ---------- *)

Record request := {
  rq_method : method; rq_append : bool; rq_etc : bool;
  rq_cs : Z;            (* chunk size in bytes *)
  rq_limit : Z;         (* option.SaveToFilerLimit *)
  rq_body : list N; rq_end : ending;
  rq_upfail : list bool }.

Definition upload_of (rq : request) : upload_result :=
  upload_reader_to_chunks (rq_cs rq) (rq_limit rq) (negb (rq_append rq)) (rq_etc rq)
    (rq_body rq) (rq_end rq) (rq_upfail rq).

Definition handle_write (md5 : list N -> N) (rq : request) (pre : option entry) : status * option entry :=
  match rq_method rq with
  | PostRaw => (Failed, pre)            (* r.MultipartReader(): not multipart -> 500 *)
  | _ =>
    let ur := upload_of rq in
    if ur_failed ur then (Failed, pre)
    else
      let '(ok, post) := save_metadata md5 (rq_append rq) pre (rq_body rq) ur in
      ((if ok then Created else Failed), post)
  end.

(* ---------- length-level view of the upload loop (used for 1 MiB chunks) ---------- *)

Record plan := PL {
  pl_chunks : list (N * N);   (* (offset, size) *)
  pl_off : N; pl_err : bool; pl_rerr : bool;
  pl_small : N (* length of the inline content, 0 = none *); pl_hashed : N }.

Definition read_len (cs : Z) (len : N) (e : ending) : N * N * bool :=
  if (cs <=? 0)%Z then (0, len, false)%N
  else
    let n := Z.to_N cs in
    let err := match e with
               | Eof => false
               | ReadErr => (len <? n)%N
               | ReadErrData => (len <=? n)%N
               end in
    (N.min n len, len - N.min n len, err)%N.

Fixpoint plan_loop (fuel : nat) (cs limit : Z) (inline_ok etc : bool)
    (len : N) (e : ending) (upfail : list bool)
    (off : N) (acc : list (N * N)) (uerr : bool) (hashed : N) : plan :=
  match fuel with
  | O => PL acc off uerr false 0 hashed
  | S fuel' =>
    let '(dsz, rest, rerr) := read_len cs len e in
    let hashed' := (hashed + dsz)%N in
    if rerr || (dsz =? 0)%N then PL acc off uerr rerr 0 hashed'
    else if (off =? 0)%N && inline_ok && (Z.of_N dsz <? cs)%Z && ((Z.of_N dsz <? limit)%Z || etc)
    then PL acc (off + dsz)%N uerr false dsz hashed'
    else
      let failed := hd false upfail in
      let acc' := if failed then acc else acc ++ [(off, dsz)] in
      let uerr' := uerr || failed in
      let off' := (off + dsz)%N in
      if (Z.of_N dsz <? cs)%Z then PL acc' off' uerr' false 0 hashed'
      else plan_loop fuel' cs limit inline_ok etc rest e (tl upfail) off' acc' uerr' hashed'
  end.

Definition plan_finish (p : plan) : plan :=
  if pl_err p || pl_rerr p then PL [] 0 (pl_err p) (pl_rerr p) 0 (pl_hashed p) else p.

Definition plan_upload (cs limit : Z) (inline_ok etc : bool) (len : N) (e : ending)
    (upfail : list bool) : plan :=
  plan_finish (plan_loop (fuel_for cs len) cs limit inline_ok etc len e upfail 0 [] false 0).

Definition shape (r : upload_result) : plan :=
  PL (map (fun c => (ck_off c, ck_size c)) (ur_chunks r)) (ur_off r) (ur_err r) (ur_rerr r)
     (N.of_nat (length (ur_small r))) (ur_hashed r).

(* ---------- the store around the request path: saveMetaData's path fix and Filer.CreateEntry ----------
   [handle_write] above describes one path slot that accepts every entry.  The
   definitions below add what saveMetaData and Filer.CreateEntry do around it:
     * "fix the path": a URL path without trailing "/" that is an existing
       DIRECTORY gets "/" + fileName appended when fileName <> "" (for a PUT
       fileName = path.Base(URL path), so PUT /d writes /d/d);
     * ?op=append merges into the FILE entry stored under the resolved path
       (FindEntry); when that entry is a DIRECTORY the request is refused
       ("... is a directory" -> 500) and the new chunks are handed to DeleteChunks;
     * Filer.CreateEntry refuses a new entry below a regular file
       (ensureParentDirecotryEntry: "... is a file" -> 409) and a file over a
       directory (UpdateEntry: "existing ... is a directory" -> 500); saveMetaData
       then hands the NEW chunks to DeleteChunks;
     * an upload / read failure (uploadReaderToChunks returns nil chunks) and the
       "append to small file" refusal return without DeleteChunks: the chunks
       uploaded so far stay on the volume servers, referenced by nothing;
     * a successful replacement hands the replaced entry's chunks to DeleteChunks
       (deleteChunksIfNotNew). *)

Inductive node := NMissing | NFile (e : entry) | NDir (e : entry).

(* fs_a: the entry under the URL path (after a trailing "/" got the file name);
   fs_b: the entry under that path + "/" + fileName *)
Record fsstate := { fs_a : node; fs_b : node }.

Record fsreq := {
  fr_rq : request;
  fr_slash : bool;        (* the URL path ends with "/" *)
  fr_hasname : bool;      (* fileName <> "" *)
  fr_parent_file : bool   (* an ancestor of the URL path is a regular file *) }.

Definition is_dir (n : node) : bool := match n with NDir _ => true | _ => false end.

Definition node_entry (n : node) : option entry :=
  match n with NMissing => None | NFile e => Some e | NDir e => Some e end.

(* if possibleDirEntry.IsDirectory() { path += "/" + fileName } *)
Definition redirected (fr : fsreq) (st : fsstate) : bool :=
  negb (fr_slash fr) && fr_hasname fr && is_dir (fs_a st).

Definition target (fr : fsreq) (st : fsstate) : node :=
  if redirected fr st then fs_b st else fs_a st.

Definition set_target (fr : fsreq) (st : fsstate) (n : node) : fsstate :=
  if redirected fr st then {| fs_a := fs_a st; fs_b := n |} else {| fs_a := n; fs_b := fs_b st |}.

(* Filer.CreateEntry of a NEW regular-file entry over node [t] fails *)
Definition create_fails (fr : fsreq) (st : fsstate) : bool :=
  match target fr st with
  | NMissing => fr_parent_file fr && negb (redirected fr st)   (* below a directory the parent is fine *)
  | NFile _ => false
  | NDir _ => true
  end.

Record fsresult := {
  fo_status : status;
  fo_state : fsstate;
  fo_deleted : list chunk;    (* new chunks handed to DeleteChunks *)
  fo_leaked : list chunk;     (* new chunks uploaded, referenced by no entry, not deleted *)
  fo_replaced : list chunk    (* chunks of the replaced entry handed to DeleteChunks *) }.

(* the for-loop of uploadReaderToChunks before "if uploadErr != nil { return nil, ... }" *)
Definition loop_of (rq : request) : upload_result :=
  upload_loop (fuel_for (rq_cs rq) (N.of_nat (length (rq_body rq)))) (rq_cs rq) (rq_limit rq)
    (negb (rq_append rq)) (rq_etc rq) (rq_body rq) (rq_end rq) (rq_upfail rq) 0 [] false 0.

Definition handle_write_fs (md5 : list N -> N) (fr : fsreq) (st : fsstate) : fsresult :=
  let rq := fr_rq fr in
  let failed del leak := {| fo_status := Failed; fo_state := st; fo_deleted := del;
                            fo_leaked := leak; fo_replaced := [] |} in
  match rq_method rq with
  | PostRaw => failed [] []
  | _ =>
    let ur := upload_of rq in
    if ur_failed ur then failed [] (ur_chunks (loop_of rq))
    else
      let t := target fr st in
      match (if rq_append rq then node_entry t else None) with
      | Some e =>
          (* if entry.IsDirectory() { fs.filer.DeleteChunks(fileChunks); return "... is a directory" }  -> 500 *)
          if is_dir t then failed (ur_chunks ur) []
          else if negb (is_nil (e_content e)) then failed [] (ur_chunks ur)
          else
            (* the found file entry is updated: CreateEntry accepts it *)
            let e' := {| e_size := entry_size e + ur_off ur; e_content := e_content e;
                         e_chunks := e_chunks e ++ map (shift_chunk (entry_size e)) (ur_chunks ur);
                         e_md5 := None |} in
            {| fo_status := Created;
               fo_state := set_target fr st (NFile e');
               fo_deleted := []; fo_leaked := []; fo_replaced := [] |}
      | None =>
          if create_fails fr st then failed (ur_chunks ur) []
          else
            {| fo_status := Created;
               fo_state := set_target fr st
                 (NFile {| e_size := ur_off ur; e_content := ur_small ur; e_chunks := ur_chunks ur;
                           e_md5 := Some (md5 (firstn (N.to_nat (ur_hashed ur)) (rq_body rq))) |});
               fo_deleted := []; fo_leaked := [];
               fo_replaced := match t with NFile e0 => e_chunks e0 | _ => [] end |}
      end
  end.

(* ?op=append whose resolved path is a DIRECTORY: refused by saveMetaData (former
   finding c25-append-onto-directory; a plain predicate now, not a trigger) *)
Definition append_onto_dir (fr : fsreq) (st : fsstate) : bool :=
  rq_append (fr_rq fr) && is_dir (target fr st).
