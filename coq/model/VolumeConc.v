(* Concurrent operations on one SeaweedFS volume (C38):
     weed/storage/store.go         WriteVolumeNeedle / DeleteVolumeNeedle / ReadVolumeNeedle, SetStopping
     weed/storage/volume_write.go  writeNeedle2, syncWrite, deleteNeedle2, syncDelete, asyncRequestAppend, startWorker
     weed/storage/volume_read.go   readNeedle
     weed/storage/needle/async_request.go
   An interleaving machine whose atomic steps are the critical sections that
   dataFileAccessLock establishes; the effect of one critical section is the step
   function of the sequential volume model (model/Volume.v, C01).
   Part 1: histories, linearizability w.r.t. any sequential specification, and the
           brute-force decision procedure lin_check.
   Part 2: the machine.
   Executable definitions only (plus the Prop [linearizable]); proofs are in
   proof/VolumeConcProofs.v. *)
From Coq Require Import List NArith ZArith Bool Permutation.
From SW Require Import model.Volume.
Import ListNotations.
Local Open Scope N_scope.

(* ================= Part 1: histories and linearizability ================= *)

(* A complete history is the list of its operations; each carries the position (stamp on a
   global clock) of its invocation event Inv and of its response event Res, the operation
   and the result the caller got.  "Res a comes before Inv b"  <->  o_res a < o_inv b. *)
Record orec (Op Out : Type) := mk_orec { o_id : N; o_inv : N; o_res : N; o_op : Op; o_out : Out }.
Arguments mk_orec {Op Out}.
Arguments o_id {Op Out}.
Arguments o_inv {Op Out}.
Arguments o_res {Op Out}.
Arguments o_op {Op Out}.
Arguments o_out {Op Out}.

Section Lin.
  Context {Op Out St : Type}.
  (* a sequential specification: next state, and which results it accepts *)
  Variable nxt : St -> Op -> St.
  Variable acc : St -> Op -> Out -> bool.

  Definition precedes (a b : orec Op Out) : bool := o_res a <? o_inv b.

  (* [a] may be put before all of [rest]: none of them finished before [a] started *)
  Definition minimal (a : orec Op Out) (rest : list (orec Op Out)) : bool :=
    forallb (fun b => negb (precedes b a)) rest.

  (* a total order (a list) respects real time *)
  Fixpoint rt_ok (l : list (orec Op Out)) : bool :=
    match l with
    | [] => true
    | a :: r => minimal a r && rt_ok r
    end.

  (* the sequential specification accepts every result in that order; the state at the end *)
  Fixpoint seq_ok (st : St) (l : list (orec Op Out)) : option St :=
    match l with
    | [] => Some st
    | a :: r => if acc st (o_op a) (o_out a) then seq_ok (nxt st (o_op a)) r else None
    end.

  (* h is linearizable from s0, with a final state satisfying fin *)
  Definition linearizable (s0 : St) (fin : St -> Prop) (h : list (orec Op Out)) : Prop :=
    exists lin st', Permutation lin h /\ rt_ok lin = true /\ seq_ok s0 lin = Some st' /\ fin st'.

  (* every way of taking one element out of a list *)
  Fixpoint picks {A : Type} (l : list A) : list (A * list A) :=
    match l with
    | [] => []
    | x :: r => (x, r) :: map (fun p => (fst p, x :: snd p)) (picks r)
    end.

  (* existsb that stops at the first hit (vm_compute is call-by-value: || and && evaluate both
     arguments, so the search is written with if-then-else) *)
  Fixpoint anyb {A : Type} (f : A -> bool) (l : list A) : bool :=
    match l with
    | [] => false
    | x :: r => if f x then true else anyb f r
    end.

  (* depth-first search over all orders that respect real time (Wing & Gong) *)
  Fixpoint search (finb : St -> bool) (fuel : nat) (st : St) (rem : list (orec Op Out)) : bool :=
    match rem with
    | [] => finb st
    | _ :: _ =>
        match fuel with
        | O => false
        | S f =>
            anyb (fun p => if minimal (fst p) (snd p) then
                             if acc st (o_op (fst p)) (o_out (fst p)) then
                               search finb f (nxt st (o_op (fst p))) (snd p)
                             else false
                           else false)
                 (picks rem)
        end
    end.

  Definition lin_check (s0 : St) (finb : St -> bool) (h : list (orec Op Out)) : bool :=
    search finb (length h) s0 h.
End Lin.

(* ---------- the two sequential specifications of a volume ---------- *)
Definition hist := list (orec event out).

(* (a) the sequential volume model itself: results are exactly those of Volume.step *)
Definition vol_nxt (st : vol) (ev : event) : vol := fst (step st ev).
Definition vol_acc (st : vol) (ev : event) (o : out) : bool := out_eqb (snd (step st ev)) o.

(* (b) the per-key register specification of C01 with EVERY answer field (model/Volume.v,
   xexpect / xmatch): id -> (cookie, last written needle).  Beyond the error class it fixes
     write  : the "unchanged" acknowledgement and n.Size after the call
     delete : the size returned = Size of the needle that was live, 0 when none was live
              (so two deletes cannot both have removed the same needle)
     read   : count and every field of the needle; not-found/deleted; rd=true is left open *)
Definition reg_nxt (sp : spec) (ev : event) : spec := fst (spec_step sp ev).
Definition reg_acc (sp : spec) (ev : event) (o : out) : bool := xmatch (xexpect sp (fst ev) (snd ev)) (XO o).
(* C01's first-round acceptance (error classes only); reg_acc implies it *)
Definition reg_acc0 (sp : spec) (ev : event) (o : out) : bool := match_out (snd (spec_step sp ev)) o.

(* a volume state agrees with a register state: every read of every key with every cookie
   at every time answers what the register specification expects *)
Definition agrees (st : vol) (sp : spec) : Prop :=
  forall id c t, reg_acc sp (t, RawRead id c false) (snd (step st (t, RawRead id c false))) = true.

(* the same on a finite list of reads made after the history: (id, cookie, what came back) *)
Definition final_reads := list (N * N * out).
Definition agrees_on (fr : final_reads) (sp : spec) : bool :=
  forallb (fun x => let '(id, c, o) := x in reg_acc sp (0, RawRead id c false) o) fr.

(* (c) the same specification PER KEY: the state also carries the keys a known finding of C01
   has touched so far in this order (Volume.dirty_step: a write with an empty payload, finding 0;
   a write repeating id+cookie+bytes of an earlier one with other metadata, finding 1; any call
   on a key already touched).  Only the answers of calls on such keys are left open: a finding
   on one key excuses nothing on another key. *)
Record pkst := { pk_sp : spec; pk_dirt : dirt; pk_seen : list needle }.
Definition pk_init (sp : spec) : pkst := {| pk_sp := sp; pk_dirt := []; pk_seen := [] |}.
Definition pk_dirt_next (s : pkst) (ev : event) : dirt := dirty_step (pk_dirt s) (pk_seen s) (XBase (snd ev)).
Definition pk_nxt (s : pkst) (ev : event) : pkst :=
  {| pk_sp := reg_nxt (pk_sp s) ev; pk_dirt := pk_dirt_next s ev; pk_seen := xseen_next (pk_seen s) (XBase (snd ev)) |}.
Definition pk_acc (s : pkst) (ev : event) (o : out) : bool :=
  match dirt_of_keys (pk_dirt_next s ev) (xkeys (XBase (snd ev))) with
  | Some _ => true
  | None => reg_acc (pk_sp s) ev o
  end.
Definition agrees_pk (st : vol) (s : pkst) : Prop :=
  forall id c t, dirt_get (pk_dirt s) id = None ->
    reg_acc (pk_sp s) (t, RawRead id c false) (snd (step st (t, RawRead id c false))) = true.
Definition agrees_on_pk (fr : final_reads) (s : pkst) : bool :=
  forallb (fun x => let '(id, c, o) := x in
                    match dirt_get (pk_dirt s) id with
                    | Some _ => true
                    | None => reg_acc (pk_sp s) (0, RawRead id c false) o
                    end) fr.

(* ---------- what is observed of the volume after the run ---------- *)
(* one .dat record as ScanVolumeFile reports it: (offset, id, cookie, Size) *)
Definition rsig := (N * N * N * N)%type.
Definition rsig_of (r : rec) : rsig := (r_off r, n_id (r_n r), n_cookie (r_n r), r_size r).
Definition rsig_eqb (a b : rsig) : bool :=
  let '(a1, a2, a3, a4) := a in let '(b1, b2, b3, b4) := b in (a1 =? b1) && (a2 =? b2) && (a3 =? b3) && (a4 =? b4).
Record fin_obs := {
  fo_dat : N;                              (* size of the .dat file *)
  fo_recs : list rsig;                     (* the records of the .dat file, in file order *)
  fo_nm : list (N * option (N * Z));       (* needle-map entry (offset, size) of some keys *)
  fo_reads : final_reads                   (* reads made after the run (clock 0), every field *)
}.
Definition nm_entry_eqb (st : vol) (e : N * option (N * Z)) : bool :=
  match nm_get (nm st) (fst e), snd e with
  | None, None => true
  | Some nv, Some (off, size) => (nv_off nv =? off) && (nv_size nv =? size)%Z
  | _, _ => false
  end.
Definition read_eqb (st : vol) (x : N * N * out) : bool :=
  let '(id, c, o) := x in out_eqb (snd (step st (0, RawRead id c false))) o.
Definition vol_final (f : fin_obs) (st : vol) : bool :=
  (dat_end st =? fo_dat f) && all2 rsig_eqb (map rsig_of (rev (recs st))) (fo_recs f)
  && forallb (nm_entry_eqb st) (fo_nm f) && forallb (read_eqb st) (fo_reads f).

(* an empty volume / an empty register map, with the two read-only flags as given *)
Definition init_flags (a b : bool) : vol :=
  {| recs := []; nm := []; dat_end := 8; no_write_or_delete := a; no_write_can_delete := b |}.
Definition spec_flags (a b : bool) : spec := {| s_map := []; s_nwod := a; s_nwcd := b |}.

(* the three checkers; a b = noWriteOrDelete / noWriteCanDelete of the volume as loaded *)
Definition lin_check_vol (a b : bool) (f : fin_obs) (h : hist) : bool :=
  lin_check vol_nxt vol_acc (init_flags a b) (vol_final f) h.
Definition lin_check_reg (a b : bool) (fr : final_reads) (h : hist) : bool :=
  lin_check reg_nxt reg_acc (spec_flags a b) (agrees_on fr) h.
Definition lin_check_pk (a b : bool) (fr : final_reads) (h : hist) : bool :=
  lin_check pk_nxt pk_acc (pk_init (spec_flags a b)) (agrees_on_pk fr) h.

(* ---------- the hypotheses of C01's refinement, in an order-independent form ---------- *)
Definition needles_of (evs : list event) : list needle :=
  flat_map (fun ev => match op_needle (snd ev) with Some n => [n] | None => [] end) evs.

Definition no_conflict (a b : needle) : bool := negb (conflicts a b) && negb (conflicts b a).

Fixpoint pairwise_nc (l : list needle) : bool :=
  match l with
  | [] => true
  | a :: r => forallb (no_conflict a) r && pairwise_nc r
  end.

(* every written needle is representable and non-empty (C01 finding 0), and no two writes
   repeat id+cookie+bytes with different metadata or a TTL (C01 finding 1) *)
Definition conc_ok (evs : list event) : bool :=
  wf_history evs && negb (empty_payload evs) && pairwise_nc (needles_of evs).

(* the finding of C01 a history falls under, independently of any order: 0 = some write has an
   empty payload, 1 = two writes conflict (same id+cookie+bytes, other metadata or a TTL) *)
Definition conc_finding (evs : list event) : option N :=
  if empty_payload evs then Some 0 else if pairwise_nc (needles_of evs) then None else Some 1.

(* ================= Part 2: the machine ================= *)

(* what a client calls *)
Inductive cop :=
| CWrite (n : needle) (fsync : bool)      (* Store.WriteVolumeNeedle(vid, n, fsync) *)
| CRead (id cookie : N) (rd : bool)       (* Store.ReadVolumeNeedle *)
| CDelete (id cookie : N).                (* Store.DeleteVolumeNeedle *)

Definition op_of (c : cop) : op :=
  match c with
  | CWrite n _ => Write n
  | CRead id c rd => RawRead id c rd
  | CDelete id c => RawDelete id c
  end.

(* a call that has not yet had its critical section *)
Inductive pstat :=
| PInvoked     (* called; nothing done yet *)
| PReady       (* passed the checks made outside the lock; waiting for dataFileAccessLock (RLock for a read) *)
| PSending     (* writeNeedle2 with fsync: about to send into asyncRequestsChan *)
| PQueued      (* in asyncRequestsChan; the caller blocks in WaitComplete *)
| PBatched.    (* in the worker's currentRequests *)
Record pend := { p_id : N; p_op : cop; p_inv : N; p_stat : pstat }.

(* a call whose critical section is done *)
Inductive astat :=
| AWait            (* async: result stored in the request (UpdateResult); doneChan still open *)
| AReturn          (* free to return to the caller *)
| ADone (res : N). (* returned at stamp res *)
Record appl := {
  a_id : N; a_op : cop; a_inv : N;
  a_t : N;         (* the clock reading taken inside the critical section *)
  a_out : out;     (* its result *)
  a_at : N;        (* stamp of the critical section *)
  a_stat : astat }.

(* the worker goroutine of startWorker *)
Inductive wphase :=
| WCollect (batch : list N)          (* inner loop: blocked in <-asyncRequestsChan *)
| WReceived (batch : list N)         (* appended a request; the break test comes next *)
| WFull (batch : list N)             (* left the inner loop; waiting for dataFileAccessLock.Lock() *)
| WApplying (batch todo : list N)    (* holds the lock; [todo] not yet applied *)
| WSubmitting (todo : list N).       (* Sync() returned nil; Submit() of [todo] still to do *)

Record mstate := {
  m_vol : vol;
  m_stopping : bool;        (* Store.isStopping *)
  m_lock : bool;            (* dataFileAccessLock held by the worker *)
  m_now : N;                (* global clock: one tick per machine step *)
  m_pend : list pend;
  m_lin : list appl;        (* calls whose critical section is done, newest first *)
  m_queue : list N;         (* asyncRequestsChan (capacity 128), oldest first *)
  m_worker : wphase }.

(* st0: the volume as loaded (empty: Volume.init, possibly with a read-only flag set) *)
Definition minit (st0 : vol) (stopping : bool) : mstate :=
  {| m_vol := st0; m_stopping := stopping; m_lock := false; m_now := 0; m_pend := []; m_lin := [];
     m_queue := []; m_worker := WCollect [] |}.

(* every step ticks the clock and leaves isStopping alone (except LStop) *)
Definition upd (m : mstate) (v : vol) (lk : bool) (pd : list pend) (ln : list appl) (q : list N) (w : wphase) : mstate :=
  {| m_vol := v; m_stopping := m_stopping m; m_lock := lk; m_now := m_now m + 1; m_pend := pd; m_lin := ln;
     m_queue := q; m_worker := w |}.

Definition find_pend (id : N) (l : list pend) : option pend := find (fun p => p_id p =? id) l.
Definition del_pend (id : N) (l : list pend) : list pend := filter (fun p => negb (p_id p =? id)) l.
Definition set_pstat (id : N) (s : pstat) (l : list pend) : list pend :=
  map (fun p => if p_id p =? id then {| p_id := p_id p; p_op := p_op p; p_inv := p_inv p; p_stat := s |} else p) l.
Definition find_appl (id : N) (l : list appl) : option appl := find (fun a => a_id a =? id) l.
Definition set_astat (id : N) (s : astat) (l : list appl) : list appl :=
  map (fun a => if a_id a =? id
                then {| a_id := a_id a; a_op := a_op a; a_inv := a_inv a; a_t := a_t a; a_out := a_out a;
                        a_at := a_at a; a_stat := s |}
                else a) l.

Definition id_used (m : mstate) (id : N) : bool :=
  existsb (fun p => p_id p =? id) (m_pend m) || existsb (fun a => a_id a =? id) (m_lin m).

(* the critical section of call p: one step of the sequential volume model *)
Definition do_apply (m : mstate) (p : pend) (t : N) (s : astat) (lk : bool) (w : wphase) : mstate :=
  let '(v', o) := step (m_vol m) (t, op_of (p_op p)) in
  upd m v' lk (del_pend (p_id p) (m_pend m))
      ({| a_id := p_id p; a_op := p_op p; a_inv := p_inv p; a_t := t; a_out := o; a_at := m_now m; a_stat := s |}
         :: m_lin m)
      (m_queue m) w.

(* asyncRequest.ActualSize = GetActualSize(len(n.Data), version) *)
Definition req_bytes (c : cop) : N :=
  match c with CWrite n _ => actual_size (blen (n_data n)) | _ => actual_size 0 end.
Definition batch_bytes (m : mstate) (b : list N) : N :=
  fold_right (fun id s => match find_pend id (m_pend m) with Some p => req_bytes (p_op p) + s | None => s end) 0 b.

Definition is_pstat (a b : pstat) : bool :=
  match a, b with
  | PInvoked, PInvoked | PReady, PReady | PSending, PSending | PQueued, PQueued | PBatched, PBatched => true
  | _, _ => false
  end.

Inductive label :=
| LInv (id : N) (c : cop)   (* a goroutine calls the Store method: event Inv *)
| LEnter (id : N) (t : N)   (* the tests made before any lock: IsReadOnly() / noWriteOrDelete, fsync && isStopping *)
| LSend (id : N)            (* v.asyncRequestsChan <- request *)
| LApply (id : N) (t : N)   (* syncWrite / syncDelete / readNeedle: the whole section under the (R)Lock *)
| LRecv                     (* worker: request := <-v.asyncRequestsChan; append to currentRequests *)
| LDecide                   (* worker: 4 MB / 128 requests / len(chan) == 0 *)
| LLock                     (* worker: dataFileAccessLock.Lock(); GetStat() *)
| LWApply (t : N)           (* worker: doWriteRequest of the next request; UpdateResult *)
| LSync                     (* worker: DataBackend.Sync() == nil *)
| LSubmit                   (* worker: Submit() of the next request: close(doneChan) *)
| LUnlock                   (* worker: dataFileAccessLock.Unlock(); back to the outer loop *)
| LRes (id : N)             (* the Store method returns: event Res *)
| LStop.                    (* Store.SetStopping() *)

Definition mstep (m : mstate) (l : label) : option mstate :=
  match l with
  | LInv id c =>
      if id_used m id then None
      else Some (upd m (m_vol m) (m_lock m)
                     ({| p_id := id; p_op := c; p_inv := m_now m; p_stat := PInvoked |} :: m_pend m)
                     (m_lin m) (m_queue m) (m_worker m))
  | LEnter id t =>
      match find_pend id (m_pend m) with
      | Some p =>
          if is_pstat (p_stat p) PInvoked then
            let refused :=
              match p_op p with
              | CWrite _ _ => is_read_only (m_vol m)          (* WriteVolumeNeedle: v.IsReadOnly() *)
              | CDelete _ _ => no_write_or_delete (m_vol m)   (* DeleteVolumeNeedle: v.noWriteOrDelete *)
              | CRead _ _ _ => false
              end in
            if refused then
              (* returns the error at once; Volume.step tests the same flag first and does nothing else *)
              Some (do_apply m p t AReturn (m_lock m) (m_worker m))
            else
              let s := match p_op p with
                       | CWrite _ fs => if fs && m_stopping m then PSending else PReady   (* writeNeedle2(n, fsync && s.isStopping) *)
                       | _ => PReady                                                     (* deleteNeedle2: fsync := false *)
                       end in
              Some (upd m (m_vol m) (m_lock m) (set_pstat id s (m_pend m)) (m_lin m) (m_queue m) (m_worker m))
          else None
      | None => None
      end
  | LSend id =>
      match find_pend id (m_pend m) with
      | Some p =>
          if is_pstat (p_stat p) PSending && (N.of_nat (length (m_queue m)) <? 128)
          then Some (upd m (m_vol m) (m_lock m) (set_pstat id PQueued (m_pend m)) (m_lin m) (m_queue m ++ [id]) (m_worker m))
          else None
      | None => None
      end
  | LApply id t =>
      match find_pend id (m_pend m) with
      | Some p =>
          if is_pstat (p_stat p) PReady && negb (m_lock m)
          then Some (do_apply m p t AReturn (m_lock m) (m_worker m))
          else None
      | None => None
      end
  | LRecv =>
      match m_worker m, m_queue m with
      | WCollect b, id :: q =>
          Some (upd m (m_vol m) (m_lock m) (set_pstat id PBatched (m_pend m)) (m_lin m) q (WReceived (b ++ [id])))
      | _, _ => None
      end
  | LDecide =>
      match m_worker m with
      | WReceived b =>
          let full := (4194304 <=? batch_bytes m b) || (128 <=? N.of_nat (length b))
                      || (match m_queue m with [] => true | _ => false end) in
          Some (upd m (m_vol m) (m_lock m) (m_pend m) (m_lin m) (m_queue m) (if full then WFull b else WCollect b))
      | _ => None
      end
  | LLock =>
      match m_worker m with
      | WFull b => if m_lock m then None
                   else Some (upd m (m_vol m) true (m_pend m) (m_lin m) (m_queue m) (WApplying b b))
      | _ => None
      end
  | LWApply t =>
      match m_worker m with
      | WApplying b (id :: todo) =>
          match find_pend id (m_pend m) with
          | Some p => if is_pstat (p_stat p) PBatched
                      then Some (do_apply m p t AWait (m_lock m) (WApplying b todo))
                      else None
          | None => None
          end
      | _ => None
      end
  | LSync =>
      match m_worker m with
      | WApplying b [] => Some (upd m (m_vol m) (m_lock m) (m_pend m) (m_lin m) (m_queue m) (WSubmitting b))
      | _ => None
      end
  | LSubmit =>
      match m_worker m with
      | WSubmitting (id :: todo) =>
          Some (upd m (m_vol m) (m_lock m) (m_pend m) (set_astat id AReturn (m_lin m)) (m_queue m) (WSubmitting todo))
      | _ => None
      end
  | LUnlock =>
      match m_worker m with
      | WSubmitting [] => Some (upd m (m_vol m) false (m_pend m) (m_lin m) (m_queue m) (WCollect []))
      | _ => None
      end
  | LRes id =>
      match find_appl id (m_lin m) with
      | Some a =>
          match a_stat a with
          | AReturn => Some (upd m (m_vol m) (m_lock m) (m_pend m) (set_astat id (ADone (m_now m)) (m_lin m))
                                 (m_queue m) (m_worker m))
          | _ => None
          end
      | None => None
      end
  | LStop =>
      Some {| m_vol := m_vol m; m_stopping := true; m_lock := m_lock m; m_now := m_now m + 1; m_pend := m_pend m;
              m_lin := m_lin m; m_queue := m_queue m; m_worker := m_worker m |}
  end.

(* a schedule: None as soon as a step is not enabled *)
Fixpoint mrun (m : mstate) (sched : list label) : option mstate :=
  match sched with
  | [] => Some m
  | l :: sched' => match mstep m l with Some m' => mrun m' sched' | None => None end
  end.

(* every call has returned *)
Definition is_done (a : appl) : bool := match a_stat a with ADone _ => true | _ => false end.
Definition complete (m : mstate) : bool :=
  match m_pend m with [] => forallb is_done (m_lin m) | _ :: _ => false end.

Definition orec_of (a : appl) : orec event out :=
  {| o_id := a_id a; o_inv := a_inv a;
     o_res := match a_stat a with ADone r => r | _ => 0 end;
     o_op := (a_t a, op_of (a_op a)); o_out := a_out a |}.

(* the history a (complete) machine state has produced; the order of the list carries no
   information (linearizability is invariant under permutation of the history) *)
Definition history (m : mstate) : hist := map orec_of (m_lin m).
