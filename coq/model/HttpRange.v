(* Model of the volume server's range handling (C32):
     weed/server/volume_server_handlers_helper.go  parseRange, sumRangesSize, httpRange.contentRange
     weed/server/common.go                         processRangeRequest
     weed/server/volume_server_handlers_read.go    writeResponseContent, the gzip negotiation of GetOrHeadHandler
   Executable definitions only; proofs are in proof/HttpRangeProofs.v.
   The model is faithful to the code as it is (including its defects). *)
From Coq Require Import List NArith ZArith Bool String Ascii.
Import ListNotations.
Local Open Scope Z_scope.

(* ------------------------------------------------------------------ *)
(* int64 arithmetic where the code's behaviour depends on wrap-around *)
Definition int64_min : Z := - 2 ^ 63.
Definition int64_max : Z := 2 ^ 63 - 1.
Definition wrap64 (z : Z) : Z := (z + 2 ^ 63) mod 2 ^ 64 - 2 ^ 63.

(* ------------------------------------------------------------------ *)
(* ASCII string helpers (headers are ASCII; see the assumptions of C32) *)
Definition ch (n : nat) : ascii := ascii_of_nat n.
Definition c_comma : ascii := ","%char.
Definition c_dash : ascii := "-"%char.
Definition c_plus : ascii := "+"%char.
Definition c_semi : ascii := ";"%char.

(* unicode.IsSpace restricted to ASCII: '\t' '\n' '\v' '\f' '\r' ' ' *)
Definition is_space (c : ascii) : bool :=
  let n := nat_of_ascii c in Nat.eqb n 32 || (Nat.leb 9 n && Nat.leb n 13).

Definition str_empty (s : string) : bool := match s with EmptyString => true | _ => false end.

Fixpoint ltrim (s : string) : string :=
  match s with
  | EmptyString => EmptyString
  | String c s' => if is_space c then ltrim s' else s
  end.
Fixpoint rtrim (s : string) : string :=
  match s with
  | EmptyString => EmptyString
  | String c s' => let t := rtrim s' in
                   if is_space c && str_empty t then EmptyString else String c t
  end.
(* strings.TrimSpace *)
Definition trim (s : string) : string := rtrim (ltrim s).

(* strings.Split(s, sep) for a one-character separator: always at least one element *)
Fixpoint split_on (sep : ascii) (s : string) : list string :=
  match s with
  | EmptyString => [EmptyString]
  | String c s' =>
      if Ascii.eqb c sep then EmptyString :: split_on sep s'
      else match split_on sep s' with
           | [] => [String c EmptyString]
           | h :: t => String c h :: t
           end
  end.

(* i := strings.Index(s, sep); (s[:i], s[i+1:]) — None when sep does not occur *)
Fixpoint cut_at (sep : ascii) (s : string) : option (string * string) :=
  match s with
  | EmptyString => None
  | String c s' =>
      if Ascii.eqb c sep then Some (EmptyString, s')
      else match cut_at sep s' with
           | Some (a, b) => Some (String c a, b)
           | None => None
           end
  end.

(* strings.HasPrefix(s, p) returning the rest *)
Fixpoint strip_prefix (p s : string) : option string :=
  match p, s with
  | EmptyString, _ => Some s
  | String a p', String b s' => if Ascii.eqb a b then strip_prefix p' s' else None
  | String _ _, EmptyString => None
  end.

(* strings.Contains(s, sub) *)
Fixpoint contains (sub s : string) {struct s} : bool :=
  if String.prefix sub s then true
  else match s with
       | EmptyString => false
       | String _ s' => contains sub s'
       end.

(* ------------------------------------------------------------------ *)
(* strconv.ParseInt(s, 10, 64): optional sign, at least one digit, only digits,
   value inside int64 — anything else is an error (None). *)
Definition digit_val (c : ascii) : option Z :=
  let n := nat_of_ascii c in
  if Nat.leb 48 n && Nat.leb n 57 then Some (Z.of_nat n - 48) else None.

Fixpoint parse_digits (s : string) (acc : Z) : option Z :=
  match s with
  | EmptyString => Some acc
  | String c s' => match digit_val c with
                   | Some d => parse_digits s' (acc * 10 + d)
                   | None => None
                   end
  end.

Definition parse_int (s : string) : option Z :=
  match s with
  | EmptyString => None
  | String c s' =>
      let '(neg, body) := if Ascii.eqb c c_plus then (false, s')
                          else if Ascii.eqb c c_dash then (true, s')
                          else (false, s) in
      if str_empty body then None
      else match parse_digits body 0 with
           | None => None
           | Some v => let r := if neg then - v else v in
                       if (int64_min <=? r) && (r <=? int64_max) then Some r else None
           end
  end.

(* ------------------------------------------------------------------ *)
(* httpRange{start, length} *)
Definition range := (Z * Z)%type.

(* one element of the comma list, already trimmed and non-empty;
   None = errors.New("invalid range") *)
Definition parse_one (ra : string) (size : Z) : option range :=
  match cut_at c_dash ra with
  | None => None                                         (* i < 0 *)
  | Some (s0, e0) =>
      let start := trim s0 in
      let end_ := trim e0 in
      if str_empty start then
        (* suffix form: "-N" — note: N is NOT checked for a sign *)
        match parse_int end_ with
        | None => None
        | Some i =>
            let i := if i >? size then size else i in
            let st := wrap64 (size - i) in               (* r.start = size - i *)
            Some (st, wrap64 (size - st))                (* r.length = size - r.start *)
        end
      else
        match parse_int start with
        | None => None
        | Some i =>
            if (i >? size) || (i <? 0) then None         (* note: i > size, not i >= size *)
            else if str_empty end_ then Some (i, size - i)
            else match parse_int end_ with
                 | None => None
                 | Some j =>
                     if i >? j then None
                     else let j := if j >=? size then size - 1 else j in
                          Some (i, j - i + 1)
                 end
        end
  end.

Fixpoint parse_items (items : list string) (size : Z) : option (list range) :=
  match items with
  | [] => Some []
  | it :: rest =>
      let ra := trim it in
      if str_empty ra then parse_items rest size          (* continue *)
      else match parse_one ra size with
           | None => None
           | Some r => match parse_items rest size with
                       | None => None
                       | Some rs => Some (r :: rs)
                       end
           end
  end.

(* parseRange(s, size) for s <> "" ; None = error *)
Definition parse_range (s : string) (size : Z) : option (list range) :=
  match strip_prefix "bytes=" s with
  | None => None
  | Some rest => parse_items (split_on c_comma rest) size
  end.

(* ---- the same parser on a structured header (numbers already read) ---- *)
Inductive rspec :=
| RClosed (a b : N)      (* "a-b" *)
| RFrom (a : N)          (* "a-"  *)
| RSuffix (n : N).       (* "-n"  *)

Definition parse_spec (sp : rspec) (size : Z) : option range :=
  match sp with
  | RSuffix n =>
      let i := Z.of_N n in
      let i := if i >? size then size else i in
      Some (size - i, i)
  | RFrom a =>
      let i := Z.of_N a in
      if i >? size then None else Some (i, size - i)
  | RClosed a b =>
      let i := Z.of_N a in
      let j := Z.of_N b in
      if i >? size then None
      else if i >? j then None
      else let j := if j >=? size then size - 1 else j in Some (i, j - i + 1)
  end.

Fixpoint parse_specs (sps : list rspec) (size : Z) : option (list range) :=
  match sps with
  | [] => Some []
  | sp :: rest =>
      match parse_spec sp size with
      | None => None
      | Some r => match parse_specs rest size with
                  | None => None
                  | Some rs => Some (r :: rs)
                  end
      end
  end.

(* decimal printing of a header *)
Definition digit_char (d : N) : ascii := ascii_of_N (48 + d)%N.
Fixpoint print_digits (fuel : nat) (n : N) (acc : string) : string :=
  match fuel with
  | O => acc
  | S f => let acc' := String (digit_char (n mod 10)) acc in
           if (n / 10 =? 0)%N then acc' else print_digits f (n / 10) acc'
  end.
Definition print_N (n : N) : string := print_digits (S (N.to_nat (N.log2 n))) n EmptyString.

Definition print_spec (sp : rspec) : string :=
  match sp with
  | RClosed a b => append (print_N a) (String c_dash (print_N b))
  | RFrom a => append (print_N a) (String c_dash EmptyString)
  | RSuffix n => String c_dash (print_N n)
  end.
Fixpoint join_comma (l : list string) : string :=
  match l with
  | [] => EmptyString
  | [x] => x
  | x :: l' => append x (String c_comma (join_comma l'))
  end.
Definition print_header (sps : list rspec) : string :=
  append "bytes=" (join_comma (map print_spec sps)).

(* ------------------------------------------------------------------ *)
(* processRangeRequest *)

Definition byte := N.
Definition blob := list byte.

Definition blen (d : blob) : Z := Z.of_nat (List.length d).
(* the bytes d[off, off+len) that exist (off >= 0); written so that evaluation never
   builds a huge unary number *)
Definition slice (d : blob) (off len : Z) : blob :=
  if (off <? 0) || (len <=? 0) || (blen d <=? off) then []
  else firstn (Z.to_nat (Z.min len (blen d))) (skipn (Z.to_nat off) d).

(* the writeFn of writeResponseContent: rs.Seek(offset, 0); io.CopyN(writer, rs, size)
   error kinds: 1 = bytes.Reader.Seek negative position, 2 = EOF (fewer than size bytes) *)
Definition write_fn (d : blob) (off len : Z) : blob * N :=
  if off <? 0 then ([], 1%N)
  else let out := slice d off len in
       (out, if blen out <? len then 2%N else 0%N).

(* sumRangesSize (int64 accumulation) *)
Definition sum_ranges (rs : list range) : Z :=
  fold_left (fun acc r => wrap64 (acc + snd r)) rs 0.

(* Content-Range "bytes %d-%d/%d" as the three numbers *)
Definition crange := (Z * Z * Z)%type.
Definition content_range (r : range) (size : Z) : crange :=
  (fst r, wrap64 (fst r + snd r - 1), size).      (* int64 arithmetic *)

Inductive body :=
| Plain (b : blob) (werr : N)                 (* bytes written; writeFn error kind (0 = none) *)
| Multipart (parts : list (crange * blob)).   (* multipart/byteranges parts in order *)

Record response := {
  r_status : N;                   (* 200 (implicit), 206, 416 *)
  r_cr : option crange;           (* Content-Range response header *)
  r_cl : option Z;                (* Content-Length header set by the handler; for multipart: 0 stands for "equals the encoded size" *)
  r_body : body
}.

(* enc: a Content-Encoding header has already been set by the caller *)
Definition process_parsed (pr : option (list range)) (d : blob) (enc : bool) : response :=
  let size := blen d in
  match pr with
  | None => {| r_status := 416; r_cr := None; r_cl := None; r_body := Plain [] 0 |}
  | Some rs =>
      if sum_ranges rs >? size then
        (* "Ignore the range request": returns with nothing written *)
        {| r_status := 200; r_cr := None; r_cl := None; r_body := Plain [] 0 |}
      else match rs with
      | [] => {| r_status := 200; r_cr := None; r_cl := None; r_body := Plain [] 0 |}
      | [ra] =>
          let '(out, e) := write_fn d (fst ra) (snd ra) in
          {| r_status := 206; r_cr := Some (content_range ra size); r_cl := Some (snd ra);
             r_body := Plain out e |}
      | _ =>
          if existsb (fun ra => fst ra >? size) rs then
            {| r_status := 416; r_cr := None; r_cl := None; r_body := Plain [] 0 |}
          else
            {| r_status := 206; r_cr := None; r_cl := if enc then None else Some 0;
               r_body := Multipart (map (fun ra => (content_range ra size, fst (write_fn d (fst ra) (snd ra)))) rs) |}
      end
  end.

(* range = the Range request header, "" when absent *)
Definition process_range (hdr : string) (d : blob) (enc : bool) : response :=
  if str_empty hdr then
    {| r_status := 200; r_cr := None; r_cl := Some (blen d); r_body := Plain d 0 |}
  else process_parsed (parse_range hdr (blen d)) d enc.

(* writeResponseContent *)
Definition write_response_content (head : bool) (hdr : string) (d : blob) (enc : bool) : response :=
  if head then {| r_status := 200; r_cr := None; r_cl := Some (blen d); r_body := Plain [] 0 |}
  else process_range hdr d enc.

(* ------------------------------------------------------------------ *)
(* gzip negotiation in GetOrHeadHandler (image resize and chunk manifests excluded) *)

(* util.IsGzippedContent *)
Definition is_gzipped (d : blob) : bool :=
  match d with
  | a :: b :: _ => (a =? 31)%N && (b =? 139)%N
  | _ => false
  end.

(* strings.Contains(r.Header.Get("Accept-Encoding"), "gzip") *)
Definition accept_has_gzip (ae : string) : bool := contains "gzip" ae.

Record stored := {
  st_flag : bool;      (* needle flag IsCompressed *)
  st_data : blob;      (* n.Data as stored *)
  st_plain : blob      (* ORACLE: ungzipData(st_data) when is_gzipped st_data *)
}.

(* the bytes served ("representation") and whether Content-Encoding: gzip is set *)
Definition negotiate (s : stored) (ae : string) : blob * bool :=
  if st_flag s then
    if accept_has_gzip ae && is_gzipped (st_data s) then (st_data s, true)
    else if is_gzipped (st_data s) then (st_plain s, false)   (* util.DecompressData *)
    else (st_data s, false)                                   (* UnsupportedCompression: data kept *)
  else (st_data s, false).

Record full_response := { f_resp : response; f_gzip : bool }.

Definition get_or_head (head : bool) (s : stored) (ae hdr : string) : full_response :=
  let '(rep, enc) := negotiate s ae in
  {| f_resp := write_response_content head hdr rep enc; f_gzip := enc |}.

(* ------------------------------------------------------------------ *)
(* Reference semantics (RFC 7233 / RFC 7231) — the property's oracle *)

(* the bytes a well-formed spec selects, None when unsatisfiable *)
Definition ref_spec (sp : rspec) (size : Z) : option range :=
  match sp with
  | RClosed a b => let a := Z.of_N a in let b := Z.of_N b in
                   if (a <=? b) && (a <? size) then Some (a, Z.min b (size - 1) - a + 1) else None
  | RFrom a => let a := Z.of_N a in if a <? size then Some (a, size - a) else None
  | RSuffix n => let n := Z.of_N n in
                 if (0 <? n) && (0 <? size) then Some (size - Z.min n size, Z.min n size) else None
  end.
(* a syntactically invalid spec: last-byte-pos < first-byte-pos *)
Definition spec_invalid (sp : rspec) : bool :=
  match sp with RClosed a b => (b <? a)%N | _ => false end.

Fixpoint ref_ranges (sps : list rspec) (size : Z) : list range :=
  match sps with
  | [] => []
  | sp :: rest => match ref_spec sp size with
                  | Some r => r :: ref_ranges rest size
                  | None => ref_ranges rest size
                  end
  end.

Fixpoint blob_eqb (a b : blob) : bool :=
  match a, b with
  | [], [] => true
  | x :: a', y :: b' => (x =? y)%N && blob_eqb a' b'
  | _, _ => false
  end.
Definition crange_eqb (a b : crange) : bool :=
  let '(a1, a2, a3) := a in let '(b1, b2, b3) := b in (a1 =? b1) && (a2 =? b2) && (a3 =? b3).
Definition part_eqb (a b : crange * blob) : bool := crange_eqb (fst a) (fst b) && blob_eqb (snd a) (snd b).
Fixpoint parts_eqb (a b : list (crange * blob)) : bool :=
  match a, b with
  | [], [] => true
  | x :: a', y :: b' => part_eqb x y && parts_eqb a' b'
  | _, _ => false
  end.
Definition ocr_eqb (a b : option crange) : bool :=
  match a, b with Some x, Some y => crange_eqb x y | None, None => true | _, _ => false end.
Definition oz_eqb (a b : option Z) : bool :=
  match a, b with Some x, Some y => x =? y | None, None => true | _, _ => false end.
Definition body_eqb (a b : body) : bool :=
  match a, b with
  | Plain x e, Plain y f => blob_eqb x y && (e =? f)%N
  | Multipart x, Multipart y => parts_eqb x y
  | _, _ => false
  end.
Definition response_eqb (a b : response) : bool :=
  (r_status a =? r_status b)%N && ocr_eqb (r_cr a) (r_cr b) && oz_eqb (r_cl a) (r_cl b) &&
  body_eqb (r_body a) (r_body b).

(* the (content-range, bytes) pieces a 206 response carries *)
Definition resp_parts (r : response) : list (crange * blob) :=
  match r_body r with
  | Multipart ps => ps
  | Plain b _ => match r_cr r with Some cr => [(cr, b)] | None => [] end
  end.
Definition expected_parts (d : blob) (rs : list range) : list (crange * blob) :=
  map (fun ra => (content_range ra (blen d), slice d (fst ra) (snd ra))) rs.
Definition is_multipart (r : response) : bool :=
  match r_body r with Multipart _ => true | _ => false end.
Definition no_write_error (r : response) : bool :=
  match r_body r with Plain _ e => (e =? 0)%N | Multipart _ => true end.

(* 200 with the complete content *)
Definition full_200 (d : blob) (r : response) : bool :=
  (r_status r =? 200)%N && body_eqb (r_body r) (Plain d 0) && oz_eqb (r_cl r) (Some (blen d)) &&
  ocr_eqb (r_cr r) None.

(* C32 on a structured header: 206 with exactly the requested (satisfiable) ranges in order,
   416 only when nothing is satisfiable (or a spec is invalid), or 200 with everything *)
Definition spec_ok (d : blob) (sps : list rspec) (r : response) : bool :=
  let want := ref_ranges sps (blen d) in
  full_200 d r
  || ((r_status r =? 206)%N && negb (match want with [] => true | _ => false end)
      && parts_eqb (resp_parts r) (expected_parts d want)
      && no_write_error r
      && (if is_multipart r then true
          else match want with [w] => oz_eqb (r_cl r) (Some (snd w)) | _ => false end))
  || ((r_status r =? 416)%N
      && ((match want with [] => true | _ => false end) || existsb spec_invalid sps)).

(* C32 on an arbitrary header string, without reading the header: whatever is sent is
   what the response says it is — 200 complete, 416, or 206 made of non-empty in-bounds
   slices whose Content-Range describes them *)
Definition part_consistent (d : blob) (p : crange * blob) : bool :=
  let '((a, b, sz), bytes) := p in
  (0 <=? a) && (a <=? b) && (b <? blen d) && (sz =? blen d) && blob_eqb bytes (slice d a (b - a + 1)).
Definition self_consistent (d : blob) (r : response) : bool :=
  full_200 d r
  || ((r_status r =? 206)%N && negb (match resp_parts r with [] => true | _ => false end)
      && forallb (part_consistent d) (resp_parts r) && no_write_error r
      && (if is_multipart r then true
          else match r_body r with Plain b _ => oz_eqb (r_cl r) (Some (blen b)) | _ => false end))
  || (r_status r =? 416)%N.

(* HEAD *)
Definition head_ok (d : blob) (r : response) : bool :=
  (r_status r =? 200)%N && body_eqb (r_body r) (Plain [] 0) && oz_eqb (r_cl r) (Some (blen d)).

(* ---- Accept-Encoding per RFC 7231 5.3.4 (absent header counted as "not accepted") ---- *)
Definition lower (c : ascii) : ascii :=
  let n := nat_of_ascii c in if Nat.leb 65 n && Nat.leb n 90 then ascii_of_nat (n + 32) else c.
Fixpoint lower_s (s : string) : string :=
  match s with EmptyString => EmptyString | String c s' => String (lower c) (lower_s s') end.

(* qvalue is zero: "0" ["." 0*3("0")] *)
Definition q_is_zero (v : string) : bool :=
  String.eqb v "0" || String.eqb v "0." || String.eqb v "0.0" || String.eqb v "0.00" || String.eqb v "0.000".

(* one element "coding [; q=v]" -> (coding, q>0) *)
Definition ae_item (it : string) : string * bool :=
  match cut_at c_semi it with
  | None => (lower_s (trim it), true)
  | Some (c, p) =>
      let p := lower_s (trim p) in
      (lower_s (trim c),
       match strip_prefix "q=" p with
       | Some v => negb (q_is_zero (trim v))
       | None => true
       end)
  end.
Definition ae_items (ae : string) : list (string * bool) := map ae_item (split_on c_comma ae).

Definition is_gzip_coding (c : string) : bool := String.eqb c "gzip" || String.eqb c "x-gzip".
Fixpoint ae_lookup (f : string -> bool) (l : list (string * bool)) : option bool :=
  match l with
  | [] => None
  | (c, q) :: l' => if f c then Some q else ae_lookup f l'
  end.
Definition ref_accepts_gzip (ae : string) : bool :=
  let items := ae_items ae in
  match ae_lookup is_gzip_coding items with
  | Some q => q
  | None => match ae_lookup (fun c => String.eqb c "*") items with
            | Some q => q
            | None => false
            end
  end.

(* the representation the client must receive given the encoding the server chose *)
Definition gzip_ok (s : stored) (ae : string) (enc : bool) : bool :=
  if enc then ref_accepts_gzip ae && st_flag s else true.
Definition representation (s : stored) (enc : bool) : blob :=
  if enc then st_data s
  else if st_flag s && is_gzipped (st_data s) then st_plain s else st_data s.

(* ------------------------------------------------------------------ *)
(* Triggers of the known findings (decidable, on the input only) *)

Definition has_negative_length (rs : list range) : bool := existsb (fun r => snd r <? 0) rs.
Definition has_zero_length (rs : list range) : bool := existsb (fun r => snd r =? 0) rs.

(* k=0 empty spec list; k=1 oversize sum; k=2 zero-length range; k=3 negative suffix *)
Definition trig_parsed (pr : option (list range)) (size : Z) : option N :=
  match pr with
  | None => None
  | Some rs =>
      if has_negative_length rs then Some 3%N
      else if sum_ranges rs >? size then Some 1%N
      else match rs with
           | [] => Some 0%N
           | _ => if has_zero_length rs then Some 2%N else None
           end
  end.

(* k=4: a first-byte-pos beyond the size turns the whole request into 416 although
   another spec is satisfiable *)
Definition spec_start_beyond (size : Z) (sp : rspec) : bool :=
  match sp with
  | RClosed a _ => Z.of_N a >? size
  | RFrom a => Z.of_N a >? size
  | RSuffix _ => false
  end.
Definition trig_mixed (sps : list rspec) (size : Z) : bool :=
  existsb (spec_start_beyond size) sps && negb (existsb spec_invalid sps) &&
  negb (match ref_ranges sps size with [] => true | _ => false end).

Definition trig_specs (sps : list rspec) (size : Z) : option N :=
  if trig_mixed sps size then Some 4%N else trig_parsed (parse_specs sps size) size.

(* k=5: "gzip" occurs in Accept-Encoding but gzip is not acceptable (q=0, or part of another token) *)
Definition trig_gzip (s : stored) (ae : string) : bool :=
  st_flag s && is_gzipped (st_data s) && accept_has_gzip ae && negb (ref_accepts_gzip ae).
