(* Model of the volume server's range handling (C32):
     weed/server/volume_server_handlers_helper.go  parseRange, sumRangesSize, rangesMIMESize, httpRange.contentRange
     weed/server/common.go                         processRangeRequest, adjustHeaderContentDisposition
     weed/server/volume_server_handlers_read.go    writeResponseContent, the gzip negotiation and the
                                                   name / mime handling of GetOrHeadHandler
   Executable definitions only; proofs are in proof/HttpRangeProofs.v, proof/HttpRangeParseProofs.v.
   The model is faithful to the code as it is (including its defects).
   NOTE: rspec / parse_spec / ref_spec are also used by the S3 model (C28). *)
From Coq Require Import List NArith ZArith Bool String Ascii.
Import ListNotations.
Local Open Scope Z_scope.

(* ------------------------------------------------------------------ *)
(* int64 arithmetic where the code's behaviour depends on wrap-around *)
Definition int64_min : Z := - 2 ^ 63.
Definition int64_max : Z := 2 ^ 63 - 1.
Definition wrap64 (z : Z) : Z := (z + 2 ^ 63) mod 2 ^ 64 - 2 ^ 63.

(* ------------------------------------------------------------------ *)
(* byte strings (a Coq [string] is a sequence of bytes; header values may hold any byte) *)
Definition ch (n : nat) : ascii := ascii_of_nat n.
Definition c_comma : ascii := ","%char.
Definition c_dash : ascii := "-"%char.
Definition c_plus : ascii := "+"%char.
Definition c_semi : ascii := ";"%char.
Definition c_zero : ascii := "0"%char.

(* unicode.IsSpace on one byte: '\t' '\n' '\v' '\f' '\r' ' ' *)
Definition is_space (c : ascii) : bool :=
  let n := nat_of_ascii c in Nat.eqb n 32 || (Nat.leb 9 n && Nat.leb n 13).

Definition str_empty (s : string) : bool := match s with EmptyString => true | _ => false end.

(* the white-space runes above U+007F in UTF-8 (unicode.IsSpace): U+0085 U+00A0 U+1680
   U+2000..U+200A U+2028 U+2029 U+202F U+205F U+3000 *)
Definition bs (l : list nat) : string := fold_right (fun n s => String (ascii_of_nat n) s) EmptyString l.
Definition ws_multi : list string :=
  [bs [194; 133]; bs [194; 160]; bs [225; 154; 128];
   bs [226; 128; 128]; bs [226; 128; 129]; bs [226; 128; 130]; bs [226; 128; 131]; bs [226; 128; 132];
   bs [226; 128; 133]; bs [226; 128; 134]; bs [226; 128; 135]; bs [226; 128; 136]; bs [226; 128; 137];
   bs [226; 128; 138]; bs [226; 128; 168]; bs [226; 128; 169]; bs [226; 128; 175]; bs [226; 129; 159];
   bs [227; 128; 128]]%nat.
Definition in_multi (u : string) : bool := existsb (String.eqb u) ws_multi.
(* u is exactly one white-space rune *)
Definition is_space_rune (u : string) : bool :=
  match u with
  | String c EmptyString => is_space c
  | _ => in_multi u
  end.

(* strings.TrimLeftFunc(s, unicode.IsSpace): an invalid or incomplete UTF-8 sequence is not a space *)
Fixpoint ltrim (s : string) : string :=
  match s with
  | EmptyString => EmptyString
  | String c1 s1 =>
      if is_space c1 then ltrim s1 else
      match s1 with
      | EmptyString => s
      | String c2 s2 =>
          if in_multi (String c1 (String c2 EmptyString)) then ltrim s2 else
          match s2 with
          | EmptyString => s
          | String c3 s3 =>
              if in_multi (String c1 (String c2 (String c3 EmptyString))) then ltrim s3 else s
          end
      end
  end.
(* strings.TrimRightFunc(s, unicode.IsSpace): the trailing white-space runes are removed one by
   one (utf8.DecodeLastRune finds the rune that ENDS at the end of the string) *)
Fixpoint rtrim (s : string) : string :=
  match s with
  | EmptyString => EmptyString
  | String c s' => let u := String c (rtrim s') in
                   if is_space_rune u then EmptyString else u
  end.
(* strings.TrimSpace *)
Definition trim (s : string) : string := rtrim (ltrim s).

(* strings.Split(s, sep) for a one-character separator: always at least one element *)
Fixpoint split_on (sep : ascii) (s : string) : list string :=
  match s with
  | EmptyString => [EmptyString]
  | String c s' =>
      if Ascii.eqb c sep then EmptyString :: split_on sep s'
      else match split_on sep s' with
           | [] => [String c EmptyString]
           | h :: t => String c h :: t
           end
  end.

(* i := strings.Index(s, sep); (s[:i], s[i+1:]) — None when sep does not occur *)
Fixpoint cut_at (sep : ascii) (s : string) : option (string * string) :=
  match s with
  | EmptyString => None
  | String c s' =>
      if Ascii.eqb c sep then Some (EmptyString, s')
      else match cut_at sep s' with
           | Some (a, b) => Some (String c a, b)
           | None => None
           end
  end.

(* strings.HasPrefix(s, p) returning the rest *)
Fixpoint strip_prefix (p s : string) : option string :=
  match p, s with
  | EmptyString, _ => Some s
  | String a p', String b s' => if Ascii.eqb a b then strip_prefix p' s' else None
  | String _ _, EmptyString => None
  end.

(* strings.Contains(s, sub) *)
Fixpoint contains (sub s : string) {struct s} : bool :=
  if String.prefix sub s then true
  else match s with
       | EmptyString => false
       | String _ s' => contains sub s'
       end.

Definition slen (s : string) : Z := Z.of_nat (String.length s).

(* ------------------------------------------------------------------ *)
(* strconv.ParseInt(s, 10, 64): optional sign, at least one digit, only digits,
   value inside int64 — anything else is an error (None). *)
Definition digit_val (c : ascii) : option Z :=
  let n := nat_of_ascii c in
  if Nat.leb 48 n && Nat.leb n 57 then Some (Z.of_nat n - 48) else None.

Fixpoint parse_digits (s : string) (acc : Z) : option Z :=
  match s with
  | EmptyString => Some acc
  | String c s' => match digit_val c with
                   | Some d => parse_digits s' (acc * 10 + d)
                   | None => None
                   end
  end.

Definition parse_int (s : string) : option Z :=
  match s with
  | EmptyString => None
  | String c s' =>
      let '(neg, body) := if Ascii.eqb c c_plus then (false, s')
                          else if Ascii.eqb c c_dash then (true, s')
                          else (false, s) in
      if str_empty body then None
      else match parse_digits body 0 with
           | None => None
           | Some v => let r := if neg then - v else v in
                       if (int64_min <=? r) && (r <=? int64_max) then Some r else None
           end
  end.

(* ------------------------------------------------------------------ *)
(* httpRange{start, length} *)
Definition range := (Z * Z)%type.

(* one element of the comma list, already trimmed and non-empty;
   None = errors.New("invalid range") *)
Definition parse_one (ra : string) (size : Z) : option range :=
  match cut_at c_dash ra with
  | None => None                                         (* i < 0 *)
  | Some (s0, e0) =>
      let start := trim s0 in
      let end_ := trim e0 in
      if str_empty start then
        (* suffix form: "-N" — note: N is NOT checked for a sign *)
        match parse_int end_ with
        | None => None
        | Some i =>
            let i := if i >? size then size else i in
            let st := wrap64 (size - i) in               (* r.start = size - i *)
            Some (st, wrap64 (size - st))                (* r.length = size - r.start *)
        end
      else
        match parse_int start with
        | None => None
        | Some i =>
            if (i >? size) || (i <? 0) then None         (* note: i > size, not i >= size *)
            else if str_empty end_ then Some (i, size - i)
            else match parse_int end_ with
                 | None => None
                 | Some j =>
                     if i >? j then None
                     else let j := if j >=? size then size - 1 else j in
                          Some (i, j - i + 1)
                 end
        end
  end.

Fixpoint parse_items (items : list string) (size : Z) : option (list range) :=
  match items with
  | [] => Some []
  | it :: rest =>
      let ra := trim it in
      if str_empty ra then parse_items rest size          (* continue *)
      else match parse_one ra size with
           | None => None
           | Some r => match parse_items rest size with
                       | None => None
                       | Some rs => Some (r :: rs)
                       end
           end
  end.

(* parseRange(s, size) for s <> "" ; None = error *)
Definition parse_range (s : string) (size : Z) : option (list range) :=
  match strip_prefix "bytes=" s with
  | None => None
  | Some rest => parse_items (split_on c_comma rest) size
  end.

(* ---- the same parser on a structured header (numbers already read) ---- *)
Inductive rspec :=
| RClosed (a b : N)      (* "a-b" *)
| RFrom (a : N)          (* "a-"  *)
| RSuffix (n : N).       (* "-n"  *)

(* the arithmetic of parseRange on numbers that ParseInt could read (also used by C28) *)
Definition parse_spec (sp : rspec) (size : Z) : option range :=
  match sp with
  | RSuffix n =>
      let i := Z.of_N n in
      let i := if i >? size then size else i in
      Some (size - i, i)
  | RFrom a =>
      let i := Z.of_N a in
      if i >? size then None else Some (i, size - i)
  | RClosed a b =>
      let i := Z.of_N a in
      let j := Z.of_N b in
      if i >? size then None
      else if i >? j then None
      else let j := if j >=? size then size - 1 else j in Some (i, j - i + 1)
  end.

(* a number that strconv.ParseInt(_, 10, 64) refuses: the whole header is "invalid range" *)
Definition num_big (n : N) : bool := Z.of_N n >? int64_max.
Definition spec_big (sp : rspec) : bool :=
  match sp with
  | RClosed a b => num_big a || num_big b
  | RFrom a => num_big a
  | RSuffix n => num_big n
  end.
Definition parse_spec64 (sp : rspec) (size : Z) : option range :=
  if spec_big sp then None else parse_spec sp size.

Fixpoint parse_specs (sps : list rspec) (size : Z) : option (list range) :=
  match sps with
  | [] => Some []
  | sp :: rest =>
      match parse_spec64 sp size with
      | None => None
      | Some r => match parse_specs rest size with
                  | None => None
                  | Some rs => Some (r :: rs)
                  end
      end
  end.

(* decimal printing of a header *)
Definition digit_char (d : N) : ascii := ascii_of_N (48 + d)%N.
Fixpoint print_digits (fuel : nat) (n : N) (acc : string) : string :=
  match fuel with
  | O => acc
  | S f => let acc' := String (digit_char (n mod 10)) acc in
           if (n / 10 =? 0)%N then acc' else print_digits f (n / 10) acc'
  end.
Definition print_N (n : N) : string := print_digits (S (N.to_nat (N.log2 n))) n EmptyString.

Definition print_spec (sp : rspec) : string :=
  match sp with
  | RClosed a b => append (print_N a) (String c_dash (print_N b))
  | RFrom a => append (print_N a) (String c_dash EmptyString)
  | RSuffix n => String c_dash (print_N n)
  end.
Fixpoint join_comma (l : list string) : string :=
  match l with
  | [] => EmptyString
  | [x] => x
  | x :: l' => append x (String c_comma (join_comma l'))
  end.
Definition print_header (sps : list rspec) : string :=
  append "bytes=" (join_comma (map print_spec sps)).

(* ---- spellings: every text parseRange reads as a given list of specs ----
   optional white space (any unicode.IsSpace rune) around an element and around its '-',
   an optional '+' and any number of leading zeros before a number, empty elements. *)
Definition ws := list string.                       (* each element: ONE white-space rune *)
Definition ws_ok (w : ws) : bool := forallb is_space_rune w.
Definition ws_str (w : ws) : string := fold_right append EmptyString w.

Record numfmt := { nf_plus : bool; nf_zeros : nat }.
Fixpoint zeros (k : nat) (s : string) : string :=
  match k with O => s | S k' => String c_zero (zeros k' s) end.
Definition render_num (f : numfmt) (n : N) : string :=
  let body := zeros (nf_zeros f) (print_N n) in
  if nf_plus f then String c_plus body else body.

Inductive item :=
| IBlank (w : ws)                                                        (* "  "       *)
| IClosed (w1 : ws) (fa : numfmt) (a : N) (w2 w3 : ws) (fb : numfmt) (b : N) (w4 : ws)   (* " a - b " *)
| IFrom (w1 : ws) (fa : numfmt) (a : N) (w2 w3 : ws)                     (* " a - "    *)
| ISuffix (w1 w3 : ws) (fn : numfmt) (n : N) (w4 : ws).                  (* " - n "    *)

Definition render_item (it : item) : string :=
  match it with
  | IBlank w => ws_str w
  | IClosed w1 fa a w2 w3 fb b w4 =>       (* w1 ((a w2) - (w3 b)) w4 *)
      append (ws_str w1)
        (append (append (append (render_num fa a) (ws_str w2))
                        (String c_dash (append (ws_str w3) (render_num fb b))))
                (ws_str w4))
  | IFrom w1 fa a w2 w3 =>                 (* w1 ((a w2) -) w3 *)
      append (ws_str w1)
        (append (append (append (render_num fa a) (ws_str w2)) (String c_dash EmptyString)) (ws_str w3))
  | ISuffix w1 w3 fn n w4 =>               (* w1 (- (w3 n)) w4 *)
      append (ws_str w1) (append (String c_dash (append (ws_str w3) (render_num fn n))) (ws_str w4))
  end.
Definition item_ok (it : item) : bool :=
  match it with
  | IBlank w => ws_ok w
  | IClosed w1 _ _ w2 w3 _ _ w4 => ws_ok w1 && ws_ok w2 && ws_ok w3 && ws_ok w4
  | IFrom w1 _ _ w2 w3 => ws_ok w1 && ws_ok w2 && ws_ok w3
  | ISuffix w1 w3 _ _ w4 => ws_ok w1 && ws_ok w3 && ws_ok w4
  end.
Definition item_spec (it : item) : option rspec :=
  match it with
  | IBlank _ => None
  | IClosed _ _ a _ _ _ b _ => Some (RClosed a b)
  | IFrom _ _ a _ _ => Some (RFrom a)
  | ISuffix _ _ _ n _ => Some (RSuffix n)
  end.
Fixpoint specs_of (its : list item) : list rspec :=
  match its with
  | [] => []
  | it :: rest => match item_spec it with
                  | Some sp => sp :: specs_of rest
                  | None => specs_of rest
                  end
  end.
Definition items_ok (its : list item) : bool := forallb item_ok its.
Definition render_header (its : list item) : string :=
  append "bytes=" (join_comma (map render_item its)).

(* the canonical spelling *)
Definition nf0 : numfmt := {| nf_plus := false; nf_zeros := 0 |}.
Definition canon_item (sp : rspec) : item :=
  match sp with
  | RClosed a b => IClosed [] nf0 a [] [] nf0 b []
  | RFrom a => IFrom [] nf0 a [] []
  | RSuffix n => ISuffix [] [] nf0 n []
  end.
Definition canon (sps : list rspec) : list item := map canon_item sps.

(* hdr is a spelling of the specs sps *)
Definition renders (sps : list rspec) (hdr : string) : Prop :=
  exists its, items_ok its = true /\ specs_of its = sps /\ render_header its = hdr.

(* ------------------------------------------------------------------ *)
(* processRangeRequest *)

Definition byte := N.
Definition blob := list byte.

Definition blen (d : blob) : Z := Z.of_nat (List.length d).
(* the bytes d[off, off+len) that exist (off >= 0); written so that evaluation never
   builds a huge unary number *)
Definition slice (d : blob) (off len : Z) : blob :=
  if (off <? 0) || (len <=? 0) || (blen d <=? off) then []
  else firstn (Z.to_nat (Z.min len (blen d))) (skipn (Z.to_nat off) d).

(* the writeFn of writeResponseContent: rs.Seek(offset, 0); io.CopyN(writer, rs, size)
   error kinds: 1 = bytes.Reader.Seek negative position, 2 = EOF (fewer than size bytes) *)
Definition write_fn (d : blob) (off len : Z) : blob * N :=
  if off <? 0 then ([], 1%N)
  else let out := slice d off len in
       (out, if blen out <? len then 2%N else 0%N).

(* sumRangesSize (int64 accumulation) *)
Definition sum_ranges (rs : list range) : Z :=
  fold_left (fun acc r => wrap64 (acc + snd r)) rs 0.

(* Content-Range "bytes %d-%d/%d" as the three numbers *)
Definition crange := (Z * Z * Z)%type.
Definition content_range (r : range) (size : Z) : crange :=
  (fst r, wrap64 (fst r + snd r - 1), size).      (* int64 arithmetic *)

(* ---- the size of the multipart/byteranges encoding (rangesMIMESize, mime/multipart.Writer) ---- *)
Fixpoint ndigits (fuel : nat) (n : Z) : Z :=
  match fuel with
  | O => 1
  | S f => if n <? 10 then 1 else 1 + ndigits f (n / 10)
  end.
(* len(fmt.Sprintf("%d", z)) for |z| < 10^21 *)
Definition dec_len (z : Z) : Z := if z <? 0 then 1 + ndigits 20 (- z) else ndigits 20 z.
Definition boundary_len : Z := 60.       (* mime/multipart randomBoundary: 30 random bytes in hex *)
(* "bytes a-b/s" *)
Definition cr_len (c : crange) : Z :=
  let '(a, b, s) := c in 6 + dec_len a + 1 + dec_len b + 1 + dec_len s.
(* ["\r\n"] "--" boundary "\r\n" "Content-Range: " cr "\r\n" "Content-Type: " ct "\r\n" "\r\n" *)
Definition part_hdr_len (first : bool) (c : crange) (ctlen : Z) : Z :=
  (if first then 0 else 2) + 2 + boundary_len + 2 + (15 + cr_len c + 2) + (14 + ctlen + 2) + 2.
(* "\r\n--" boundary "--\r\n" *)
Definition closing_len : Z := boundary_len + 8.
Fixpoint mp_hdrs (size ctlen : Z) (first : bool) (rs : list range) : Z :=
  match rs with
  | [] => 0
  | ra :: rest => part_hdr_len first (content_range ra size) ctlen + mp_hdrs size ctlen false rest
  end.
Definition mp_overhead (size ctlen : Z) (rs : list range) : Z := mp_hdrs size ctlen true rs + closing_len.

(* the goroutine that writes the parts into the pipe: (parts completed, bytes produced before
   the closing delimiter, aborted by a writeFn error) *)
Fixpoint mp_write (d : blob) (ctlen : Z) (first : bool) (rs : list range) : list (crange * blob) * Z * bool :=
  match rs with
  | [] => ([], 0, false)
  | ra :: rest =>
      let cr := content_range ra (blen d) in
      let h := part_hdr_len first cr ctlen in
      let '(out, e) := write_fn d (fst ra) (snd ra) in
      if (e =? 0)%N then
        let '(ps, n, ab) := mp_write d ctlen false rest in
        ((cr, out) :: ps, h + blen out + n, ab)
      else ([], h + blen out, true)
  end.

Inductive body :=
| Plain (b : blob) (err : N)
    (* bytes written, then the class of the error text that follows them:
       0 none; after a 206: 1 = "bytes.Reader.Seek: negative position", 2 = "EOF";
       on a 416 (b = []): 3 = "invalid range", 4 = "Out of Range" *)
| Multipart (pct : string) (parts : list (crange * blob)) (tail : N) (rawlen : Z).
    (* multipart/byteranges body of rawlen bytes; tail 0: a complete encoding of the parts
       (each with Content-Type pct) and nothing else, or nothing at all (rawlen = 0);
       otherwise parts = [] and tail 1: an incomplete encoding followed by "Internal Error",
       tail 2: an encoding cut short *)

Record response := {
  r_status : N;                   (* 200 (implicit), 206, 416 *)
  r_ct : string;                  (* Content-Type header ("" = not set; multipart: without the boundary parameter) *)
  r_cr : option crange;           (* Content-Range response header *)
  r_cl : option Z;                (* Content-Length header as set by the handler *)
  r_body : body
}.

Definition ct_error : string := "text/plain; charset=utf-8".     (* http.Error *)
Definition ct_multipart : string := "multipart/byteranges".
Definition internal_error_len : Z := 15.                           (* "Internal Error\n" *)

Definition resp_416 (e : N) : response :=
  {| r_status := 416; r_ct := ct_error; r_cr := None; r_cl := None; r_body := Plain [] e |}.
(* "return" before anything is written: an implicit 200 without Content-Length *)
Definition resp_nothing (ct : string) : response :=
  {| r_status := 200; r_ct := ct; r_cr := None; r_cl := None; r_body := Plain [] 0 |}.

(* enc: a Content-Encoding header has already been set by the caller; ct: the mime type *)
Definition process_parsed (pr : option (list range)) (d : blob) (enc : bool) (ct : string) : response :=
  let size := blen d in
  match pr with
  | None => resp_416 3
  | Some rs =>
      if sum_ranges rs >? size then resp_nothing ct    (* "Ignore the range request" *)
      else match rs with
      | [] => resp_nothing ct
      | [ra] =>
          let '(out, e) := write_fn d (fst ra) (snd ra) in
          {| r_status := 206; r_ct := ct; r_cr := Some (content_range ra size); r_cl := Some (snd ra);
             r_body := Plain out e |}
      | _ =>
          if existsb (fun ra : range => fst ra >? size) rs then resp_416 4
          else
            let ctlen := slen ct in
            (* sendSize := rangesMIMESize(...), int64 *)
            let send := wrap64 (sum_ranges rs + mp_overhead size ctlen rs) in
            let '(ps, n, ab) := mp_write d ctlen true rs in
            let produced := if ab then n else n + closing_len in
            {| r_status := 206; r_ct := ct_multipart; r_cr := None;
               r_cl := if enc then None else Some send;
               (* io.CopyN(w, pipe, sendSize); on a short read "Internal Error" is appended *)
               r_body := if send <=? 0 then Multipart EmptyString [] 0 0   (* nothing sent: no part type either *)
                         else if negb ab && (send =? produced) then Multipart ct ps 0 send
                         else if send <=? produced then Multipart ct [] 2 send
                         else Multipart ct [] 1 (produced + internal_error_len) |}
      end
  end.

(* range = the Range request header, "" when absent *)
Definition process_range (hdr : string) (d : blob) (enc : bool) (ct : string) : response :=
  if str_empty hdr then
    {| r_status := 200; r_ct := ct; r_cr := None; r_cl := Some (blen d); r_body := Plain d 0 |}
  else process_parsed (parse_range hdr (blen d)) d enc ct.

(* writeResponseContent (after the headers common to every answer) *)
Definition write_response_content (head : bool) (hdr : string) (d : blob) (enc : bool) (ct : string) : response :=
  if head then {| r_status := 200; r_ct := ct; r_cr := None; r_cl := Some (blen d); r_body := Plain [] 0 |}
  else process_range hdr d enc ct.

(* ------------------------------------------------------------------ *)
(* GetOrHeadHandler (image resize and chunk manifests excluded) *)

(* util.IsGzippedContent *)
Definition is_gzipped (d : blob) : bool :=
  match d with
  | a :: b :: _ => (a =? 31)%N && (b =? 139)%N
  | _ => false
  end.

(* strings.Contains(r.Header.Get("Accept-Encoding"), "gzip") *)
Definition accept_has_gzip (ae : string) : bool := contains "gzip" ae.

Record stored := {
  st_flag : bool;      (* needle flag IsCompressed *)
  st_data : blob;      (* n.Data as stored *)
  st_plain : blob;     (* ORACLE: the bytes util.DecompressData(st_data) returns when is_gzipped st_data
                          (nil or a prefix of the content when the stream is corrupt) *)
  st_gzok : bool;      (* ORACLE: util.DecompressData(st_data) returned no error *)
  st_name : string;    (* n.Name ("" = none) *)
  st_mime : string;    (* n.Mime ("" = none) *)
  st_extmime : string  (* ORACLE: mime.TypeByExtension(filepath.Ext(n.Name)), "" when there is no extension *)
}.

(* the bytes served ("representation") and whether Content-Encoding: gzip is set;
   a decompression error is logged and otherwise ignored *)
Definition negotiate (s : stored) (ae : string) : blob * bool :=
  if st_flag s then
    if accept_has_gzip ae && is_gzipped (st_data s) then (st_data s, true)
    else if is_gzipped (st_data s) then (st_plain s, false)   (* util.DecompressData *)
    else (st_data s, false)                                   (* UnsupportedCompression: data kept *)
  else (st_data s, false).

(* the mime type handed to processRangeRequest *)
Definition has_prefix (p s : string) : bool := match strip_prefix p s with Some _ => true | None => false end.
Definition mime_of (s : stored) : string :=
  let mt := if has_prefix "application/octet-stream" (st_mime s) then EmptyString else st_mime s in
  if str_empty mt then st_extmime s else mt.

(* fileNameEscaper: \ -> \\ , " -> \" *)
Fixpoint escape_name (s : string) : string :=
  match s with
  | EmptyString => EmptyString
  | String c s' =>
      if Ascii.eqb c "\"%char || Ascii.eqb c """"%char then String "\"%char (String c (escape_name s'))
      else String c (escape_name s')
  end.
(* adjustHeaderContentDisposition; dl: the request has ?dl=true *)
Definition content_disposition (name : string) (dl : bool) : string :=
  if str_empty name then EmptyString
  else append (if dl then "attachment" else "inline")
         (append "; filename=""" (append (escape_name name) """")).

Record full_response := {
  f_resp : response;
  f_gzip : bool;          (* Content-Encoding: gzip *)
  f_cdisp : string;       (* Content-Disposition ("" = not set) *)
  f_ar : bool             (* Accept-Ranges: bytes *)
}.

Definition get_or_head (head dl : bool) (s : stored) (ae hdr : string) : full_response :=
  let '(rep, enc) := negotiate s ae in
  {| f_resp := write_response_content head hdr rep enc (mime_of s); f_gzip := enc;
     f_cdisp := content_disposition (st_name s) dl; f_ar := true |}.

(* ------------------------------------------------------------------ *)
(* Reference semantics (RFC 7233 / RFC 7231) — the property's oracle *)

(* the bytes a well-formed spec selects, None when unsatisfiable *)
Definition ref_spec (sp : rspec) (size : Z) : option range :=
  match sp with
  | RClosed a b => let a := Z.of_N a in let b := Z.of_N b in
                   if (a <=? b) && (a <? size) then Some (a, Z.min b (size - 1) - a + 1) else None
  | RFrom a => let a := Z.of_N a in if a <? size then Some (a, size - a) else None
  | RSuffix n => let n := Z.of_N n in
                 if (0 <? n) && (0 <? size) then Some (size - Z.min n size, Z.min n size) else None
  end.
(* a syntactically invalid spec: last-byte-pos < first-byte-pos *)
Definition spec_invalid (sp : rspec) : bool :=
  match sp with RClosed a b => (b <? a)%N | _ => false end.

Fixpoint ref_ranges (sps : list rspec) (size : Z) : list range :=
  match sps with
  | [] => []
  | sp :: rest => match ref_spec sp size with
                  | Some r => r :: ref_ranges rest size
                  | None => ref_ranges rest size
                  end
  end.

Definition is_nil {A} (l : list A) : bool := match l with [] => true | _ => false end.

Fixpoint blob_eqb (a b : blob) : bool :=
  match a, b with
  | [], [] => true
  | x :: a', y :: b' => (x =? y)%N && blob_eqb a' b'
  | _, _ => false
  end.
Definition crange_eqb (a b : crange) : bool :=
  let '(a1, a2, a3) := a in let '(b1, b2, b3) := b in (a1 =? b1) && (a2 =? b2) && (a3 =? b3).
Definition part_eqb (a b : crange * blob) : bool := crange_eqb (fst a) (fst b) && blob_eqb (snd a) (snd b).
Fixpoint parts_eqb (a b : list (crange * blob)) : bool :=
  match a, b with
  | [], [] => true
  | x :: a', y :: b' => part_eqb x y && parts_eqb a' b'
  | _, _ => false
  end.
Definition ocr_eqb (a b : option crange) : bool :=
  match a, b with Some x, Some y => crange_eqb x y | None, None => true | _, _ => false end.
Definition oz_eqb (a b : option Z) : bool :=
  match a, b with Some x, Some y => x =? y | None, None => true | _, _ => false end.
Definition body_eqb (a b : body) : bool :=
  match a, b with
  | Plain x e, Plain y f => blob_eqb x y && (e =? f)%N
  | Multipart c x t n, Multipart c' y t' n' => String.eqb c c' && parts_eqb x y && (t =? t')%N && (n =? n')
  | _, _ => false
  end.
Definition response_eqb (a b : response) : bool :=
  (r_status a =? r_status b)%N && String.eqb (r_ct a) (r_ct b) && ocr_eqb (r_cr a) (r_cr b) &&
  oz_eqb (r_cl a) (r_cl b) && body_eqb (r_body a) (r_body b).
Definition range_eqb (a b : range) : bool := (fst a =? fst b) && (snd a =? snd b).
Fixpoint ranges_eqb (a b : list range) : bool :=
  match a, b with
  | [], [] => true
  | x :: a', y :: b' => range_eqb x y && ranges_eqb a' b'
  | _, _ => false
  end.

(* the (content-range, bytes) pieces a 206 response carries *)
Definition resp_parts (r : response) : list (crange * blob) :=
  match r_body r with
  | Multipart _ ps _ _ => ps
  | Plain b _ => match r_cr r with Some cr => [(cr, b)] | None => [] end
  end.
Definition expected_parts (d : blob) (rs : list range) : list (crange * blob) :=
  map (fun ra => (content_range ra (blen d), slice d (fst ra) (snd ra))) rs.
Definition is_multipart (r : response) : bool :=
  match r_body r with Multipart _ _ _ _ => true | _ => false end.
Definition no_write_error (r : response) : bool :=
  match r_body r with Plain _ e => (e =? 0)%N | Multipart _ _ t _ => (t =? 0)%N end.
(* a multipart body is complete and its Content-Length (when one is sent) is the number of bytes sent *)
Definition mp_framing_ok (r : response) : bool :=
  match r_body r with
  | Multipart _ _ t n => (t =? 0)%N && match r_cl r with Some c => c =? n | None => true end
  | Plain _ _ => true
  end.

(* 200 with the complete content *)
Definition full_200 (d : blob) (r : response) : bool :=
  (r_status r =? 200)%N && body_eqb (r_body r) (Plain d 0) && oz_eqb (r_cl r) (Some (blen d)) &&
  ocr_eqb (r_cr r) None.

(* C32 on a structured header: 206 with exactly the requested (satisfiable) ranges in order,
   416 only when nothing is satisfiable (or a spec is invalid: RFC 7233 4.4 allows 416 for a
   set "rejected due to invalid ranges"), or 200 with everything (a server may ignore Range) *)
Definition spec_ok (d : blob) (sps : list rspec) (r : response) : bool :=
  let want := ref_ranges sps (blen d) in
  full_200 d r
  || ((r_status r =? 206)%N && negb (is_nil want)
      && parts_eqb (resp_parts r) (expected_parts d want)
      && no_write_error r
      && (if is_multipart r then mp_framing_ok r
          else match want with [w] => oz_eqb (r_cl r) (Some (snd w)) | _ => false end))
  || ((r_status r =? 416)%N
      && (is_nil want || existsb spec_invalid sps)).

(* C32 on an arbitrary header string, without reading the header: whatever is sent is
   what the response says it is — 200 complete, 416, or 206 made of non-empty in-bounds
   slices whose Content-Range describes them *)
Definition part_consistent (d : blob) (p : crange * blob) : bool :=
  let '((a, b, sz), bytes) := p in
  (0 <=? a) && (a <=? b) && (b <? blen d) && (sz =? blen d) && blob_eqb bytes (slice d a (b - a + 1)).
Definition self_consistent (d : blob) (r : response) : bool :=
  full_200 d r
  || ((r_status r =? 206)%N && negb (is_nil (resp_parts r))
      && forallb (part_consistent d) (resp_parts r) && no_write_error r
      && (if is_multipart r then mp_framing_ok r
          else match r_body r with Plain b _ => oz_eqb (r_cl r) (Some (blen b)) | _ => false end))
  || (r_status r =? 416)%N.

(* HEAD *)
Definition head_ok (d : blob) (r : response) : bool :=
  (r_status r =? 200)%N && body_eqb (r_body r) (Plain [] 0) && oz_eqb (r_cl r) (Some (blen d)).

(* the parser alone: what parseRange returns for a header that spells sps *)
Definition parse_spec_ok (sps : list rspec) (size : Z) (res : option (list range)) : bool :=
  let want := ref_ranges sps size in
  match res with
  | None => is_nil want || existsb spec_invalid sps
  | Some rs => ranges_eqb rs want
  end.
Definition range_in_blob (size : Z) (r : range) : bool :=
  (0 <=? fst r) && (0 <? snd r) && (fst r + snd r <=? size).
Definition parse_raw_ok (size : Z) (res : option (list range)) : bool :=
  match res with None => true | Some rs => forallb (range_in_blob size) rs end.

(* ---- Accept-Encoding per RFC 7231 5.3.4 (absent header counted as "not accepted") ---- *)
Definition lower (c : ascii) : ascii :=
  let n := nat_of_ascii c in if Nat.leb 65 n && Nat.leb n 90 then ascii_of_nat (n + 32) else c.
Fixpoint lower_s (s : string) : string :=
  match s with EmptyString => EmptyString | String c s' => String (lower c) (lower_s s') end.

(* qvalue is zero: "0" [ "." 0*3("0") ] *)
Definition q_is_zero (v : string) : bool :=
  String.eqb v "0" || String.eqb v "0." || String.eqb v "0.0" || String.eqb v "0.00" || String.eqb v "0.000".

(* the weight among the parameters "; name=value": the first one named q (case-insensitive) *)
Fixpoint q_of_params (ps : list string) : bool :=
  match ps with
  | [] => true
  | p :: rest =>
      match cut_at "="%char p with
      | Some (k, v) => if String.eqb (lower_s (trim k)) "q" then negb (q_is_zero (trim v)) else q_of_params rest
      | None => q_of_params rest
      end
  end.
(* one element "coding *( ; param )" -> (coding, q>0) *)
Definition ae_item (it : string) : string * bool :=
  match split_on c_semi it with
  | [] => (EmptyString, true)
  | c :: ps => (lower_s (trim c), q_of_params ps)
  end.
Definition ae_items (ae : string) : list (string * bool) := map ae_item (split_on c_comma ae).

Definition is_gzip_coding (c : string) : bool := String.eqb c "gzip" || String.eqb c "x-gzip".
Fixpoint ae_lookup (f : string -> bool) (l : list (string * bool)) : option bool :=
  match l with
  | [] => None
  | (c, q) :: l' => if f c then Some q else ae_lookup f l'
  end.
Definition ref_accepts_gzip (ae : string) : bool :=
  let items := ae_items ae in
  match ae_lookup is_gzip_coding items with
  | Some q => q
  | None => match ae_lookup (fun c => String.eqb c "*") items with
            | Some q => q
            | None => false
            end
  end.

(* the representation the client must receive given the encoding the server chose *)
Definition gzip_ok (s : stored) (ae : string) (enc : bool) : bool :=
  if enc then ref_accepts_gzip ae && st_flag s else true.
Definition representation (s : stored) (enc : bool) : blob :=
  if enc then st_data s
  else if st_flag s && is_gzipped (st_data s) then st_plain s else st_data s.
(* the representation exists: either the stored stream itself is served, or it decompressed
   without error (otherwise the only correct answer is an error status) *)
Definition rep_ok (s : stored) (enc : bool) : bool :=
  enc || negb (st_flag s && is_gzipped (st_data s)) || st_gzok s.

(* ------------------------------------------------------------------ *)
(* Triggers of the known findings (decidable, on the input only) *)

Definition has_negative_length (rs : list range) : bool := existsb (fun r => snd r <? 0) rs.
Definition has_zero_length (rs : list range) : bool := existsb (fun r => snd r =? 0) rs.

(* k=1 oversize sum (empty 200); k=0 empty spec list (empty 200); then, only when the answer is a 206:
   k=3 negative suffix length; k=2 zero-length range.  A multi-range request with a start
   beyond the size is answered 416 whatever else it holds: no trigger. *)
Definition trig_parsed (pr : option (list range)) (size : Z) : option N :=
  match pr with
  | None => None
  | Some rs =>
      if sum_ranges rs >? size then Some 1%N
      else match rs with
           | [] => Some 0%N
           | [r] => if snd r <? 0 then Some 3%N else if snd r =? 0 then Some 2%N else None
           | _ => if existsb (fun ra : range => fst ra >? size) rs then None
                  else if has_negative_length rs then Some 3%N
                  else if has_zero_length rs then Some 2%N else None
           end
  end.

(* k=4: a first-byte-pos beyond the size turns the whole request into 416 although
   another spec is satisfiable *)
Definition spec_start_beyond (size : Z) (sp : rspec) : bool :=
  match sp with
  | RClosed a _ => Z.of_N a >? size
  | RFrom a => Z.of_N a >? size
  | RSuffix _ => false
  end.
Definition trig_mixed (sps : list rspec) (size : Z) : bool :=
  existsb (spec_start_beyond size) sps && negb (existsb spec_invalid sps) &&
  negb (is_nil (ref_ranges sps size)).
(* k=6: a number above int64 max (last-byte-pos, suffix length) turns the request into 416
   "invalid range" although the RFC clamps it and something is satisfiable *)
Definition trig_big (sps : list rspec) (size : Z) : bool :=
  existsb spec_big sps && negb (existsb spec_invalid sps) &&
  negb (is_nil (ref_ranges sps size)).

Definition trig_specs (sps : list rspec) (size : Z) : option N :=
  if trig_mixed sps size then Some 4%N
  else if trig_big sps size then Some 6%N
  else trig_parsed (parse_specs sps size) size.

(* the parser alone (no response): k=4, k=6, k=2 / k=3 *)
Definition trig_parse_specs (sps : list rspec) (size : Z) : option N :=
  if trig_mixed sps size then Some 4%N
  else if trig_big sps size then Some 6%N
  else match parse_specs sps size with
       | Some rs => if has_zero_length rs then Some 2%N else None
       | None => None
       end.
Definition trig_parse_raw (pr : option (list range)) : option N :=
  match pr with
  | Some rs => if has_negative_length rs then Some 3%N else if has_zero_length rs then Some 2%N else None
  | None => None
  end.

(* k=5: "gzip" occurs in Accept-Encoding but gzip is not acceptable (q=0, or part of another token) *)
Definition trig_gzip (s : stored) (ae : string) : bool :=
  st_flag s && is_gzipped (st_data s) && accept_has_gzip ae && negb (ref_accepts_gzip ae).
(* k=7: the stored gzip stream must be decompressed for this client and is corrupt *)
Definition trig_corrupt (s : stored) (ae : string) : bool :=
  st_flag s && is_gzipped (st_data s) && negb (accept_has_gzip ae) && negb (st_gzok s).

(* the arithmetic of the multipart framing does not leave int64 (number of ranges x blob size
   + framing below 2^63): hypothesis of the theorems about multi-range answers *)
Definition sum_lens (rs : list range) : Z := fold_right (fun r acc => snd r + acc) 0 rs.
Definition mp_fits (size ctlen : Z) (rs : list range) : bool :=
  sum_lens rs + mp_overhead size ctlen rs <=? int64_max.
(* the same hypothesis on whatever the header text parses to *)
Definition mp_fits_hdr (hdr : string) (d : blob) (ct : string) : bool :=
  match parse_range hdr (blen d) with
  | Some rs => mp_fits (blen d) (slen ct) rs
  | None => true
  end.
