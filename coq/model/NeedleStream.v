(* Model of the OTHER producers / consumers of on-disk needle records (C02), besides
   Needle.Append / ReadData / ScanVolumeFileFrom of model/Needle.v:
     weed/storage/volume_stream_write.go   Volume.StreamWrite (the volume server's -tcp put
                                           path, handleTcpPut), Volume.StreamRead (handleTcpGet)
     weed/storage/needle/crc.go            CRC.Update, CRCwriter.Write / Sum (the checksum of the
                                           stream writer is ACCUMULATED over the Write calls)
     weed/storage/needle/needle_read_write.go   WriteNeedleBlob (a raw record copied from
                                           another server, re-stamped; Volume.WriteNeedleBlob)
   Executable definitions only; proofs are in proof/NeedleStreamProofs.v. *)
From Coq Require Import List NArith Bool.
From SW Require Import model.Needle model.NeedleCrc.
Import ListNotations.
Local Open Scope N_scope.

(* CRC.Update(b) on a raw value c: crc32.Update(c, tab, b) = ^update(^c, tab, b) *)
Definition crc32c_update (c : N) (p : list N) : N :=
  N.lxor (crc_reg (N.lxor c 4294967295) p) 4294967295.

(* the pieces io.Copy hands to CRCwriter.Write: [l] cut after the given sizes (what is left
   over, if the sizes do not add up, is one more piece: concat (chunks_of szs l) = l) *)
Fixpoint chunks_of (szs : list N) (l : list N) : list (list N) :=
  match szs with
  | [] => match l with [] => [] | _ => [l] end
  | k :: r => takeN k l :: chunks_of r (dropN k l)
  end.

Section Stream.
  (* CRC.Update; [crc32c_update] is the real one *)
  Variable upd : N -> list N -> N.

  (* NewCRCwriter: crc = 0; Write(p): crc = crc.Update(p); Sum() = crc.Value() *)
  Definition crc_writer (chunks : list (list N)) : N := fold_left upd chunks 0.

  (* n.Size = 4 + Size(dataSize) + 1 *)
  Definition stream_size (ds : N) : N := 4 + ds + 1.

  (* Volume.StreamWrite(n, reader, dataSize): the bytes appended to the .dat.
       c, i, fl   n.Cookie, n.Id, n.Flags as the caller set them (handleTcpPut: flags 0)
       ds         dataSize (the header Size and the DataSize field are computed from it)
       chunks     what io.Copy(crcWriter, io.LimitReader(reader, dataSize)) handed to the CRC
                  writer, one element per Write call (their concatenation is the stored data)
       ts         n.AppendAtNs = time.Now()
     A version-3 record: header (cookie, id, size), DataSize, data, the flags byte, checksum,
     timestamp, padding.  NOT written: name, mime, last-modified, TTL, pairs - whatever the
     flags byte says.  The padding is header[12:12+padding] of the 24-byte scratch buffer: the
     size field, then zeros (the same bytes prepareWriteBuffer leaves there for version 3). *)
  Definition stream_encode (c i fl ds : N) (chunks : list (list N)) (ts : N) : list N :=
    be_encode 4 c ++ be_encode 8 i ++ be_encode 4 (stream_size ds)
    ++ (be_encode 4 ds ++ concat chunks ++ [fl])
    ++ (be_encode 4 (crc_value (crc_writer chunks)) ++ be_encode 8 ts
        ++ takeN (padding_length (stream_size ds) 3) (be_encode 4 (stream_size ds) ++ [0; 0; 0; 0])).
End Stream.

(* the needle a stream-written record stands for: nothing but identity, data, the flags byte,
   the checksum and the timestamp *)
Definition stream_needle (c i fl : N) (d : list N) (ck ts : N) : needle :=
  {| cookie := c; id := i; data := d; flags := fl; name := []; mime := []; pairs_size := 0;
     pairs := []; last_modified := 0; ttl := None; checksum := ck; append_at_ns := ts |}.

(* what ReadBytes makes of it *)
Definition stream_dneedle (c i fl : N) (d : list N) (ck ts : N) : dneedle :=
  {| d_n := stream_needle c i fl d ck ts; d_size := stream_size (len d); d_data_size := len d;
     d_name_size := 0; d_mime_size := 0 |}.

(* no flag that announces a field the stream writer does not write *)
Definition no_field_flags (fl : N) : bool :=
  negb (has_flag fl FlagHasName) && negb (has_flag fl FlagHasMime)
  && negb (has_flag fl FlagHasLastModifiedDate) && negb (has_flag fl FlagHasTtl)
  && negb (has_flag fl FlagHasPairs).

(* Volume.StreamRead(n, writer) for a needle whose map entry points at [off]: skips the
   16-byte header, copies the 4 DataSize bytes and then DataSize bytes to the writer.  No
   cookie check, no size check, NO CHECKSUM COMPARE; the end of the file ends the copy without
   an error (a missing DataSize byte is a zero: the 4-byte buffer is written whole). *)
Definition stream_read (file : list N) (off : N) : list N :=
  let r := dropN (off + NeedleHeaderSize) file in
  let sb := takeN 4 (r ++ [0; 0; 0; 0]) in
  sb ++ takeN (be_decode sb) (dropN 4 r).

(* needle.WriteNeedleBlob(w, blob, size, appendAtNs, version): the blob (ReadNeedleBlob of
   a record on another server) is appended as it is, except that version 3 overwrites the 8
   timestamp bytes behind the checksum *)
Definition restamp (blob : list N) (size ts v : N) : list N :=
  if v =? 3
  then takeN (NeedleHeaderSize + size + NeedleChecksumSize) blob ++ be_encode 8 ts
       ++ dropN (NeedleHeaderSize + size + NeedleChecksumSize + TimestampSize) blob
  else blob.
