(* Model of weed/topology/volume_growth.go findEmptySlotsForOneVolume and the parts of
   weed/topology/node.go it uses (PickNodesByWeight, ReserveOneVolume,
   AvailableSpaceFor) — property C10.
   Executable definitions only; proofs are in proof/TopoPlaceProofs.v.

   The tree is  topology -> data center -> rack -> data node.  Every level carries
   its own per-disk-type counters AS GIVEN (the code trusts the counters of each
   level; nothing here assumes that a rack's counters are the sum of its nodes').

   Nondeterminism of the Go code is explicit:
     * every iteration over a Go map (NodeImpl.children) takes an ORDER oracle: a
       list of naturals read as successive "take the (i mod remaining)-th remaining
       element" choices (function [permute]); every oracle value is legal;
     * every math/rand draw rand.Int63n(n) takes an integer oracle r and uses
       r mod n. *)
From Coq Require Import String List ZArith Bool Arith.
Import ListNotations.
Local Open Scope Z_scope.

(* ---------- DiskUsageCounts (disk.go) ---------- *)
Record counts := mkCounts {
  volumeCount : Z; remoteVolumeCount : Z; activeVolumeCount : Z; ecShardCount : Z; maxVolumeCount : Z }.
Definition zero_counts : counts := mkCounts 0 0 0 0 0.

(* DiskUsages.usages : map[types.DiskType]*DiskUsageCounts; getOrCreateDisk of an
   absent type yields zero counts *)
Definition usages := list (string * counts).
Fixpoint uget (u : usages) (t : string) : counts :=
  match u with
  | [] => zero_counts
  | (k, c) :: u' => if String.eqb k t then c else uget u' t
  end.

(* erasure_coding.DataShardsCount = 10 *)
Definition DataShardsCount : Z := 10.

(* NodeImpl.AvailableSpaceFor / DiskUsageCounts.FreeSpace (int64, Go division truncates) *)
Definition free_space (c : counts) : Z :=
  let free := maxVolumeCount c + remoteVolumeCount c - volumeCount c in
  if 0 <? ecShardCount c then free - Z.quot (ecShardCount c) DataShardsCount - 1 else free.

(* ---------- the node tree ---------- *)
Record dnode := { n_id : string; n_usage : usages }.
Record rack := { r_id : string; r_usage : usages; r_nodes : list dnode }.
Record dcenter := { d_id : string; d_usage : usages; d_racks : list rack }.
Record topology := { t_usage : usages; t_dcs : list dcenter }.

(* VolumeGrowOption: disk type, preferences ("" = none), ReplicaPlacement xyz *)
Record grow_option := {
  go_disk : string;
  go_dc : string; go_rack : string; go_node : string;
  rp_dc : nat;      (* DiffDataCenterCount  x *)
  rp_rack : nat;    (* DiffRackCount        y *)
  rp_same : nat     (* SameRackCount        z *) }.

Definition avail_node (o : grow_option) (n : dnode) : Z := free_space (uget (n_usage n) (go_disk o)).
Definition avail_rack (o : grow_option) (r : rack) : Z := free_space (uget (r_usage r) (go_disk o)).
Definition avail_dc (o : grow_option) (d : dcenter) : Z := free_space (uget (d_usage d) (go_disk o)).

(* ---------- map iteration order oracle ---------- *)
Fixpoint remove_nth {A} (i : nat) (l : list A) : list A :=
  match l, i with
  | [], _ => []
  | _ :: l', O => l'
  | x :: l', S i' => x :: remove_nth i' l'
  end.

Fixpoint permute_fuel {A} (fuel : nat) (code : list nat) (l : list A) : list A :=
  match fuel, l with
  | S f, x :: _ =>
      let i := Nat.modulo (hd O code) (length l) in
      nth i l x :: permute_fuel f (tl code) (remove_nth i l)
  | _, _ => []
  end.
Definition permute {A} (code : list nat) (l : list A) : list A := permute_fuel (length l) code l.

(* every order code for lists of length <= n, up to equivalence *)
Fixpoint all_orders (n : nat) : list (list nat) :=
  match n with
  | O => [[]]
  | S n' => flat_map (fun i => map (cons i) (all_orders n')) (seq 0 n)
  end.

(* ---------- PickNodesByWeight (node.go) ---------- *)
Section Pick.
  Context {A : Type}.
  Variable avail : A -> Z.

  (* children with AvailableSpaceFor > 0, in map order *)
  Definition candidates (order : list nat) (children : list A) : list A :=
    filter (fun c => 0 <? avail c) (permute order children).

  (* inner loop: first k with lastWeights <= r < lastWeights + weights[k]; its weight is zeroed *)
  Fixpoint draw (r last : Z) (cw : list (A * Z)) : option (A * Z * list (A * Z)) :=
    match cw with
    | [] => None
    | (c, w) :: cw' =>
        if (last <=? r) && (r <? last + w) then Some (c, w, (c, 0) :: cw')
        else match draw r (last + w) cw' with
             | Some (x, wx, cw'') => Some (x, wx, (c, w) :: cw'')
             | None => None
             end
    end.

  (* outer loop: len(candidates) draws of rand.Int63n(totalWeights) *)
  Fixpoint shuffle (n : nat) (rs : list Z) (total : Z) (cw : list (A * Z)) : list A :=
    match n with
    | O => []
    | S n' =>
        let r := Z.modulo (hd 0 rs) total in
        match draw r 0 cw with
        | Some (x, wx, cw') => x :: shuffle n' (tl rs) (total - wx) cw'
        | None => shuffle n' (tl rs) total cw
        end
    end.

  Definition sum_weights (l : list A) : Z := fold_right (fun c s => avail c + s) 0 l.

  Definition sorted_candidates (order : list nat) (rs : list Z) (children : list A) : list A :=
    let cands := candidates order children in
    shuffle (length cands) rs (sum_weights cands) (map (fun c => (c, avail c)) cands).

  (* index and value of the first sorted candidate accepted by filterFirstNodeFn *)
  Fixpoint first_passing (filt : A -> bool) (l : list A) (k : nat) : option (nat * A) :=
    match l with
    | [] => None
    | x :: l' => if filt x then Some (k, x) else first_passing filt l' (S k)
    end.

  (* Go would panic on sortedCandidates[k+1:numberOfNodes] if fewer than numberOfNodes
     candidates were sorted; that cannot happen (proved: the shuffle is a permutation). *)
  Definition pick_nodes (order : list nat) (rs : list Z) (number : nat) (filt : A -> bool)
             (children : list A) : option (A * list A) :=
    let cands := candidates order children in
    if Nat.ltb (length cands) number then None            (* "No enough data node found!" *)
    else
      let sorted := sorted_candidates order rs children in
      match first_passing filt sorted O with
      | None => None                                      (* "No matching data node found!" *)
      | Some (k, first) =>
          let rest :=
            if Nat.leb (number - 1) k then firstn (number - 1) sorted
            else firstn k sorted ++ skipn (S k) (firstn number sorted) in
          Some (first, rest)
      end.
End Pick.

(* ---------- the three filter closures of findEmptySlotsForOneVolume ---------- *)
Definition pref_ok (pref id : string) : bool := String.eqb pref "" || String.eqb id pref.

Definition possible_nodes (o : grow_option) (rk : rack) : nat :=
  length (filter (fun n => 1 <=? avail_node o n) (r_nodes rk)).

Definition dc_filter (o : grow_option) (dc : dcenter) : bool :=
  if negb (pref_ok (go_dc o) (d_id dc)) then false
  else if Nat.ltb (length (d_racks dc)) (rp_rack o + 1) then false
  else if avail_dc o dc <? Z.of_nat (rp_rack o + rp_same o + 1) then false
  else
    let possibleRacksCount :=
      length (filter (fun rk => Nat.leb (rp_same o + 1) (possible_nodes o rk)) (d_racks dc)) in
    if Nat.ltb possibleRacksCount (rp_rack o + 1) then false else true.

Definition rack_filter (o : grow_option) (rk : rack) : bool :=
  if negb (pref_ok (go_rack o) (r_id rk)) then false
  else if avail_rack o rk <? Z.of_nat (rp_same o + 1) then false
  else if Nat.ltb (length (r_nodes rk)) (rp_same o + 1) then false
  else if Nat.ltb (possible_nodes o rk) (rp_same o + 1) then false
  else true.

Definition node_filter (o : grow_option) (n : dnode) : bool :=
  if negb (pref_ok (go_node o) (n_id n)) then false
  else if avail_node o n <? 1 then false
  else true.

(* ---------- ReserveOneVolume (node.go) ---------- *)
(* on a rack: children are data nodes *)
Fixpoint reserve_in_rack (o : grow_option) (r : Z) (nodes : list dnode) : option dnode :=
  match nodes with
  | [] => None                                           (* "No free volume slot found!" *)
  | n :: ns =>
      let freeSpace := avail_node o n in
      if freeSpace <=? 0 then reserve_in_rack o r ns
      else if freeSpace <=? r then reserve_in_rack o (r - freeSpace) ns
      else Some n
  end.

(* on a data center: children are racks; a failed nested call continues with the same r.
   [orders]: map order of the nodes of each rack that is entered, consumed in turn *)
Fixpoint reserve_in_dc (o : grow_option) (r : Z) (racks : list rack) (orders : list (list nat))
  : option (rack * dnode) :=
  match racks with
  | [] => None
  | rk :: rs =>
      let freeSpace := avail_rack o rk in
      if freeSpace <=? 0 then reserve_in_dc o r rs orders
      else if freeSpace <=? r then reserve_in_dc o (r - freeSpace) rs orders
      else match reserve_in_rack o r (permute (hd [] orders) (r_nodes rk)) with
           | Some n => Some (rk, n)
           | None => reserve_in_dc o r rs (tl orders)
           end
  end.

(* ---------- findEmptySlotsForOneVolume ---------- *)
(* a chosen server, identified by its path of ids *)
Definition server := (string * string * string)%type.
Definition srv (dc : dcenter) (rk : rack) (n : dnode) : server := (d_id dc, r_id rk, n_id n).

Record rack_oracle := { ro_r : Z; ro_nodes : list nat }.
Record dc_oracle := { do_r : Z; do_racks : list nat; do_nodes : list (list nat) }.
Record oracle := {
  o_dc_order : list nat; o_dc_rs : list Z;          (* topo.PickNodesByWeight *)
  o_rack_order : list nat; o_rack_rs : list Z;      (* mainDataCenter.PickNodesByWeight *)
  o_node_order : list nat; o_node_rs : list Z;      (* mainRack.PickNodesByWeight *)
  o_other_racks : list rack_oracle;                 (* one per other rack *)
  o_other_dcs : list dc_oracle                      (* one per other data center *) }.

Definition default_rack_oracle : rack_oracle := {| ro_r := 0; ro_nodes := [] |}.
Definition default_dc_oracle : dc_oracle := {| do_r := 0; do_racks := []; do_nodes := [] |}.

(* the result: (servers, err <> nil).  On an error of a later ReserveOneVolume the Go
   code returns the servers found so far together with the error. *)
Definition result := (list server * bool)%type.

Fixpoint reserve_racks (o : grow_option) (dc : dcenter) (acc : list server) (racks : list rack)
         (os : list rack_oracle) : result :=
  match racks with
  | [] => (acc, false)
  | rk :: rest =>
      let ro := hd default_rack_oracle os in
      let r := Z.modulo (ro_r ro) (avail_rack o rk) in      (* rand.Int63n(rack.AvailableSpaceFor) *)
      match reserve_in_rack o r (permute (ro_nodes ro) (r_nodes rk)) with
      | Some n => reserve_racks o dc (acc ++ [srv dc rk n]) rest (tl os)
      | None => (acc, true)
      end
  end.

Fixpoint reserve_dcs (o : grow_option) (acc : list server) (dcs : list dcenter)
         (os : list dc_oracle) : result :=
  match dcs with
  | [] => (acc, false)
  | dc :: rest =>
      let d := hd default_dc_oracle os in
      let r := Z.modulo (do_r d) (avail_dc o dc) in         (* rand.Int63n(datacenter.AvailableSpaceFor) *)
      match reserve_in_dc o r (permute (do_racks d) (d_racks dc)) (do_nodes d) with
      | Some (rk, n) => reserve_dcs o (acc ++ [srv dc rk n]) rest (tl os)
      | None => (acc, true)
      end
  end.

Definition find_empty_slots (orc : oracle) (t : topology) (o : grow_option) : result :=
  match pick_nodes (avail_dc o) (o_dc_order orc) (o_dc_rs orc) (rp_dc o + 1) (dc_filter o) (t_dcs t) with
  | None => ([], true)
  | Some (mainDc, otherDcs) =>
    match pick_nodes (avail_rack o) (o_rack_order orc) (o_rack_rs orc) (rp_rack o + 1) (rack_filter o) (d_racks mainDc) with
    | None => ([], true)
    | Some (mainRack, otherRacks) =>
      match pick_nodes (avail_node o) (o_node_order orc) (o_node_rs orc) (rp_same o + 1) (node_filter o) (r_nodes mainRack) with
      | None => ([], true)
      | Some (mainServer, otherServers) =>
          let servers := srv mainDc mainRack mainServer :: map (srv mainDc mainRack) otherServers in
          match reserve_racks o mainDc servers otherRacks (o_other_racks orc) with
          | (servers', true) => (servers', true)
          | (servers', false) => reserve_dcs o servers' otherDcs (o_other_dcs orc)
          end
      end
    end
  end.

(* ---------- the placement rule as an independent executable predicate ---------- *)
Definition server_eqb (a b : server) : bool :=
  let '(a1, a2, a3) := a in let '(b1, b2, b3) := b in
  String.eqb a1 b1 && String.eqb a2 b2 && String.eqb a3 b3.

Definition s_dc (s : server) : string := fst (fst s).
Definition s_rack (s : server) : string := snd (fst s).
Definition s_node (s : server) : string := snd s.

Fixpoint nodupb {A} (eqb : A -> A -> bool) (l : list A) : bool :=
  match l with
  | [] => true
  | x :: l' => negb (existsb (eqb x) l') && nodupb eqb l'
  end.

(* the server names a data node of the tree that has a free slot for the disk type *)
Definition has_free_slot (t : topology) (o : grow_option) (s : server) : bool :=
  existsb (fun dc => String.eqb (d_id dc) (s_dc s) &&
    existsb (fun rk => String.eqb (r_id rk) (s_rack s) &&
      existsb (fun n => String.eqb (n_id n) (s_node s) && (1 <=? avail_node o n)) (r_nodes rk))
      (d_racks dc)) (t_dcs t).

(* shape relative to a main server m: z+1 in m's rack, y in y other racks of m's data
   center, x in x other data centers; preferences refer to m *)
Definition shape_ok (o : grow_option) (ss : list server) (m : server) : bool :=
  let same := filter (fun s => String.eqb (s_dc s) (s_dc m) && String.eqb (s_rack s) (s_rack m)) ss in
  let oracks := filter (fun s => String.eqb (s_dc s) (s_dc m) && negb (String.eqb (s_rack s) (s_rack m))) ss in
  let odcs := filter (fun s => negb (String.eqb (s_dc s) (s_dc m))) ss in
  pref_ok (go_dc o) (s_dc m) && pref_ok (go_rack o) (s_rack m) && pref_ok (go_node o) (s_node m) &&
  Nat.eqb (length same) (rp_same o + 1) &&
  Nat.eqb (length oracks) (rp_rack o) && nodupb String.eqb (map s_rack oracks) &&
  Nat.eqb (length odcs) (rp_dc o) && nodupb String.eqb (map s_dc odcs).

Definition placement_ok (t : topology) (o : grow_option) (ss : list server) : bool :=
  Nat.eqb (length ss) (1 + rp_dc o + rp_rack o + rp_same o) &&
  nodupb server_eqb ss &&
  forallb (has_free_slot t o) ss &&
  existsb (shape_ok o ss) ss.

(* children of one Go map have distinct ids *)
Definition wf_topology (t : topology) : bool :=
  nodupb String.eqb (map d_id (t_dcs t)) &&
  forallb (fun dc => nodupb String.eqb (map r_id (d_racks dc)) &&
     forallb (fun rk => nodupb String.eqb (map n_id (r_nodes rk))) (d_racks dc)) (t_dcs t).

(* ---------- all results the algorithm can produce (for the correspondence) ---------- *)
Definition zrange (n : Z) : list Z := map Z.of_nat (seq 0 (Z.to_nat n)).

Definition opt_server_eqb (a b : option server) : bool :=
  match a, b with
  | Some x, Some y => server_eqb x y
  | None, None => true
  | _, _ => false
  end.

Fixpoint dedup {A} (eqb : A -> A -> bool) (l : list A) : list A :=
  match l with
  | [] => []
  | x :: l' => let d := dedup eqb l' in if existsb (eqb x) d then d else x :: d
  end.

(* outcomes of rand.Int63n(avail) followed by rack.ReserveOneVolume *)
Definition reserve_rack_all (o : grow_option) (dc : dcenter) (rk : rack) : list (option server) :=
  dedup opt_server_eqb
    (flat_map (fun r =>
       map (fun ord => option_map (srv dc rk) (reserve_in_rack o r (permute ord (r_nodes rk))))
           (all_orders (length (r_nodes rk))))
     (zrange (avail_rack o rk))).

(* outcomes of the nested call on one rack, for a given r *)
Definition rack_outcomes (o : grow_option) (dc : dcenter) (r : Z) (rk : rack) : list (option server) :=
  dedup opt_server_eqb
    (map (fun ord => option_map (srv dc rk) (reserve_in_rack o r (permute ord (r_nodes rk))))
         (all_orders (length (r_nodes rk)))).

Fixpoint walk_dc_all (o : grow_option) (dc : dcenter) (r : Z) (racks : list rack) : list (option server) :=
  match racks with
  | [] => [None]
  | rk :: rs =>
      let freeSpace := avail_rack o rk in
      if freeSpace <=? 0 then walk_dc_all o dc r rs
      else if freeSpace <=? r then walk_dc_all o dc (r - freeSpace) rs
      else flat_map (fun out => match out with
                                | Some s => [Some s]
                                | None => walk_dc_all o dc r rs
                                end) (rack_outcomes o dc r rk)
  end.

Definition reserve_dc_all (o : grow_option) (dc : dcenter) : list (option server) :=
  dedup opt_server_eqb
    (flat_map (fun r =>
       flat_map (fun ord => walk_dc_all o dc r (permute ord (d_racks dc)))
                (all_orders (length (d_racks dc))))
     (zrange (avail_dc o dc))).

(* extend [acc] by one outcome of every stage in turn; a None outcome ends with an error
   that carries the servers found so far *)
Fixpoint extend_all (acc : list server) (outs : list (list (option server))) : list result :=
  match outs with
  | [] => [(acc, false)]
  | out :: rest =>
      flat_map (fun x => match x with
                         | Some s => extend_all (acc ++ [s]) rest
                         | None => [(acc, true)]
                         end) out
  end.

Definition reserve_racks_all (o : grow_option) (dc : dcenter) (acc : list server) (racks : list rack)
  : list result := extend_all acc (map (reserve_rack_all o dc) racks).

Definition reserve_dcs_all (o : grow_option) (acc : list server) (dcs : list dcenter) : list result :=
  extend_all acc (map (reserve_dc_all o) dcs).

Definition find_all (t : topology) (o : grow_option) : list result :=
  flat_map (fun ord_dc =>
    match pick_nodes (avail_dc o) ord_dc [] (rp_dc o + 1) (dc_filter o) (t_dcs t) with
    | None => [([], true)]
    | Some (mainDc, otherDcs) =>
      flat_map (fun ord_rk =>
        match pick_nodes (avail_rack o) ord_rk [] (rp_rack o + 1) (rack_filter o) (d_racks mainDc) with
        | None => [([], true)]
        | Some (mainRack, otherRacks) =>
          flat_map (fun ord_n =>
            match pick_nodes (avail_node o) ord_n [] (rp_same o + 1) (node_filter o) (r_nodes mainRack) with
            | None => [([], true)]
            | Some (mainServer, otherServers) =>
                let servers := srv mainDc mainRack mainServer :: map (srv mainDc mainRack) otherServers in
                flat_map (fun res : result =>
                            if snd res then [res] else reserve_dcs_all o (fst res) otherDcs)
                         (reserve_racks_all o mainDc servers otherRacks)
            end) (all_orders (length (r_nodes mainRack)))
        end) (all_orders (length (d_racks mainDc)))
    end) (all_orders (length (t_dcs t))).

Fixpoint list_eqb {A} (eqb : A -> A -> bool) (l1 l2 : list A) : bool :=
  match l1, l2 with
  | [], [] => true
  | x :: l1', y :: l2' => eqb x y && list_eqb eqb l1' l2'
  | _, _ => false
  end.

Definition result_eqb (a b : result) : bool :=
  list_eqb server_eqb (fst a) (fst b) && Bool.eqb (snd a) (snd b).

(* the implementation's answer is one the algorithm can produce, by plain enumeration *)
Definition admits_enum (t : topology) (o : grow_option) (res : result) : bool :=
  existsb (result_eqb res) (find_all t o).

(* The same test as a pruned search (what the correspondence check runs): the target list
   is consumed while the stages are walked instead of materialising every result. *)
Fixpoint strip_prefix (p l : list server) : option (list server) :=
  match p, l with
  | [], _ => Some l
  | x :: p', y :: l' => if server_eqb x y then strip_prefix p' l' else None
  | _ :: _, [] => None
  end.

Fixpoint match_ext (tgt : list server) (err : bool) (outs : list (list (option server))) : bool :=
  match outs with
  | [] => match tgt with [] => negb err | _ :: _ => false end
  | out :: rest =>
      match tgt with
      | [] => err && existsb (opt_server_eqb None) out
      | s :: tgt' => existsb (opt_server_eqb (Some s)) out && match_ext tgt' err rest
      end
  end.

Definition admits (t : topology) (o : grow_option) (res : result) : bool :=
  let ss := fst res in
  let err := snd res in
  let fail := err && match ss with [] => true | _ :: _ => false end in
  existsb (fun ord_dc =>
    match pick_nodes (avail_dc o) ord_dc [] (rp_dc o + 1) (dc_filter o) (t_dcs t) with
    | None => fail
    | Some (mainDc, otherDcs) =>
      let dc_outs := map (reserve_dc_all o) otherDcs in
      existsb (fun ord_rk =>
        match pick_nodes (avail_rack o) ord_rk [] (rp_rack o + 1) (rack_filter o) (d_racks mainDc) with
        | None => fail
        | Some (mainRack, otherRacks) =>
          let outs := map (reserve_rack_all o mainDc) otherRacks ++ dc_outs in
          existsb (fun ord_n =>
            match pick_nodes (avail_node o) ord_n [] (rp_same o + 1) (node_filter o) (r_nodes mainRack) with
            | None => fail
            | Some (mainServer, otherServers) =>
                match strip_prefix (srv mainDc mainRack mainServer :: map (srv mainDc mainRack) otherServers) ss with
                | None => false
                | Some tgt => match_ext tgt err outs
                end
            end) (all_orders (length (r_nodes mainRack)))
        end) (all_orders (length (d_racks mainDc)))
    end) (all_orders (length (t_dcs t))).

(* ====================================================================================
   VolumeGrowth.grow / findAndGrow (volume_growth.go) — the allocation half.
   AllocateVolume is an RPC to the volume server; its answer is an oracle [fl]:
   the i-th call of one grow fails iff the i-th element of [fl] is true (absent = ok).
   ==================================================================================== *)

(* servers allocated so far (AddOrUpdateVolume + RegisterVolumeLayout done), err <> nil:
   grow returns at the first failed AllocateVolume and undoes nothing *)
Fixpoint grow (fl : list bool) (servers : list server) : list server * bool :=
  match servers with
  | [] => ([], false)
  | s :: rest =>
      if hd false fl then ([], true)
      else let '(a, e) := grow (tl fl) rest in (s :: a, e)
  end.

(* the AllocateVolume RPCs sent, in order (the refused one included) *)
Fixpoint grow_calls (fl : list bool) (servers : list server) : list server :=
  match servers with
  | [] => []
  | s :: rest => s :: (if hd false fl then [] else grow_calls (tl fl) rest)
  end.

(* Disk.doAddOrUpdateVolume of a new, writable, local volume: delta volumeCount = 1,
   activeVolumeCount = 1, applied by UpAdjustDiskUsageDelta at the data node and every
   ancestor (getOrCreateDisk creates an absent disk type) *)
Definition add_one (c : counts) : counts :=
  mkCounts (volumeCount c + 1) (remoteVolumeCount c) (activeVolumeCount c + 1) (ecShardCount c) (maxVolumeCount c).

Fixpoint uadd (u : usages) (t : string) : usages :=
  match u with
  | [] => [(t, add_one zero_counts)]
  | (k, c) :: u' => if String.eqb k t then (k, add_one c) :: u' else (k, c) :: uadd u' t
  end.

Definition add_volume_node (disk : string) (s : server) (n : dnode) : dnode :=
  if String.eqb (n_id n) (s_node s) then {| n_id := n_id n; n_usage := uadd (n_usage n) disk |} else n.
Definition add_volume_rack (disk : string) (s : server) (rk : rack) : rack :=
  if String.eqb (r_id rk) (s_rack s)
  then {| r_id := r_id rk; r_usage := uadd (r_usage rk) disk; r_nodes := map (add_volume_node disk s) (r_nodes rk) |}
  else rk.
Definition add_volume_dc (disk : string) (s : server) (dc : dcenter) : dcenter :=
  if String.eqb (d_id dc) (s_dc s)
  then {| d_id := d_id dc; d_usage := uadd (d_usage dc) disk; d_racks := map (add_volume_rack disk s) (d_racks dc) |}
  else dc.
(* [s] names a data node of the tree (always so for a server returned by the search) *)
Definition add_volume (disk : string) (t : topology) (s : server) : topology :=
  {| t_usage := uadd (t_usage t) disk; t_dcs := map (add_volume_dc disk s) (t_dcs t) |}.

Record grow_result := {
  gr_found : list server;      (* servers chosen by findEmptySlotsForOneVolume *)
  gr_err : bool;               (* findAndGrow's error *)
  gr_allocated : list server;  (* servers that hold and have registered the new volume *)
  gr_calls : list server;      (* AllocateVolume RPCs sent *)
  gr_topo : topology           (* counters afterwards *) }.

(* findAndGrow (topo.NextVolumeId, a raft command, is taken to succeed) *)
Definition find_and_grow (orc : oracle) (fl : list bool) (t : topology) (o : grow_option) : grow_result :=
  match find_empty_slots orc t o with
  | (ss, true) => {| gr_found := ss; gr_err := true; gr_allocated := []; gr_calls := []; gr_topo := t |}
  | (ss, false) =>
      let '(a, e) := grow fl ss in
      {| gr_found := ss; gr_err := e; gr_allocated := a; gr_calls := grow_calls fl ss;
         gr_topo := fold_left (add_volume (go_disk o)) a t |}
  end.

(* index of the first refused call *)
Fixpoint first_fail (fl : list bool) : option nat :=
  match fl with
  | [] => None
  | true :: _ => Some O
  | false :: fl' => option_map S (first_fail fl')
  end.

(* known finding 0 (partial grow): the first refused AllocateVolume is neither the first
   call nor beyond the 1+x+y+z calls of this grow — per grow call *)
Definition copy_count (o : grow_option) : nat := 1 + rp_dc o + rp_rack o + rp_same o.
Definition trigger_partial_grow (fl : list bool) (o : grow_option) : bool :=
  match first_fail fl with
  | Some i => Nat.ltb 0 i && Nat.ltb i (copy_count o)
  | None => false
  end.

(* counters of the data node named by a server path *)
Definition node_counts (t : topology) (disk : string) (s : server) : option counts :=
  match find (fun dc => String.eqb (d_id dc) (s_dc s)) (t_dcs t) with
  | None => None
  | Some dc =>
    match find (fun rk => String.eqb (r_id rk) (s_rack s)) (d_racks dc) with
    | None => None
    | Some rk =>
      match find (fun n => String.eqb (n_id n) (s_node s)) (r_nodes rk) with
      | None => None
      | Some n => Some (uget (n_usage n) disk)
      end
    end
  end.

(* ---------- comparison of two counter snapshots (absent disk type = zero counts) ---------- *)
Definition counts_eqb (a b : counts) : bool :=
  (volumeCount a =? volumeCount b) && (remoteVolumeCount a =? remoteVolumeCount b) &&
  (activeVolumeCount a =? activeVolumeCount b) && (ecShardCount a =? ecShardCount b) &&
  (maxVolumeCount a =? maxVolumeCount b).
Definition usages_eqb (a b : usages) : bool :=
  forallb (fun k => counts_eqb (uget a k) (uget b k)) (map fst a ++ map fst b).
Definition node_eqb (a b : dnode) : bool := String.eqb (n_id a) (n_id b) && usages_eqb (n_usage a) (n_usage b).
Definition rack_eqb (a b : rack) : bool :=
  String.eqb (r_id a) (r_id b) && usages_eqb (r_usage a) (r_usage b) && list_eqb node_eqb (r_nodes a) (r_nodes b).
Definition dc_eqb (a b : dcenter) : bool :=
  String.eqb (d_id a) (d_id b) && usages_eqb (d_usage a) (d_usage b) && list_eqb rack_eqb (d_racks a) (d_racks b).
Definition topo_eqb (a b : topology) : bool :=
  usages_eqb (t_usage a) (t_usage b) && list_eqb dc_eqb (t_dcs a) (t_dcs b).

(* ====================================================================================
   Completeness: a decidable condition under which the search succeeds for EVERY oracle.
   ==================================================================================== *)

(* PickNodesByWeight fails iff (independent of map order and random numbers) *)
Definition pick_fails {A} (avail : A -> Z) (number : nat) (filt : A -> bool) (children : list A) : bool :=
  let cands := filter (fun c => 0 <? avail c) children in
  Nat.ltb (length cands) number || negb (existsb filt cands).

Definition sum_pos {A} (avail : A -> Z) (l : list A) : Z :=
  fold_right (fun c s => Z.max 0 (avail c) + s) 0 l.

(* a level's own counter does not promise more than its children hold: then ReserveOneVolume
   cannot fail (the EC-shard term and per-level overwrites can break this) *)
Definition counters_sound (t : topology) (o : grow_option) : bool :=
  forallb (fun dc => (avail_dc o dc <=? sum_pos (avail_rack o) (d_racks dc)) &&
     forallb (fun rk => avail_rack o rk <=? sum_pos (avail_node o) (r_nodes rk)) (d_racks dc)) (t_dcs t).

(* every data center / rack the weighted pick can choose as the main one leads on *)
Definition all_paths_ok (t : topology) (o : grow_option) : bool :=
  counters_sound t o &&
  negb (pick_fails (avail_dc o) (rp_dc o + 1) (dc_filter o) (t_dcs t)) &&
  forallb (fun dc =>
    if (0 <? avail_dc o dc) && dc_filter o dc then
      negb (pick_fails (avail_rack o) (rp_rack o + 1) (rack_filter o) (d_racks dc)) &&
      forallb (fun rk =>
        if (0 <? avail_rack o rk) && rack_filter o rk then
          negb (pick_fails (avail_node o) (rp_same o + 1) (node_filter o) (r_nodes rk))
        else true) (d_racks dc)
    else true) (t_dcs t).

(* every rand.Int63n(n) of findEmptySlotsForOneVolume has n > 0 (Go panics otherwise):
   replays the three picks and tests the racks / data centers handed to the reserve loops *)
Definition int63n_args_positive (orc : oracle) (t : topology) (o : grow_option) : bool :=
  match pick_nodes (avail_dc o) (o_dc_order orc) (o_dc_rs orc) (rp_dc o + 1) (dc_filter o) (t_dcs t) with
  | None => true
  | Some (mainDc, otherDcs) =>
    forallb (fun dc => 0 <? avail_dc o dc) otherDcs &&
    match pick_nodes (avail_rack o) (o_rack_order orc) (o_rack_rs orc) (rp_rack o + 1) (rack_filter o) (d_racks mainDc) with
    | None => true
    | Some (mainRack, otherRacks) => forallb (fun rk => 0 <? avail_rack o rk) otherRacks
    end
  end.
