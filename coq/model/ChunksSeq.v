(* Model of ChunkReadAt (weed/filer/reader_at.go) as a STATE MACHINE across ReadAt calls (C17):
   the one-entry "last chunk" cache (lastChunkFileId / lastChunkData), the chunk cache it talks to
   (GetChunkSlice / GetChunk / SetChunk, the prefetch of the next view) and chunk fetches that may
   FAIL per (call, chunk).  Executable definitions only; proofs are in proof/ChunksSeq.v.
   The pure, failure-free, single-call model is model/Chunks.v [read_at]; proof/ChunksSeq.v shows that
   every call of a sequence that returns no fetch error equals it. *)
From Coq Require Import List NArith Bool.
From SW Require Export model.Chunks.
Import ListNotations.
Local Open Scope N_scope.

(* what survives from one ReadAt call to the next *)
Record ra_state := RaState {
  ra_fid : option N;      (* lastChunkFileId (None = "") *)
  ra_data : list N;       (* lastChunkData *)
  ra_cache : list N       (* file ids whose whole chunk the chunk cache holds (SetChunk) *)
}.
Definition ra_new : ra_state := {| ra_fid := None; ra_data := []; ra_cache := [] |}.
(* Close(): forgets the last chunk, the reader stays usable *)
Definition ra_close (s : ra_state) : ra_state := {| ra_fid := None; ra_data := []; ra_cache := ra_cache s |}.

Definition in_cache (s : ra_state) (f : N) : bool := existsb (N.eqb f) (ra_cache s).

Section Reader.
  (* src: what the volume server holds; memo: the chunk cache keeps what SetChunk gives it (false: it
     keeps nothing); slices: the chunk cache answers GetChunkSlice for the chunks it holds;
     fails: the fetch oracle of THIS call (lookup error, HTTP error, short body: fetchChunk returns err);
     snap: the file ids the chunk cache held when THIS call began.  GetChunkSlice is answered from these
     only: whether a chunk that the running call itself brings in (its own fetch, or the concurrent
     prefetch goroutine) is already visible to GetChunkSlice is a race in the Go code, and a cache may
     always answer nil, so the harness's cache does (GetChunk has no such race: hit or fetch under the
     same oracle give the same result) *)
  Variables (src : chunk_source) (memo slices : bool) (fails : N -> bool) (snap : list N).

  (* readOneWholeChunk: chunkCache.GetChunk, else doFetchFullChunkData + SetChunk.  None = error *)
  Definition read_one_whole (f : N) (s : ra_state) : option (list N) * ra_state :=
    if in_cache s f then (Some (src f), s)
    else if fails f then (None, s)
    else (Some (src f),
          if memo then {| ra_fid := ra_fid s; ra_data := ra_data s; ra_cache := f :: ra_cache s |} else s).

  (* readFromWholeChunkData(chunkView, nextChunkView): the last-chunk entry answers without a fetch;
     it is replaced only AFTER readOneWholeChunk succeeded; then the next view is prefetched into the
     chunk cache (go readOneWholeChunk(next): its result is dropped, its SetChunk is not) *)
  Definition read_whole_s (w : chunk_view) (nx : option chunk_view) (s : ra_state)
    : option (list N) * ra_state :=
    if match ra_fid s with Some g => g =? cv_fid w | None => false end then (Some (ra_data s), s)
    else match read_one_whole (cv_fid w) s with
         | (None, s1) => (None, s1)
         | (Some d, s1) =>
             let s2 := {| ra_fid := Some (cv_fid w); ra_data := d; ra_cache := ra_cache s1 |} in
             (Some d, match nx with
                      | Some w' => snd (read_one_whole (cv_fid w') s2)
                      | None => s2
                      end)
         end.

  (* readChunkSlice *)
  Definition read_chunk_slice_s (w : chunk_view) (nx : option chunk_view) (boff blen : N) (s : ra_state)
    : option (list N) * ra_state :=
    if slices && existsb (N.eqb (cv_fid w)) snap && (boff + blen <=? N.of_nat (length (src (cv_fid w))))
    then (Some (firstn (N.to_nat blen) (skipn (N.to_nat boff) (src (cv_fid w)))), s)
    else match read_whole_s w nx s with
         | (None, s1) => (None, s1)
         | (Some d, s1) =>
             let wanted := N.min blen (N.of_nat (length d) - boff) in
             (Some (firstn (N.to_nat wanted) (skipn (N.to_nat boff) d)), s1)
         end.

  Inductive step_flag := SfCont | SfBreak | SfErr.

  (* the part of the loop body of doReadAt after the gap handling *)
  Definition read_body_s (offset : N) (w : chunk_view) (nx : option chunk_view) (st1 : rstate) (s : ra_state)
    : rstate * step_flag * ra_state :=
    let cstart := N.max (cv_logic w) (r_start st1) in
    let cstop := N.min (cv_logic w + cv_size w) (r_start st1 + r_rem st1) in
    if cstop <=? cstart then (st1, SfCont, s)
    else
      let boff := cstart - cv_logic w + cv_off w in
      let blen := cstop - cstart in
      match read_chunk_slice_s w nx boff blen s with
      | (None, s1) => (st1, SfErr, s1)                       (* return n, err: nothing more is written *)
      | (Some slice, s1) =>
          let copied := N.min blen (N.of_nat (length slice)) in
          ({| r_buf := write_at (r_buf st1) (N.to_nat (r_start st1 - offset)) (firstn (N.to_nat copied) slice);
              r_start := r_start st1 + copied; r_rem := r_rem st1 - copied; r_n := r_n st1 + copied |},
           SfCont, s1)
      end.

  Definition gap_state_s (offset : N) (w : chunk_view) (st : rstate) : rstate :=
    let gap := cv_logic w - r_start st in
    let zeroed := N.min gap (r_rem st) in
    {| r_buf := zero_at (r_buf st) (r_start st - offset) zeroed;
       r_start := cv_logic w; r_rem := r_rem st - gap; r_n := r_n st + zeroed |}.

  Definition read_step_s (offset : N) (w : chunk_view) (nx : option chunk_view) (st : rstate) (s : ra_state)
    : rstate * step_flag * ra_state :=
    if r_start st <? cv_logic w then
      if r_rem (gap_state_s offset w st) =? 0 then (gap_state_s offset w st, SfBreak, s)
      else read_body_s offset w nx (gap_state_s offset w st) s
    else read_body_s offset w nx st s.

  (* the range loop of doReadAt; the bool is err != nil *)
  Fixpoint read_loop_s (offset : N) (views : list chunk_view) (st : rstate) (s : ra_state)
    : rstate * bool * ra_state :=
    match views with
    | [] => (st, false, s)
    | w :: rest =>
        if r_rem st =? 0 then (st, false, s)
        else match read_step_s offset w (hd_error rest) st s with
             | (st', SfCont, s') => read_loop_s offset rest st' s'
             | (st', SfBreak, s') => (st', false, s')
             | (st', SfErr, s') => (st', true, s')
             end
    end.

End Reader.

Record ra_res := { rs_buf : list N; rs_n : N; rs_eof : bool; rs_err : bool }.

(* ReadAt(p, offset) with p = buf, on a reader in state s *)
Definition read_at_s (src : chunk_source) (memo slices : bool) (fails : N -> bool) (views : list chunk_view) (file_size : N) (buf : list N) (offset : N) (s : ra_state)
  : ra_res * ra_state :=
  let len := N.of_nat (length buf) in
  match read_loop_s src memo slices fails (ra_cache s) offset views {| r_buf := buf; r_start := offset; r_rem := len; r_n := 0 |} s with
  | (st, true, s') =>                       (* a fetch error: n counts what was delivered before it *)
      ({| rs_buf := r_buf st; rs_n := r_n st; rs_eof := false; rs_err := true |}, s')
  | (st, false, s') =>
      let st2 :=
        if (0 <? r_rem st) && (r_start st <? file_size) then
          let delta := N.min (r_rem st) (file_size - r_start st) in
          {| r_buf := zero_at (r_buf st) (r_start st - offset) delta;
             r_start := r_start st; r_rem := r_rem st; r_n := r_n st + delta |}
        else st in
      ({| rs_buf := r_buf st2; rs_n := r_n st2; rs_eof := file_size <=? offset + len; rs_err := false |}, s')
  end.

(* one call on the reader: optionally Close() first, then ReadAt(buf, off) while the fetches of the
   file ids in [op_failing] fail *)
Record ra_op := RaOp { op_close : bool; op_failing : list N; op_buf : list N; op_off : N }.
Definition fails_of (l : list N) : N -> bool := fun f => existsb (N.eqb f) l.

Fixpoint ra_run (src : chunk_source) (memo slices : bool) (views : list chunk_view) (file_size : N)
    (ops : list ra_op) (s : ra_state) : list ra_res :=
  match ops with
  | [] => []
  | o :: r =>
      let s0 := if op_close o then ra_close s else s in
      let (res, s1) := read_at_s src memo slices (fails_of (op_failing o)) views file_size (op_buf o) (op_off o) s0 in
      res :: ra_run src memo slices views file_size r s1
  end.
