(* Model of the volume needle maps (C05):
     weed/storage/needle_map/compact_map.go      CompactSection / CompactMap
     weed/storage/needle_map_metric.go           mapMetric, newNeedleMapMetricFromIndexFile
     weed/storage/needle_map_memory.go           NeedleMap (in memory), doLoading
     weed/storage/needle_map_leveldb.go          LevelDbNeedleMap, generateLevelDbFile
     weed/storage/needle_map_sorted_file.go      SortedFileNeedleMap.Get (Delete is in EcIndex.v)
   The index entry codec, idx.WalkIndexFile, the sorted-index search, MemDb and
   WriteSortedFileFromIdx are in model/EcIndex.v.
   Executable definitions only; proofs are in proof/NeedleMapProofs*.v.

   Build constants passed as arguments: [osz] = types.OffsetSize (4, or 5 under -tags 5BytesOffset);
               [batch] = compact_map.go `batch` (a Go const = 100000; an argument here).
   Offsets are numbers < 256^osz in units of NeedlePaddingSize:
     OffsetLower = off mod 2^32 (b3..b0), OffsetHigher = off / 2^32 (b4; the empty struct when osz = 4).

   Repairs already applied to the Go tree that this model follows:
     (i)  CompactMap.Get/Delete return "absent" when key - section.start exceeds
          SectionalNeedleIdLimit (before: the difference was truncated to uint32 and another
          key's entry was returned / deleted);
     (ii) setOverflowEntry also stores OffsetHigher when it overwrites an existing overflow
          entry (before: the stale high byte was kept under 5BytesOffset);
     (iii) CompactSection.Delete returns the size of an overflow entry only if it is valid
          (before: deleting an already deleted overflow entry returned its negative size). *)
From Coq Require Import List NArith ZArith Bool.
From SW Require Export model.EcIndex.
Import ListNotations.
Local Open Scope N_scope.

(* ---------- machine arithmetic ---------- *)
Definition sec_lim : N := 4294967295.                        (* SectionalNeedleIdLimit = 1<<32 - 1 *)
Definition lookback : nat := 128.                            (* the literal 128 in CompactSection.Set *)
Definition u32 (n : N) : N := n mod two32.                   (* SectionalNeedleId(x): uint64 -> uint32 *)
Definition sub64 (a b : N) : N := (a + two64 - b) mod two64. (* uint64 subtraction *)
Definition add64 (a b : N) : N := (a + b) mod two64.         (* uint64 addition *)
Definition u64_of_size (s : Z) : N := Z.to_N (s mod 18446744073709551616)%Z. (* uint64(Size): sign extension *)

(* ---------- CompactSection ---------- *)
(* SectionalNeedleValue {Key, OffsetLower, Size} zipped with SectionalNeedleValueExtra
   {OffsetHigher}: the Go code keeps two parallel arrays and moves them in lock step. *)
Record sval := { sk : N; shi : N; slo : N; ssz : Z }.
Definition sv_off (v : sval) : N := shi v * two32 + slo v.
Definition mk_sval (skey off : N) (size : Z) : sval :=
  {| sk := skey; shi := off / two32; slo := off mod two32; ssz := size |}.
Definition sv_set_size (v : sval) (s : Z) : sval :=
  {| sk := sk v; shi := shi v; slo := slo v; ssz := s |}.
Definition dummy : sval := {| sk := 0; shi := 0; slo := 0; ssz := 0%Z |}.

(* [s_values] is the used prefix values[0..counter) of the preallocated array *)
Record section := { s_start : N; s_end : N; s_values : list sval; s_overflow : list sval }.
Definition counter (s : section) : N := N.of_nat (length (s_values s)).
Definition key_at (l : list sval) (i : nat) : N := sk (nth i l dummy).

(* sort.Search(n, f) *)
Fixpoint bsearch (fuel : nat) (f : nat -> bool) (i j : nat) : nat :=
  match fuel with
  | O => i
  | S fuel' =>
      if (i <? j)%nat then
        let h := ((i + j) / 2)%nat in
        if negb (f h) then bsearch fuel' f (h + 1)%nat j else bsearch fuel' f i h
      else i
  end.
Definition sort_search (n : nat) (f : nat -> bool) : nat := bsearch (S n) f 0%nat n.

(* the common probe: first index whose Key >= skey *)
Definition lower_bound (l : list sval) (skey : N) : nat :=
  sort_search (length l) (fun i => skey <=? key_at l i).

(* binarySearchValues: index (>= 0) or not found (-1 / -2; callers only test i >= 0) *)
Definition bsv (l : list sval) (skey : N) : option nat :=
  let x := lower_bound l skey in
  if (x =? length l)%nat then None
  else if skey <? key_at l x then None
  else Some x.

Definition set_nth {A} (i : nat) (x : A) (l : list A) : list A := firstn i l ++ x :: skipn (S i) l.
Definition insert_at {A} (i : nat) (x : A) (l : list A) : list A := firstn i l ++ x :: skipn i l.

(* findOverflowEntry *)
Definition find_overflow (l : list sval) (skey : N) : option (nat * sval) :=
  let c := lower_bound l skey in
  if negb (c =? length l)%nat && (key_at l c =? skey) then Some (c, nth c l dummy) else None.

(* setOverflowEntry (repaired: the Extra array is written in both branches) *)
Definition set_overflow (l : list sval) (skey off : N) (size : Z) : list sval :=
  let v := mk_sval skey off size in
  let c := lower_bound l skey in
  if negb (c =? length l)%nat && (key_at l c =? skey) then set_nth c v l
  else insert_at c v l.            (* append, shift [c..) one to the right, store at c *)

(* deleteOverflowEntry *)
Definition delete_overflow (l : list sval) (skey : N) : list sval :=
  let c := lower_bound l skey in
  if negb (c =? length l)%nat && (key_at l c =? skey) then
    let o := nth c l dummy in
    if size_is_valid (ssz o) then set_nth c (sv_set_size o (- ssz o)%Z) l else l
  else l.

(* the look-back loop of Set: the new element is stored after the window
   values[lookBackIndex..counter) and swapped down while its left neighbour has a larger Key;
   [rw] is that window reversed (nearest neighbour first) *)
Fixpoint ins_back (rw : list sval) (v : sval) : list sval :=
  match rw with
  | [] => [v]                                  (* x < lookBackIndex: loop ends *)
  | x :: r => if sk v <? sk x then x :: ins_back r v   (* values[x].Key > values[x+1].Key: swap *)
              else v :: rw                     (* break *)
  end.

(* CompactSection.Set: (section, oldOffset, oldSize) *)
Definition sec_set (batch : N) (s : section) (key off : N) (size : Z) : section * N * Z :=
  let end' := if s_end s <? key then key else s_end s in
  let skey := u32 (sub64 key (s_start s)) in
  let vals := s_values s in
  let v := mk_sval skey off size in
  match bsv vals skey with
  | Some i =>
      let o := nth i vals dummy in
      ({| s_start := s_start s; s_end := end'; s_values := set_nth i v vals; s_overflow := s_overflow s |},
       sv_off o, ssz o)
  | None =>
      let cnt := length vals in
      let need := (batch <=? N.of_nat cnt) || ((0 <? cnt)%nat && (skey <? key_at vals (cnt - 1))) in
      if need then
        let lb := (cnt - lookback)%nat in
        if (N.of_nat cnt <? batch) && (key_at vals lb <? skey) then
          (* still has capacity and only partially out of order *)
          ({| s_start := s_start s; s_end := end';
              s_values := firstn lb vals ++ rev (ins_back (rev (skipn lb vals)) v);
              s_overflow := s_overflow s |}, 0, 0%Z)
        else
          let '(oo, os) := match find_overflow (s_overflow s) skey with
                           | Some (_, o) => (sv_off o, ssz o)
                           | None => (0, 0%Z)
                           end in
          ({| s_start := s_start s; s_end := end'; s_values := vals;
              s_overflow := set_overflow (s_overflow s) skey off size |}, oo, os)
      else
        ({| s_start := s_start s; s_end := end'; s_values := vals ++ [v]; s_overflow := s_overflow s |},
         0, 0%Z)
  end.

(* CompactSection.Delete: (section, returned size) *)
Definition sec_delete (s : section) (key : N) : section * Z :=
  let skey := u32 (sub64 key (s_start s)) in
  let vals := s_values s in
  let '(vals', ret) :=
    match bsv vals skey with
    | Some i =>
        let o := nth i vals dummy in
        if (0 <? ssz o)%Z && size_is_valid (ssz o)
        then (set_nth i (sv_set_size o (- ssz o)%Z) vals, ssz o)
        else (vals, 0%Z)
    | None => (vals, 0%Z)
    end in
  match find_overflow (s_overflow s) skey with
  | Some (_, o) =>
      ({| s_start := s_start s; s_end := s_end s; s_values := vals';
          s_overflow := delete_overflow (s_overflow s) skey |},
       if size_is_valid (ssz o) then ssz o else ret)      (* repaired: if v.Size.IsValid() { ret = v.Size } *)
  | None =>
      ({| s_start := s_start s; s_end := s_end s; s_values := vals'; s_overflow := s_overflow s |}, ret)
  end.

(* NeedleValue {Key, Offset, Size} *)
Definition nval := (N * N * Z)%type.
(* toNeedleValue *)
Definition to_nv (s : section) (v : sval) : nval := (add64 (sk v) (s_start s), sv_off v, ssz v).

(* CompactSection.Get *)
Definition sec_get (s : section) (key : N) : option nval :=
  let skey := u32 (sub64 key (s_start s)) in
  match find_overflow (s_overflow s) skey with
  | Some (_, o) => Some (to_nv s o)
  | None =>
      match bsv (s_values s) skey with
      | Some i => Some (to_nv s (nth i (s_values s) dummy))
      | None => None
      end
  end.

(* ---------- CompactMap ---------- *)
Definition cmap := list section.
Definition empty_section : section := {| s_start := 0; s_end := 0; s_values := []; s_overflow := [] |}.
Definition sec_at (cm : cmap) (i : Z) : section := nth (Z.to_nat i) cm empty_section.

(* binarySearchCompactSection: index, or a negative code (-5 empty, -4 beyond a full last
   section, -3 below every section) *)
Fixpoint bscs_loop (fuel : nat) (cm : cmap) (key : N) (l h : Z) : Z :=
  match fuel with
  | O => (-3)%Z
  | S f =>
      if (l <=? h)%Z then
        let m := ((l + h) / 2)%Z in
        if key <? s_start (sec_at cm m) then bscs_loop f cm key l (m - 1)%Z
        else if s_start (sec_at cm (m + 1)%Z) <=? key then bscs_loop f cm key (m + 1)%Z h
        else m
      else (-3)%Z
  end.
Definition bscs (batch : N) (cm : cmap) (key : N) : Z :=
  let h := (Z.of_nat (length cm) - 1)%Z in
  if (h <? 0)%Z then (-5)%Z
  else if s_start (sec_at cm h) <=? key then
    if (counter (sec_at cm h) <? batch) || (key <=? s_end (sec_at cm h)) then h else (-4)%Z
  else bscs_loop (length cm) cm key 0%Z h.

(* the test shared (after repair (i)) by Set, Get and Delete: the section that can hold [key] *)
Definition locate (batch : N) (cm : cmap) (key : N) : option nat :=
  let x := bscs batch cm key in
  if (x <? 0)%Z || (sec_lim <? sub64 key (s_start (sec_at cm x))) then None else Some (Z.to_nat x).

(* NewCompactSection(start) *)
Definition new_section (start : N) : section :=
  {| s_start := start; s_end := 0; s_values := []; s_overflow := [] |}.

(* "keep compact section sorted by start": the new section is appended and shifted down past
   every trailing section whose start is greater than key; [rl] is the list reversed *)
Fixpoint shift_count (rl : list section) (key : N) : nat :=
  match rl with
  | s :: r => if key <? s_start s then S (shift_count r key) else O
  | [] => O
  end.

(* CompactMap.Set: (map, oldOffset, oldSize) *)
Definition cm_set (batch : N) (cm : cmap) (key off : N) (size : Z) : cmap * N * Z :=
  let '(cm1, x) :=
    match locate batch cm key with
    | Some x => (cm, x)
    | None => let x := (length cm - shift_count (rev cm) key)%nat in
              (insert_at x (new_section key) cm, x)
    end in
  let '(s', oo, os) := sec_set batch (nth x cm1 empty_section) key off size in
  (set_nth x s' cm1, oo, os).

(* CompactMap.Delete *)
Definition cm_delete (batch : N) (cm : cmap) (key : N) : cmap * Z :=
  match locate batch cm key with
  | None => (cm, 0%Z)
  | Some x => let '(s', ret) := sec_delete (nth x cm empty_section) key in (set_nth x s' cm, ret)
  end.

(* CompactMap.Get *)
Definition cm_get (batch : N) (cm : cmap) (key : N) : option nval :=
  match locate batch cm key with
  | None => None
  | Some x => sec_get (nth x cm empty_section) key
  end.

(* ---------- operation histories on a bare CompactMap ---------- *)
Inductive op :=
| Put (k off : N) (sz : Z)     (* Set / NeedleMapper.Put *)
| Del (k off : N)              (* Delete; [off] is the offset recorded in the .idx tombstone *)
| Get (k : N).
Inductive res :=
| RSet (oldoff : N) (oldsz : Z)
| RDel (sz : Z)
| RGet (v : option nval).

Definition cm_step (batch : N) (cm : cmap) (o : op) : cmap * res :=
  match o with
  | Put k off sz => let '(cm', oo, os) := cm_set batch cm k off sz in (cm', RSet oo os)
  | Del k _ => let '(cm', r) := cm_delete batch cm k in (cm', RDel r)
  | Get k => (cm, RGet (cm_get batch cm k))
  end.
Fixpoint cm_run (batch : N) (cm : cmap) (ops : list op) : list res * cmap :=
  match ops with
  | [] => ([], cm)
  | o :: ops' => let '(cm', r) := cm_step batch cm o in
                 let '(rs, fin) := cm_run batch cm' ops' in (r :: rs, fin)
  end.

(* ---------- the reference: a plain association list key -> (offset, size) ---------- *)
Definition rmap := list (N * (N * Z)).
Fixpoint ref_get (r : rmap) (k : N) : option (N * Z) :=
  match r with
  | [] => None
  | (k', v) :: r' => if k =? k' then Some v else ref_get r' k
  end.
Definition ref_remove (r : rmap) (k : N) : rmap := filter (fun kv => negb (fst kv =? k)) r.
Definition ref_put (r : rmap) (k : N) (v : N * Z) : rmap := (k, v) :: ref_remove r k.

Definition ref_step (r : rmap) (o : op) : rmap * res :=
  match o with
  | Put k off sz =>
      let '(oo, os) := match ref_get r k with Some v => v | None => (0, 0%Z) end in
      (ref_put r k (off, sz), RSet oo os)
  | Del k _ =>
      match ref_get r k with
      | Some (off, sz) => if (0 <? sz)%Z then (ref_put r k (off, (- sz)%Z), RDel sz) else (r, RDel 0%Z)
      | None => (r, RDel 0%Z)
      end
  | Get k => (r, RGet (match ref_get r k with Some (off, sz) => Some (k, off, sz) | None => None end))
  end.
Fixpoint ref_run (r : rmap) (ops : list op) : list res * rmap :=
  match ops with
  | [] => ([], r)
  | o :: ops' => let '(r', x) := ref_step r o in
                 let '(rs, fin) := ref_run r' ops' in (x :: rs, fin)
  end.

(* ---------- mapMetric ---------- *)
Record metric := { m_del : N; m_file : N; m_delb : N; m_fileb : N; m_max : N }.
Definition metric0 : metric := {| m_del := 0; m_file := 0; m_delb := 0; m_fileb := 0; m_max := 0 |}.
(* MaybeSetMaxFileKey *)
Definition maybe_max (m : metric) (k : N) : metric :=
  if m_max m <? k then {| m_del := m_del m; m_file := m_file m; m_delb := m_delb m; m_fileb := m_fileb m; m_max := k |} else m.
(* FileCounter++ (uint32), FileByteCounter += uint64(size) *)
Definition add_file (m : metric) (sz : Z) : metric :=
  {| m_del := m_del m; m_file := (m_file m + 1) mod two32; m_delb := m_delb m;
     m_fileb := add64 (m_fileb m) (u64_of_size sz); m_max := m_max m |}.
Definition add_fileb (m : metric) (sz : Z) : metric :=
  {| m_del := m_del m; m_file := m_file m; m_delb := m_delb m;
     m_fileb := add64 (m_fileb m) (u64_of_size sz); m_max := m_max m |}.
Definition incr_file (m : metric) : metric :=
  {| m_del := m_del m; m_file := (m_file m + 1) mod two32; m_delb := m_delb m; m_fileb := m_fileb m; m_max := m_max m |}.
(* DeletionCounter++ (uint32), DeletionByteCounter += uint64(size) *)
Definition add_del (m : metric) (sz : Z) : metric :=
  {| m_del := (m_del m + 1) mod two32; m_file := m_file m; m_delb := add64 (m_delb m) (u64_of_size sz);
     m_fileb := m_fileb m; m_max := m_max m |}.
Definition incr_del (m : metric) : metric :=
  {| m_del := (m_del m + 1) mod two32; m_file := m_file m; m_delb := m_delb m; m_fileb := m_fileb m; m_max := m_max m |}.
Definition add_delb (m : metric) (sz : Z) : metric :=
  {| m_del := m_del m; m_file := m_file m; m_delb := add64 (m_delb m) (u64_of_size sz);
     m_fileb := m_fileb m; m_max := m_max m |}.
(* LogDeletionCounter *)
Definition log_deletion (m : metric) (old : Z) : metric := if (0 <? old)%Z then add_del m old else m.
(* logPut *)
Definition log_put (m : metric) (key : N) (old new : Z) : metric :=
  let m1 := add_file (maybe_max m key) new in
  if (0 <? old)%Z && size_is_valid old then log_deletion m1 old else m1.
(* logDelete *)
Definition log_delete (m : metric) (deleted : Z) : metric := log_deletion m deleted.

Definition metric_eqb (a b : metric) : bool :=
  (m_del a =? m_del b) && (m_file a =? m_file b) && (m_delb a =? m_delb b) &&
  (m_fileb a =? m_fileb b) && (m_max a =? m_max b).

(* the counters a needle map should show after a history, computed from the reference map:
   every Put is a file; overwriting or deleting a live entry is a deletion of its size *)
Definition ref_metric_step (st : rmap * metric) (o : op) : rmap * metric :=
  let '(r, m) := st in
  let m' := match o with
            | Put k _ sz =>
                let m1 := add_file (maybe_max m k) sz in
                match ref_get r k with Some (_, os) => if (0 <? os)%Z then add_del m1 os else m1 | None => m1 end
            | Del k _ =>
                match ref_get r k with Some (_, os) => if (0 <? os)%Z then add_del m os else m | None => m end
            | Get _ => m
            end in
  (fst (ref_step r o), m').
Definition ref_metric (ops : list op) : metric := snd (fold_left ref_metric_step ops ([], metric0)).

(* ---------- NeedleMap (in memory, over a CompactMap) ---------- *)
Record nm := { nm_map : cmap; nm_met : metric; nm_idx : list N }.
Definition nm0 : nm := {| nm_map := []; nm_met := metric0; nm_idx := [] |}.
Definition mk_entry (k off : N) (sz : Z) : entry := {| e_key := k; e_off := off; e_size := sz |}.

Definition nm_put (osz batch : N) (s : nm) (k off : N) (sz : Z) : nm :=
  let '(cm', _, os) := cm_set batch (nm_map s) k off sz in
  {| nm_map := cm'; nm_met := log_put (nm_met s) k os sz;
     nm_idx := nm_idx s ++ enc_entry osz (mk_entry k off sz) |}.     (* appendToIndexFile *)
Definition nm_delete (osz batch : N) (s : nm) (k off : N) : nm :=
  let '(cm', ret) := cm_delete batch (nm_map s) k in
  {| nm_map := cm'; nm_met := log_delete (nm_met s) ret;
     nm_idx := nm_idx s ++ enc_entry osz (mk_entry k off tombstone) |}.
Definition nm_get (batch : N) (s : nm) (k : N) : option nval := cm_get batch (nm_map s) k.

Definition nm_step (osz batch : N) (s : nm) (o : op) : nm * option (option nval) :=
  match o with
  | Put k off sz => (nm_put osz batch s k off sz, None)
  | Del k off => (nm_delete osz batch s k off, None)
  | Get k => (s, Some (nm_get batch s k))
  end.
Fixpoint nm_run (osz batch : N) (s : nm) (ops : list op) : list (option (option nval)) * nm :=
  match ops with
  | [] => ([], s)
  | o :: ops' => let '(s', r) := nm_step osz batch s o in
                 let '(rs, fin) := nm_run osz batch s' ops' in (r :: rs, fin)
  end.

(* doLoading: replay of the .idx into a fresh NeedleMap *)
Definition load_step (batch : N) (st : cmap * metric) (e : entry) : cmap * metric :=
  let '(cm, m) := st in
  let m0 := maybe_max m (e_key e) in
  if negb (e_off e =? 0) && size_is_valid (e_size e) then
    let m1 := add_file m0 (e_size e) in
    let '(cm', oo, os) := cm_set batch cm (e_key e) (e_off e) (e_size e) in
    (cm', if negb (oo =? 0) && size_is_valid os then add_del m1 os else m1)
  else
    let '(cm', os) := cm_delete batch cm (e_key e) in
    (cm', add_del m0 os).                (* DeletionCounter++ unconditionally; += uint64(oldSize) *)
Definition do_loading (osz batch : N) (idx : list N) : nm :=
  let '(cm, m) := fold_left (load_step batch) (walk osz idx) ([], metric0) in
  {| nm_map := cm; nm_met := m; nm_idx := idx |}.

(* ---------- newNeedleMapMetricFromIndexFile (LevelDB and sorted-file kinds) ---------- *)
(* reverse walk; the bloom filter is modelled as an exact set of the keys seen so far *)
Definition mfi_step (st : metric * list N) (e : entry) : metric * list N :=
  let '(m, seen) := st in
  let m0 := maybe_max m (e_key e) in
  let m1 := if size_is_valid (e_size e) then add_fileb m0 (e_size e) else m0 in
  if negb (existsb (N.eqb (e_key e)) seen) then (incr_file m1, e_key e :: seen)
  else (let m2 := incr_del m1 in if size_is_valid (e_size e) then add_delb m2 (e_size e) else m2, seen).
Definition metric_from_index (osz : N) (idx : list N) : metric :=
  fst (fold_left mfi_step (rev (walk osz idx)) (metric0, [])).

(* The same walk with the bloom filter as an ORACLE: [ans] are the answers bf.Test gave, one
   per entry in walk order (last entry first).  willf/bloom with p = 0.001 can answer "seen"
   for a key that was never added (false positive), never the converse. *)
Definition mfi_metric_step (seen : bool) (m : metric) (e : entry) : metric :=
  let m0 := maybe_max m (e_key e) in
  let m1 := if size_is_valid (e_size e) then add_fileb m0 (e_size e) else m0 in
  if negb seen then incr_file m1
  else (let m2 := incr_del m1 in if size_is_valid (e_size e) then add_delb m2 (e_size e) else m2).
Fixpoint mfi_oracle (m : metric) (es : list entry) (ans : list bool) : metric :=
  match es, ans with
  | e :: r, a :: ans' => mfi_oracle (mfi_metric_step a m e) r ans'
  | _, _ => m
  end.
Definition metric_from_index_o (osz : N) (idx : list N) (ans : list bool) : metric :=
  mfi_oracle metric0 (rev (walk osz idx)) ans.
(* the answers an exact set would give *)
Fixpoint exact_answers (seen : list N) (es : list entry) : list bool :=
  match es with
  | [] => []
  | e :: r => let a := existsb (N.eqb (e_key e)) seen in
              a :: exact_answers (if a then seen else e_key e :: seen) r
  end.
Fixpoint bool_list_eqb (a b : list bool) : bool :=
  match a, b with
  | [], [] => true
  | x :: a', y :: b' => Bool.eqb x y && bool_list_eqb a' b'
  | _, _ => false
  end.
(* known finding 2: some bloom answer is a false positive *)
Definition trig_bloom_fp (osz : N) (idx : list N) (ans : list bool) : bool :=
  negb (bool_list_eqb ans (exact_answers [] (rev (walk osz idx)))).

(* ---------- LevelDbNeedleMap ---------- *)
Record ldb := { l_db : omap; l_met : metric; l_idx : list N }.
Definition ldb0 : ldb := {| l_db := []; l_met := metric0; l_idx := [] |}.
Definition ldb_get (s : ldb) (k : N) : option nval :=
  match om_get (l_db s) k with Some (off, sz) => Some (k, off, sz) | None => None end.
Definition ldb_put (osz : N) (s : ldb) (k off : N) (sz : Z) : ldb :=
  let old := match om_get (l_db s) k with Some (_, os) => os | None => 0%Z end in
  {| l_db := om_put (l_db s) k (off, sz); l_met := log_put (l_met s) k old sz;
     l_idx := l_idx s ++ enc_entry osz (mk_entry k off sz) |}.
Definition ldb_delete (osz : N) (s : ldb) (k off : N) : ldb :=
  match om_get (l_db s) k with
  | None => s
  | Some (oo, os) =>
      if size_is_deleted os then s
      else {| l_db := om_put (l_db s) k (oo, (- os)%Z); l_met := log_delete (l_met s) os;
              l_idx := l_idx s ++ enc_entry osz (mk_entry k off tombstone) |}
  end.
Definition ldb_step (osz : N) (s : ldb) (o : op) : ldb * option (option nval) :=
  match o with
  | Put k off sz => (ldb_put osz s k off sz, None)
  | Del k off => (ldb_delete osz s k off, None)
  | Get k => (s, Some (ldb_get s k))
  end.
Fixpoint ldb_run (osz : N) (s : ldb) (ops : list op) : list (option (option nval)) * ldb :=
  match ops with
  | [] => ([], s)
  | o :: ops' => let '(s', r) := ldb_step osz s o in
                 let '(rs, fin) := ldb_run osz s' ops' in (r :: rs, fin)
  end.
(* generateLevelDbFile + newNeedleMapMetricFromIndexFile: reopening from the .idx alone *)
Definition gen_step (m : omap) (e : entry) : omap :=
  if negb (e_off e =? 0) && size_is_valid (e_size e) then om_put m (e_key e) (e_off e, e_size e)
  else om_del m (e_key e).
Definition ldb_load (osz : N) (idx : list N) : ldb :=
  {| l_db := fold_left gen_step (walk osz idx) []; l_met := metric_from_index osz idx; l_idx := idx |}.

(* ---------- SortedFileNeedleMap (read side) ---------- *)
Definition sf_get (osz : N) (sdx : list N) (k : N) : option nval :=
  match sorted_get osz sdx k with Some (off, sz) => Some (k, off, sz) | None => None end.

(* ---------- the volume's discipline and the triggers of the reload findings ---------- *)
(* what Volume.doWriteRequest / doDeleteRequest issue: Put with a nonzero offset and a size >= 0,
   Delete only of a key whose current size is valid (> 0) *)
Fixpoint disciplined_from (r : rmap) (ops : list op) : bool :=
  match ops with
  | [] => true
  | o :: ops' =>
      (match o with
       | Put _ off sz => negb (off =? 0) && (0 <=? sz)%Z
       | Del k _ => match ref_get r k with Some (_, sz) => (0 <? sz)%Z | None => false end
       | Get _ => true
       end) && disciplined_from (fst (ref_step r o)) ops'
  end.
Definition disciplined (ops : list op) : bool := disciplined_from [] ops.
(* value ranges of the Go types: NeedleId uint64, Offset osz bytes, Size int32 *)
Definition op_in_range (osz : N) (o : op) : bool :=
  match o with
  | Put k off sz => (k <? two64) && (off <? 256 ^ osz) && (-2147483648 <=? sz)%Z && (sz <? 2147483648)%Z
  | Del k off => (k <? two64) && (off <? 256 ^ osz)
  | Get k => k <? two64
  end.
(* known finding 0: a Put of size 0 (an empty blob) *)
Definition trig_empty_put (ops : list op) : bool :=
  existsb (fun o => match o with Put _ _ sz => (sz =? 0)%Z | _ => false end) ops.
(* known finding 1: some key is Put more than once *)
Fixpoint trig_rewrite_from (seen : list N) (ops : list op) : bool :=
  match ops with
  | [] => false
  | Put k _ _ :: ops' => existsb (N.eqb k) seen || trig_rewrite_from (k :: seen) ops'
  | _ :: ops' => trig_rewrite_from seen ops'
  end.
Definition trig_rewrite (ops : list op) : bool := trig_rewrite_from [] ops.

(* the view of a lookup that "reads as deleted": absent or negative size *)
Definition live_view (v : option nval) : option nval :=
  match v with
  | Some (k, off, sz) => if (sz <? 0)%Z then None else Some (k, off, sz)
  | None => None
  end.

(* ---------- CompactMap.AscendingVisit ---------- *)
(* the merge of overflow and values[0..counter) of one section: the smaller Key first; a value
   whose Key equals the current overflow Key is skipped (the overflow entry is visited later) *)
Fixpoint merge_visit (s : section) (ov : list sval) : list sval -> list nval :=
  fix go (vs : list sval) : list nval :=
    match ov, vs with
    | [], _ => map (to_nv s) vs                 (* for ; j < counter; j++ *)
    | _, [] => map (to_nv s) ov                 (* for ; i < len(overflow); i++ *)
    | o :: ov', v :: vs' =>
        if sk o <? sk v then to_nv s o :: merge_visit s ov' vs
        else if sk o =? sk v then go vs'
        else to_nv s v :: go vs'
    end.
Definition asc_visit (cm : cmap) : list nval :=
  flat_map (fun s => merge_visit s (s_overflow s) (s_values s)) cm.

(* ---------- reopening a LevelDB map whose db directory is newer than the .idx ---------- *)
(* isLevelDbFresh = true: the db is kept as it is (deleted keys keep their negated size), only
   the counters are recomputed from the .idx *)
Definition ldb_reopen_fresh (osz : N) (s : ldb) : ldb :=
  {| l_db := l_db s; l_met := metric_from_index osz (l_idx s); l_idx := l_idx s |}.

(* ---------- the counters newNeedleMapMetricFromIndexFile recomputes, in closed form ---------- *)
(* of a history: the number of Puts / Deletes, and of Puts of a key not Put before *)
Definition n_puts (ops : list op) : N :=
  N.of_nat (length (filter (fun o => match o with Put _ _ _ => true | _ => false end) ops)).
Definition n_dels (ops : list op) : N :=
  N.of_nat (length (filter (fun o => match o with Del _ _ => true | _ => false end) ops)).
Fixpoint n_first_puts_from (seen : list N) (ops : list op) : N :=
  match ops with
  | [] => 0
  | Put k _ _ :: ops' =>
      (if existsb (N.eqb k) seen then 0 else 1) + n_first_puts_from (k :: seen) ops'
  | _ :: ops' => n_first_puts_from seen ops'
  end.
Definition n_first_puts (ops : list op) : N := n_first_puts_from [] ops.
(* FileCounter = distinct keys, DeletionCounter = entries - distinct keys; the byte totals and
   the maximum key are the running ones *)
Definition reload_metric (ops : list op) (running : metric) : metric :=
  {| m_del := (n_puts ops + n_dels ops - n_first_puts ops) mod two32;
     m_file := n_first_puts ops mod two32;
     m_delb := m_delb running; m_fileb := m_fileb running; m_max := m_max running |}.

(* ---------- compact descriptions of long inputs (check/C05.v: the full-section case and
   the long index files); proof/NeedleMapFill.v proves them equal to the plain runs ---------- *)
Definition fill_size (i : N) : Z := (100 + Z.of_N (i mod 50))%Z.
(* n Puts of the ascending keys base, base+step, ...: offset i+1, size fill_size i *)
Fixpoint fill_ops_from (i : N) (n : nat) (base step : N) : list op :=
  match n with
  | O => []
  | S n' => Put (base + i * step) (i + 1) (fill_size i) :: fill_ops_from (i + 1) n' base step
  end.
Definition fill_ops (base step n : N) : list op := fill_ops_from 0 (N.to_nat n) base step.
Fixpoint fill_vals_from (i : N) (n : nat) (step : N) : list sval :=
  match n with
  | O => []
  | S n' => mk_sval (i * step) (i + 1) (fill_size i) :: fill_vals_from (i + 1) n' step
  end.
(* the CompactMap after fill_ops (one section, nothing in the overflow list) *)
Definition fill_cm (base step n : N) : cmap :=
  if n =? 0 then []
  else [ {| s_start := base; s_end := base + (n - 1) * step;
            s_values := fill_vals_from 0 (N.to_nat n) step; s_overflow := [] |} ].
(* n index entries with DESCENDING keys base+n*step, ..., base+step: offset i+1, size fill_size i *)
Fixpoint fill_entries_from (i : N) (n : nat) (base step : N) : list entry :=
  match n with
  | O => []
  | S n' => mk_entry (base + N.of_nat n * step) (i + 1) (fill_size i) :: fill_entries_from (i + 1) n' base step
  end.
Definition fill_entries (base step n : N) : list entry := fill_entries_from 0 (N.to_nat n) base step.

(* the readers of an index file, on its entry list (= on [encode osz es], proof/NeedleMapFill.v) *)
Definition ldb_load_entries (es : list entry) : omap := fold_left gen_step es [].
Definition sorted_entries (es : list entry) : list entry := map entry_of_kv (fold_left rnm_step es []).
Definition metric_entries_o (es : list entry) (ans : list bool) : metric := mfi_oracle metric0 (rev es) ans.

(* ---------- the reference map after fill_ops (proof/NeedleMapFill.v: [ref_run_fill]) ---------- *)
Fixpoint fill_ref_from (i : N) (n : nat) (base step : N) (acc : rmap) : rmap :=
  match n with
  | O => acc
  | S n' => fill_ref_from (i + 1) n' base step ((base + i * step, (i + 1, fill_size i)) :: acc)
  end.
Definition fill_ref (base step n : N) : rmap := fill_ref_from 0 (N.to_nat n) base step [].
(* the side conditions of the closed forms, decidable: room in the section, keys within its
   32-bit span and below 2^64 *)
Definition fill_ok (batch base step n : N) : bool :=
  (0 <? step) && (n <=? batch) && (n * step <=? sec_lim + step) && (base + n * step <? two64 + step).

(* a long index file: explicit head entries, a descending run, explicit tail entries *)
Definition long_entries (head : list entry) (base step n : N) (tail : list entry) : list entry :=
  head ++ fill_entries base step n ++ tail.
(* what an index replay should serve for key k: its LAST entry, if that is a live one *)
Fixpoint last_entry (k : N) (es : list entry) (acc : option entry) : option entry :=
  match es with
  | [] => acc
  | e :: r => last_entry k r (if e_key e =? k then Some e else acc)
  end.
Definition replay_lookup (es : list entry) (k : N) : option nval :=
  match last_entry k es None with
  | Some e => if negb (e_off e =? 0) && size_is_valid (e_size e) then Some (k, e_off e, e_size e) else None
  | None => None
  end.
