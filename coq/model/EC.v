(* Model of weed/storage/erasure_coding (C06): encoder layout (ec_encoder.go),
   locator (ec_locate.go), decoder WriteDatFile (ec_decoder.go), shard rebuild
   (rebuildEcFiles) over a Reed-Solomon oracle.
   Executable definitions only; proofs are in proof/ECProofs.v.

   The model follows the REPAIRED tree (pre-authorised repair of C06):
     ec_locate.go   nLargeBlockRows := (datSize-1) / (largeBlockLength*DataShardsCount)   (both places)
     ec_decoder.go  for datFileSize >  DataShardsCount*ErasureCodingLargeBlockSize
   Integers are Go int64, modelled unbounded (sizes < 2^63; types.Size is int32:
   needle sizes and block lengths < 2^31).  Go `/` and `%` are Z.quot / Z.rem.
   Loops are structural recursions on explicit fuel; the fuel given by the
   top-level functions is proved sufficient in proof/ECProofs.v. *)
From Coq Require Import List ZArith NArith Bool.
Import ListNotations.
Local Open Scope Z_scope.

Definition byte := N.

(* DataShardsCount = 10, ParityShardsCount = 4, TotalShardsCount = 14 are written
   as literals below, with the Go identifier in a comment. *)

(* ---------- lists indexed by Z ---------- *)
Definition zlen {A} (l : list A) : Z := Z.of_nat (length l).
Definition znth {A} (l : list A) (p : Z) (d : A) : A := nth (Z.to_nat p) l d.
Fixpoint zcount (a : Z) (n : nat) : list Z :=
  match n with O => [] | S n' => a :: zcount (a + 1) n' end.
(* [a, a+n) *)
Definition zrange (a n : Z) : list Z := zcount a (Z.to_nat n).

(* a file = content function + size; bytes at positions >= size are never looked at *)
Definition dat_of_list (l : list byte) : Z -> byte := fun p => znth l p 0%N.

(* file.ReadAt(buffer of len bytes, pos) followed by zeroing the part beyond EOF
   (encodeDataOneBatch) *)
Definition read_zfill (dat : Z -> byte) (D pos len : Z) : list byte :=
  map (fun p => if p <? D then dat p else 0%N) (zrange pos len).

(* ---------- encodeDatFile: the rows ---------- *)
(* a row = (processedSize at its start, block size) *)
Definition row := (Z * Z)%type.

(* for remainingSize > 0 { encodeData(.., processedSize, smallBlockSize, ..); remainingSize -= small*10; processedSize += small*10 } *)
Fixpoint encode_rows_small (fuel : nat) (S remaining processed : Z) : list row :=
  match fuel with
  | O => []
  | Datatypes.S f =>
      if remaining >? 0
      then (processed, S) :: encode_rows_small f S (remaining - S * 10) (processed + S * 10)
      else []
  end.

(* for remainingSize > largeBlockSize*DataShardsCount { ... } then the small loop *)
Fixpoint encode_rows_large (fuel : nat) (L S remaining processed : Z) : list row :=
  match fuel with
  | O => []
  | Datatypes.S f =>
      if remaining >? L * 10
      then (processed, L) :: encode_rows_large f L S (remaining - L * 10) (processed + L * 10)
      else encode_rows_small (Z.to_nat remaining) S remaining processed
  end.

Definition encode_layout (L S D : Z) : list row :=
  encode_rows_large (Datatypes.S (Z.to_nat D)) L S D 0.

(* encodeData: batchCount = blockSize / bufferSize batches, batch b starts at
   startOffset + b*bufferSize (blockSize % bufferSize <> 0 is a glog.Fatalf: precondition) *)
Definition batch := (Z * Z)%type.   (* (batch start offset, block size of its row) *)
Definition row_batches (buf : Z) (r : row) : list batch :=
  let '(start, bs) := r in map (fun b => (start + b * buf, bs)) (zrange 0 (Z.quot bs buf)).
Definition all_batches (buf : Z) (rows : list row) : list batch := flat_map (row_batches buf) rows.

(* encodeDataOneBatch: buffers[i] <- ReadAt(startOffset + blockSize*i), zero filled *)
Definition data_buf (dat : Z -> byte) (D buf i : Z) (b : batch) : list byte :=
  let '(bstart, bs) := b in read_zfill dat D (bstart + bs * i) buf.

(* every shard file is the concatenation of its buffer of every batch, in order *)
Definition data_shard (dat : Z -> byte) (L S buf D i : Z) : list byte :=
  concat (map (data_buf dat D buf i) (all_batches buf (encode_layout L S D))).

Definition data_shards (dat : Z -> byte) (L S buf D : Z) : list (list byte) :=
  map (data_shard dat L S buf D) (zrange 0 10 (* DataShardsCount *)).

(* ---------- ec_locate.go ---------- *)
Record interval := mkI {
  i_block : Z;      (* BlockIndex *)
  i_inner : Z;      (* InnerBlockOffset *)
  i_size : Z;       (* Size *)
  i_large : bool;   (* IsLargeBlock *)
  i_rows : Z        (* LargeBlockRowsCount *)
}.

(* locateOffsetWithinBlocks *)
Definition locate_within (blockLength offset : Z) : Z * Z :=
  (Z.quot offset blockLength, Z.rem offset blockLength).

(* nLargeBlockRows (repaired formula, the same in LocateData and locateOffset) *)
Definition n_large_rows (L datSize : Z) : Z := Z.quot (datSize - 1) (L * 10).

(* locateOffset *)
Definition locate_offset (L S datSize offset : Z) : Z * bool * Z :=
  let largeRowSize := L * 10 in
  let n := n_large_rows L datSize in
  if offset <? n * largeRowSize then
    let '(b, inn) := locate_within L offset in (b, true, inn)
  else
    let '(b, inn) := locate_within S (offset - n * largeRowSize) in (b, false, inn).

(* the `for size > 0` loop of LocateData *)
Fixpoint locate_loop (fuel : nat) (L S n blockIndex : Z) (isLarge : bool) (inner size : Z) : list interval :=
  match fuel with
  | O => []
  | Datatypes.S f =>
      if size >? 0 then
        let blockRemaining := if isLarge then L - inner else S - inner in
        if size <=? blockRemaining then [mkI blockIndex inner size isLarge n]
        else
          mkI blockIndex inner blockRemaining isLarge n ::
          (let size' := size - blockRemaining in
           let blockIndex' := blockIndex + 1 in
           if isLarge && (blockIndex' =? n * 10)
           then locate_loop f L S n 0 false 0 size'
           else locate_loop f L S n blockIndex' isLarge 0 size')
      else []
  end.

Definition locate_data (L S datSize offset size : Z) : list interval :=
  let '(blockIndex, isLarge, inner) := locate_offset L S datSize offset in
  locate_loop (Z.to_nat size) L S (n_large_rows L datSize) blockIndex isLarge inner size.

(* Interval.ToShardIdAndOffset *)
Definition to_shard_offset (L S : Z) (iv : interval) : Z * Z :=
  let rowIndex := Z.quot (i_block iv) 10 in
  let ecFileOffset :=
    if i_large iv then i_inner iv + rowIndex * L
    else i_inner iv + (i_rows iv * L + rowIndex * S) in
  (Z.rem (i_block iv) 10, ecFileOffset).

(* shard.ReadAt(data of n bytes, off): an error (None) unless all n bytes exist *)
Definition read_exact (sh : list byte) (off n : Z) : option (list byte) :=
  if (0 <=? off) && (off + n <=? zlen sh)
  then Some (map (fun p => znth sh p 0%N) (zrange off n))
  else None.

(* readOneEcShardInterval (local shard) / readOneInterval *)
Definition read_interval (L S : Z) (shards : list (list byte)) (iv : interval) : option (list byte) :=
  let '(sid, off) := to_shard_offset L S iv in
  read_exact (znth shards sid []) off (i_size iv).

(* readEcShardIntervals: concatenate *)
Fixpoint read_intervals (L S : Z) (shards : list (list byte)) (ivs : list interval) : option (list byte) :=
  match ivs with
  | [] => Some []
  | iv :: r =>
      match read_interval L S shards iv with
      | None => None
      | Some a => match read_intervals L S shards r with
                  | None => None
                  | Some b => Some (a ++ b)
                  end
      end
  end.

(* the production read path: LocateEcShardNeedle feeds DataShardsCount*shardFileSize *)
Definition read_needle_prod (L S : Z) (shards : list (list byte)) (offset size : Z) : option (list byte) :=
  read_intervals L S shards (locate_data L S (10 * zlen (znth shards 0 [])) offset size).

(* ---------- ec_decoder.go: WriteDatFile ---------- *)
Record wstate := mkW {
  w_rem : Z;           (* datFileSize, counted down *)
  w_pos : Z -> Z;      (* read position of every input shard file *)
  w_out : list byte    (* bytes written to the .dat so far *)
}.

Definition upd (f : Z -> Z) (i v : Z) : Z -> Z := fun x => if x =? i then v else f x.

(* io.CopyN(datFile, inputFiles[shardId], n): error unless n bytes were copied *)
Definition copy_n (sh : list byte) (pos n : Z) : option (list byte) :=
  if pos + n <=? zlen sh
  then Some (map (fun p => znth sh p 0%N) (zrange pos n))
  else None.

(* one iteration of `for shardId := 0; shardId < DataShardsCount; shardId++`;
   n_of = how many bytes, from the current datFileSize *)
Definition wd_step (shards : list (list byte)) (n_of : Z -> Z) (st : option wstate) (shardId : Z) : option wstate :=
  match st with
  | None => None
  | Some s =>
      let n := n_of (w_rem s) in
      let pos := w_pos s shardId in
      match copy_n (znth shards shardId []) pos n with
      | None => None
      | Some bs => Some (mkW (w_rem s - n) (upd (w_pos s) shardId (pos + n)) (w_out s ++ bs))
      end
  end.

Definition wd_row (shards : list (list byte)) (n_of : Z -> Z) (st : option wstate) : option wstate :=
  fold_left (wd_step shards n_of) (zrange 0 10 (* DataShardsCount *)) st.

(* for datFileSize > DataShardsCount*ErasureCodingLargeBlockSize { copy a large block of every shard } *)
Fixpoint wd_large (fuel : nat) (L : Z) (shards : list (list byte)) (st : option wstate) : option wstate :=
  match fuel with
  | O => st
  | Datatypes.S f =>
      match st with
      | None => None
      | Some s => if w_rem s >? 10 * L
                  then wd_large f L shards (wd_row shards (fun _ => L) st)
                  else st
      end
  end.

(* for datFileSize > 0 { every shard: toRead := min(datFileSize, small) } *)
Fixpoint wd_small (fuel : nat) (S : Z) (shards : list (list byte)) (st : option wstate) : option wstate :=
  match fuel with
  | O => st
  | Datatypes.S f =>
      match st with
      | None => None
      | Some s => if w_rem s >? 0
                  then wd_small f S shards (wd_row shards (fun r => Z.min r S) st)
                  else st
      end
  end.

Definition write_dat (L S : Z) (shards : list (list byte)) (datSize : Z) : option (list byte) :=
  let st0 := Some (mkW datSize (fun _ => 0) []) in
  match wd_large (Z.to_nat datSize) L shards st0 with
  | None => None
  | Some s1 =>
      match wd_small (Z.to_nat (w_rem s1)) S shards (Some s1) with
      | None => None
      | Some s2 => Some (w_out s2)
      end
  end.

(* ---------- Reed-Solomon: parity shards and rebuild, over an oracle ---------- *)
(* column t of a family of buffers *)
Definition column (bufs : list (list byte)) (t : Z) : list byte := map (fun b => znth b t 0%N) bufs.
Definition ocolumn (bufs : list (option (list byte))) (t : Z) : list (option byte) :=
  map (option_map (fun b => znth b t 0%N)) bufs.

(* a shard set with the lost ones removed: present.(i) = false -> None *)
Fixpoint apply_mask {A} (present : list bool) (l : list A) : list (option A) :=
  match present, l with
  | p :: ps, x :: xs => (if p then Some x else None) :: apply_mask ps xs
  | _, _ => []
  end.

Definition count_lost (present : list bool) : Z := zlen (filter negb present).

(* ReadAt(buffer of B bytes, start): whatever is there, at most B *)
Definition slice (l : list byte) (start B : Z) : list byte :=
  firstn (Z.to_nat (Z.min B (zlen l - start))) (skipn (Z.to_nat start) l).

Inductive rstate := RsGo (ibds : Z) | RsReturn | RsErr.

(* the per-shard part of the read loop of rebuildEcFiles *)
Definition rb_read_step (B start : Z) (st : rstate) (sh : option (list byte)) : rstate :=
  match st with
  | RsGo ibds =>
      match sh with
      | None => RsGo ibds                       (* buffers[i] = nil *)
      | Some l =>
          let n := zlen (slice l start B) in
          if n =? 0 then RsReturn               (* return nil *)
          else
            let ibds' := if ibds =? 0 then n else ibds in
            if ibds' =? n then RsGo ibds' else RsErr   (* "ec shard size expected %d actual %d" *)
      end
  | _ => st
  end.

Fixpoint all_some {A} (l : list (option A)) : option (list A) :=
  match l with
  | [] => Some []
  | None :: _ => None
  | Some x :: r => match all_some r with Some r' => Some (x :: r') | None => None end
  end.

Section RS.
  (* rs_col: the 4 parity bytes of 10 data bytes (one byte column of Encode);
     rs_rec: Reconstruct on one byte column, 14 optional bytes -> 14 bytes.
     klauspost/reedsolomon works column by column; GF(2^8) is not modelled. *)
  Variable rs_col : list byte -> list byte.
  Variable rs_rec : list (option byte) -> option (list byte).

  (* enc.Encode(buffers) in encodeDataOneBatch: parity buffer m (0..3) of a batch *)
  Definition parity_buf (dat : Z -> byte) (D buf m : Z) (b : batch) : list byte :=
    let datab := map (fun i => data_buf dat D buf i b) (zrange 0 10) in
    map (fun t => znth (rs_col (column datab t)) m 0%N) (zrange 0 buf).

  Definition parity_shard (dat : Z -> byte) (L S buf D m : Z) : list byte :=
    concat (map (parity_buf dat D buf m) (all_batches buf (encode_layout L S D))).

  (* the 14 shard files written by generateEcFiles *)
  Definition all_shards (dat : Z -> byte) (L S buf D : Z) : list (list byte) :=
    data_shards dat L S buf D ++ map (parity_shard dat L S buf D) (zrange 0 4 (* ParityShardsCount *)).

  (* enc.Reconstruct(buffers) on the first n columns (the rest of the 1 MB buffers
     is stale and is not written out) *)
  Definition reconstruct (n : Z) (bufs : list (option (list byte))) : option (list (list byte)) :=
    match all_some (map (fun t => rs_rec (ocolumn bufs t)) (zrange 0 n)) with
    | None => None
    | Some cols => Some (map (fun i => map (fun c => znth c i 0%N) cols) (zrange 0 14 (* TotalShardsCount *)))
    end.

  (* rebuildEcFiles: B = ErasureCodingSmallBlockSize (buffer size, hard wired);
     shs = the shard files (None = missing, to be generated);
     outs = what has been written to the 14 files so far (present ones: untouched) *)
  Fixpoint rebuild_loop (fuel : nat) (B start ibds : Z) (shs : list (option (list byte)))
                        (outs : list (list byte)) : option (list (list byte)) :=
    match fuel with
    | O => None
    | Datatypes.S f =>
        match fold_left (rb_read_step B start) shs (RsGo ibds) with
        | RsReturn => Some outs
        | RsErr => None
        | RsGo ibds' =>
            let bufs := map (option_map (fun l => slice l start B)) shs in
            match reconstruct ibds' bufs with
            | None => None                       (* "reconstruct: %v" *)
            | Some full =>
                let outs' :=
                  map (fun i => match znth shs i None with
                                | Some _ => znth outs i []
                                | None => znth outs i [] ++ znth full i []   (* WriteAt(buffers[i][:n], startOffset) *)
                                end) (zrange 0 14) in
                rebuild_loop f B (start + ibds') ibds' shs outs'
            end
        end
    end.

  (* generateMissingEcFiles: missing files are created empty, present ones are read *)
  Definition rebuild (B : Z) (shs : list (option (list byte))) : option (list (list byte)) :=
    let len0 := fold_left (fun acc sh => match sh with Some l => Z.max acc (zlen l) | None => acc end) shs 0 in
    rebuild_loop (Datatypes.S (Datatypes.S (Z.to_nat (Z.quot len0 B)))) B 0 0 shs
      (map (fun sh => match sh with Some l => l | None => [] end) shs).
End RS.

(* ---------- closed form of one byte of a data shard file ---------- *)
(* byte o of .ec<i> (i < 10): inside the R large rows it is byte (o mod L) of block i of
   large row o/L, behind them byte ((o-R*L) mod S) of block i of small row (o-R*L)/S;
   positions beyond the end of the .dat were zero filled by encodeDataOneBatch.
   Proved equal to [znth (data_shard dat L S buf D i) o] in proof/ECSpecProofs.v
   (shard_byte_correct); the check uses it where the shard files are too big to be
   built as lists (production block sizes). *)
Definition shard_byte (dat : Z -> byte) (L S D i o : Z) : byte :=
  let R := n_large_rows L D in
  let p := if o <? R * L
           then Z.quot o L * (L * 10) + i * L + Z.rem o L
           else R * (L * 10) + Z.quot (o - R * L) S * (S * 10) + i * S + Z.rem (o - R * L) S in
  if p <? D then dat p else 0%N.

(* the shard file length generateEcFiles produces: R large blocks + s small blocks *)
Definition shard_len (L S D : Z) : Z :=
  if D <=? 0 then 0
  else let R := n_large_rows L D in
       R * L + ((D - R * (L * 10) + S * 10 - 1) / (S * 10)) * S.

(* a .dat content that is a closed-form function of the position (no sequential state),
   shared with the Go harness (mixByte) for volumes too big to be regenerated as a list *)
Definition mix_byte (seed p : Z) : byte :=
  let x := ((p + seed) * 1103515245 + 12345) mod 2147483648 in
  let y := (x * x / 256 + x + p / 4096) mod 2147483648 in
  Z.to_N ((y / 4096) mod 256).

(* ---------- content generator shared with the Go harness ---------- *)
(* x' = (x*1103515245 + 12345) mod 2^31 ; byte = (x' / 2^16) mod 256 *)
Fixpoint lcg_bytes (n : nat) (x : Z) : list byte :=
  match n with
  | O => []
  | Datatypes.S n' =>
      let x' := (x * 1103515245 + 12345) mod 2147483648 in
      Z.to_N ((x' / 65536) mod 256) :: lcg_bytes n' x'
  end.
