(* Model of the mount's write buffering (C30):
     weed/filesys/dirty_page_interval.go       ContinuousIntervals (in-memory interval lists)
     weed/filesys/dirty_pages_temp_interval.go WrittenContinuousIntervals (same algebra over temp-file extents)
     weed/filesys/dirty_pages_continuous.go    ContinuousDirtyPages (AddPage / FlushData / clamp)
     weed/filesys/dirty_pages_temp_file.go     TempFileDirtyPages
     weed/filesys/filehandle.go                FileHandle.Write / Read (chunk layer + dirty overlay, view cache)
     weed/filesys/file.go                      File.Setattr (truncate)
   Executable definitions only; proofs are in proof/DirtyPagesProofs.v.
   The model mirrors the Go control flow, including its defects. *)
From Coq Require Import List ZArith NArith Bool.
Import ListNotations.
Local Open Scope Z_scope.

Definition zlen {A} (l : list A) : Z := Z.of_nat (length l).
(* d[a:b] *)
Definition slice {A} (d : list A) (a b : Z) : list A := firstn (Z.to_nat (b - a)) (skipn (Z.to_nat a) d).

(* Go's copy(buf[pos:], src): overwrites, never grows buf *)
Fixpoint blit (buf : list N) (pos : nat) (src : list N) : list N :=
  match buf with
  | [] => []
  | b :: buf' =>
      match pos with
      | S p => b :: blit buf' p src
      | O => match src with [] => buf | s :: src' => s :: blit buf' O src' end
      end
  end.

(* ================= interval lists, generic in the node payload ================= *)
Section Intervals.
  Variable P : Type.              (* IntervalNode.Data ([]byte)  /  WrittenIntervalNode.TempOffset *)

  Record node := { n_off : Z; n_size : Z; n_pay : P }.

  Variable psub : P -> Z -> Z -> P.               (* payload of the sub-range [a,b) of a node (relative to its start) *)
  Variable merge_tail : node -> node -> option node. (* addNodeToTail's "already connected" case (temp file only) *)
  Variable fetch : P -> Z -> Z -> list N.         (* the bytes [a,b) of a payload *)

  Definition ilist := list node.   (* IntervalLinkedList: Head = first node, Tail = last node; never empty *)

  Definition head_off (l : ilist) : Z := match l with [] => 0 | t :: _ => n_off t end.   (* list.Head.Offset *)
  Fixpoint tail_end (l : ilist) : Z :=                                                    (* list.Tail.Offset + list.Tail.Size *)
    match l with
    | [] => 0
    | t :: l' => match l' with [] => n_off t + n_size t | _ => tail_end l' end
    end.
  Definition l_size (l : ilist) : Z := tail_end l - head_off l.                           (* list.Size() *)

  Fixpoint add_to_tail (l : ilist) (nd : node) : ilist :=                                 (* addNodeToTail *)
    match l with
    | [] => [nd]
    | t :: l' =>
        match l' with
        | [] => match merge_tail t nd with Some t' => [t'] | None => [t; nd] end
        | _ => t :: add_to_tail l' nd
        end
    end.

  Definition clip (start stop : Z) (t : node) : list node :=
    let ns := Z.max start (n_off t) in
    let ne := Z.min stop (n_off t + n_size t) in
    if ns <? ne then [ {| n_off := ns; n_size := ne - ns; n_pay := psub (n_pay t) (ns - n_off t) (ne - n_off t) |} ] else [].

  Definition sub_list (l : ilist) (start stop : Z) : ilist := flat_map (clip start stop) l.  (* subList *)

  Definition total_size (c : list ilist) : Z := fold_left (fun acc l => acc + l_size l) c 0.

  (* first list satisfying a test is updated *)
  Fixpoint upd_first (test : ilist -> bool) (f : ilist -> ilist) (c : list ilist) : list ilist :=
    match c with
    | [] => []
    | l :: c' => if test l then f l :: c' else l :: upd_first test f c'
    end.
  (* removeList: the LAST list whose test holds is removed (the loop has no break) *)
  Fixpoint remove_last (test : ilist -> bool) (c : list ilist) : list ilist :=
    match c with
    | [] => []
    | l :: c' => if test l && negb (existsb test c') then c' else l :: remove_last test c'
    end.

  Definition split_by (off e : Z) (l : ilist) : list ilist :=
    (if tail_end l <=? off then [l] else []) ++
    (if e <=? head_off l then [l] else []) ++
    (if (head_off l <? off) && (off <? tail_end l) then [sub_list l (head_off l) off] else []) ++
    (if (head_off l <? e) && (e <? tail_end l) then [sub_list l e (tail_end l)] else []).

  Definition add_general (c : list ilist) (iv : node) : list ilist :=
    let off := n_off iv in
    let e := n_off iv + n_size iv in
    let nl := flat_map (split_by off e) c in
    let is_next := fun l => head_off l =? e in
    let is_prev := fun l => head_off l + l_size l =? off in
    match find is_prev nl, find is_next nl with
    | Some _, Some nx =>
        (* list.addNodeToTail(interval); prevList.Tail.Next = nextList.Head; removeList(nextList) *)
        remove_last (fun l => head_off l =? head_off nx) (upd_first is_prev (fun l => add_to_tail l iv ++ nx) nl)
    | Some _, None => upd_first is_prev (fun l => add_to_tail l iv) nl
    | None, Some _ => upd_first is_next (fun l => iv :: l) nl          (* addNodeToHead *)
    | None, None => nl ++ [[iv]]
    end.

  Definition add_interval (c : list ilist) (iv : node) : list ilist :=
    match c with
    | [l] => if tail_end l =? n_off iv then [add_to_tail l iv] else add_general c iv
    | _ => add_general c iv
    end.

  (* RemoveLargestIntervalLinkedList: `maxSize <= list.Size()`, so the last of the largest wins *)
  Fixpoint largest_from (c : list ilist) (k : nat) (maxSize : Z) (maxIndex : option nat) : Z * option nat :=
    match c with
    | [] => (maxSize, maxIndex)
    | l :: c' => if maxSize <=? l_size l then largest_from c' (S k) (l_size l) (Some k)
                 else largest_from c' (S k) maxSize maxIndex
    end.
  Fixpoint remove_nth (k : nat) (c : list ilist) : list ilist :=
    match c, k with
    | [], _ => []
    | _ :: c', O => c'
    | l :: c', S k' => l :: remove_nth k' c'
    end.
  Definition remove_largest (c : list ilist) : option (ilist * list ilist) :=
    match largest_from c 0 0 None with
    | (maxSize, Some k) =>
        if maxSize <=? 0 then None
        else match nth_error c k with Some l => Some (l, remove_nth k c) | None => None end
    | (_, None) => None
    end.

  (* the bytes of the list inside [start,stop) (ToReader) *)
  Definition list_bytes (l : ilist) (start stop : Z) : list N :=
    flat_map (fun t =>
      let ns := Z.max start (n_off t) in
      let ne := Z.min stop (n_off t + n_size t) in
      if ns <? ne then fetch (n_pay t) (ns - n_off t) (ne - n_off t) else []) l.

  (* IntervalLinkedList.ReadData, writing into the caller's whole buffer (which starts at file offset so) *)
  Definition list_read (l : ilist) (buf : list N) (so start stop : Z) : list N :=
    fold_left (fun b t =>
      let ns := Z.max start (n_off t) in
      let ne := Z.min stop (n_off t + n_size t) in
      if ns <? ne then blit b (Z.to_nat (ns - so)) (fetch (n_pay t) (ns - n_off t) (ne - n_off t)) else b) l buf.

  (* ReadDataAt *)
  Definition read_data_at (c : list ilist) (buf : list N) (so : Z) : list N * Z :=
    fold_left (fun (acc : list N * Z) l =>
      let start := Z.max so (head_off l) in
      let stop := Z.min (so + zlen buf) (head_off l + l_size l) in
      if start <? stop then (list_read l (fst acc) so start stop, Z.max (snd acc) stop) else acc) c (buf, 0).

  Definition shape (c : list ilist) : list (list (Z * Z)) := map (map (fun t => (n_off t, n_size t))) c.
End Intervals.

Arguments n_off {P}. Arguments n_size {P}. Arguments n_pay {P}.

(* ---- the two instances ---- *)
Definition mnode := node (list N).     (* IntervalNode: Data *)
Definition m_psub (d : list N) (a b : Z) : list N := slice d a b.
Definition m_merge (_ _ : mnode) : option mnode := None.
Definition m_fetch (d : list N) (a b : Z) : list N := slice d a b.

Definition tnode := node Z.            (* WrittenIntervalNode: TempOffset *)
Definition t_psub (toff a _ : Z) : Z := toff + a.
Definition t_merge (t nd : tnode) : option tnode :=
  if n_pay t + n_size t =? n_pay nd
  then Some {| n_off := n_off t; n_size := n_size t + n_size nd; n_pay := n_pay t |} else None.
Definition t_fetch (tf : list N) (toff a b : Z) : list N := slice tf (toff + a) (toff + b).

Definition m_add := add_interval (list N) m_psub m_merge.
Definition t_add := add_interval Z t_psub t_merge.

(* ================= the file: attribute size, chunks, view cache ================= *)
Definition chunk := (Z * list N)%type.     (* (Offset, the first Size bytes of the stored blob); list order = Mtime order *)

Definition chunks_total (cs : list chunk) : Z :=            (* filer.TotalSize *)
  fold_left (fun acc c => Z.max acc (fst c + zlen (snd c))) cs 0.
Definition file_size (attr : Z) (cs : list chunk) : Z := Z.max (chunks_total cs) attr.   (* filer.FileSize *)

(* last-saved-wins overlay of the chunks over a zero file of length n *)
Definition resolve (n : Z) (cs : list chunk) : list N :=
  fold_left (fun buf c => blit buf (Z.to_nat (fst c)) (snd c)) cs (repeat 0%N (Z.to_nat n)).

(* File.Setattr with Valid.Size: chunks reaching beyond the new size are cut or dropped;
   chunks lying wholly inside the new size are kept (the else branch of the Go loop). *)
Definition truncate_chunks (n : Z) (cs : list chunk) : list chunk :=
  flat_map (fun c =>
    if fst c + zlen (snd c) >? n then
      let k := n - fst c in
      if k >? 0 then [(fst c, firstn (Z.to_nat k) (snd c))] else []
    else [c]) cs.

Record fmeta := { f_attr : Z;                      (* entry.Attributes.FileSize *)
                  f_chunks : list chunk;           (* entry.Chunks *)
                  f_pin : option (list chunk * Z)  (* fh.entryViewCache + fh.reader: chunk snapshot and the file size captured with it *)
                }.

Definition meta0 : fmeta := {| f_attr := 0; f_chunks := []; f_pin := None |}.

Definition set_attr (m : fmeta) (a : Z) : fmeta := {| f_attr := a; f_chunks := f_chunks m; f_pin := f_pin m |}.
Definition add_chunk (m : fmeta) (c : chunk) : fmeta := {| f_attr := f_attr m; f_chunks := f_chunks m ++ [c]; f_pin := f_pin m |}.

Definition truncate (m : fmeta) (n : Z) : fmeta :=
  {| f_attr := n;
     f_chunks := if n <? file_size (f_attr m) (f_chunks m) then truncate_chunks n (f_chunks m) else f_chunks m;
     f_pin := f_pin m |}.

(* ResolveChunkManifest skips the chunks that do not intersect [0, MaxInt64): the empty ones *)
Definition live_chunks (cs : list chunk) : list chunk := filter (fun c => 0 <? zlen (snd c)) cs.

(* FileHandle.readFromChunks into a zeroed buffer of length len: (buffer, totalRead, new pin) *)
Definition read_chunks (m : fmeta) (off len : Z) : list N * Z * option (list chunk * Z) :=
  let fs := file_size (f_attr m) (f_chunks m) in
  let zero := repeat 0%N (Z.to_nat len) in
  if fs =? 0 then (zero, 0, f_pin m)
  else
    let '(cs, fsz, pin) :=
      match f_pin m with
      | Some (cs, fsz) => (cs, fsz, f_pin m)
      | None => match live_chunks (f_chunks m) with
                | [] => ([], fs, None)                       (* visibles stay nil: recomputed on every read *)
                | l => (l, fs, Some (l, fs))
                end
      end in
    let n := Z.max 0 (Z.min len (fsz - off)) in
    (blit zero 0 (slice (resolve fsz cs) off (off + n)), n, pin).

(* FileHandle.Read given the dirty overlay function *)
Definition handle_read (m : fmeta) (dirty : list N -> Z -> list N * Z) (off len : Z) : list N * fmeta :=
  let '(buf, total, pin) := read_chunks m off len in
  let '(buf', maxStop) := dirty buf off in
  let total' := Z.min len (Z.max (maxStop - off) total) in
  (firstn (Z.to_nat total') buf', {| f_attr := f_attr m; f_chunks := f_chunks m; f_pin := pin |}).

(* ================= histories ================= *)
Inductive op :=
| Write (off : Z) (data : list N)
| Trunc (n : Z)
| Flush
| Read (off len : Z).

Inductive obs :=
| OWrite (lists : list (list (Z * Z))) (saved : list chunk)
| OTrunc (chunks : list (Z * Z)) (attr : Z)
| OFlush (lists : list (list (Z * Z))) (saved : list chunk) (content : list N)
| ORead (dirty : list N) (maxStop : Z) (data : list N).

Definition chunk_shape (cs : list chunk) : list (Z * Z) := map (fun c => (fst c, zlen (snd c))) cs.
Definition content_of (m : fmeta) : list N := resolve (file_size (f_attr m) (f_chunks m)) (f_chunks m).
Definition new_chunks (before after : fmeta) : list chunk := skipn (length (f_chunks before)) (f_chunks after).

(* ---------- ContinuousDirtyPages ---------- *)
Record mstate := { m_iv : list (ilist (list N)); m_meta : fmeta }.
Definition mstate0 : mstate := {| m_iv := []; m_meta := meta0 |}.

Definition m_node (off : Z) (data : list N) : mnode := {| n_off := off; n_size := zlen data; n_pay := data |}.
Definition m_list_all_bytes (l : ilist (list N)) : list N := flat_map (fun t => n_pay t) l.   (* ToReader: every node's Data *)

(* io.LimitReader(reader, size) *)
Definition limit_bytes (bs : list N) (size : Z) : list N := firstn (Z.to_nat size) bs.

(* saveExistingLargestPageToStorage *)
Definition m_save_largest (s : mstate) : mstate * bool :=
  match remove_largest _ (m_iv s) with
  | None => (s, false)
  | Some (l, rest) =>
      let fileSize := f_attr (m_meta s) in
      let chunkSize := Z.min (l_size _ l) (fileSize - head_off _ l) in
      if chunkSize =? 0 then ({| m_iv := rest; m_meta := m_meta s |}, false)
      else ({| m_iv := rest;
               m_meta := add_chunk (m_meta s) (head_off _ l, limit_bytes (m_list_all_bytes l) chunkSize) |}, true)
  end.

(* saveExistingPagesToStorage: for pages.saveExistingLargestPageToStorage() {} *)
Fixpoint m_save_all (fuel : nat) (s : mstate) : mstate :=
  match fuel with
  | O => s
  | S fuel' => let '(s', more) := m_save_largest s in if more then m_save_all fuel' s' else s'
  end.
Definition m_flush (s : mstate) : mstate := m_save_all (S (length (m_iv s))) s.

(* AddPage *)
Definition m_add_page (limit : Z) (s : mstate) (off : Z) (data : list N) : mstate :=
  let s1 := if zlen data >? limit
            then (* flushAndSave *)
              let s' := m_flush s in
              {| m_iv := m_iv s'; m_meta := add_chunk (m_meta s') (off, limit_bytes data (zlen data)) |}
            else s in
  let s2 := {| m_iv := m_add (m_iv s1) (m_node off data); m_meta := m_meta s1 |} in
  if total_size _ (m_iv s2) >=? limit then fst (m_save_largest s2) else s2.

Definition m_dirty_read (s : mstate) (buf : list N) (so : Z) : list N * Z :=
  read_data_at _ m_fetch (m_iv s) buf so.

Definition m_step (limit : Z) (s : mstate) (o : op) : mstate * obs :=
  match o with
  | Write off data =>
      (* FileHandle.Write *)
      let m1 := set_attr (m_meta s) (Z.max (off + zlen data) (f_attr (m_meta s))) in
      let s' := m_add_page limit {| m_iv := m_iv s; m_meta := m1 |} off data in
      (s', OWrite (shape _ (m_iv s')) (new_chunks (m_meta s) (m_meta s')))
  | Trunc n =>
      let m' := truncate (m_meta s) n in
      ({| m_iv := m_iv s; m_meta := m' |}, OTrunc (chunk_shape (f_chunks m')) (f_attr m'))
  | Flush =>
      let s' := m_flush s in
      (s', OFlush (shape _ (m_iv s')) (new_chunks (m_meta s) (m_meta s')) (content_of (m_meta s')))
  | Read off len =>
      let '(d, ms) := m_dirty_read s (repeat 0%N (Z.to_nat len)) off in
      let '(data, m') := handle_read (m_meta s) (m_dirty_read s) off len in
      ({| m_iv := m_iv s; m_meta := m' |}, ORead d ms data)
  end.

(* ---------- TempFileDirtyPages ---------- *)
Record tstate := { t_iv : list (ilist Z);
                   t_tf : option (list N);   (* pages.tf: the temp file's content; lastOffset = its length *)
                   t_meta : fmeta }.
Definition tstate0 : tstate := {| t_iv := []; t_tf := None; t_meta := meta0 |}.

Definition t_file (s : tstate) : list N := match t_tf s with Some tf => tf | None => [] end.

(* AddPage *)
Definition t_add_page (s : tstate) (off : Z) (data : list N) : tstate :=
  let tf := t_file s in                       (* created empty when nil *)
  let written := zlen tf in                   (* writtenIntervals.lastOffset *)
  {| t_iv := t_add (t_iv s) {| n_off := off; n_size := zlen data; n_pay := written |};
     t_tf := Some (tf ++ data);
     t_meta := t_meta s |}.

(* saveExistingPagesToStorage: per list, pieces cut at multiples of the chunk size limit, counted from 0 *)
Fixpoint t_pieces (fuel : nat) (tf : list N) (l : ilist Z) (limit uploaded listStop : Z) : list chunk :=
  match fuel with
  | O => []
  | S fuel' =>
      if uploaded <? listStop then
        let start := Z.max (head_off _ l) uploaded in
        let stop := Z.min listStop (uploaded + limit) in
        (if start <? stop then [(start, limit_bytes (list_bytes _ (t_fetch tf) l start stop) (stop - start))] else [])
        ++ t_pieces fuel' tf l limit (uploaded + limit) listStop
      else []
  end.
Definition t_list_chunks (tf : list N) (limit : Z) (l : ilist Z) : list chunk :=
  let listStop := head_off _ l + l_size _ l in
  t_pieces (S (Z.to_nat (listStop / Z.max 1 limit))) tf l limit 0 listStop.

(* FlushData *)
Definition t_flush (limit : Z) (s : tstate) : tstate :=
  let saved := flat_map (t_list_chunks (t_file s) limit) (t_iv s) in
  {| t_iv := match t_tf s with Some _ => [] | None => t_iv s end;
     t_tf := None;
     t_meta := fold_left add_chunk saved (t_meta s) |}.

Definition t_dirty_read (s : tstate) (buf : list N) (so : Z) : list N * Z :=
  read_data_at _ (t_fetch (t_file s)) (t_iv s) buf so.

Definition t_step (limit : Z) (s : tstate) (o : op) : tstate * obs :=
  match o with
  | Write off data =>
      let m1 := set_attr (t_meta s) (Z.max (off + zlen data) (f_attr (t_meta s))) in
      let s' := t_add_page {| t_iv := t_iv s; t_tf := t_tf s; t_meta := m1 |} off data in
      (s', OWrite (shape _ (t_iv s')) [])
  | Trunc n =>
      let m' := truncate (t_meta s) n in
      ({| t_iv := t_iv s; t_tf := t_tf s; t_meta := m' |}, OTrunc (chunk_shape (f_chunks m')) (f_attr m'))
  | Flush =>
      let s' := t_flush limit s in
      (s', OFlush (shape _ (t_iv s')) (new_chunks (t_meta s) (t_meta s')) (content_of (t_meta s')))
  | Read off len =>
      let '(d, ms) := t_dirty_read s (repeat 0%N (Z.to_nat len)) off in
      let '(data, m') := handle_read (t_meta s) (t_dirty_read s) off len in
      ({| t_iv := t_iv s; t_tf := t_tf s; t_meta := m' |}, ORead d ms data)
  end.

Section Run.
  Variable S : Type.
  Variable step : S -> op -> S * obs.
  Fixpoint run (s : S) (ops : list op) : list obs :=
    match ops with
    | [] => []
    | o :: ops' => let '(s', ob) := step s o in ob :: run s' ops'
    end.
  Fixpoint exec (s : S) (ops : list op) : S :=
    match ops with
    | [] => s
    | o :: ops' => exec (fst (step s o)) ops'
    end.
End Run.

Definition m_run (limit : Z) (ops : list op) : list obs := run _ (m_step limit) mstate0 ops.
Definition t_run (limit : Z) (ops : list op) : list obs := run _ (t_step limit) tstate0 ops.

(* ================= POSIX reference: a file is a list of bytes ================= *)
Definition pad (f : list N) (n : nat) : list N := f ++ repeat 0%N (n - length f).
Definition pwrite (f : list N) (off : Z) (data : list N) : list N :=
  let o := Z.to_nat off in
  let f' := pad f o in
  firstn o f' ++ data ++ skipn (o + length data) f'.
Definition ptrunc (f : list N) (n : Z) : list N := firstn (Z.to_nat n) (pad f (Z.to_nat n)).
Definition pread (f : list N) (off len : Z) : list N := slice f off (off + len).

Definition pstep (f : list N) (o : op) : list N :=
  match o with
  | Write off data => pwrite f off data
  | Trunc n => ptrunc f n
  | Flush => f
  | Read _ _ => f
  end.
Definition pfile (ops : list op) : list N := fold_left pstep ops [].

(* ================= triggers of the known findings =================
   Decidable predicates of the input (history, buffer kind, chunk limit), evaluated on the model's own run:
     k = 0  a truncate below the file size while a dirty list reaches beyond the new size
     k = 1  a Read served from a visible-interval cache that no longer matches the entry's chunks / size *)
Definition chunk_eqb (a b : chunk) : bool :=
  (fst a =? fst b) && (zlen (snd a) =? zlen (snd b)) && forallb (fun p => N.eqb (fst p) (snd p)) (combine (snd a) (snd b)).
Fixpoint chunks_eqb (a b : list chunk) : bool :=
  match a, b with
  | [], [] => true
  | x :: a', y :: b' => chunk_eqb x y && chunks_eqb a' b'
  | _, _ => false
  end.

Definition trig_at (dirty_ends : list Z) (m : fmeta) (o : op) : option N :=
  match o with
  | Trunc n =>
      if n <? file_size (f_attr m) (f_chunks m) then
        if existsb (fun e => n <? e) dirty_ends then Some 0%N else None
      else None
  | Read _ _ =>
      match f_pin m with
      | Some (cs, fsz) =>
          if chunks_eqb cs (live_chunks (f_chunks m)) && (fsz =? file_size (f_attr m) (f_chunks m)) then None else Some 1%N
      | None => None
      end
  | _ => None
  end.

Section Trigger.
  Variable S : Type.
  Variable step : S -> op -> S * obs.
  Variable ends_of : S -> list Z.     (* the end offset of every dirty list *)
  Variable meta_of : S -> fmeta.
  (* the first trigger met along the history *)
  Fixpoint trigger (s : S) (ops : list op) : option N :=
    match ops with
    | [] => None
    | o :: ops' =>
        match trig_at (ends_of s) (meta_of s) o with
        | Some k => Some k
        | None => trigger (fst (step s o)) ops'
        end
    end.
End Trigger.

Definition m_trigger (limit : Z) (ops : list op) : option N :=
  trigger _ (m_step limit) (fun s => map (tail_end _) (m_iv s)) m_meta mstate0 ops.
Definition t_trigger (limit : Z) (ops : list op) : option N :=
  trigger _ (t_step limit) (fun s => map (tail_end _) (t_iv s)) t_meta tstate0 ops.

(* ================= reads issued while the saves started by a Write are still in flight =================
   ContinuousDirtyPages.saveToStorage removes the list from the intervals synchronously but uploads it in a
   goroutine; the chunk reaches entry.Chunks only when the upload has completed (pages.f.addChunks at the end
   of the writer).  FileHandle.Read does not wait for the writers (no writeWaitGroup.Wait): a Read that
   arrives after Write has returned and before the upload has completed sees the interval lists of the
   state AFTER the write and the chunks of the state BEFORE it.
     WriteRead off data roff rlen  =  Write off data; Read roff rlen issued while every save started by
                                      the Write is still in flight; then the saves complete.
   The extended observation also carries entry.Attributes.FileSize after every op. *)
Inductive xop :=
| XOp (o : op)
| WriteRead (off : Z) (data : list N) (roff rlen : Z)
| FlushClose.   (* the real FileHandle.Flush closing a history: FlushData, then doFlush compacts the chunk list
                   (filer.CompactFileChunks) and sends the entry to the filer (CreateEntry) *)

Inductive xobs :=
| XObs (ob : obs) (attr : Z)
| XWriteRead (ow ord : obs) (attr : Z)
| XClose (ob : obs) (created : list N) (attr : Z).   (* created = the content the entry received by the filer resolves to *)

(* filer.CompactFileChunks keeps the chunks owning at least one visible byte (list order = Mtime order) *)
Definition chunk_covers (c : chunk) (p : Z) : bool := (fst c <=? p) && (p <? fst c + zlen (snd c)).
Definition chunk_visible (c : chunk) (later : list chunk) : bool :=
  existsb (fun i => negb (existsb (fun d => chunk_covers d (fst c + Z.of_nat i)) later)) (seq 0 (length (snd c))).
Fixpoint compact_chunks (cs : list chunk) : list chunk :=
  match cs with
  | [] => []
  | c :: rest => (if chunk_visible c rest then [c] else []) ++ compact_chunks rest
  end.
Definition created_content (m : fmeta) : list N :=
  let cs := compact_chunks (f_chunks m) in resolve (file_size (f_attr m) cs) cs.

Definition with_chunks (m : fmeta) (cs : list chunk) : fmeta := {| f_attr := f_attr m; f_chunks := cs; f_pin := f_pin m |}.
Definition with_pin (m : fmeta) (pin : option (list chunk * Z)) : fmeta := {| f_attr := f_attr m; f_chunks := f_chunks m; f_pin := pin |}.

Definition xflat1 (xo : xop) : list op :=
  match xo with
  | XOp o => [o]
  | WriteRead off data roff rlen => [Write off data; Read roff rlen]
  | FlushClose => [Flush]
  end.
Definition xflat (xs : list xop) : list op := flat_map xflat1 xs.
Definition xobs_flat1 (xb : xobs) : list obs :=
  match xb with
  | XObs ob _ => [ob]
  | XWriteRead ow ord _ => [ow; ord]
  | XClose ob _ _ => [ob]
  end.
Definition xobs_flat (xbs : list xobs) : list obs := flat_map xobs_flat1 xbs.

Section XRun.
  Variable S : Type.
  Variable step : S -> op -> S * obs.
  Variable meta_of : S -> fmeta.
  Variable set_meta : S -> fmeta -> S.
  Variable ends_of : S -> list Z.

  (* the state a Read sees while the chunks saved by the step s -> s1 are still being uploaded *)
  Definition inflight_view (s s1 : S) : S := set_meta s1 (with_chunks (meta_of s1) (f_chunks (meta_of s))).
  (* did the step s -> s1 start a save? *)
  Definition inflight (s s1 : S) : bool := negb (chunks_eqb (f_chunks (meta_of s)) (f_chunks (meta_of s1))).

  Definition xstep (s : S) (xo : xop) : S * xobs :=
    match xo with
    | XOp o => let '(s', ob) := step s o in (s', XObs ob (f_attr (meta_of s')))
    | WriteRead off data roff rlen =>
        let '(s1, ow) := step s (Write off data) in
        let '(s2, ord) := step (inflight_view s s1) (Read roff rlen) in
        (* the uploads complete: the chunks of s1 appear; the handle keeps the view cache the Read computed *)
        (set_meta s1 (with_pin (meta_of s1) (f_pin (meta_of s2))), XWriteRead ow ord (f_attr (meta_of s1)))
    | FlushClose =>
        (* the model's state keeps the uncompacted chunk list: FlushClose ends the histories of the check *)
        let '(s', ob) := step s Flush in (s', XClose ob (created_content (meta_of s')) (f_attr (meta_of s')))
    end.

  (* the first trigger met along an extended history; k = 2: a Read while a save is in flight *)
  Fixpoint xtrigger (s : S) (xs : list xop) : option N :=
    match xs with
    | [] => None
    | xo :: xs' =>
        match xo with
        | XOp o =>
            match trig_at (ends_of s) (meta_of s) o with
            | Some k => Some k
            | None => xtrigger (fst (xstep s xo)) xs'
            end
        | WriteRead off data roff rlen =>
            let s1 := fst (step s (Write off data)) in
            if inflight s s1 then Some 2%N
            else match trig_at (ends_of s1) (meta_of s1) (Read roff rlen) with
                 | Some k => Some k
                 | None => xtrigger (fst (xstep s xo)) xs'
                 end
        | FlushClose => xtrigger (fst (xstep s xo)) xs'
        end
    end.
End XRun.

Section RunX.
  Variable S : Type.
  Variable xstep : S -> xop -> S * xobs.
  Fixpoint run_x (s : S) (xs : list xop) : list xobs :=
    match xs with
    | [] => []
    | xo :: xs' => let '(s', xb) := xstep s xo in xb :: run_x s' xs'
    end.
  Fixpoint exec_x (s : S) (xs : list xop) : S :=
    match xs with
    | [] => s
    | xo :: xs' => exec_x (fst (xstep s xo)) xs'
    end.
End RunX.

Definition m_set_meta (s : mstate) (m : fmeta) : mstate := {| m_iv := m_iv s; m_meta := m |}.
Definition t_set_meta (s : tstate) (m : fmeta) : tstate := {| t_iv := t_iv s; t_tf := t_tf s; t_meta := m |}.

Definition m_xstep (limit : Z) := xstep _ (m_step limit) m_meta m_set_meta.
Definition t_xstep (limit : Z) := xstep _ (t_step limit) t_meta t_set_meta.
Definition m_xrun (limit : Z) (xs : list xop) : list xobs := run_x _ (m_xstep limit) mstate0 xs.
Definition t_xrun (limit : Z) (xs : list xop) : list xobs := run_x _ (t_xstep limit) tstate0 xs.
Definition m_xtrigger (limit : Z) (xs : list xop) : option N :=
  xtrigger _ (m_step limit) m_meta m_set_meta (fun s => map (tail_end _) (m_iv s)) mstate0 xs.
Definition t_xtrigger (limit : Z) (xs : list xop) : option N :=
  xtrigger _ (t_step limit) t_meta t_set_meta (fun s => map (tail_end _) (t_iv s)) tstate0 xs.
