(* Model of weed/filer/{filechunks.go, filechunk_manifest.go, reader_at.go}: a file
   as the last-writer-wins overlay of its chunks (C17; also used by C30, C28).
   Executable definitions only; proofs are in proof/ChunksProofs.v.

   Conventions: offsets, sizes, mtimes are unbounded [N] (Go: int64/uint64, assumed
   non-negative and free of overflow).  A file id string is modelled by its needle
   key [c_fid] (the harness keeps volume id and cookie fixed, so key <-> string is
   a bijection).  Chunk contents come from a [chunk_source] (fid -> whole chunk
   bytes) — what the chunk cache / volume server returns for the file id. *)
From Coq Require Import List NArith Bool.
Import ListNotations.
Local Open Scope N_scope.

Definition max_int64 : N := 9223372036854775807.   (* math.MaxInt64 *)

(* ---------- filer_pb.FileChunk (projected) ---------- *)
Record chunk := Chunk {
  c_fid : N;         (* Fid.FileKey / GetFileIdString() *)
  c_off : N;          (* Offset *)
  c_size : N;         (* Size *)
  c_mtime : N;        (* Mtime *)
  c_manifest : bool   (* IsChunkManifest *)
}.
Definition c_stop (c : chunk) : N := c_off c + c_size c.
Definition covers (c : chunk) (p : N) : bool := (c_off c <=? p) && (p <? c_stop c).

(* TotalSize *)
Definition total_size (chunks : list chunk) : N :=
  fold_left (fun acc c => if acc <? c_stop c then c_stop c else acc) chunks 0.

(* ---------- the specification: last writer wins ---------- *)
(* the [less] of the sort.Slice call in NonOverlappingVisibleIntervals: by Mtime, then by Fid.FileKey *)
Definition chunk_ltb (a b : chunk) : bool :=
  if c_mtime a =? c_mtime b then c_fid a <? c_fid b else c_mtime a <? c_mtime b.

(* the chunk with the greatest (mtime, key) among those covering p
   (on a full tie the later list element; the theorems exclude full ties) *)
Fixpoint winner (chunks : list chunk) (p : N) : option chunk :=
  match chunks with
  | [] => None
  | c :: l =>
      match winner l p with
      | None => if covers c p then Some c else None
      | Some w => if covers c p && chunk_ltb w c then Some c else Some w
      end
  end.

(* where byte p comes from: (file id, offset inside that chunk); None = hole *)
Definition overlay_src (chunks : list chunk) (p : N) : option (N * N) :=
  match winner chunks p with
  | Some c => Some (c_fid c, p - c_off c)
  | None => None
  end.

Definition chunk_source := N -> list N.
Definition byte_of (src : chunk_source) (s : option (N * N)) : N :=
  match s with
  | Some (f, i) => nth (N.to_nat i) (src f) 0
  | None => 0
  end.
(* [overlay src chunks p]: content of the file at position p (zero in holes) *)
Definition overlay (src : chunk_source) (chunks : list chunk) (p : N) : N :=
  byte_of src (overlay_src chunks p).

(* ---------- VisibleInterval ---------- *)
Record visible_interval := Visible {
  v_start : N; v_stop : N; v_mtime : N; v_fid : N;
  v_coff : N;      (* chunkOffset: position inside the chunk of the interval's first byte *)
  v_csize : N      (* chunkSize *)
}.

Definition new_visible (c : chunk) : visible_interval :=
  {| v_start := c_off c; v_stop := c_stop c; v_mtime := c_mtime c; v_fid := c_fid c;
     v_coff := 0; v_csize := c_size c |}.

Fixpoint last_visible (vs : list visible_interval) : option visible_interval :=
  match vs with
  | [] => None
  | [x] => Some x
  | _ :: t => last_visible t
  end.

(* the body of the range loop of MergeIntoVisibles for one old interval v:
   left remainder, right remainder, or v unchanged when it does not touch [off,stop) *)
Definition split_visible (off stop : N) (v : visible_interval) : list visible_interval :=
  (if (v_start v <? off) && (off <? v_stop v)
   then [{| v_start := v_start v; v_stop := off; v_mtime := v_mtime v; v_fid := v_fid v;
            v_coff := v_coff v; v_csize := v_csize v |}] else []) ++
  (if (v_start v <? stop) && (stop <? v_stop v)
   then [{| v_start := stop; v_stop := v_stop v; v_mtime := v_mtime v; v_fid := v_fid v;
            v_coff := v_coff v + (stop - v_start v); v_csize := v_csize v |}] else []) ++
  (if (stop <=? v_start v) || (v_stop v <=? off) then [v] else []).

(* the final loop of MergeIntoVisibles: newV sits at the end and is moved towards the
   front past every element whose start is greater, scanning from the back.
   [ins_rev] works on the reversed list. *)
Fixpoint ins_rev (nv : visible_interval) (rb : list visible_interval) : list visible_interval :=
  match rb with
  | [] => [nv]
  | x :: r => if v_start nv <? v_start x then x :: ins_rev nv r else nv :: x :: r
  end.
Definition insert_from_back (nv : visible_interval) (body : list visible_interval) : list visible_interval :=
  rev (ins_rev nv (rev body)).

Definition merge_into_visibles (vs : list visible_interval) (c : chunk) : list visible_interval :=
  let nv := new_visible c in
  match last_visible vs with
  | None => vs ++ [nv]                                        (* length == 0 *)
  | Some l =>
      if v_stop l <=? c_off c then vs ++ [nv]                 (* fast path *)
      else insert_from_back nv (flat_map (split_visible (c_off c) (c_stop c)) vs)
  end.

(* ---------- chunk manifests ---------- *)
(* content of the manifest chunks: fid -> the chunk list stored in it *)
Definition mstore := list (N * list chunk).
Fixpoint ms_lookup (ms : mstore) (f : N) : option (list chunk) :=
  match ms with
  | [] => None
  | (k, v) :: r => if k =? f then Some v else ms_lookup r f
  end.

(* the window test of ResolveChunkManifest: max(off,start) >= min(stop,stopOffset) *)
Definition outside_window (start stop : N) (c : chunk) : bool :=
  N.min (c_stop c) stop <=? N.max (c_off c) start.

Definition join_resolved (a b : option (list chunk * list chunk)) : option (list chunk * list chunk) :=
  match a, b with
  | Some (d1, m1), Some (d2, m2) => Some (d1 ++ d2, m1 ++ m2)
  | _, _ => None
  end.

(* ResolveChunkManifest: (data chunks, manifest chunks) in visiting order; None = error
   (a manifest cannot be fetched).  [fuel] bounds the manifest nesting depth: the Go
   recursion has no bound; on a cyclic store it does not terminate, here it is None. *)
Fixpoint resolve (fuel : nat) (ms : mstore) (start stop : N) (chunks : list chunk)
  : option (list chunk * list chunk) :=
  match fuel with
  | O => None
  | S f =>
      let one (c : chunk) : option (list chunk * list chunk) :=
        if outside_window start stop c then Some ([], [])
        else if negb (c_manifest c) then Some ([c], [])
        else match ms_lookup ms (c_fid c) with
             | None => None
             | Some sub =>
                 match resolve f ms start stop sub with
                 | None => None
                 | Some (d, m) => Some (d, c :: m)
                 end
             end in
      fold_right (fun c acc => join_resolved (one c) acc) (Some ([], [])) chunks
  end.

(* ---------- NonOverlappingVisibleIntervals ---------- *)
(* sort.Slice(chunks, less): modelled as the stable insertion sort.  For pairwise
   distinct (mtime,key) the sorted permutation is unique (proved: sort_chunks_unique),
   so the algorithm is irrelevant; Go's pdqsort is itself this insertion sort for
   <= 12 elements. *)
Fixpoint insert_chunk (c : chunk) (l : list chunk) : list chunk :=
  match l with
  | [] => [c]
  | x :: l' => if chunk_ltb x c then x :: insert_chunk c l' else c :: x :: l'
  end.
Definition sort_chunks (l : list chunk) : list chunk := fold_right insert_chunk [] l.

Definition visibles_of (sorted : list chunk) : list visible_interval :=
  fold_left merge_into_visibles sorted [].

(* returns (visibles, err).  On a resolve error Go keeps going with the unresolved list. *)
Definition non_overlapping_visible_intervals (fuel : nat) (ms : mstore) (chunks : list chunk)
    (start stop : N) : list visible_interval * bool :=
  match resolve fuel ms start stop chunks with
  | Some (d, _) => (visibles_of (sort_chunks d), false)
  | None => (visibles_of (sort_chunks chunks), true)
  end.

Definition vcovers (v : visible_interval) (p : N) : bool := (v_start v <=? p) && (p <? v_stop v).
Definition visible_at (vs : list visible_interval) (p : N) : option visible_interval :=
  find (fun v => vcovers v p) vs.
Definition src_of_visibles (vs : list visible_interval) (p : N) : option (N * N) :=
  match visible_at vs p with
  | Some v => Some (v_fid v, v_coff v + (p - v_start v))
  | None => None
  end.

(* ---------- ChunkView, ViewFromVisibleIntervals, ViewFromChunks ---------- *)
Record chunk_view := View {
  cv_fid : N;
  cv_off : N;      (* Offset: inside the chunk *)
  cv_size : N;     (* Size *)
  cv_logic : N;    (* LogicOffset: inside the file *)
  cv_csize : N     (* ChunkSize *)
}.

Definition view_of (offset stop : N) (v : visible_interval) : list chunk_view :=
  let s := N.max offset (v_start v) in
  let e := N.min stop (v_stop v) in
  if s <? e then [{| cv_fid := v_fid v; cv_off := s - v_start v + v_coff v; cv_size := e - s;
                     cv_logic := s; cv_csize := v_csize v |}]
  else [].

(* stop = offset+size; the int64-overflow special cases (size = MaxInt64) coincide with
   unbounded arithmetic as long as offset+size does not exceed MaxInt64 *)
Definition view_from_visibles (vs : list visible_interval) (offset size : N) : list chunk_view :=
  flat_map (view_of offset (offset + size)) vs.

Definition view_from_chunks (fuel : nat) (ms : mstore) (chunks : list chunk) (offset size : N)
  : list chunk_view :=
  view_from_visibles (fst (non_overlapping_visible_intervals fuel ms chunks offset (offset + size)))
                     offset size.

Definition cvcovers (w : chunk_view) (p : N) : bool := (cv_logic w <=? p) && (p <? cv_logic w + cv_size w).
Definition src_of_views (ws : list chunk_view) (p : N) : option (N * N) :=
  match find (fun w => cvcovers w p) ws with
  | Some w => Some (cv_fid w, cv_off w + (p - cv_logic w))
  | None => None
  end.

(* ---------- ChunkReadAt.ReadAt (with the hole-zeroing repair) ---------- *)
(* p[pos : pos+len bs] = bs, clipped to the buffer *)
Fixpoint write_at (buf : list N) (pos : nat) (bs : list N) : list N :=
  match buf with
  | [] => []
  | x :: t =>
      match pos with
      | S k => x :: write_at t k bs
      | O => match bs with
             | [] => x :: t
             | b :: bs' => b :: write_at t O bs'
             end
      end
  end.
Definition zero_at (buf : list N) (pos cnt : N) : list N :=
  write_at buf (N.to_nat pos) (repeat 0 (N.to_nat cnt)).

(* readChunkSlice with a chunk cache that has no slices: a slice of the whole chunk *)
Definition read_chunk_slice (src : chunk_source) (w : chunk_view) (boff blen : N) : list N :=
  let d := src (cv_fid w) in
  let wanted := N.min blen (N.of_nat (length d) - boff) in
  firstn (N.to_nat wanted) (skipn (N.to_nat boff) d).

Record rstate := { r_buf : list N; r_start : N; r_rem : N; r_n : N }.

(* one iteration of the loop of doReadAt, after the [remaining <= 0] test; the bool is [break] *)
Definition read_step (src : chunk_source) (offset : N) (w : chunk_view) (st : rstate) : rstate * bool :=
  let body (st1 : rstate) : rstate * bool :=
    let cstart := N.max (cv_logic w) (r_start st1) in
    let cstop := N.min (cv_logic w + cv_size w) (r_start st1 + r_rem st1) in
    if cstop <=? cstart then (st1, false)                                   (* continue *)
    else
      let boff := cstart - cv_logic w + cv_off w in
      let blen := cstop - cstart in
      let slice := read_chunk_slice src w boff blen in
      let copied := N.min blen (N.of_nat (length slice)) in                (* copy(p[a:a+blen], buffer) *)
      ({| r_buf := write_at (r_buf st1) (N.to_nat (r_start st1 - offset)) (firstn (N.to_nat copied) slice);
          r_start := r_start st1 + copied; r_rem := r_rem st1 - copied; r_n := r_n st1 + copied |}, false) in
  if r_start st <? cv_logic w then
    let gap := cv_logic w - r_start st in
    let zeroed := N.min gap (r_rem st) in
    let st1 := {| r_buf := zero_at (r_buf st) (r_start st - offset) zeroed;   (* the repair: zero the gap *)
                  r_start := cv_logic w; r_rem := r_rem st - gap; r_n := r_n st + zeroed |} in
    if r_rem st1 =? 0 then (st1, true) else body st1
  else body st.

Fixpoint read_loop (src : chunk_source) (offset : N) (views : list chunk_view) (st : rstate) : rstate :=
  match views with
  | [] => st
  | w :: rest =>
      if r_rem st =? 0 then st
      else let (st', brk) := read_step src offset w st in
           if brk then st' else read_loop src offset rest st'
  end.

Record read_result := { rr_buf : list N; rr_n : N; rr_eof : bool }.

(* ReadAt(p, offset) with p = buf; no fetch errors (the chunk source is total) *)
Definition read_at (src : chunk_source) (views : list chunk_view) (file_size : N)
    (buf : list N) (offset : N) : read_result :=
  let len := N.of_nat (length buf) in
  let st := read_loop src offset views {| r_buf := buf; r_start := offset; r_rem := len; r_n := 0 |} in
  let st2 :=
    if (0 <? r_rem st) && (r_start st <? file_size) then
      let delta := N.min (r_rem st) (file_size - r_start st) in
      {| r_buf := zero_at (r_buf st) (r_start st - offset) delta;           (* the repair: zero the tail *)
         r_start := r_start st; r_rem := r_rem st; r_n := r_n st + delta |}
    else st in
  {| rr_buf := r_buf st2; rr_n := r_n st2; rr_eof := file_size <=? offset + len |}.

(* ---------- CompactFileChunks ---------- *)
Definition compact_file_chunks (fuel : nat) (ms : mstore) (chunks : list chunk) : list chunk * list chunk :=
  let vs := fst (non_overlapping_visible_intervals fuel ms chunks 0 max_int64) in
  partition (fun c => existsb (fun v => v_fid v =? c_fid c) vs) chunks.

(* ---------- doMaybeManifestize / mergeIntoManifest ---------- *)
(* saveFunc is modelled as a counter handing out file keys ([next]) and a fixed Mtime [mt] *)
Definition manifest_chunk_of (fid mt : N) (batch : list chunk) : chunk :=
  let mn := fold_left (fun a c => if c_off c <? a then c_off c else a) batch max_int64 in
  let mx := fold_left (fun a c => if a <? c_stop c then c_stop c else a) batch 0 in
  {| c_fid := fid; c_off := mn; c_size := mx - mn; c_mtime := mt; c_manifest := true |}.

(* the batching loop: full batches of k, and what remains; fuel = len(dataChunks) *)
Fixpoint batches (fuel k : nat) (ds : list chunk) : list (list chunk) * list chunk :=
  match fuel with
  | O => ([], ds)
  | S f =>
      if Nat.leb k (length ds)
      then let (bs, r) := batches f k (skipn k ds) in (firstn k ds :: bs, r)
      else ([], ds)
  end.

Fixpoint save_batches (next mt : N) (bs : list (list chunk)) : list chunk * mstore :=
  match bs with
  | [] => ([], [])
  | b :: r => let (cs, st) := save_batches (next + 1) mt r in
              (manifest_chunk_of next mt b :: cs, (next, b) :: st)
  end.

(* mergeFactor k >= 1.  Returns the new chunk list and the manifests written by saveFunc. *)
Definition maybe_manifestize (k : nat) (next mt : N) (chunks : list chunk) : list chunk * mstore :=
  let ds := filter (fun c => negb (c_manifest c)) chunks in
  let mcs := filter c_manifest chunks in
  let (bs, rest) := batches (length ds) k ds in
  let (newm, st) := save_batches next mt bs in
  (mcs ++ newm ++ rest, st).

(* ---------- StreamContent (with the hole-padding repair) ---------- *)
(* retriedFetchChunkData(urls, ..., IsFullChunk(), view.Offset, view.Size): the whole blob when the
   view is the full chunk (no Range header), else the requested byte range of it *)
Definition fetch_view (src : chunk_source) (w : chunk_view) : list N :=
  if cv_size w =? cv_csize w then src (cv_fid w)
  else firstn (N.to_nat (cv_size w)) (skipn (N.to_nat (cv_off w)) (src (cv_fid w))).

(* the write loop: zeros for the gap before each view (the repair), then the view's data;
   returns what was written and the position after the last view *)
Fixpoint stream_views (src : chunk_source) (views : list chunk_view) (pos : N) : list N * N :=
  match views with
  | [] => ([], pos)
  | w :: rest =>
      let (out, p') := stream_views src rest (cv_logic w + cv_size w) in
      (repeat 0 (N.to_nat (cv_logic w - pos)) ++ fetch_view src w ++ out, p')
  end.

(* StreamContent(masterClient, w, chunks, offset, size): the bytes written (no fetch error).
   size = MaxInt64 means "to the end of the chunk list" (TotalSize). *)
Definition stream_content (src : chunk_source) (fuel : nat) (ms : mstore) (chunks : list chunk)
    (offset size : N) : list N :=
  let views := view_from_chunks fuel ms chunks offset size in
  let stop := if size =? max_int64 then total_size chunks else offset + size in
  let (out, pos) := stream_views src views offset in
  out ++ repeat 0 (N.to_nat (stop - pos)).       (* the repair: pad the tail of the range *)

(* ====================================================================== *)
(* Appended for the C17 audit (existing definitions above are unchanged).  *)
(* ====================================================================== *)

(* ---------- int64 wrap of offset+size (ViewFromChunks / ViewFromVisibleIntervals / StreamContent,
   with the "stop < offset => MaxInt64" repair).  For offset, size <= MaxInt64 the Go sum wraps to a
   negative number exactly when offset+size > MaxInt64, and is then replaced by MaxInt64. ---------- *)
Definition clamp_stop (offset size : N) : N :=
  if max_int64 <? offset + size then max_int64 else offset + size.

Definition view_from_visibles_w (vs : list visible_interval) (offset size : N) : list chunk_view :=
  flat_map (view_of offset (clamp_stop offset size)) vs.

Definition view_from_chunks_w (fuel : nat) (ms : mstore) (chunks : list chunk) (offset size : N)
  : list chunk_view :=
  view_from_visibles_w (fst (non_overlapping_visible_intervals fuel ms chunks offset (clamp_stop offset size)))
                       offset size.

(* StreamContent for every offset, size <= MaxInt64: "to the end" when size = MaxInt64 or the sum wraps *)
Definition stream_content_w (src : chunk_source) (fuel : nat) (ms : mstore) (chunks : list chunk)
    (offset size : N) : list N :=
  let views := view_from_chunks_w fuel ms chunks offset size in
  let stop := if (size =? max_int64) || (max_int64 <? offset + size) then total_size chunks else offset + size in
  let (out, pos) := stream_views src views offset in
  out ++ repeat 0 (N.to_nat (stop - pos)).

(* ReadAll (with the hole repair): zeros up to each view, the view's data, nothing after the last view *)
Definition read_all (src : chunk_source) (fuel : nat) (ms : mstore) (chunks : list chunk) : list N :=
  fst (stream_views src (view_from_chunks_w fuel ms chunks 0 max_int64) 0).

(* ---------- ChunkStreamReader (stream.go; NOT repaired: holes are dropped) ---------- *)
From Coq Require Import ZArith.
Record csr := Csr {
  cs_idx : nat;        (* chunkIndex *)
  cs_buf : list N;     (* buffer *)
  cs_boff : N;         (* bufferOffset *)
  cs_bpos : Z          (* bufferPos (Seek can make it negative or larger than the buffer) *)
}.
Definition csr_new : csr := {| cs_idx := 0; cs_buf := []; cs_boff := 0; cs_bpos := 0%Z |}.
Definition csr_empty (s : csr) : bool := (Z.of_nat (length (cs_buf s)) <=? cs_bpos s)%Z.   (* isBufferEmpty *)
(* fetchChunkToBuffer (no fetch error) *)
Definition csr_fetch (src : chunk_source) (w : chunk_view) (idx : nat) : csr :=
  {| cs_idx := idx; cs_buf := fetch_view src w; cs_boff := cv_logic w; cs_bpos := 0%Z |}.

Inductive csr_res := CsrOk (out : list N) (eof : bool) (s : csr) | CsrPanic.

(* Read(p) with len(p) = want: the bytes copied, err == io.EOF, the reader afterwards;
   CsrPanic = slice bounds out of range (buffer[bufferPos:] with a negative bufferPos).
   Every iteration either fetches the next view or copies at least one byte: fuel = want + #views + 1. *)
Fixpoint csr_read_loop (fuel : nat) (src : chunk_source) (views : list chunk_view) (s : csr) (want : nat) : csr_res :=
  match want with
  | O => CsrOk [] false s
  | S _ =>
    match fuel with
    | O => CsrPanic
    | S f =>
      if csr_empty s then
        match nth_error views (cs_idx s) with
        | None => CsrOk [] true s
        | Some w => csr_read_loop f src views (csr_fetch src w (S (cs_idx s))) want
        end
      else if (cs_bpos s <? 0)%Z then CsrPanic
      else
        let t := firstn want (skipn (Z.to_nat (cs_bpos s)) (cs_buf s)) in
        match csr_read_loop f src views
                {| cs_idx := cs_idx s; cs_buf := cs_buf s; cs_boff := cs_boff s;
                   cs_bpos := (cs_bpos s + Z.of_nat (length t))%Z |} (want - length t) with
        | CsrOk o e s' => CsrOk (t ++ o) e s'
        | CsrPanic => CsrPanic
        end
    end
  end.
Definition csr_read (src : chunk_source) (views : list chunk_view) (s : csr) (want : nat) : csr_res :=
  csr_read_loop (want + length views + 1) src views s want.

(* Seek(offset, whence): whence 0 = io.SeekStart, 1 = io.SeekCurrent, 2 = io.SeekEnd.
   Returns (new offset, err == io.ErrUnexpectedEOF, reader afterwards). *)
Definition csr_total (views : list chunk_view) : N := fold_right (fun w a => cv_size w + a) 0 views.
(* the range loop of Seek: the first view that covers offset AND needs a fetch ends the loop; a covering
   view whose data is already buffered does not (the loop goes on, later views are examined too) *)
Fixpoint csr_seek_loop (src : chunk_source) (views : list chunk_view) (i : nat) (offset : Z) (s : csr) : csr :=
  match views with
  | [] => s
  | w :: r => if (Z.of_N (cv_logic w) <=? offset)%Z && (offset <? Z.of_N (cv_logic w + cv_size w))%Z
                 && (csr_empty s || negb (cs_boff s =? cv_logic w))
              then csr_fetch src w (S i)
              else csr_seek_loop src r (S i) offset s
  end.
Definition csr_seek (src : chunk_source) (views : list chunk_view) (s : csr) (offset : Z) (whence : N)
  : Z * bool * csr :=
  let total := Z.of_N (csr_total views) in
  let off := match whence with
             | 0 => offset
             | 1 => (offset + Z.of_N (cs_boff s) + cs_bpos s)%Z
             | _ => (total + offset)%Z
             end in
  let s1 := csr_seek_loop src views 0 off s in
  (off, (total <? off)%Z,
   {| cs_idx := cs_idx s1; cs_buf := cs_buf s1; cs_boff := cs_boff s1; cs_bpos := (off - Z.of_N (cs_boff s1))%Z |}).

(* the views are contiguous from [pos]: no hole before, between or (by definition) inside them *)
Fixpoint views_gapless (pos : N) (ws : list chunk_view) : bool :=
  match ws with
  | [] => true
  | w :: r => (cv_logic w =? pos) && views_gapless (cv_logic w + cv_size w) r
  end.

(* ---------- CompactFileChunks as the callers use it: SeparateManifestChunks first ---------- *)
Definition compact_entry (fuel : nat) (ms : mstore) (chunks : list chunk) : list chunk * list chunk :=
  let data := filter (fun c => negb (c_manifest c)) chunks in
  let (keep, garbage) := compact_file_chunks fuel ms data in
  (filter c_manifest chunks ++ keep, garbage).
