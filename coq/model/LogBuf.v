(* Model of weed/util/log_buffer (LogBuffer, SealedBuffers, LoopProcessLogData) and of the
   subscriber loop of weed/server/filer_grpc_server_sub_meta.go (C22).
   Executable definitions only; proofs are in proof/LogBufProofs.v.

   Granularity: one function per critical section of LogBuffer's RWMutex
   (AddToBuffer, the loopInterval body, ReadFromBuffer), plus the two halves of one
   loopFlush iteration (flushFn returns = data is on "disk"; then lastFlushTime is set).

   Times are Unix nanoseconds in Z.  time.Time{} (IsZero) is year 1, i.e. below every
   time.Unix(0, int64): the literal [zeroT].  time.Unix(0,0) is 0 and is NOT IsZero.

   Bytes: an entry is (assigned ts, marshalled LogEntry length, id); it occupies
   4+length bytes.  A backing array is a list of cells: whole records, [Junk n] (n bytes
   that do not start at a record boundary, or never written), and in read results
   [Part e n] (the first n bytes of a record cut by the slice end).  Arrays are tracked
   because buffers are recycled without being cleared and locateByTs walks a whole array. *)
From Coq Require Import List ZArith NArith Bool.
Import ListNotations.
Local Open Scope Z_scope.

Definition zeroT : Z := -62135596800000000000.   (* time.Time{} *)

Record entry := { e_ts : Z; e_len : Z; e_id : N }.
Definition dummy_entry : entry := {| e_ts := 0; e_len := 0; e_id := 0%N |}.
Definition rec_len (e : entry) : Z := Z.max 0 (e_len e) + 4.           (* size + 4 *)
Definition recs_len (l : list entry) : Z := fold_right (fun e a => rec_len e + a) 0 l.

Inductive cell := Rec (e : entry) | Junk (n : Z) | Part (e : entry) (n : Z).
Definition cell_len (c : cell) : Z :=
  match c with Rec e => rec_len e | Junk n => n | Part _ n => n end.
Definition cells_len (l : list cell) : Z := fold_right (fun c a => cell_len c + a) 0 l.

(* bytes [n:] of an array; a record cut in the middle leaves unparseable bytes *)
Fixpoint drop_bytes (n : Z) (l : list cell) : list cell :=
  match l with
  | [] => []
  | c :: l' => if n <=? 0 then l
               else if cell_len c <=? n then drop_bytes (n - cell_len c) l'
               else Junk (cell_len c - n) :: l'
  end.
(* bytes [:n] *)
Fixpoint take_bytes (n : Z) (l : list cell) : list cell :=
  match l with
  | [] => []
  | c :: l' => if n <=? 0 then []
               else if cell_len c <=? n then c :: take_bytes (n - cell_len c) l'
               else match c with
                    | Rec e => [Part e n] | Part e _ => [Part e n] | Junk _ => [Junk n]
                    end
  end.

(* MemBuffer: len(buf) = m_cap, buf contents = m_arr *)
Record mem := { m_arr : list cell; m_cap : Z; m_size : Z; m_start : Z; m_stop : Z }.
(* dataToFlush *)
Record seg := { g_start : Z; g_stop : Z; g_data : list entry }.

Record st := {
  cap : Z;                 (* len(m.buf) *)
  cur : list entry;        (* records of m.buf[:m.pos], i.e. m.idx *)
  tail : list cell;        (* m.buf[m.pos:] : stale bytes of the array's previous use *)
  startT : Z; stopT : Z; lastFlush : Z; lastTs : Z;
  s0 : mem; s1 : mem; s2 : mem;            (* PreviousBufferCount = 3, oldest first *)
  queue : list seg;        (* non-nil items of flushChan *)
  inflight : option seg;   (* flushFn has returned for it, lastFlushTime not yet set *)
  disk : list (list entry) (* what flushFn has been given, one segment per call *)
}.

Definition pos (s : st) : Z := recs_len (cur s).                          (* m.pos *)

Definition empty_mem (c : Z) : mem :=
  {| m_arr := [Junk c]; m_cap := c; m_size := 0; m_start := zeroT; m_stop := zeroT |}.

(* NewLogBuffer with BufferSize = c *)
Definition init (c : Z) : st :=
  {| cap := c; cur := []; tail := [Junk c]; startT := zeroT; stopT := zeroT;
     lastFlush := zeroT; lastTs := 0;
     s0 := empty_mem c; s1 := empty_mem c; s2 := empty_mem c;
     queue := []; inflight := None; disk := [] |}.

Definition set_start (s : st) (t : Z) : st :=
  {| cap := cap s; cur := cur s; tail := tail s; startT := t; stopT := stopT s;
     lastFlush := lastFlush s; lastTs := lastTs s;
     s0 := s0 s; s1 := s1 s; s2 := s2 s; queue := queue s; inflight := inflight s; disk := disk s |}.

(* copyToFlush (+ the send on flushChan by its caller).  [hf] = (flushFn != nil).
   SealBuffer shifts the ring by one, stores the current array in the last slot and hands
   back the array of the slot that fell out (oldBuf := sbs.buffers[0].buf, taken BEFORE
   the shifting loop; the pinned tree read it through the *MemBuffer after the loop and so
   returned an array still owned by slot 0 -- repaired in /repo). *)
Definition seal (hf : bool) (s : st) : st :=
  if pos s =? 0 then s
  else
    let g := {| g_start := startT s; g_stop := stopT s; g_data := cur s |} in
    let newm := {| m_arr := map Rec (cur s) ++ tail s; m_cap := cap s; m_size := pos s;
                   m_start := startT s; m_stop := stopT s |} in
    {| cap := m_cap (s0 s); cur := []; tail := m_arr (s0 s); startT := 0; stopT := 0;
       lastFlush := if hf then lastFlush s else stopT s;
       lastTs := lastTs s;
       s0 := s1 s; s1 := s2 s; s2 := newm;
       queue := if hf then queue s ++ [g] else queue s;
       inflight := inflight s; disk := disk s |}.

(* m.buf = make([]byte, c) *)
Definition realloc (s : st) (c : Z) : st :=
  {| cap := c; cur := cur s; tail := [Junk c]; startT := startT s; stopT := stopT s;
     lastFlush := lastFlush s; lastTs := lastTs s;
     s0 := s0 s; s1 := s1 s; s2 := s2 s; queue := queue s; inflight := inflight s; disk := disk s |}.

(* the tail of AddToBuffer: stopTime = ts; idx = append(idx,pos); copy; pos += size+4 *)
Definition write (s : st) (e : entry) : st :=
  let cur' := cur s ++ [e] in
  let tail' := drop_bytes (rec_len e) (tail s) in
  {| cap := cap s; cur := cur'; tail := tail'; startT := startT s; stopT := e_ts e;
     lastFlush := lastFlush s; lastTs := e_ts e;
     s0 := s0 s; s1 := s1 s; s2 := s2 s; queue := queue s; inflight := inflight s; disk := disk s |}.

(* if m.lastTsNs >= eventTsNs { eventTsNs = m.lastTsNs + 1 } *)
Definition adjust_ts (last ev : Z) : Z := if ev <=? last then last + 1 else ev.

(* m.startTime.Add(m.flushInterval).Before(ts) || len(m.buf)-m.pos < size+4 *)
Definition rotates (iv : Z) (s : st) (ts size4 : Z) : bool :=
  (startT s + iv <? ts) || (cap s - pos s <? size4).

(* state in which the record is written *)
Definition add_pre (iv : Z) (hf : bool) (s : st) (ev len : Z) : st :=
  let ts := adjust_ts (lastTs s) ev in
  let size4 := Z.max 0 len + 4 in
  let sa := if pos s =? 0 then set_start s ts else s in
  if rotates iv sa ts size4 then
    let sb := set_start (seal hf sa) ts in
    if cap sb <? size4 then realloc sb (2 * Z.max 0 len + 4) else sb
  else sa.

(* AddToBuffer(partitionKey, data, eventTsNs) with eventTsNs <> 0; [len] = len(proto.Marshal(logEntry)) *)
Definition add (iv : Z) (hf : bool) (s : st) (ev len : Z) (id : N) : st :=
  write (add_pre iv hf s ev len)
        {| e_ts := adjust_ts (lastTs s) ev; e_len := len; e_id := id |}.

(* ---- known-finding trigger (decidable, on the state of the model) ---- *)
(* finding 0: a sealed buffer leaves the ring before lastFlushTime covers it *)
Definition trig_seal (s : st) : bool :=
  negb (pos s =? 0) && (0 <? m_size (s0 s)) && (lastFlush s <? m_stop (s0 s)).

Definition add_trig (iv : Z) (hf : bool) (s : st) (ev len : Z) : option N :=
  let ts := adjust_ts (lastTs s) ev in
  let size4 := Z.max 0 len + 4 in
  let sa := if pos s =? 0 then set_start s ts else s in
  if rotates iv sa ts size4 && trig_seal sa then Some 0%N else None.

(* ---- loopFlush, one iteration in two steps ---- *)
Definition flush_write (s : st) : st :=
  match inflight s, queue s with
  | None, g :: q =>
    {| cap := cap s; cur := cur s; tail := tail s; startT := startT s; stopT := stopT s;
       lastFlush := lastFlush s; lastTs := lastTs s;
       s0 := s0 s; s1 := s1 s; s2 := s2 s; queue := q; inflight := Some g;
       disk := disk s ++ [g_data g] |}
  | _, _ => s
  end.
Definition flush_mark (s : st) : st :=
  match inflight s with
  | Some g =>
    {| cap := cap s; cur := cur s; tail := tail s; startT := startT s; stopT := stopT s;
       lastFlush := g_stop g; lastTs := lastTs s;
       s0 := s0 s; s1 := s1 s; s2 := s2 s; queue := queue s; inflight := None;
       disk := disk s |}
  | None => s
  end.

(* ---- ReadFromBuffer ---- *)
Inductive rres := RResume | RNil | RChunk (c : list cell) | RPanic.

(* MemBuffer.locateByTs: walks the WHOLE array (pos < len(mb.buf)), readTs at each step.
   None = readTs on bytes that are not a record (glog.Fatalf or slice panic). *)
Fixpoint locate (arr : list cell) (t : Z) (p : Z) : option Z :=
  match arr with
  | [] => Some p
  | Rec e :: arr' => if t <? e_ts e then Some p else locate arr' t (p + rec_len e)
  | _ :: _ => None
  end.

(* one iteration of "for _, buf := range m.prevBuffers.buffers" ; None = fall through *)
Definition scan_slot (m : mem) (t : Z) : option rres :=
  if t <? m_start m then Some (RChunk (take_bytes (m_size m) (m_arr m)))
  else if (m_start m <=? t) && (t <? m_stop m) then
    Some (match locate (m_arr m) t 0 with
          | None => RPanic
          | Some p => if m_size m <? p then RPanic            (* buf.buf[pos:buf.size] *)
                      else RChunk (drop_bytes p (take_bytes (m_size m) (m_arr m)))
          end)
  else None.

Definition ts_at (l : list entry) (i : Z) : Z := e_ts (nth (Z.to_nat i) l dummy_entry).

(* the binary search over m.idx; the Go loop has no other exit than the ones below, so
   running out of fuel (= the Go loop not terminating) is reported as None like the
   normal loop exit; with strictly increasing timestamps it cannot happen (proved). *)
Fixpoint bsearch (fuel : nat) (l : list entry) (t lo hi : Z) : option Z :=
  match fuel with
  | O => None
  | S f =>
    if hi <? lo then None
    else
      let mid := (lo + hi) / 2 in
      if ts_at l mid <=? t then bsearch f l t (mid + 1) hi
      else
        let prevT := if 0 <? mid then ts_at l (mid - 1) else 0 in
        if prevT <=? t then Some mid else bsearch f l t lo mid
  end.

Definition read_from_buffer (s : st) (t : Z) : rres :=
  if negb (lastFlush s =? zeroT) && (t <? lastFlush s) then RResume
  else if t =? stopT s then RNil
  else if stopT s <? t then RNil
  else if t <? startT s then
    match scan_slot (s0 s) t with
    | Some r => r
    | None =>
      match scan_slot (s1 s) t with
      | Some r => r
      | None =>
        match scan_slot (s2 s) t with
        | Some r => r
        | None => RChunk (map Rec (cur s))
        end
      end
    end
  else
    let n := Z.of_nat (length (cur s)) in
    match bsearch (S (S (length (cur s)))) (cur s) t 0 (n - 1) with
    | Some mid => RChunk (map Rec (skipn (Z.to_nat mid) (cur s)))
    | None => RNil
    end.

(* ---- the decoding loop of LoopProcessLogData over one returned buffer ---- *)
Inductive dres := DOk | DResumeErr | DGarbage.
Fixpoint decode (c : list cell) : list entry * dres :=
  match c with
  | [] => ([], DOk)
  | x :: c' =>
    if cells_len c <=? 4 then ([], DOk)                  (* for pos+4 < len(buf) *)
    else match x with
         | Rec e => let '(l, r) := decode c' in (e :: l, r)
         | Part _ _ => ([], DResumeErr)                 (* pos+4+size > len(buf) *)
         | Junk _ => ([], DGarbage)
         end
  end.

Definition last_ts (l : list entry) (d : Z) : Z := e_ts (last l {| e_ts := d; e_len := 0; e_id := 0%N |}).

(* read classes: 0 nil (wait), 1 ResumeFromDiskError, 2 data, 3 ResumeError,
   4 undefined (parse of non-record bytes), 5 no progress *)
Definition read_once (s : st) (t : Z) : N * list entry * Z :=
  match read_from_buffer s t with
  | RResume => (1%N, [], t)
  | RNil => (0%N, [], t)
  | RPanic => (4%N, [], t)
  | RChunk c =>
    let '(l, r) := decode c in
    ((match r with DOk => 2 | DResumeErr => 3 | DGarbage => 4 end)%N, l, last_ts l t)
  end.

(* LoopProcessLogData with waitForDataFn = false *)
Fixpoint loop_process (fuel : nat) (s : st) (t : Z) (acc : list entry) : N * list entry * Z :=
  match fuel with
  | O => (5%N, acc, t)
  | S f =>
    let '(cls, l, t') := read_once s t in
    if (cls =? 2)%N then loop_process f s t' (acc ++ l) else (cls, acc ++ l, t')
  end.

(* ---- persisted log: ReadPersistedLogBuffer over the flushed segments ---- *)
(* ReadEachLogEntry on one segment: skip TsNs <= ns; lastTsNs of this segment *)
Definition read_seg (t : Z) (g : list entry) : list entry * Z :=
  let l := filter (fun e => t <? e_ts e) g in (l, last_ts l 0).
(* "lastTsNs, err = ReadEachLogEntry(...)" is assigned per file: the last file wins *)
Fixpoint read_disk (t : Z) (d : list (list entry)) (acc : list entry) (lastv : Z) : list entry * Z :=
  match d with
  | [] => (acc, lastv)
  | g :: d' => let '(l, v) := read_seg t g in read_disk t d' (acc ++ l) v
  end.

(* ---- SubscribeLocalMetadata's loop, one subscriber ---- *)
Record sub := {
  lastRead : Z;
  on_disk : bool;      (* next thing the loop does: ReadPersistedLogBuffer (true) / ReadFromBuffer *)
  mem_err : N;         (* readInMemoryLogErr: 0 nil, 1 ResumeFromDiskError, 3 ResumeError, 4 dead *)
  got : list entry     (* events handed to eachLogEntryFn, in order *)
}.
Definition sub_init (t0 : Z) : sub := {| lastRead := t0; on_disk := true; mem_err := 0%N; got := [] |}.

Definition sub_disk (s : st) (u : sub) : sub :=
  let '(l, p) := read_disk (lastRead u) (disk s) [] 0 in
  if p =? 0 then
    if (mem_err u =? 1)%N then
      {| lastRead := lastRead u; on_disk := true; mem_err := mem_err u; got := got u ++ l |}
    else {| lastRead := lastRead u; on_disk := false; mem_err := mem_err u; got := got u ++ l |}
  else {| lastRead := p; on_disk := false; mem_err := mem_err u; got := got u ++ l |}.

Definition sub_mem (s : st) (u : sub) : sub :=
  let '(cls, l, t') := read_once s (lastRead u) in
  match cls with
  | 0%N => u
  | 1%N => {| lastRead := lastRead u; on_disk := true; mem_err := 1%N; got := got u |}
  | 2%N => {| lastRead := t'; on_disk := false; mem_err := mem_err u; got := got u ++ l |}
  | 3%N => {| lastRead := t'; on_disk := true; mem_err := 3%N; got := got u ++ l |}
  | _ => {| lastRead := lastRead u; on_disk := false; mem_err := 4%N; got := got u |}
  end.

Definition sub_step (s : st) (u : sub) : sub :=
  if (mem_err u =? 4)%N then u else if on_disk u then sub_disk s u else sub_mem s u.

(* the whole LoopProcessLogData call of the subscriber (until it would wait) *)
Fixpoint sub_mem_loop (fuel : nat) (s : st) (u : sub) : sub :=
  match fuel with
  | O => u
  | S f =>
    if on_disk u || (mem_err u =? 4)%N then u
    else let u' := sub_mem s u in
         if (fst (fst (read_once s (lastRead u))) =? 2)%N then sub_mem_loop f s u' else u'
  end.

(* ---- schedules ---- *)
Inductive op :=
| Add (ev len : Z) (id : N)
| Seal                      (* loopInterval body *)
| FlushWrite | FlushMark    (* loopFlush *)
| Read (t : Z)              (* stateless: one ReadFromBuffer + decoding *)
| Loop (t : Z)              (* stateless: LoopProcessLogData(t) until it would wait *)
| DiskRead (t : Z)          (* stateless: ReadPersistedLogBuffer(t) *)
| SubStep                   (* subscriber: one atomic step *)
| SubLoop.                  (* subscriber: if in memory mode, a whole LoopProcessLogData *)

Record sys := { buf : st; subs : sub }.

Definition loop_fuel (s : st) : nat := S (S (S (S (S (S (length (cur s))))))).

Definition step (iv : Z) (hf : bool) (y : sys) (o : op) : sys :=
  match o with
  | Add ev len id => {| buf := add iv hf (buf y) ev len id; subs := subs y |}
  | Seal => {| buf := seal hf (buf y); subs := subs y |}
  | FlushWrite => {| buf := flush_write (buf y); subs := subs y |}
  | FlushMark => {| buf := flush_mark (buf y); subs := subs y |}
  | Read _ | Loop _ | DiskRead _ => y
  | SubStep => {| buf := buf y; subs := sub_step (buf y) (subs y) |}
  | SubLoop => {| buf := buf y;
                  subs := if on_disk (subs y) then sub_step (buf y) (subs y)
                          else sub_mem_loop (loop_fuel (buf y)) (buf y) (subs y) |}
  end.

Definition step_trig (iv : Z) (hf : bool) (y : sys) (o : op) : option N :=
  match o with
  | Add ev len _ => add_trig iv hf (buf y) ev len
  | Seal => if trig_seal (buf y) then Some 0%N else None
  | _ => None
  end.

Fixpoint run (iv : Z) (hf : bool) (y : sys) (ops : list op) : sys :=
  match ops with
  | [] => y
  | o :: ops' => run iv hf (step iv hf y o) ops'
  end.

(* first trigger met along a schedule *)
Fixpoint run_trig (iv : Z) (hf : bool) (y : sys) (ops : list op) : option N :=
  match ops with
  | [] => None
  | o :: ops' =>
    match step_trig iv hf y o with
    | Some k => Some k
    | None => run_trig iv hf (step iv hf y o) ops'
    end
  end.

(* ---- observables for the correspondence check ---- *)
Definition ev_obs (l : list entry) : list (Z * N) := map (fun e => (e_ts e, e_id e)) l.
Definition mem_obs (m : mem) : list Z := [m_size m; m_cap m; m_start m; m_stop m].
(* projection of the in-memory state, cf. StateVerif in export_verif.go *)
Definition st_obs (s : st) : list Z :=
  [pos s; cap s; Z.of_nat (length (cur s)); startT s; stopT s; lastTs s; lastFlush s;
   0 (* current array shared with slot 0: never *)] ++ mem_obs (s0 s) ++ mem_obs (s1 s) ++ mem_obs (s2 s).

Inductive obs :=
| OState (v : list Z)
| OFlush (v : Z)          (* FlushWrite: number of segments on disk; FlushMark: lastFlushTime *)
| ORead (cls : N) (evs : list (Z * N)) (last : Z)
| ODisk (evs : list (Z * N)) (processed : Z)
| OSub (lastr : Z) (ondisk : bool) (err : N) (newly : list (Z * N)).   (* events delivered by this step *)

Definition sub_obs (u u' : sub) : obs :=
  OSub (lastRead u') (on_disk u') (mem_err u') (ev_obs (skipn (length (got u)) (got u'))).

Definition observe (y y' : sys) (o : op) : obs :=
  match o with
  | Add _ _ _ | Seal => OState (st_obs (buf y'))
  | FlushWrite => OFlush (Z.of_nat (length (disk (buf y'))))
  | FlushMark => OFlush (lastFlush (buf y'))
  | Read t => let '(c, l, t') := read_once (buf y') t in ORead c (ev_obs l) t'
  | Loop t => let '(c, l, t') := loop_process (loop_fuel (buf y')) (buf y') t [] in ORead c (ev_obs l) t'
  | DiskRead t => let '(l, p) := read_disk t (disk (buf y')) [] 0 in ODisk (ev_obs l) p
  | SubStep | SubLoop => sub_obs (subs y) (subs y')
  end.

Fixpoint run_obs (iv : Z) (hf : bool) (y : sys) (ops : list op) : list obs :=
  match ops with
  | [] => []
  | o :: ops' => let y' := step iv hf y o in observe y y' o :: run_obs iv hf y' ops'
  end.
