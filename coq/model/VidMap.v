(* Model of weed/wdclient/vid_map.go and of the message loop of
   weed/wdclient/masterclient.go (C35).
   Executable definitions only; proofs are in proof/VidMapProofs.v.

   vid2Locations maps a volume id to a Go slice.  GetLocations hands the INTERNAL
   slice to the caller and addLocation appends in place when there is spare
   capacity, so a reader can hold a slice header whose backing array is written
   later.  The model therefore keeps slices as (array id, len, cap) over a heap of
   backing arrays.  (deleteLocation copies into a fresh array: repaired tree,
   fix-c35-delete-copies; before the repair it compacted the shared array.)

   Repaired tree, second round: deleteLocation removes the map entry when the last
   location goes (fix-c35-delete-last-entry; it used to leave "found, []"), and a
   lost connection empties the map under the write lock, vidMap.reset()
   (fix-c35-reset-under-lock; tryAllMasters used to overwrite the whole struct,
   mutex included, while readers held the read lock). *)
From Coq Require Import String List NArith ZArith Bool Ascii.
Import ListNotations.
Local Open Scope string_scope.
Local Open Scope list_scope.

Record loc := { url : string; public_url : string; dc : string }.
Definition zero_loc : loc := {| url := ""; public_url := ""; dc := "" |}.

(* a Go slice header *)
Record slice := { s_arr : nat; s_len : nat; s_cap : nat }.

Record vmap := {
  heap : list (list loc);       (* backing arrays; array i has length = its capacity *)
  v2l : list (N * slice);       (* vid2Locations (first binding wins) *)
  data_center : string }.       (* vidMap.DataCenter *)

(* newVidMap(dataCenter); the heap argument keeps arrays that readers may still hold *)
Definition new_vid_map (h : list (list loc)) (d : string) : vmap :=
  {| heap := h; v2l := []; data_center := d |}.

Fixpoint find_vid (v : N) (m : list (N * slice)) : option slice :=
  match m with
  | [] => None
  | (w, s) :: m' => if N.eqb v w then Some s else find_vid v m'
  end.
Definition put_vid (v : N) (s : slice) (m : list (N * slice)) : list (N * slice) :=
  (v, s) :: filter (fun e => negb (N.eqb v (fst e))) m.
(* delete(vc.vid2Locations, vid) *)
Definition del_vid (v : N) (m : list (N * slice)) : list (N * slice) :=
  filter (fun e => negb (N.eqb v (fst e))) m.

(* the elements a slice header denotes in a heap *)
Definition cells (h : list (list loc)) (s : slice) : list loc :=
  firstn (s_len s) (nth (s_arr s) h []).

(* GetLocations: the INTERNAL slice, not a copy *)
Definition get_locations (m : vmap) (v : N) : option slice := find_vid v (v2l m).

Definition view (m : vmap) (v : N) : option (list loc) :=
  option_map (cells (heap m)) (get_locations m v).

Definition has_url (u : string) (ls : list loc) : bool :=
  existsb (fun l => String.eqb (url l) u) ls.

Fixpoint set_nth {A} (i : nat) (x : A) (l : list A) : list A :=
  match i, l with
  | _, [] => []
  | O, _ :: l' => x :: l'
  | S i', y :: l' => y :: set_nth i' x l'
  end.

(* Go append of one element to a full []Location (48-byte elements): capacity 0
   becomes 1, otherwise doubling (exact for every capacity <= 10, which covers
   volumes with up to 10 locations; the harness compares cap() of the real slices) *)
Definition grow (c : nat) : nat := match c with O => 1 | _ => 2 * c end.

(* addLocation *)
Definition add_location (m : vmap) (v : N) (l : loc) : vmap :=
  match find_vid v (v2l m) with
  | None =>
      (* vc.vid2Locations[vid] = []Location{location}: fresh array, len 1, cap 1 *)
      {| heap := heap m ++ [[l]];
         v2l := put_vid v {| s_arr := length (heap m); s_len := 1; s_cap := 1 |} (v2l m);
         data_center := data_center m |}
  | Some s =>
      if has_url (url l) (cells (heap m) s) then m   (* dedupe by Url only *)
      else if Nat.ltb (s_len s) (s_cap s) then
        (* append in place: the cell after the last element is overwritten *)
        {| heap := set_nth (s_arr s) (set_nth (s_len s) l (nth (s_arr s) (heap m) [])) (heap m);
           v2l := put_vid v {| s_arr := s_arr s; s_len := S (s_len s); s_cap := s_cap s |} (v2l m);
           data_center := data_center m |}
      else
        (* append reallocates: the old array is left untouched *)
        let c := grow (s_cap s) in
        {| heap := heap m ++ [cells (heap m) s ++ [l] ++ repeat zero_loc (c - S (s_len s))];
           v2l := put_vid v {| s_arr := length (heap m); s_len := S (s_len s); s_cap := c |} (v2l m);
           data_center := data_center m |}
  end.

Fixpoint index_of_url (u : string) (ls : list loc) : option nat :=
  match ls with
  | [] => None
  | l :: ls' => if String.eqb (url l) u then Some O
                else option_map S (index_of_url u ls')
  end.

(* deleteLocation (repaired): kept := make([]Location, 0, len-1);
   kept = append(kept, locations[0:i]...); kept = append(kept, locations[i+1:]...) —
   a FRESH array of exactly len-1 cells; the old array is left untouched.
   if len(kept) == 0 { delete(vc.vid2Locations, vid) } else { vc.vid2Locations[vid] = kept } *)
Definition delete_location (m : vmap) (v : N) (l : loc) : vmap :=
  match find_vid v (v2l m) with
  | None => m
  | Some s =>
      let cs := cells (heap m) s in
      match index_of_url (url l) cs with
      | None => m
      | Some i =>
          if Nat.eqb (s_len s) 1 then
            (* the last location: the entry goes, the volume is unknown again *)
            {| heap := heap m; v2l := del_vid v (v2l m); data_center := data_center m |}
          else
          {| heap := heap m ++ [firstn i cs ++ skipn (S i) cs];
             v2l := put_vid v {| s_arr := length (heap m); s_len := s_len s - 1; s_cap := s_len s - 1 |} (v2l m);
             data_center := data_center m |}
      end
  end.

(* ---- lookups ---- *)
(* the branch of LookupVolumeServerUrl that PREPENDS: same, known data center *)
Definition same_dc (d : string) (l : loc) : bool :=
  negb (String.eqb d "") && negb (String.eqb (dc l) "") && String.eqb d (dc l).

(* the loop of LookupVolumeServerUrl over the slice it got from GetLocations *)
Definition order_step (d : string) (acc : list loc) (l : loc) : list loc :=
  if same_dc d l then l :: acc else acc ++ [l].
Definition order_locs (d : string) (ls : list loc) : list loc := fold_left (order_step d) ls [].

Inductive err := ErrParse | ErrNotFound | ErrInvalidFileId.
Inductive res (A : Type) := Ok (a : A) | Err (e : err).
Arguments Ok {A}. Arguments Err {A}.

(* lookup by numeric id: not-found iff the map has no entry *)
Definition lookup_locs (m : vmap) (v : N) : res (list loc) :=
  match view m v with
  | None => Err ErrNotFound
  | Some ls => Ok (order_locs (data_center m) ls)
  end.

(* the same lookup, NOT atomic: LookupVolumeServerUrl releases the read lock when
   GetLocations returns (state m1) and then walks the slice and reads
   vc.DataCenter without any lock; cell i is read in some later state [later i] *)
Definition read_cells (later : nat -> vmap) (hd : slice) : list loc :=
  map (fun i => nth i (nth (s_arr hd) (heap (later i)) []) zero_loc) (seq 0 (s_len hd)).
Definition lookup_locs_conc (m1 : vmap) (later : nat -> vmap) (dcs : vmap) (v : N) : res (list loc) :=
  match get_locations m1 v with
  | None => Err ErrNotFound
  | Some hd => Ok (order_locs (data_center dcs) (read_cells later hd))
  end.

(* a reader call that began after [lo] updates had completed and returned before
   more than [hi] had begun took the lock after j updates for some lo <= j <= hi;
   [p j] = "the answer is the one of the state after j updates" *)
Fixpoint in_window (p : nat -> bool) (lo n : nat) : bool :=
  match n with
  | O => false
  | S n' => if p lo then true else in_window p (S lo) n'
  end.
Definition window_ok (p : nat -> bool) (lo hi : nat) : bool := in_window p lo (S hi - lo).

(* strconv.ParseUint(s, 10, 32) (repaired tree, fix-c35-vid-parse; it was
   strconv.Atoi followed by uint32(id)): at least one decimal digit, nothing
   else — no sign, no blanks, no underscores — and a value below 2^32 *)
Fixpoint digits (s : string) (acc : N) : option N :=
  match s with
  | EmptyString => Some acc
  | String c s' =>
      let n := N_of_ascii c in
      if (48 <=? n)%N && (n <=? 57)%N then digits s' (10 * acc + (n - 48))%N else None
  end.
Definition parse_uint32 (s : string) : option N :=
  match s with
  | EmptyString => None
  | _ => match digits s 0%N with
         | Some n => if (n <? 4294967296)%N then Some n else None
         | None => None
         end
  end.

(* LookupVolumeServerUrl *)
Definition lookup_volume_server_url (m : vmap) (vid : string) : res (list string) :=
  match parse_uint32 vid with
  | None => Err ErrParse
  | Some v => match lookup_locs m v with
              | Ok ls => Ok (map url ls)
              | Err e => Err e
              end
  end.

(* strings.Split(fileId, ","): number of parts and the first part *)
Fixpoint count_commas (s : string) : nat :=
  match s with
  | EmptyString => O
  | String c s' => (if Ascii.eqb c ","%char then 1 else 0) + count_commas s'
  end.
Fixpoint before_comma (s : string) : string :=
  match s with
  | EmptyString => EmptyString
  | String c s' => if Ascii.eqb c ","%char then EmptyString else String c (before_comma s')
  end.

(* LookupFileId *)
Definition lookup_file_id (m : vmap) (fid : string) : res (list string) :=
  if Nat.eqb (count_commas fid) 1 then
    match lookup_volume_server_url m (before_comma fid) with
    | Ok us => Ok (map (fun u => "http://" ++ u ++ "/" ++ fid)%string us)
    | Err e => Err e
    end
  else Err ErrInvalidFileId.

(* GetVidLocations: the internal slice again *)
Definition get_vid_locations (m : vmap) (vid : string) : res slice :=
  match parse_uint32 vid with
  | None => Err ErrParse
  | Some v => match get_locations m v with
              | Some s => Ok s
              | None => Err ErrNotFound
              end
  end.

(* ---- masterclient: the atomic updates a connection performs ---- *)
(* every addLocation / deleteLocation call takes the write lock on its own, so a
   reader can run between any two of them *)
Inductive ev :=
| EvAdd (v : N) (l : loc)
| EvDel (v : N) (l : loc)
| EvReset.

Definition apply (m : vmap) (e : ev) : vmap :=
  match e with
  | EvAdd v l => add_location m v l
  | EvDel v l => delete_location m v l
  (* tryAllMasters after a connection ended (or could not be made) without a
     leader hint: mc.vidMap.reset() — under the write lock the map is replaced by
     an empty one; the data center is never written after construction; arrays that
     readers still hold stay alive.  (It was mc.vidMap = newVidMap(..): a struct
     copy over the mutex, no lock.) *)
  | EvReset => new_vid_map (heap m) (data_center m)
  end.

Definition run (m : vmap) (evs : list ev) : vmap := fold_left apply evs m.

(* one received VolumeLocation message *)
Record msg := { m_leader : string; m_loc : loc; m_new : list N; m_del : list N }.

Inductive op :=
| Msg (g : msg)
| Disconnect.     (* stream error / EOF: tryConnectToMaster returns "" *)

(* body of the receive loop in tryConnectToMaster: a leader hint ends the stream
   WITHOUT touching the cache (the rest of that message is ignored and the cache
   is kept for the connection to the hinted leader); otherwise all NewVids are
   added, then all DeletedVids removed *)
Definition events_of_op (o : op) : list ev :=
  match o with
  | Msg g => if negb (String.eqb (m_leader g) "") then []
             else map (fun v => EvAdd v (m_loc g)) (m_new g) ++ map (fun v => EvDel v (m_loc g)) (m_del g)
  | Disconnect => [EvReset]
  end.
Definition events (ops : list op) : list ev := flat_map events_of_op ops.

(* NewMasterClient(..., clientDataCenter, ...) *)
Definition init (d : string) : vmap := new_vid_map [] d.

(* ================= reference: plain lists, no sharing ================= *)
(* vid -> the locations currently added, in arrival order, one per Url *)
Definition rmap := list (N * list loc).

Fixpoint r_find (v : N) (r : rmap) : option (list loc) :=
  match r with
  | [] => None
  | (w, ls) :: r' => if N.eqb v w then Some ls else r_find v r'
  end.
Definition r_put (v : N) (ls : list loc) (r : rmap) : rmap :=
  (v, ls) :: filter (fun e => negb (N.eqb v (fst e))) r.
Definition r_remove (v : N) (r : rmap) : rmap := filter (fun e => negb (N.eqb v (fst e))) r.

Definition r_add (r : rmap) (v : N) (l : loc) : rmap :=
  match r_find v r with
  | None => r_put v [l] r
  | Some ls => if has_url (url l) ls then r else r_put v (ls ++ [l]) r
  end.

Fixpoint remove_url (u : string) (ls : list loc) : list loc :=
  match ls with
  | [] => []
  | l :: ls' => if String.eqb (url l) u then ls' else l :: remove_url u ls'
  end.

Definition r_del (r : rmap) (v : N) (l : loc) : rmap :=
  match r_find v r with
  | None => r
  | Some ls => if has_url (url l) ls
               then match remove_url (url l) ls with
                    | [] => r_remove v r          (* nothing left: not-found again *)
                    | ls' => r_put v ls' r
                    end
               else r
  end.

Definition r_apply (r : rmap) (e : ev) : rmap :=
  match e with
  | EvAdd v l => r_add r v l
  | EvDel v l => r_del r v l
  | EvReset => []
  end.
Definition r_run (r : rmap) (evs : list ev) : rmap := fold_left r_apply evs r.

(* the answer the property asks for: the current locations, those of the
   client's own data center first *)
Definition r_lookup (d : string) (r : rmap) (v : N) : res (list loc) :=
  match r_find v r with
  | None => Err ErrNotFound
  | Some ls => Ok (rev (filter (same_dc d) ls) ++ filter (fun l => negb (same_dc d l)) ls)
  end.

(* "currently added", stated on the history alone: the location that made Url u
   live for volume v and has not been removed or reset since *)
Definition live_step (v : N) (u : string) (st : option loc) (e : ev) : option loc :=
  match e with
  | EvAdd w l => if N.eqb v w && String.eqb (url l) u
                 then match st with None => Some l | Some _ => st end else st
  | EvDel w l => if N.eqb v w && String.eqb (url l) u then None else st
  | EvReset => None
  end.
Definition live (v : N) (u : string) (evs : list ev) : option loc :=
  fold_left (live_step v u) evs None.

Definition find_url (u : string) (ls : list loc) : option loc :=
  find (fun l => String.eqb (url l) u) ls.
