(* Model of replicated uploads and deletes (C40):
     weed/server/volume_server_handlers_write.go   PostHandler, DeleteHandler
     weed/storage/needle/needle_parse_upload.go    ParseUpload, parsePut, parseMultipart
     weed/storage/needle/needle.go                 CreateNeedleFromRequest
     weed/topology/store_replicate.go              ReplicatedWrite, ReplicatedDelete, distributedOperation
     weed/operation/upload_content.go              UploadData -> doUploadData -> upload_content
     weed/util/compression.go                      IsCompressableFileType
     weed/storage/volume_write.go / volume_read.go / needle_read_write.go  (what a stored needle reads back as)
   Executable definitions only; proofs are in proof/ReplWriteProofs.v.

   Pipeline:  client request --create_needle--> primary needle --stored/view--> what the primary serves
              primary needle --replicate--> replica request --create_needle--> replica needle --view--> ...
   Library functions are oracles whose values on the case's inputs are part of the
   input: http.DetectContentType of the primary's bytes ([u_detect]),
   mime.TypeByExtension ([u_ext_types], an association list), the 128-byte gzip probe
   ([u_gz128]).  gzip itself is symbolic: a body is identified by the (length, crc) of
   its DECODED bytes plus a bit saying whether the stored bytes are the gzip stream of
   them.  The multipart/HTTP transport is assumed to deliver file name, part headers,
   query and Seaweed- headers unchanged. *)
From Coq Require Import List NArith Bool String Ascii.
Import ListNotations.
Local Open Scope string_scope.
Local Open Scope N_scope.

(* ---------- strings ---------- *)

Definition slash : ascii := "/"%char.
Definition dot : ascii := "."%char.

Definition slen (s : string) : N := N.of_nat (String.length s).

(* strings.ToLower on ASCII *)
Definition lower_ascii (c : ascii) : ascii :=
  let n := N_of_ascii c in
  if (65 <=? n) && (n <=? 90) then ascii_of_N (n + 32) else c.
Fixpoint lower (s : string) : string :=
  match s with EmptyString => EmptyString | String c r => String (lower_ascii c) (lower r) end.

(* the part after the last '/' (the whole string when there is none) *)
Fixpoint existsb_slash (s : string) : bool :=
  match s with EmptyString => false | String c r => Ascii.eqb c slash || existsb_slash r end.
Fixpoint after_last_slash (s : string) : string :=
  match s with
  | EmptyString => EmptyString
  | String c r => if existsb_slash r then after_last_slash r
                  else if Ascii.eqb c slash then r else s
  end.

(* drop trailing '/' *)
Fixpoint strip_slashes (s : string) : string :=
  match s with
  | EmptyString => EmptyString
  | String c r =>
      match strip_slashes r with
      | EmptyString => if Ascii.eqb c slash then EmptyString else String c EmptyString
      | r' => String c r'
      end
  end.

(* path.Base / filepath.Base (Linux) *)
Definition base (s : string) : string :=
  match s with
  | EmptyString => "."
  | _ => match strip_slashes s with
         | EmptyString => "/"
         | t => after_last_slash t
         end
  end.

(* the suffix starting at the last '.', if any *)
Fixpoint last_dot_suffix (s : string) : option string :=
  match s with
  | EmptyString => None
  | String c r =>
      match last_dot_suffix r with
      | Some x => Some x
      | None => if Ascii.eqb c dot then Some s else None
      end
  end.

(* parseMultipart: dotIndex := strings.LastIndex(name, "."); if dotIndex > 0 { ext = ToLower(name[dotIndex:]) } *)
Definition ext_lastindex (name : string) : string :=
  match name with
  | EmptyString => ""
  | String _ r => match last_dot_suffix r with Some x => lower x | None => "" end
  end.

(* upload_content: strings.ToLower(filepath.Ext(filename)) *)
Definition ext_filepath (name : string) : string :=
  match last_dot_suffix (after_last_slash name) with Some x => lower x | None => "" end.

Definition has_prefix (p s : string) : bool := String.prefix p s.
Fixpoint rev_string (s acc : string) : string :=
  match s with EmptyString => acc | String c r => rev_string r (String c acc) end.
Definition has_suffix (p s : string) : bool := String.prefix (rev_string p "") (rev_string s "").

Definition octet : string := "application/octet-stream".

Fixpoint in_strs (s : string) (l : list string) : bool :=
  match l with [] => false | x :: l' => String.eqb s x || in_strs s l' end.

(* util.IsCompressableFileType(ext, mtype) = (shouldBeCompressed, iAmSure) *)
Definition is_compressable (ext mtype : string) : bool * bool :=
  if has_prefix "text/" mtype then (true, true)
  else if in_strs ext [".svg"; ".bmp"; ".wav"] then (true, true)
  else if has_prefix "image/" mtype then (false, true)
  else if in_strs ext [".zip"; ".rar"; ".gz"; ".bz2"; ".xz"; ".zst"; ".br"] then (false, true)
  else if in_strs ext [".pdf"; ".txt"; ".html"; ".htm"; ".css"; ".js"; ".json"] then (true, true)
  else if in_strs ext [".php"; ".java"; ".go"; ".rb"; ".c"; ".cpp"; ".h"; ".hpp"] then (true, true)
  else if in_strs ext [".png"; ".jpg"; ".jpeg"] then (false, true)
  else if has_prefix "application/" mtype && has_suffix "zstd" mtype then (false, true)
  else if has_prefix "application/" mtype && has_suffix "xml" mtype then (true, true)
  else if has_prefix "application/" mtype && has_suffix "script" mtype then (true, true)
  else if has_prefix "application/" mtype && has_suffix "vnd.rar" mtype then (false, true)
  else if in_strs mtype ["audio/wave"; "audio/wav"; "audio/x-wav"; "audio/x-pn-wav"] then (true, true)
  else (false, false).

(* ---------- data ---------- *)

(* a body: (length, crc) of the decoded bytes; [b_gz]: the bytes are the gzip stream of them *)
Record body := { b_len : N; b_crc : N; b_gz : bool }.
Definition body_empty (b : body) : bool := negb (b_gz b) && (b_len b =? 0).

Definition pairs := list (string * string).

(* what a volume server's write handler receives *)
Record request := {
  q_put : bool;                 (* PUT (raw body) instead of a multipart POST *)
  q_name : string;              (* filename parameter of the part *)
  q_ctype : string;             (* Content-Type of the part (POST) / request (PUT); "" = absent *)
  q_gzip : bool;                (* Content-Encoding: gzip *)
  q_pairs : pairs;              (* Seaweed- headers, prefix trimmed, sorted by key *)
  q_ts : N;                     (* ts query parameter, 0 = absent *)
  q_ttl_set : bool;             (* ttl query parameter non-empty *)
  q_ttl : N * N;                (* ReadTTL of it: (Count, Unit), error ignored *)
  q_cm : bool;                  (* cm query parameter *)
  q_body : body
}.

(* the needle CreateNeedleFromRequest hands to the store *)
Record needle := {
  n_has_name : bool; n_name : string;
  n_has_mime : bool; n_mime : string;
  n_has_pairs : bool; n_pairs : pairs;
  n_compressed : bool;
  n_lastmod : N;                (* 64-bit *)
  n_ttl_set : bool; n_ttl : N * N;   (* n.Ttl != EMPTY_TTL; (Count, Unit) *)
  n_cm : bool;
  n_body : body
}.

(* oracle values *)
Record oracles := {
  o_detect : string;                    (* http.DetectContentType(primary needle's Data) *)
  o_gz128 : bool;                       (* len(gzip(Data[0:128]))*10 < 128*9 *)
  o_ext_types : list (string * string)  (* mime.TypeByExtension *)
}.

Fixpoint assoc (l : list (string * string)) (k : string) : string :=
  match l with [] => "" | (k', v) :: l' => if String.eqb k k' then v else assoc l' k end.
Definition tbe (o : oracles) (ext : string) : string :=
  match ext with EmptyString => "" | _ => assoc (o_ext_types o) ext end.

(* the primary's clock at the upload, as a token *)
Definition NOW : N := 1.

(* parseMultipart / parsePut + ParseUpload + CreateNeedleFromRequest *)
Definition parsed_name (q : request) : string :=
  if q_put q then "" else match q_name q with EmptyString => "" | nm => base nm end.

Definition parsed_mime (o : oracles) (q : request) : string :=
  if q_put q then q_ctype q
  else if q_cm q then ""
  else
    let mtype := tbe o (ext_lastindex (parsed_name q)) in
    let ct := q_ctype q in
    if negb (String.eqb ct "") && negb (String.eqb ct octet) && negb (String.eqb mtype ct) then ct else "".

Definition create_needle (o : oracles) (q : request) : needle :=
  let fname := parsed_name q in
  let mime := parsed_mime o q in
  let hn := slen fname <? 256 in
  let hm := slen mime <? 256 in
  {| n_has_name := hn; n_name := if hn then fname else "";
     n_has_mime := hm; n_mime := if hm then mime else "";
     n_has_pairs := match q_pairs q with [] => false | _ => true end; n_pairs := q_pairs q;
     n_compressed := q_gzip q;
     n_lastmod := if q_ts q =? 0 then NOW else q_ts q;
     n_ttl_set := q_ttl_set q; n_ttl := if q_ttl_set q then q_ttl q else (0, 0);
     n_cm := if q_put q then false else q_cm q;
     n_body := q_body q |}.

(* TTL.String() then ReadTTL: "" unless Count > 0 and the unit is one of m h d w M y *)
Definition ttl_norm (t : N * N) : N * N :=
  let '(c, u) := t in
  if (c =? 0) || (u =? 0) || (6 <? u) then (0, 0) else (c, u).

(* ReplicatedWrite's per-location closure + doUploadData + upload_content: the
   request a replica receives *)
Definition repl_mtype1 (o : oracles) (n : needle) : string :=
  if negb (n_compressed n) && String.eqb (n_mime n) "" then
    (if String.eqb (o_detect o) octet then "" else o_detect o)
  else n_mime n.

Definition repl_gz_now (o : oracles) (n : needle) : bool :=
  if n_compressed n then false
  else
    let mtype := repl_mtype1 o n in
    let '(should, sure) := is_compressable (base (n_name n)) mtype in
    if sure && should then true
    else if negb sure && String.eqb mtype "" && (16384 <? b_len (n_body n)) then o_gz128 o
    else false.

Definition replicate (o : oracles) (n : needle) : request :=
  let mtype1 := repl_mtype1 o n in
  let gz_now := repl_gz_now o n in
  let mtype2 := if String.eqb mtype1 "" then tbe o (ext_filepath (n_name n)) else mtype1 in
  let t := ttl_norm (n_ttl n) in
  {| q_put := false;
     q_name := n_name n;
     q_ctype := mtype2;
     q_gzip := n_compressed n || gz_now;
     q_pairs := if n_has_pairs n then n_pairs n else [];
     q_ts := n_lastmod n;
     q_ttl_set := negb ((fst t =? 0) && (snd t =? 0)); q_ttl := t;
     q_cm := n_cm n;
     q_body := if gz_now then {| b_len := b_len (n_body n); b_crc := b_crc (n_body n); b_gz := true |} else n_body n |}.

(* ---------- what a store serves for the file id ---------- *)
Record view := {
  so_state : N;      (* 0 served, 1 not found, 2 deleted, 3 the server does not hold the volume *)
  so_flags : N;
  so_name : string; so_mime : string; so_pairs : pairs;
  so_lastmod : N; so_ttl : N * N;
  so_dec_ok : bool; so_len : N; so_crc : N
}.

Definition blank (state : N) (dec_ok : bool) : view :=
  {| so_state := state; so_flags := 0; so_name := ""; so_mime := ""; so_pairs := [];
     so_lastmod := 0; so_ttl := (0, 0); so_dec_ok := dec_ok; so_len := 0; so_crc := 0 |}.

Definition bit (b : bool) (v : N) : N := if b then v else 0.

Definition flags_of (n : needle) : N :=
  bit (n_compressed n) 1 + bit (n_has_name n) 2 + bit (n_has_mime n) 4 + 8 (* CreateNeedleFromRequest always sets last-modified *)
  + bit (n_ttl_set n) 16 + bit (n_has_pairs n) 32 + bit (n_cm n) 128.

(* Append + readNeedle: a needle whose Data is empty is stored as a Size = 0 record and
   reads back with nothing at all; otherwise the fields whose flag is set come back,
   last-modified through 5 bytes *)
Definition view_of (n : needle) : view :=
  if body_empty (n_body n) then blank 0 true
  else
    {| so_state := 0; so_flags := flags_of n;
       so_name := if n_has_name n then n_name n else "";
       so_mime := if n_has_mime n then n_mime n else "";
       so_pairs := if n_has_pairs n then n_pairs n else [];
       so_lastmod := n_lastmod n mod 1099511627776;
       so_ttl := if n_ttl_set n then ttl_norm (n_ttl n) else (0, 0);
       (* the reader's decode: gunzip when the compressed flag is set *)
       so_dec_ok := if n_compressed n then b_gz (n_body n) else true;
       so_len := b_len (n_body n); so_crc := b_crc (n_body n) |}.

(* ---------- one upload (and an optional delete) against a replicated volume ---------- *)
Record upload := {
  u_req : request;
  u_oracles : oracles;
  u_nrepl : N;      (* locations other than the primary the master lists *)
  u_fault : N;      (* 0 none; 1 one replica answers 500; 2 one replica is down;
                       3 the listed replicas are volume servers that do not hold the volume *)
  u_delete : bool
}.

Definition primary_needle (u : upload) : needle := create_needle (u_oracles u) (u_req u).
Definition replica_needle (u : upload) : needle :=
  create_needle (u_oracles u) (replicate (u_oracles u) (primary_needle u)).

(* how many listed replicas are real volume servers holding the volume / reachable at all *)
Definition healthy_replicas (u : upload) : N :=
  match u_fault u with 1 | 2 => u_nrepl u - 1 | _ => u_nrepl u end.

(* ReplicatedWrite: local write, then every other location; any error => 500.  A
   location that receives type=replicate for a volume it does not hold answers with an
   error (the repaired ReplicatedWrite; it used to skip the write and answer 201). *)
Definition upload_status (u : upload) : N :=
  match u_fault u with 1 | 2 | 3 => 500 | _ => 201 end.

Definition replica_view (u : upload) : view :=
  if u_fault u =? 3 then blank 3 false else view_of (replica_needle u).

(* primary first, then the real servers among the other locations *)
Definition views_after_upload (u : upload) : list view :=
  view_of (primary_needle u) :: repeat (replica_view u) (N.to_nat (healthy_replicas u)).

(* DeleteHandler + ReplicatedDelete: a Size = 0 needle is found but cannot be deleted; a
   location that does not hold the volume answers 404, which util.Delete accepts *)
Definition delete_status (u : upload) : N :=
  match u_fault u with 1 | 2 => 500 | _ => 202 end.

Definition deleted_view (n : needle) : view :=
  if body_empty (n_body n) then blank 0 true else blank 2 false.

Definition views_after_delete (u : upload) : list view :=
  deleted_view (primary_needle u) ::
  repeat (if u_fault u =? 3 then blank 3 false else deleted_view (replica_needle u)) (N.to_nat (healthy_replicas u)).

(* ---------- the property ---------- *)
Definition pairs_eqb (a b : pairs) : bool :=
  (fix go (a b : pairs) : bool :=
     match a, b with
     | [], [] => true
     | (k, v) :: a', (k', v') :: b' => String.eqb k k' && String.eqb v v' && go a' b'
     | _, _ => false
     end) a b.

(* the outcome the property compares: served or not, decoded content, name, mime,
   pairs, last-modified, TTL (flags are not part of it) *)
Definition same_outcome (a b : view) : bool :=
  (so_state a =? so_state b) && String.eqb (so_name a) (so_name b) && String.eqb (so_mime a) (so_mime b)
  && pairs_eqb (so_pairs a) (so_pairs b) && (so_lastmod a =? so_lastmod b)
  && (fst (so_ttl a) =? fst (so_ttl b)) && (snd (so_ttl a) =? snd (so_ttl b))
  && Bool.eqb (so_dec_ok a) (so_dec_ok b) && (so_len a =? so_len b) && (so_crc a =? so_crc b).

(* not served: absent, tombstoned, or the server holds nothing of the volume *)
Definition is_deleted (v : view) : bool := (so_state v =? 1) || (so_state v =? 2) || (so_state v =? 3).

Definition success (status : N) : bool := (status =? 201) || (status =? 204) || (status =? 202).

(* an acknowledged upload leaves every replica with the primary's outcome *)
Definition upload_consistent (status : N) (vs : list view) : bool :=
  negb (success status) || match vs with [] => true | p :: rs => forallb (same_outcome p) rs end.
(* an acknowledged delete leaves the file deleted everywhere *)
Definition delete_consistent (status : N) (vs : list view) : bool :=
  negb (success status) || forallb is_deleted vs.

(* ---------- triggers of the known findings ---------- *)

(* 0: the replica re-derives the mime type: a PUT's application/octet-stream is dropped;
   an empty mime is replaced by the sniffed type or by the extension's type *)
Definition keep256 (s : string) : string := if slen s <? 256 then s else "".

Definition trig_mime (u : upload) : bool :=
  let o := u_oracles u in
  let n := primary_needle u in
  negb (n_cm n) &&
  (String.eqb (n_mime n) octet ||
   (String.eqb (n_mime n) "" &&
    (* the type the replication client attaches: sniffed (unless the bytes are gzip-encoded
       or sniff as octet-stream), else the one filepath.Ext of the name implies *)
    let m1 := repl_mtype1 o n in
    let t := if String.eqb m1 "" then tbe o (ext_filepath (n_name n)) else m1 in
    negb (String.eqb (keep256 t) "") && negb (String.eqb t octet)
    && negb (String.eqb t (tbe o (ext_lastindex (parsed_name (replicate o n))))))).

(* 1: empty payload *)
Definition trig_empty (u : upload) : bool := body_empty (q_body (u_req u)).

Definition trigger (u : upload) : option N :=
  if trig_empty u then Some 1
  else if trig_mime u then Some 0
  else None.
