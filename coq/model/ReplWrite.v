(* Model of replicated uploads and deletes (C40):
     weed/server/volume_server_handlers_write.go   PostHandler, DeleteHandler
     weed/storage/needle/needle_parse_upload.go    ParseUpload, parsePut, parseMultipart
     weed/storage/needle/needle.go                 CreateNeedleFromRequest
     weed/topology/store_replicate.go              ReplicatedWrite, ReplicatedDelete, distributedOperation
     weed/operation/upload_content.go              UploadData -> doUploadData -> upload_content
     weed/util/compression.go                      IsCompressableFileType
     weed/storage/volume_write.go / volume_read.go / needle_read_write.go  (what a stored needle reads back as)
   Executable definitions only; proofs are in proof/ReplWriteProofs.v (the replication
   request) and proof/ReplWriteHistProofs.v (the state machine: per server and file id a
   slot, Volume.doWriteRequest with isFileUnchanged and the cookie check, the
   DeleteHandler, ReplicatedWrite / ReplicatedDelete with per-step replica faults).

   Pipeline:  client request --create_needle--> primary needle --stored/view--> what the primary serves
              primary needle --replicate--> replica request --create_needle--> replica needle --view--> ...
   Library functions are oracles whose values on the case's inputs are part of the
   input: http.DetectContentType of the primary's bytes ([u_detect]),
   mime.TypeByExtension ([u_ext_types], an association list), the 128-byte gzip probe
   ([u_gz128]).  gzip itself is symbolic: a body is identified by the (length, crc) of
   its DECODED bytes plus a bit saying whether the stored bytes are the gzip stream of
   them.  The multipart/HTTP transport is assumed to deliver file name, part headers,
   query and Seaweed- headers unchanged. *)
From Coq Require Import List NArith Bool String Ascii.
Import ListNotations.
Local Open Scope string_scope.
Local Open Scope N_scope.

(* ---------- strings ---------- *)

Definition slash : ascii := "/"%char.
Definition dot : ascii := "."%char.

Definition slen (s : string) : N := N.of_nat (String.length s).

(* strings.ToLower on ASCII *)
Definition lower_ascii (c : ascii) : ascii :=
  let n := N_of_ascii c in
  if (65 <=? n) && (n <=? 90) then ascii_of_N (n + 32) else c.
Fixpoint lower (s : string) : string :=
  match s with EmptyString => EmptyString | String c r => String (lower_ascii c) (lower r) end.

(* the part after the last '/' (the whole string when there is none) *)
Fixpoint existsb_slash (s : string) : bool :=
  match s with EmptyString => false | String c r => Ascii.eqb c slash || existsb_slash r end.
Fixpoint after_last_slash (s : string) : string :=
  match s with
  | EmptyString => EmptyString
  | String c r => if existsb_slash r then after_last_slash r
                  else if Ascii.eqb c slash then r else s
  end.

(* drop trailing '/' *)
Fixpoint strip_slashes (s : string) : string :=
  match s with
  | EmptyString => EmptyString
  | String c r =>
      match strip_slashes r with
      | EmptyString => if Ascii.eqb c slash then EmptyString else String c EmptyString
      | r' => String c r'
      end
  end.

(* path.Base / filepath.Base (Linux) *)
Definition base (s : string) : string :=
  match s with
  | EmptyString => "."
  | _ => match strip_slashes s with
         | EmptyString => "/"
         | t => after_last_slash t
         end
  end.

(* the suffix starting at the last '.', if any *)
Fixpoint last_dot_suffix (s : string) : option string :=
  match s with
  | EmptyString => None
  | String c r =>
      match last_dot_suffix r with
      | Some x => Some x
      | None => if Ascii.eqb c dot then Some s else None
      end
  end.

(* parseMultipart: dotIndex := strings.LastIndex(name, "."); if dotIndex > 0 { ext = ToLower(name[dotIndex:]) } *)
Definition ext_lastindex (name : string) : string :=
  match name with
  | EmptyString => ""
  | String _ r => match last_dot_suffix r with Some x => lower x | None => "" end
  end.

(* upload_content: strings.ToLower(filepath.Ext(filename)) *)
Definition ext_filepath (name : string) : string :=
  match last_dot_suffix (after_last_slash name) with Some x => lower x | None => "" end.

Definition has_prefix (p s : string) : bool := String.prefix p s.
Fixpoint rev_string (s acc : string) : string :=
  match s with EmptyString => acc | String c r => rev_string r (String c acc) end.
Definition has_suffix (p s : string) : bool := String.prefix (rev_string p "") (rev_string s "").

Definition octet : string := "application/octet-stream".

Fixpoint in_strs (s : string) (l : list string) : bool :=
  match l with [] => false | x :: l' => String.eqb s x || in_strs s l' end.

(* util.IsCompressableFileType(ext, mtype) = (shouldBeCompressed, iAmSure) *)
Definition is_compressable (ext mtype : string) : bool * bool :=
  if has_prefix "text/" mtype then (true, true)
  else if in_strs ext [".svg"; ".bmp"; ".wav"] then (true, true)
  else if has_prefix "image/" mtype then (false, true)
  else if in_strs ext [".zip"; ".rar"; ".gz"; ".bz2"; ".xz"; ".zst"; ".br"] then (false, true)
  else if in_strs ext [".pdf"; ".txt"; ".html"; ".htm"; ".css"; ".js"; ".json"] then (true, true)
  else if in_strs ext [".php"; ".java"; ".go"; ".rb"; ".c"; ".cpp"; ".h"; ".hpp"] then (true, true)
  else if in_strs ext [".png"; ".jpg"; ".jpeg"] then (false, true)
  else if has_prefix "application/" mtype && has_suffix "zstd" mtype then (false, true)
  else if has_prefix "application/" mtype && has_suffix "xml" mtype then (true, true)
  else if has_prefix "application/" mtype && has_suffix "script" mtype then (true, true)
  else if has_prefix "application/" mtype && has_suffix "vnd.rar" mtype then (false, true)
  else if in_strs mtype ["audio/wave"; "audio/wav"; "audio/x-wav"; "audio/x-pn-wav"] then (true, true)
  else (false, false).

(* ---------- data ---------- *)

(* a body: (length, crc) of the decoded bytes; [b_gz]: the bytes are the gzip stream of them *)
Record body := { b_len : N; b_crc : N; b_gz : bool }.
Definition body_empty (b : body) : bool := negb (b_gz b) && (b_len b =? 0).

Definition pairs := list (string * string).

(* what a volume server's write handler receives *)
Record request := {
  q_put : bool;                 (* PUT (raw body) instead of a multipart POST *)
  q_name : string;              (* filename parameter of the part *)
  q_ctype : string;             (* Content-Type of the part (POST) / request (PUT); "" = absent *)
  q_gzip : bool;                (* Content-Encoding: gzip *)
  q_pairs : pairs;              (* Seaweed- headers, prefix trimmed, sorted by key *)
  q_ts : N;                     (* ts query parameter, 0 = absent *)
  q_ttl_set : bool;             (* ttl query parameter non-empty *)
  q_ttl : N * N;                (* ReadTTL of it: (Count, Unit), error ignored *)
  q_cm : bool;                  (* cm query parameter *)
  q_body : body
}.

(* the needle CreateNeedleFromRequest hands to the store *)
Record needle := {
  n_has_name : bool; n_name : string;
  n_has_mime : bool; n_mime : string;
  n_has_pairs : bool; n_pairs : pairs;
  n_compressed : bool;
  n_lastmod : N;                (* 64-bit *)
  n_ttl_set : bool; n_ttl : N * N;   (* n.Ttl != EMPTY_TTL; (Count, Unit) *)
  n_cm : bool;
  n_body : body
}.

(* oracle values *)
Record oracles := {
  o_detect : string;                    (* http.DetectContentType(primary needle's Data) *)
  o_gz128 : bool;                       (* len(gzip(Data[0:128]))*10 < 128*9 *)
  o_ext_types : list (string * string)  (* mime.TypeByExtension *)
}.

Fixpoint assoc (l : list (string * string)) (k : string) : string :=
  match l with [] => "" | (k', v) :: l' => if String.eqb k k' then v else assoc l' k end.
Definition tbe (o : oracles) (ext : string) : string :=
  match ext with EmptyString => "" | _ => assoc (o_ext_types o) ext end.

(* the primary's clock at the upload, as a token *)
Definition NOW : N := 1.

(* parseMultipart / parsePut + ParseUpload + CreateNeedleFromRequest *)
Definition parsed_name (q : request) : string :=
  if q_put q then "" else match q_name q with EmptyString => "" | nm => base nm end.

Definition parsed_mime (o : oracles) (q : request) : string :=
  if q_put q then q_ctype q
  else if q_cm q then ""
  else
    let mtype := tbe o (ext_lastindex (parsed_name q)) in
    let ct := q_ctype q in
    if negb (String.eqb ct "") && negb (String.eqb ct octet) && negb (String.eqb mtype ct) then ct else "".

Definition create_needle (o : oracles) (q : request) : needle :=
  let fname := parsed_name q in
  let mime := parsed_mime o q in
  let hn := slen fname <? 256 in
  let hm := slen mime <? 256 in
  {| n_has_name := hn; n_name := if hn then fname else "";
     n_has_mime := hm; n_mime := if hm then mime else "";
     n_has_pairs := match q_pairs q with [] => false | _ => true end; n_pairs := q_pairs q;
     n_compressed := q_gzip q;
     n_lastmod := if q_ts q =? 0 then NOW else q_ts q;
     n_ttl_set := q_ttl_set q; n_ttl := if q_ttl_set q then q_ttl q else (0, 0);
     n_cm := if q_put q then false else q_cm q;
     n_body := q_body q |}.

(* TTL.String() then ReadTTL: "" unless Count > 0 and the unit is one of m h d w M y *)
Definition ttl_norm (t : N * N) : N * N :=
  let '(c, u) := t in
  if (c =? 0) || (u =? 0) || (6 <? u) then (0, 0) else (c, u).

(* ReplicatedWrite's per-location closure + doUploadData + upload_content: the
   request a replica receives *)
Definition repl_mtype1 (o : oracles) (n : needle) : string :=
  if negb (n_compressed n) && String.eqb (n_mime n) "" then
    (if String.eqb (o_detect o) octet then "" else o_detect o)
  else n_mime n.

Definition repl_gz_now (o : oracles) (n : needle) : bool :=
  if n_compressed n then false
  else
    let mtype := repl_mtype1 o n in
    let '(should, sure) := is_compressable (base (n_name n)) mtype in
    if sure && should then true
    else if negb sure && String.eqb mtype "" && (16384 <? b_len (n_body n)) then o_gz128 o
    else false.

Definition replicate (o : oracles) (n : needle) : request :=
  let mtype1 := repl_mtype1 o n in
  let gz_now := repl_gz_now o n in
  let mtype2 := if String.eqb mtype1 "" then tbe o (ext_filepath (n_name n)) else mtype1 in
  let t := ttl_norm (n_ttl n) in
  {| q_put := false;
     q_name := n_name n;
     q_ctype := mtype2;
     q_gzip := n_compressed n || gz_now;
     q_pairs := if n_has_pairs n then n_pairs n else [];
     q_ts := n_lastmod n;
     q_ttl_set := negb ((fst t =? 0) && (snd t =? 0)); q_ttl := t;
     q_cm := n_cm n;
     q_body := if gz_now then {| b_len := b_len (n_body n); b_crc := b_crc (n_body n); b_gz := true |} else n_body n |}.

(* ---------- what a store serves for the file id ---------- *)
Record view := {
  so_state : N;      (* 0 served, 1 not found, 2 deleted, 3 the server does not hold the volume *)
  so_flags : N;
  so_name : string; so_mime : string; so_pairs : pairs;
  so_lastmod : N; so_ttl : N * N;
  so_dec_ok : bool; so_len : N; so_crc : N
}.

Definition blank (state : N) (dec_ok : bool) : view :=
  {| so_state := state; so_flags := 0; so_name := ""; so_mime := ""; so_pairs := [];
     so_lastmod := 0; so_ttl := (0, 0); so_dec_ok := dec_ok; so_len := 0; so_crc := 0 |}.

Definition bit (b : bool) (v : N) : N := if b then v else 0.

Definition flags_of (n : needle) : N :=
  bit (n_compressed n) 1 + bit (n_has_name n) 2 + bit (n_has_mime n) 4 + 8 (* CreateNeedleFromRequest always sets last-modified *)
  + bit (n_ttl_set n) 16 + bit (n_has_pairs n) 32 + bit (n_cm n) 128.

(* Append + readNeedle: a needle whose Data is empty is stored as a Size = 0 record and
   reads back with nothing at all; otherwise the fields whose flag is set come back,
   last-modified through 5 bytes *)
Definition view_of (n : needle) : view :=
  if body_empty (n_body n) then blank 0 true
  else
    {| so_state := 0; so_flags := flags_of n;
       so_name := if n_has_name n then n_name n else "";
       so_mime := if n_has_mime n then n_mime n else "";
       so_pairs := if n_has_pairs n then n_pairs n else [];
       so_lastmod := n_lastmod n mod 1099511627776;
       so_ttl := if n_ttl_set n then ttl_norm (n_ttl n) else (0, 0);
       (* the reader's decode: gunzip when the compressed flag is set *)
       so_dec_ok := if n_compressed n then b_gz (n_body n) else true;
       so_len := b_len (n_body n); so_crc := b_crc (n_body n) |}.

(* ---------- one volume server's copy of the volume ---------- *)

(* what the needle map and the .dat file hold for one file id: nothing; a record
   (cookie, needle as appended - a needle with an empty payload is the Size = 0 record);
   a tombstone (CompactSection.Delete negates the size and keeps the offset, so the
   cookie of the deleted record is still what doWriteRequest compares against) *)
Inductive slot := Absent | Live (ck : N) (n : needle) | Dead (ck : N).

Definition store := N -> slot.          (* needle id -> slot *)
Definition empty_store : store := fun _ => Absent.
Definition upd (s : store) (k : N) (v : slot) : store := fun k' => if k' =? k then v else s k'.

(* bytes.Equal(oldNeedle.Data, n.Data) on symbolic bodies (gzip is deterministic) *)
Definition body_eqb (a b : body) : bool :=
  (b_len a =? b_len b) && (b_crc a =? b_crc b) && Bool.eqb (b_gz a) (b_gz b).

(* Volume.doWriteRequest on a volume without TTL: 0 appended, 1 isFileUnchanged (nothing
   written, whatever the new needle's name / mime / pairs / last-modified / flags are),
   2 "mismatching cookie".  isFileUnchanged needs nv.Size.IsValid(): not a tombstone, not
   the Size = 0 record. *)
Definition write_local (s : slot) (ck : N) (n : needle) : slot * N :=
  match s with
  | Absent => (Live ck n, 0)
  | Dead ck0 => if ck0 =? ck then (Live ck n, 0) else (s, 2)
  | Live ck0 n0 =>
      if negb (body_empty (n_body n0)) && (ck0 =? ck) && body_eqb (n_body n0) (n_body n) then (s, 1)
      else if ck0 =? ck then (Live ck n, 0) else (s, 2)
  end.

(* DeleteHandler on one server: ReadVolumeNeedle (404 when absent or deleted; a Size = 0
   record reads as nothing, so the cookie comparison passes), cookie comparison (400),
   doDeleteRequest (a Size = 0 record is not IsValid: nothing happens), 202 *)
Definition delete_local (s : slot) (ck : N) : slot * N :=
  match s with
  | Absent => (s, 404)
  | Dead _ => (s, 404)
  | Live ck0 n0 =>
      if body_empty (n_body n0) then (s, 202)
      else if ck0 =? ck then (Dead ck0, 202) else (s, 400)
  end.

(* ---------- the replicated volume: primary + the other listed locations ---------- *)

(* a listed location is a volume server that holds the volume (Some) or does not (None) *)
(* [sy_nolookup]: getWritableRemoteReplications fails on the primary - operation.Lookup
   returns an error, or the master lists fewer locations than the volume's copy count -
   so every write / delete is refused before anything is written *)
Record sys := { sy_p : store; sy_r : list (option store); sy_nolookup : bool }.

Definition init (nrepl : N) (lost nolookup : bool) : sys :=
  {| sy_p := empty_store;
     sy_r := repeat (if lost then None else Some empty_store) (N.to_nat nrepl);
     sy_nolookup := nolookup |}.

(* what a replica does to the requests of ONE step: 0 serves them; 1 answers 500 to every
   attempt; 2 drops every connection; 3 serves every attempt and then answers 500 (the
   answer is lost); 4 / 5 answers 500 to the first / the first two attempts, then serves *)
Definition failed_attempts (f : N) : N := match f with 0 => 0 | 4 => 1 | 5 => 2 | _ => 3 end.
Definition upload_attempts : N := 3.    (* operation.retriedUploadData: for i := 0; i < 3; i++ *)
Definition delete_attempts : N := 1.    (* util.Delete: one request *)
Definition blocks_upload (f : N) : bool := upload_attempts <=? failed_attempts f.
Definition blocks_delete (f : N) : bool := delete_attempts <=? failed_attempts f.
Definition applies (f : N) : bool := f =? 3.

(* the replica's PostHandler for type=replicate: (new copy, answered without error).  A
   server that does not hold the volume answers with an error (the repaired
   ReplicatedWrite; it used to skip the write and answer 201).  Serving the same request
   more than once changes nothing more (the second time it is unchanged). *)
Definition replica_serve_upload (r : option store) (k ck : N) (rn : needle) : option store * bool :=
  match r with
  | None => (None, false)
  | Some s => let '(sl, res) := write_local (s k) ck rn in (Some (upd s k sl), negb (res =? 2))
  end.
Definition replica_upload (f : N) (r : option store) (k ck : N) (rn : needle) : option store * bool :=
  if blocks_upload f then ((if applies f then fst (replica_serve_upload r k ck rn) else r), false)
  else replica_serve_upload r k ck rn.

(* distributedOperation: every location is contacted; any error fails the operation *)
Fixpoint replicas_upload (fs : list N) (rs : list (option store)) (k ck : N) (rn : needle)
  : list (option store) * bool :=
  match rs with
  | [] => ([], true)
  | r :: rs' =>
      let '(r', ok) := replica_upload (hd 0 fs) r k ck rn in
      let '(rs'', ok') := replicas_upload (tl fs) rs' k ck rn in
      (r' :: rs'', ok && ok')
  end.

(* PostHandler + ReplicatedWrite on the primary: local write first (an error ends the
   request, nothing is sent); then the request built from the REQUEST's needle - also
   when the local write was "unchanged" - goes to every other location; 204 when the
   local write was unchanged and nobody failed, 201, or 500 *)
Definition upload_step (sy : sys) (o : oracles) (q : request) (k ck : N) (fs : list N) : sys * N :=
  if sy_nolookup sy then (sy, 500)
  else
  let n := create_needle o q in
  let '(sl, res) := write_local (sy_p sy k) ck n in
  if res =? 2 then (sy, 500)
  else
    let rn := create_needle o (replicate o n) in
    let '(rs, ok) := replicas_upload fs (sy_r sy) k ck rn in
    ({| sy_p := upd (sy_p sy) k sl; sy_r := rs; sy_nolookup := false |},
     if ok then (if res =? 1 then 204 else 201) else 500).

(* the replica's DeleteHandler for type=replicate; a server without the volume answers
   404, which util.Delete accepts like 202 *)
Definition replica_serve_delete (r : option store) (k ck : N) : option store * bool :=
  match r with
  | None => (None, true)
  | Some s => let '(sl, st) := delete_local (s k) ck in (Some (upd s k sl), (st =? 202) || (st =? 404))
  end.
Definition replica_delete (f : N) (r : option store) (k ck : N) : option store * bool :=
  if blocks_delete f then ((if applies f then fst (replica_serve_delete r k ck) else r), false)
  else replica_serve_delete r k ck.

Fixpoint replicas_delete (fs : list N) (rs : list (option store)) (k ck : N)
  : list (option store) * bool :=
  match rs with
  | [] => ([], true)
  | r :: rs' =>
      let '(r', ok) := replica_delete (hd 0 fs) r k ck in
      let '(rs'', ok') := replicas_delete (tl fs) rs' k ck in
      (r' :: rs'', ok && ok')
  end.

(* DeleteHandler + ReplicatedDelete on the primary: 404 / 400 end the request before
   anything is sent; ReplicatedDelete looks the locations up before the local delete *)
Definition delete_step (sy : sys) (k ck : N) (fs : list N) : sys * N :=
  let '(sl, st) := delete_local (sy_p sy k) ck in
  if negb (st =? 202) then (sy, st)
  else if sy_nolookup sy then (sy, 500)
  else
    let '(rs, ok) := replicas_delete fs (sy_r sy) k ck in
    ({| sy_p := upd (sy_p sy) k sl; sy_r := rs; sy_nolookup := false |}, if ok then 202 else 500).

(* ---------- histories ---------- *)
Inductive op := Up (o : oracles) (q : request) | Del.
Record step := { s_key : N; s_ck : N; s_op : op; s_faults : list N (* one per listed replica *) }.

Definition do_step (sy : sys) (s : step) : sys * N :=
  match s_op s with
  | Up o q => upload_step sy o q (s_key s) (s_ck s) (s_faults s)
  | Del => delete_step sy (s_key s) (s_ck s) (s_faults s)
  end.

(* the states and statuses a history goes through *)
Fixpoint run (sy : sys) (h : list step) : list (sys * N) :=
  match h with
  | [] => []
  | s :: h' => let r := do_step sy s in r :: run (fst r) h'
  end.

(* what each server serves for a file id: primary first *)
Definition slot_view (s : slot) : view :=
  match s with Absent => blank 1 false | Dead _ => blank 2 false | Live _ n => view_of n end.
Definition server_view (r : option store) (k : N) : view :=
  match r with None => blank 3 false | Some s => slot_view (s k) end.
Definition key_views (sy : sys) (k : N) : list view :=
  slot_view (sy_p sy k) :: map (fun r => server_view r k) (sy_r sy).

(* ---------- the property ---------- *)
Definition pairs_eqb (a b : pairs) : bool :=
  (fix go (a b : pairs) : bool :=
     match a, b with
     | [], [] => true
     | (k, v) :: a', (k', v') :: b' => String.eqb k k' && String.eqb v v' && go a' b'
     | _, _ => false
     end) a b.

(* the outcome the property compares: served or not, decoded content, name, mime,
   pairs, last-modified, TTL (flags are not part of it) *)
Definition same_outcome (a b : view) : bool :=
  (so_state a =? so_state b) && String.eqb (so_name a) (so_name b) && String.eqb (so_mime a) (so_mime b)
  && pairs_eqb (so_pairs a) (so_pairs b) && (so_lastmod a =? so_lastmod b)
  && (fst (so_ttl a) =? fst (so_ttl b)) && (snd (so_ttl a) =? snd (so_ttl b))
  && Bool.eqb (so_dec_ok a) (so_dec_ok b) && (so_len a =? so_len b) && (so_crc a =? so_crc b).

(* not served: absent, tombstoned, or the server holds nothing of the volume *)
Definition is_deleted (v : view) : bool := (so_state v =? 1) || (so_state v =? 2) || (so_state v =? 3).

Definition success (status : N) : bool := (status =? 201) || (status =? 204) || (status =? 202).

(* an acknowledged upload leaves every replica with the primary's outcome *)
Definition upload_consistent (status : N) (vs : list view) : bool :=
  negb (success status) || match vs with [] => true | p :: rs => forallb (same_outcome p) rs end.
(* an acknowledged delete leaves the file deleted everywhere *)
Definition delete_consistent (status : N) (vs : list view) : bool :=
  negb (success status) || forallb is_deleted vs.

(* ---------- triggers of the known findings ---------- *)

(* 0: the replica re-derives the mime type: a PUT's application/octet-stream is dropped;
   an empty mime is replaced by the sniffed type or by the extension's type *)
Definition keep256 (s : string) : string := if slen s <? 256 then s else "".

Definition trig_mime (o : oracles) (q : request) : bool :=
  let n := create_needle o q in
  (* an empty payload reads back without any mime type *)
  negb (body_empty (n_body n)) &&
  negb (n_cm n) &&
  (String.eqb (n_mime n) octet ||
   (String.eqb (n_mime n) "" &&
    (* the type the replication client attaches: sniffed (unless the bytes are gzip-encoded
       or sniff as octet-stream), else the one filepath.Ext of the name implies *)
    let m1 := repl_mtype1 o n in
    let t := if String.eqb m1 "" then tbe o (ext_filepath (n_name n)) else m1 in
    negb (String.eqb (keep256 t) "") && negb (String.eqb t octet)
    && negb (String.eqb t (tbe o (ext_lastindex (parsed_name (replicate o n))))))).

(* 1: empty payload.  Upload steps: the primary stores the Size = 0 record while the
   replicas are sent a non-empty body (the replication client gzips the empty payload
   whenever the mime type - sniffed as text/plain when the primary kept none - or the
   name asks for compression; an empty payload under e.g. image/jpeg, or one labelled
   gzip, reaches the replicas empty and is consistent).  Delete steps: some server holds
   the Size = 0 record of an earlier empty upload for this file id. *)
Definition trig_empty (o : oracles) (q : request) : bool :=
  let n := create_needle o q in
  body_empty (n_body n) && negb (body_empty (n_body (create_needle o (replicate o n)))).

Definition slot_empty (s : slot) : bool :=
  match s with Live _ n => body_empty (n_body n) | _ => false end.
Definition server_slot_empty (r : option store) (k : N) : bool :=
  match r with Some s => slot_empty (s k) | None => false end.
Definition trig_empty_slot (sy : sys) (k : N) : bool :=
  slot_empty (sy_p sy k) || existsb (fun r => server_slot_empty r k) (sy_r sy).

(* 2: a server answers "unchanged" (same cookie, same stored bytes) while the needle it
   holds for the file id has another outcome than the one it was sent: it keeps the old
   name / mime / pairs / last-modified / TTL / compression flag (C01's
   unchanged-drops-metadata), and the other servers - which are always sent the new
   request - may not *)
Definition is_unchanged (s : slot) (ck : N) (n : needle) : bool :=
  match s with
  | Live ck0 n0 => negb (body_empty (n_body n0)) && (ck0 =? ck) && body_eqb (n_body n0) (n_body n)
  | _ => false
  end.
Definition unchanged_drops (s : slot) (ck : N) (n : needle) : bool :=
  is_unchanged s ck n && negb (same_outcome (slot_view s) (view_of n)).
Definition server_unchanged_drops (r : option store) (k ck : N) (n : needle) : bool :=
  match r with Some s => unchanged_drops (s k) ck n | None => false end.
(* ... unless EVERY listed server answers "unchanged" and they all hold the same outcome
   already: then nothing changes anywhere and they still agree (the new metadata is
   dropped by all of them alike - C01's finding, not a divergence) *)
Definition server_unchanged_alike (pv : view) (r : option store) (k ck : N) (n : needle) : bool :=
  match r with Some s => is_unchanged (s k) ck n && same_outcome pv (slot_view (s k)) | None => false end.
Definition all_unchanged_alike (sy : sys) (k ck : N) (n rn : needle) : bool :=
  is_unchanged (sy_p sy k) ck n
  && forallb (fun r => server_unchanged_alike (slot_view (sy_p sy k)) r k ck rn) (sy_r sy).
Definition trig_unchanged (sy : sys) (o : oracles) (q : request) (k ck : N) : bool :=
  let n := create_needle o q in
  let rn := create_needle o (replicate o n) in
  (unchanged_drops (sy_p sy k) ck n || existsb (fun r => server_unchanged_drops r k ck rn) (sy_r sy))
  && negb (all_unchanged_alike sy k ck n rn).

(* what still holds inside the triggers: everything but the mime type (trigger 0); the
   decoded content (triggers 1 and 2, and always) *)
Definition clear_mime (v : view) : view :=
  {| so_state := so_state v; so_flags := so_flags v; so_name := so_name v; so_mime := ""; so_pairs := so_pairs v;
     so_lastmod := so_lastmod v; so_ttl := so_ttl v; so_dec_ok := so_dec_ok v; so_len := so_len v; so_crc := so_crc v |}.
Definition same_but_mime (a b : view) : bool := same_outcome (clear_mime a) (clear_mime b).
Definition same_content (a b : view) : bool :=
  (so_state a =? so_state b) && (so_len a =? so_len b) && ((so_len a =? 0) || (so_crc a =? so_crc b)).

(* the trigger of one step, evaluated on the state it starts from *)
Definition step_trigger (sy : sys) (s : step) : option N :=
  match s_op s with
  | Up o q =>
      if trig_empty o q then Some 1
      else if trig_unchanged sy o q (s_key s) (s_ck s) then Some 2
      else if trig_mime o q then Some 0
      else None
  | Del => if trig_empty_slot sy (s_key s) then Some 1 else None
  end.

(* the property of one step, on the status and on what the servers serve afterwards *)
Definition step_blocked (s : step) (nrepl : nat) : bool :=
  existsb (match s_op s with Up _ _ => blocks_upload | Del => blocks_delete end) (firstn nrepl (s_faults s)).
Definition step_consistent (s : step) (status : N) (vs : list view) : bool :=
  match s_op s with
  | Up _ _ => upload_consistent status vs
  | Del => delete_consistent status vs
  end.
(* the part of the property that holds even inside trigger [trig]: after an acknowledged
   upload every server agrees on everything but the mime type (trigger 0) / on the decoded
   content (triggers 1, 2); after an acknowledged delete a server still serving the file
   serves the empty record *)
Definition empty_record (v : view) : bool := (so_state v =? 0) && (so_len v =? 0).
Definition step_residual (s : step) (trig : option N) (status : N) (vs : list view) : bool :=
  negb (success status) ||
  match s_op s with
  | Up _ _ =>
      match vs with
      | [] => true
      | p :: rs => match trig with
                   | Some 0 => forallb (same_but_mime p) rs
                   | _ => forallb (same_content p) rs
                   end
      end
  | Del => forallb (fun v => is_deleted v || empty_record v) vs
  end.
