(* Model of the filer's hard-link handling and of every code path that decides which
   chunks are deleted (C21, C20):
     weed/filer/filerstore_hardlink.go   handleUpdateToHardLinks, setHardLink, maybeReadHardLink, DeleteHardLink
     weed/filer/filerstore_wrapper.go    InsertEntry, UpdateEntry, FindEntry, DeleteOneEntry, DeleteFolderChildren,
                                         ListDirectoryPrefixedEntries (leveldb2: native, NO hard-link resolution)
     weed/filer/filer.go                 CreateEntry, ensureParentDirecotryEntry, UpdateEntry, FindEntry
     weed/filer/filer_deletion.go        DeleteChunks, DirectDeleteChunks, deleteChunksIfNotNew
     weed/filer/filer_delete_entry.go    DeleteEntryMetaAndData, doBatchDeleteFolderMetaAndData, maybeDeleteHardLinks
     weed/filer/filechunks.go            MinusChunks, DoMinusChunks (CompactFileChunks: model/Chunks.v)
     weed/server/filer_grpc_server.go    CreateEntry, UpdateEntry, cleanupChunks, AppendToEntry, DeleteEntry
     weed/server/filer_grpc_server_rename.go  AtomicRenameEntry, moveEntry, moveFolderSubEntries, moveSelfEntry
     weed/filesys/dir_link.go            Dir.Link            (the client side of a hard link)
     weed/filesys/dir.go                 removeOneFile       (the client side of unlink)
   Executable definitions only; proofs are in proof/HardLinkProofs.v and proof/FilerGCProofs.v.

   State: the per-name blobs of the embedded store (path -> entry), the KV records
   (hard link id -> entry blob).  Every operation returns the new state, an error class
   and the list of chunk ids it handed to the two deletion sinks (the deletion queue of
   DeleteChunks, the BatchDelete call of DirectDeleteChunks) — the order inside that
   list is the program order, it is compared as a multiset.

   Scope (stated as assumptions in checks/C20.json, checks/C21.json): paths have one or
   two segments (files and directories at the top level, files and empty directories
   inside a top-level directory), no path under the buckets folder, TtlSec = 0, no
   Extended/Content/Remote, fewer than 10000 data chunks per entry (MaybeManifestize
   inside the filer is then the identity), a directory has fewer than 1024 entries,
   the store never fails, operations are sequential.  Operations outside the scope
   return EScope and change nothing.  A hard link id is a non-empty byte string,
   modelled by a positive number (0 = no id). *)
From Coq Require Import List NArith ZArith Bool String.
From SW Require model.FilerNS.
From SW Require Import model.Chunks.
Import ListNotations.
Local Open Scope N_scope.

(* ---------- paths (shared with model/FilerNS.v) ---------- *)
Definition name := FilerNS.name.
Definition path := FilerNS.path.
Definition path_eqb := FilerNS.path_eqb.
Definition is_prefix := FilerNS.is_prefix.
Definition is_child_of := FilerNS.is_child_of.
Definition parent := FilerNS.parent.
Definition child := FilerNS.child.
Definition strip_prefix := FilerNS.strip_prefix.

(* ---------- entries ---------- *)
Record hentry := mk_hentry {
  h_dir : bool;            (* Attr.Mode & os.ModeDir *)
  h_perm : N;              (* Attr.Mode & os.ModePerm *)
  h_uid : N;               (* Attr.Uid *)
  h_mtime : N;             (* Attr.Mtime (a tag; 999999 = time.Now() inside the filer) *)
  h_crtime : N;            (* Attr.Crtime *)
  h_chunks : list chunk;   (* Chunks *)
  h_hl : N;                (* HardLinkId, 0 = empty *)
  h_cnt : Z                (* HardLinkCounter (int32) *)
}.

Definition chunk_eqb (a b : chunk) : bool :=
  (c_fid a =? c_fid b) && (c_off a =? c_off b) && (c_size a =? c_size b) &&
  (c_mtime a =? c_mtime b) && Bool.eqb (c_manifest a) (c_manifest b).

Fixpoint list_eqb {A} (f : A -> A -> bool) (l1 l2 : list A) : bool :=
  match l1, l2 with
  | [], [] => true
  | x :: l1', y :: l2' => f x y && list_eqb f l1' l2'
  | _, _ => false
  end.

(* filer.EqualEntry on the projected fields *)
Definition hentry_eqb (a b : hentry) : bool :=
  Bool.eqb (h_dir a) (h_dir b) && (h_perm a =? h_perm b) && (h_uid a =? h_uid b) &&
  (h_mtime a =? h_mtime b) && (h_crtime a =? h_crtime b) &&
  list_eqb chunk_eqb (h_chunks a) (h_chunks b) && (h_hl a =? h_hl b) && Z.eqb (h_cnt a) (h_cnt b).

Definition set_chunks (e : hentry) (cs : list chunk) : hentry :=
  mk_hentry (h_dir e) (h_perm e) (h_uid e) (h_mtime e) (h_crtime e) cs (h_hl e) (h_cnt e).
Definition set_crtime (e : hentry) (t : N) : hentry :=
  mk_hentry (h_dir e) (h_perm e) (h_uid e) (h_mtime e) t (h_chunks e) (h_hl e) (h_cnt e).
Definition set_mtime (e : hentry) (t : N) : hentry :=
  mk_hentry (h_dir e) (h_perm e) (h_uid e) t (h_crtime e) (h_chunks e) (h_hl e) (h_cnt e).
Definition set_link (e : hentry) (id : N) (c : Z) : hentry :=
  mk_hentry (h_dir e) (h_perm e) (h_uid e) (h_mtime e) (h_crtime e) (h_chunks e) id c.

Definition now_tag : N := 999999.

(* the environment of a history: what the volume servers hold for the manifest chunks, and
   the uid of the filer process (AppendToEntry creates a missing file with OS_UID) *)
Record env := mk_env { ms : mstore; os_uid : N }.

(* filer.Root *)
Definition root_entry (ev : env) : hentry := mk_hentry true 493 (os_uid ev) now_tag now_tag [] 0 0%Z.

(* the directory ensureParentDirecotryEntry creates: Mode = os.ModeDir | entry.Mode | 0110, Uid copied, times = now *)
Definition implicit_dir (tmpl : hentry) : hentry :=
  mk_hentry true (N.lor (h_perm tmpl) 72) (h_uid tmpl) now_tag now_tag [] 0 0%Z.

(* ---------- association lists ---------- *)
Section AMap.
  Context {K V : Type} (eqb : K -> K -> bool).
  Fixpoint aget (m : list (K * V)) (k : K) : option V :=
    match m with
    | [] => None
    | (k', v) :: m' => if eqb k' k then Some v else aget m' k
    end.
  Definition adel (m : list (K * V)) (k : K) : list (K * V) :=
    filter (fun kv => negb (eqb (fst kv) k)) m.
  Definition aput (m : list (K * V)) (k : K) (v : V) : list (K * V) := (k, v) :: adel m k.
End AMap.

Definition nstore := list (path * hentry).     (* the embedded store: per-name blobs *)
Definition kvstore := list (N * hentry).       (* KvPut/KvGet/KvDelete: hard link records *)
Record st := mk_st { names : nstore; kvs : kvstore }.
Definition empty_st : st := mk_st [] [].

Definition nfind (s : st) (p : path) : option hentry := aget path_eqb (names s) p.
Definition kv_get (s : st) (id : N) : option hentry := aget N.eqb (kvs s) id.
Definition raw_put (s : st) (p : path) (e : hentry) : st := mk_st (aput path_eqb (names s) p e) (kvs s).
Definition raw_del (s : st) (p : path) : st := mk_st (adel path_eqb (names s) p) (kvs s).
Definition kv_put (s : st) (id : N) (e : hentry) : st := mk_st (names s) (aput N.eqb (kvs s) id e).
Definition kv_del (s : st) (id : N) : st := mk_st (names s) (adel N.eqb (kvs s) id).

(* ---------- filerstore_hardlink.go ---------- *)
(* maybeReadHardLink: the KV blob replaces every field; a missing record leaves the per-name blob *)
Definition view (s : st) (e : hentry) : hentry :=
  if h_hl e =? 0 then e
  else match kv_get s (h_hl e) with Some b => b | None => e end.

(* DeleteHardLink *)
Definition delete_hard_link (s : st) (id : N) : st :=
  match kv_get s id with
  | None => s
  | Some b =>
      let c := (h_cnt b - 1)%Z in
      if (c <=? 0)%Z then kv_del s id else kv_put s id (set_link b (h_hl b) c)
  end.

(* handleUpdateToHardLinks, as repaired (the early return for an entry without link id is gone):
   setHardLink if the entry carries an id; then drop the previous link of this name if it differs —
   also when the new entry carries none *)
Definition handle_update_to_hard_links (s : st) (p : path) (e : hentry) : st :=
  let s1 := if h_hl e =? 0 then s else kv_put s (h_hl e) e in
  match nfind s1 p with
  | Some ex => if negb (h_hl ex =? 0) && negb (h_hl ex =? h_hl e) then delete_hard_link s1 (h_hl ex) else s1
  | None => s1
  end.

(* ---------- filerstore_wrapper.go ---------- *)
(* InsertEntry = UpdateEntry (leveldb2: UpdateEntry calls InsertEntry) *)
Definition w_insert (s : st) (p : path) (e : hentry) : st := raw_put (handle_update_to_hard_links s p e) p e.
(* FindEntry *)
Definition w_find (s : st) (p : path) : option hentry :=
  match nfind s p with Some e => Some (view s e) | None => None end.
(* DeleteOneEntry(existingEntry): existingEntry is what the caller found *)
Definition w_delete_one (s : st) (p : path) (existing : hentry) : st :=
  raw_del (if h_hl existing =? 0 then s else delete_hard_link s (h_hl existing)) p.
(* DeleteFolderChildren: the direct children, below the wrapper's hard-link handling *)
Definition w_delete_folder_children (s : st) (d : path) : st :=
  mk_st (filter (fun kv => negb (is_child_of d (fst kv))) (names s)) (kvs s).

Fixpoint insert_by_name (x : name * hentry) (l : list (name * hentry)) : list (name * hentry) :=
  match l with
  | [] => [x]
  | y :: l' => if String.leb (fst x) (fst y) then x :: l else y :: insert_by_name x l'
  end.
(* Filer.ListDirectoryEntries -> Store.ListDirectoryPrefixedEntries: leveldb2 implements it
   natively, so the wrapper passes the per-name blobs on WITHOUT maybeReadHardLink *)
Definition list_children (s : st) (d : path) : list (name * hentry) :=
  fold_right insert_by_name []
    (flat_map (fun kv => match strip_prefix d (fst kv) with Some [n] => [(n, snd kv)] | _ => [] end) (names s)).

(* ---------- results ---------- *)
Inductive err :=
| OK
| ENotFound      (* filer_pb.ErrNotFound *)
| EExist         (* "EEXIST: entry %s already exists" *)
| ENotDir        (* "%s is a file": the parent is a file *)
| EIsDir         (* "existing %s is a directory" *)
| EIsFile        (* "existing %s is a file" *)
| ENotEmpty      (* MsgFailDelNonEmptyFolder *)
| EInvalid       (* rename into the own subtree *)
| EManifest      (* a manifest chunk could not be read (MinusChunks) *)
| EScope.        (* outside the modelled scope *)

Definition is_err (r : err) : bool := match r with OK => false | _ => true end.
Definition err_eqb (a b : err) : bool :=
  match a, b with
  | OK, OK | ENotFound, ENotFound | EExist, EExist | ENotDir, ENotDir | EIsDir, EIsDir
  | EIsFile, EIsFile | ENotEmpty, ENotEmpty | EInvalid, EInvalid | EManifest, EManifest | EScope, EScope => true
  | _, _ => false
  end.

Definition res := (st * err * list N)%type.

Definition in_scope (p : path) : bool :=
  match p with [_] | [_; _] => true | _ => false end.

(* ---------- filer_deletion.go ---------- *)
Definition fids (cs : list chunk) : list N := map c_fid cs.
Definition has_fid (cs : list chunk) (f : N) : bool := existsb (fun c => c_fid c =? f) cs.

(* DeleteChunks / DirectDeleteChunks: a manifest chunk is expanded ONE level (ResolveOneChunkManifest);
   an unreadable manifest contributes only its own id *)
Definition expand_delete (ev : env) (cs : list chunk) : list N :=
  flat_map (fun c =>
              if c_manifest c
              then match ms_lookup (ms ev) (c_fid c) with
                   | Some sub => fids sub ++ [c_fid c]
                   | None => [c_fid c]
                   end
              else [c_fid c]) cs.

(* deleteChunksIfNotNew: top-level file ids only *)
Definition delete_chunks_if_not_new (ev : env) (old new : hentry) : list N :=
  expand_delete ev (filter (fun oc => negb (has_fid (h_chunks new) (c_fid oc))) (h_chunks old)).

(* ---------- filer.go ---------- *)
Definition find_entry (ev : env) (s : st) (p : path) : option hentry :=
  match p with [] => Some (root_entry ev) | _ => w_find s p end.

(* Filer.UpdateEntry(oldEntry, entry) *)
Definition filer_update (s : st) (p : path) (old e : hentry) : st * err :=
  let e1 := set_crtime e (h_crtime old) in
  if h_dir old && negb (h_dir e) then (s, EIsDir)
  else if negb (h_dir old) && h_dir e then (s, EIsFile)
  else (w_insert s p e1, OK).

(* ensureParentDirecotryEntry for a path of at most two segments: the parent is "/" or a top-level directory *)
Definition ensure_parent (ev : env) (s : st) (p : path) (tmpl : hentry) : st * err :=
  match parent p with
  | [] => (s, OK)
  | d => match find_entry ev s d with
         | Some de => if h_dir de then (s, OK) else (s, ENotDir)
         | None => (w_insert s d (implicit_dir tmpl), OK)
         end
  end.

(* Filer.CreateEntry(entry, o_excl) *)
Definition filer_create (ev : env) (s : st) (p : path) (e : hentry) (o_excl : bool) : res :=
  match find_entry ev s p with
  | None =>
      let (s1, r) := ensure_parent ev s p e in
      if is_err r then (s1, r, []) else (w_insert s1 p e, OK, [])
  | Some old =>
      if o_excl then (s, EExist, [])
      else
        let (s1, r) := filer_update s p old e in
        if is_err r then (s1, r, []) else (s1, OK, delete_chunks_if_not_new ev old e)
  end.

(* ---------- filer_delete_entry.go ---------- *)
(* what doBatchDeleteFolderMetaAndData collects from the listed children: chunks of the files
   without link id, the link ids of the others; a child directory is empty (scope) and
   contributes nothing *)
Definition collect_children (cs : list (name * hentry)) : list chunk * list N :=
  fold_right (fun (c : name * hentry) acc =>
                let e := snd c in
                if h_dir e then acc
                else if negb (h_hl e =? 0) then (fst acc, h_hl e :: snd acc)
                else (h_chunks e ++ fst acc, snd acc))
             ([], []) cs.

(* Filer.DeleteEntryMetaAndData(p, isRecursive, ignoreRecursiveError, shouldDeleteChunks) *)
Definition delete_entry (ev : env) (s : st) (p : path) (rec ign data : bool) : res :=
  match find_entry ev s p with
  | None => (s, ENotFound, [])
  | Some e =>
      let cs := if h_dir e then list_children s p else [] in
      if h_dir e && negb rec && negb (match cs with [] => true | _ => false end) then (s, ENotEmpty, [])
      else
        let (dir_chunks, hl_ids) := collect_children cs in
        let s1 := if h_dir e then w_delete_folder_children s p else s in
        let s2 := w_delete_one s1 p e in
        (* maybeDeleteHardLinks, as repaired: whether or not the data is deleted *)
        (fold_left delete_hard_link hl_ids s2, OK,
         if data then expand_delete ev (h_chunks e ++ dir_chunks) else [])
  end.

(* FilerServer.DeleteEntry: filer_pb.ErrNotFound is not reported *)
Definition grpc_delete (ev : env) (s : st) (p : path) (rec ign data : bool) : res :=
  match delete_entry ev s p rec ign data with
  | (s1, ENotFound, d) => (s1, OK, d)
  | r => r
  end.

(* ---------- filechunks.go ---------- *)
Definition resolve_fuel : nat := 8.
(* DoMinusChunks *)
Definition do_minus (a b : list chunk) : list chunk := filter (fun c => negb (has_fid b (c_fid c))) a.
(* MinusChunks: None = a manifest could not be resolved *)
Definition minus_chunks (ev : env) (a b : list chunk) : option (list chunk) :=
  match resolve resolve_fuel (ms ev) 0 max_int64 a, resolve resolve_fuel (ms ev) 0 max_int64 b with
  | Some (ad, am), Some (bd, bm) => Some (do_minus ad bd ++ do_minus am bm)
  | _, _ => None
  end.

(* ---------- filer_grpc_server.go ---------- *)
(* cleanupChunks(existing, new): (chunks to store, garbage); MaybeManifestize is the identity (scope) *)
Definition cleanup_chunks (ev : env) (existing : option hentry) (new_chunks : list chunk)
  : option (list chunk * list chunk) :=
  let g0 := match existing with
            | Some ex => minus_chunks ev (h_chunks ex) new_chunks
            | None => Some []
            end in
  match g0 with
  | None => None
  | Some g =>
      let mcs := filter c_manifest new_chunks in
      let ncs := filter (fun c => negb (c_manifest c)) new_chunks in
      let (compacted, covered) := compact_file_chunks resolve_fuel (ms ev) ncs in
      Some (compacted ++ mcs, g ++ covered)
  end.

(* FilerServer.CreateEntry *)
Definition grpc_create (ev : env) (s : st) (p : path) (e : hentry) (o_excl : bool) : res :=
  match cleanup_chunks ev None (h_chunks e) with
  | None => (s, EManifest, [])
  | Some (chunks, garbage) =>
      match filer_create ev s p (set_chunks e chunks) o_excl with
      | (s1, OK, d) => (s1, OK, d ++ expand_delete ev garbage)
      | (s1, r, d) => (s1, r, d)
      end
  end.

(* FilerServer.UpdateEntry *)
Definition grpc_update (ev : env) (s : st) (p : path) (e : hentry) : res :=
  match find_entry ev s p with
  | None => (s, ENotFound, [])
  | Some ex =>
      match cleanup_chunks ev (Some ex) (h_chunks e) with
      | None => (s, EManifest, [])
      | Some (chunks, garbage) =>
          let new := set_chunks e chunks in
          if hentry_eqb ex new then (s, OK, [])
          else
            let (s1, r) := filer_update s p ex new in
            if is_err r then (s1, r, []) else (s1, OK, expand_delete ev garbage)
      end
  end.

(* the offsets AppendToEntry assigns *)
Fixpoint place_chunks (off : N) (cs : list chunk) : list chunk :=
  match cs with
  | [] => []
  | c :: cs' => Chunk (c_fid c) off (c_size c) (c_mtime c) (c_manifest c) :: place_chunks (off + c_size c) cs'
  end.

(* FilerServer.AppendToEntry *)
Definition grpc_append (ev : env) (s : st) (p : path) (cs : list chunk) : res :=
  let base := match find_entry ev s p with
              | Some ex => ex
              | None => mk_hentry false 420 (os_uid ev) now_tag now_tag [] 0 0%Z
              end in
  let all := h_chunks base ++ place_chunks (total_size (h_chunks base)) cs in
  (* MaybeManifestize below its batch size: the manifest chunks first, then the data chunks *)
  let e := set_chunks base (filter c_manifest all ++ filter (fun c => negb (c_manifest c)) all) in
  filer_create ev s p e false.

(* ---------- filer_grpc_server_rename.go ---------- *)
(* moveSelfEntry's new entry: Attr, Chunks, Extended, Content — no HardLinkId, no HardLinkCounter *)
Definition strip_link (e : hentry) : hentry := set_link e 0 0%Z.

(* moveSelfEntry for an entry without children to move *)
Definition move_self (ev : env) (s : st) (oldp : path) (e : hentry) (newp : path) : res :=
  if path_eqb oldp newp then (s, OK, [])
  else
    match filer_create ev s newp (strip_link e) false with
    | (s1, OK, d1) =>
        match delete_entry ev s1 oldp false false false with
        | (s2, r2, d2) => (s2, r2, d1 ++ d2)
        end
    | (s1, r, d1) => (s1, r, d1)
    end.

(* moveFolderSubEntries over the listed children (per-name blobs: the listing does not resolve links) *)
Fixpoint move_children (ev : env) (s : st) (oldd newd : path) (cs : list (name * hentry)) : res :=
  match cs with
  | [] => (s, OK, [])
  | c :: cs' =>
      match move_self ev s (child oldd (fst c)) (snd c) (child newd (fst c)) with
      | (s1, OK, d1) =>
          match move_children ev s1 oldd newd cs' with
          | (s2, r2, d2) => (s2, r2, d1 ++ d2)
          end
      | (s1, r, d1) => (s1, r, d1)
      end
  end.

(* FilerServer.AtomicRenameEntry (paths given whole; the handler takes (directory, name) pairs) *)
Definition grpc_rename (ev : env) (s : st) (oldp newp : path) : res :=
  if negb (in_scope oldp && in_scope newp) then (s, EScope, [])
  else if is_prefix oldp (parent newp) then (s, EInvalid, [])
  else
    match find_entry ev s oldp with
    | None => (s, ENotFound, [])
    | Some e =>
        if negb (h_dir e) then move_self ev s oldp e newp
        else
          let cs := list_children s oldp in
          match cs, newp with
          | _ :: _, [_; _] => (s, EScope, [])            (* children would land at depth 3 *)
          | _, _ =>
              if path_eqb oldp newp then (s, OK, [])
              else
                match filer_create ev s newp (strip_link e) false with
                | (s1, OK, d1) =>
                    match move_children ev s1 oldp newp (list_children s1 oldp) with
                    | (s2, OK, d2) =>
                        match delete_entry ev s2 oldp false false false with
                        | (s3, r3, d3) => (s3, r3, d1 ++ d2 ++ d3)
                        end
                    | (s2, r2, d2) => (s2, r2, d1 ++ d2)
                    end
                | (s1, r, d1) => (s1, r, d1)
                end
          end
    end.

(* ---------- the client side: weed/filesys ---------- *)
(* Dir.Link: look the old name up; give it a fresh id with counter 1 if it has none; counter++;
   UpdateEntry(old name); CreateEntry(new name) with the same attributes, chunks, id and counter *)
Definition mount_link (ev : env) (s : st) (oldp newp : path) (fresh : N) : res :=
  match find_entry ev s oldp with
  | None => (s, ENotFound, [])
  | Some e0 =>
      let e1 := if h_hl e0 =? 0 then set_link e0 fresh 1%Z else e0 in
      let e2 := set_link e1 (h_hl e1) (h_cnt e1 + 1)%Z in
      match grpc_update ev s oldp e2 with
      | (s1, OK, d1) =>
          (* Attributes (the mode with its directory bit), Chunks, HardLinkId, HardLinkCounter of the old entry *)
          match grpc_create ev s1 newp e2 false with
          | (s2, r2, d2) => (s2, r2, d1 ++ d2)
          end
      | (s1, r, d1) => (s1, r, d1)
      end
  end.

(* a write through a name (flush: CreateEntry; setattr: UpdateEntry): the entry the client looked up,
   with new chunks and mtime — link id and counter are sent back as read *)
Definition mount_write (ev : env) (s : st) (p : path) (cs : list chunk) (mt : N) (via_create : bool) : res :=
  match find_entry ev s p with
  | None => (s, ENotFound, [])
  | Some e0 =>
      let e := set_mtime (set_chunks e0 cs) mt in
      if via_create then grpc_create ev s p e false else grpc_update ev s p e
  end.

(* removeOneFile: isDeleteData = HardLinkCounter <= 1 *)
Definition mount_unlink (ev : env) (s : st) (p : path) : res :=
  match find_entry ev s p with
  | None => (s, ENotFound, [])
  | Some e0 => grpc_delete ev s p false false (h_cnt e0 <=? 1)%Z
  end.

(* ---------- operation histories ---------- *)
Inductive op :=
| Create (p : path) (e : hentry) (o_excl : bool)       (* gRPC CreateEntry *)
| Update (p : path) (e : hentry)                       (* gRPC UpdateEntry *)
| Append (p : path) (cs : list chunk)                  (* gRPC AppendToEntry *)
| Delete (p : path) (rec ign data : bool)              (* gRPC DeleteEntry *)
| Rename (oldp newp : path)                            (* gRPC AtomicRenameEntry *)
| Link (oldp newp : path) (fresh : N)                  (* mount: Dir.Link *)
| Write (p : path) (cs : list chunk) (mt : N) (via_create : bool)   (* mount: flush / setattr *)
| Unlink (p : path).                                   (* mount: removeOneFile *)

Definition scoped (p : path) (r : res) (s : st) : res := if in_scope p then r else (s, EScope, []).

Definition step (ev : env) (s : st) (o : op) : res :=
  match o with
  | Create p e x => scoped p (grpc_create ev s p e x) s
  | Update p e => scoped p (grpc_update ev s p e) s
  | Append p cs => scoped p (grpc_append ev s p cs) s
  | Delete p rec ign data => scoped p (grpc_delete ev s p rec ign data) s
  | Rename oldp newp => grpc_rename ev s oldp newp
  | Link oldp newp fresh => if in_scope oldp && in_scope newp then mount_link ev s oldp newp fresh else (s, EScope, [])
  | Write p cs mt via => scoped p (mount_write ev s p cs mt via) s
  | Unlink p => scoped p (mount_unlink ev s p) s
  end.

Definition st_of (r : res) : st := fst (fst r).
Definition err_of (r : res) : err := snd (fst r).
Definition sched_of (r : res) : list N := snd r.

(* state, error class and scheduled chunk ids after every operation *)
Fixpoint run (ev : env) (s : st) (ops : list op) : list res :=
  match ops with
  | [] => []
  | o :: ops' => let r := step ev s o in r :: run ev (st_of r) ops'
  end.

(* ---------- what a state references ---------- *)
(* every chunk id reachable from a chunk list: data chunks and manifest chunks of every level;
   an unresolvable list counts with its top-level ids *)
Definition reach (ev : env) (cs : list chunk) : list N :=
  match resolve resolve_fuel (ms ev) 0 max_int64 cs with
  | Some (d, m) => fids d ++ fids m
  | None => fids cs
  end.

(* referenced state: what FindEntry shows for every stored name *)
Definition refs (ev : env) (s : st) : list N :=
  flat_map (fun kv => reach ev (h_chunks (view s (snd kv)))) (names s).

Definition mem (x : N) (l : list N) : bool := existsb (N.eqb x) l.
Definition disjoint (a b : list N) : bool := forallb (fun x => negb (mem x b)) a.
Definition subset (a b : list N) : bool := forallb (fun x => mem x b) a.

(* ---------- comparison of states as maps ---------- *)
Definition opt_eqb (a b : option hentry) : bool :=
  match a, b with
  | Some x, Some y => hentry_eqb x y
  | None, None => true
  | _, _ => false
  end.
Definition st_equiv_b (a b : st) : bool :=
  forallb (fun p => opt_eqb (nfind a p) (nfind b p)) (map fst (names a) ++ map fst (names b)) &&
  forallb (fun k => opt_eqb (kv_get a k) (kv_get b k)) (map fst (kvs a) ++ map fst (kvs b)).

(* ====================================================================================
   C21: the specification of hard links, as decidable predicates on a state (the raw
   per-name blobs + the KV records) and on what FindEntry shows ([vw]).
   ==================================================================================== *)

(* the names whose stored blob carries link id X *)
Definition carries (X : N) (kv : path * hentry) : bool := h_hl (snd kv) =? X.
Definition count_names (s : st) (X : N) : nat := List.length (filter (carries X) (names s)).

(* the link counter equals the number of live names; a record exists exactly as long as a name
   carries its id; the record's blob is filed under its own id *)
Definition counters_ok (s : st) : bool :=
  forallb (fun kb => Z.eqb (h_cnt (snd kb)) (Z.of_nat (count_names s (fst kb))) &&
                     Nat.ltb 0 (count_names s (fst kb)) && (h_hl (snd kb) =? fst kb)) (kvs s) &&
  forallb (fun kv => (h_hl (snd kv) =? 0) ||
                     match kv_get s (h_hl (snd kv)) with Some _ => true | None => false end) (names s).

Definition linked (a b : hentry) : bool := negb (h_hl a =? 0) && (h_hl a =? h_hl b).

(* all names with the same link id show the same content and attributes *)
Definition shared_view_ok (s : st) (vw : path -> option hentry) : bool :=
  forallb (fun kv1 => forallb (fun kv2 =>
             negb (linked (snd kv1) (snd kv2)) || opt_eqb (vw (fst kv1)) (vw (fst kv2))) (names s)) (names s).

(* the FindEntry function of the model *)
Definition model_view (s : st) (p : path) : option hentry := w_find s p.

(* where a name is after a successful operation: Some new name / None = the name is gone or
   was replaced by a new file (it leaves its link group) *)
Definition img (s : st) (o : op) (n : path) : option path :=
  match o with
  | Rename oldp newp =>
      if path_eqb oldp newp then Some n
      else if path_eqb oldp n then Some newp
      else
        (* a directory takes the names below it along; a moved name replaces the one at its target *)
        let old_is_dir := match nfind s oldp with Some e => h_dir e | None => false end in
        match (if old_is_dir then strip_prefix oldp n else None) with
        | Some r => Some (newp ++ r)
        | None =>
            if path_eqb newp n then None
            else match (if old_is_dir then strip_prefix newp n else None) with
                 | Some r => match nfind s (oldp ++ r) with Some _ => None | None => Some n end
                 | None => Some n
                 end
        end
  | Delete p _ _ _ | Unlink p => if is_prefix p n then None else Some n
  | Create p _ _ | Update p _ => if path_eqb p n then None else Some n
  | Link _ newp _ => if path_eqb newp n then None else Some n
  | Append _ _ | Write _ _ _ _ => Some n
  end.

(* names that shared a link id before the operation still share one afterwards, wherever they are now *)
Definition links_kept (s : st) (o : op) (r : err) (s' : st) : bool :=
  is_err r ||
  forallb (fun kv1 => forallb (fun kv2 =>
             negb (linked (snd kv1) (snd kv2)) ||
             match img s o (fst kv1), img s o (fst kv2) with
             | Some m1, Some m2 =>
                 match nfind s' m1, nfind s' m2 with
                 | Some e1, Some e2 => linked e1 e2
                 | _, _ => false
                 end
             | _, _ => true
             end) (names s)) (names s).

(* a successful link makes the two names share an id; a successful write through a name is what the name shows *)
Definition effect_ok (o : op) (r : err) (s' : st) (vw : path -> option hentry) : bool :=
  is_err r ||
  match o with
  | Link oldp newp _ =>
      match nfind s' oldp, nfind s' newp with
      | Some e1, Some e2 => linked e1 e2
      | _, _ => false
      end
  | Write p _ mt _ => match vw p with Some e => h_mtime e =? mt | None => false end
  | _ => true
  end.

(* the C21 property for one step: s, o = state and operation; r, s', vw = error class, state, FindEntry afterwards *)
Definition c21_step_ok (s : st) (o : op) (r : err) (s' : st) (vw : path -> option hentry) : bool :=
  counters_ok s' && shared_view_ok s' vw && links_kept s o r s' && effect_ok o r s' vw.

(* ---------- trigger predicates of the known findings of C21 ---------- *)
Definition blob_linked (s : st) (p : path) : bool :=
  match nfind s p with Some e => negb (h_hl e =? 0) | None => false end.

(* k = 0: a rename moves an entry whose blob carries a link id (or a directory with such a child):
   moveSelfEntry's copy has no id, the delete of the old name decrements the counter *)
Definition trig_rename_linked (s : st) (o : op) : bool :=
  match o with
  | Rename oldp newp =>
      blob_linked s oldp ||
      match nfind s oldp with
      | Some e => h_dir e && existsb (fun c => negb (h_hl (snd c) =? 0)) (list_children s oldp)
      | None => false
      end
  | _ => false
  end.

(* (two former findings are repaired in the tree: an entry without link id written over a linked name
   now decrements the counter in handleUpdateToHardLinks, and a recursive delete decrements the
   counters of the removed names whether or not the data is deleted) *)
Definition c21_classify (ev : env) (s : st) (o : op) : option N :=
  if trig_rename_linked s o then Some 0 else None.

(* the first step of the model's run at which the C21 property fails, classified *)
Fixpoint c21_first_failure (ev : env) (s : st) (ops : list op) : option (option N) :=
  match ops with
  | [] => None
  | o :: ops' =>
      let r := step ev s o in
      if c21_step_ok s o (err_of r) (st_of r) (model_view (st_of r))
      then c21_first_failure ev (st_of r) ops'
      else Some (c21_classify ev s o)
  end.

(* the state after a history *)
Fixpoint final (ev : env) (s : st) (ops : list op) : st :=
  match ops with
  | [] => s
  | o :: ops' => final ev (st_of (step ev s o)) ops'
  end.

(* the C21 property at every step of the model's run *)
Fixpoint c21_run_ok (ev : env) (s : st) (ops : list op) : bool :=
  match ops with
  | [] => true
  | o :: ops' =>
      let r := step ev s o in
      c21_step_ok s o (err_of r) (st_of r) (model_view (st_of r)) && c21_run_ok ev (st_of r) ops'
  end.

(* ---------- client assumptions of C21 (decidable) ---------- *)
Definition id_unused (s : st) (id : N) : bool :=
  negb (id =? 0) &&
  match kv_get s id with Some _ => false | None => true end &&
  forallb (fun kv => negb (h_hl (snd kv) =? id)) (names s).

Definition file_at (ev : env) (s : st) (p : path) : bool :=
  match find_entry ev s p with Some e => negb (h_dir e) | None => true end.

(* requests of clients other than the mount carry no link id; the mount links an existing file to a
   name that does not exist in an existing directory (the kernel checks that) with an unused id;
   only files are written through *)
Definition c21_op_ok (ev : env) (s : st) (o : op) : bool :=
  match o with
  | Create _ e _ | Update _ e => h_hl e =? 0
  | Link oldp newp id =>
      id_unused s id && file_at ev s oldp &&
      match nfind s newp with Some _ => false | None => true end && negb (path_eqb oldp newp) &&
      match find_entry ev s (parent newp) with Some de => h_dir de | None => false end
  | Append p _ | Write p _ _ _ => file_at ev s p
  | _ => true
  end.

(* the hypothesis of the partial theorems: the assumptions hold, no trigger fires, and a renamed
   entry is a file (what a rename does to a directory tree is the subject of C18) *)
Definition c21_quiet (ev : env) (s : st) (o : op) : bool :=
  c21_op_ok ev s o &&
  negb (trig_rename_linked s o) &&
  match o with
  | Rename oldp _ => match nfind s oldp with Some e => negb (h_dir e) | None => true end
  | _ => true
  end.

Fixpoint c21_hist_quiet (ev : env) (s : st) (ops : list op) : bool :=
  match ops with
  | [] => true
  | o :: ops' => c21_quiet ev s o && c21_hist_quiet ev (st_of (step ev s o)) ops'
  end.

Fixpoint c21_hist_ok (ev : env) (s : st) (ops : list op) : bool :=
  match ops with
  | [] => true
  | o :: ops' => c21_op_ok ev s o && c21_hist_ok ev (st_of (step ev s o)) ops'
  end.
