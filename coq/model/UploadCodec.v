(* Model of weed/util/compression.go (shared with C24), the decision logic of
   weed/operation/upload_content.go (doUploadData), what the volume server keeps
   (needle.ParseUpload / CreateNeedleFromRequest) and serves (GetOrHeadHandler +
   processRangeRequest for the one-range requests the client sends), and of
   weed/util/http_util.go (ReadUrlAsStream / readEncryptedUrl / Get)       (C33).

   gzip, AES-GCM and http.DetectContentType are ORACLES: fields of a record that
   the functions take as an argument.  Executable definitions only; the proofs
   (under explicit laws on the oracle) are in proof/UploadCodecProofs.v. *)
From Coq Require Import List NArith Bool String Ascii.
Import ListNotations.
Local Open Scope N_scope.

Definition bytes := list N.

Definition len {A} (l : list A) : N := N.of_nat (List.length l).
Definition slice {A} (off size : N) (l : list A) : list A :=
  firstn (N.to_nat size) (skipn (N.to_nat off) l).

(* ------------------------------------------------------------------------- *)
(* compression.go, over an abstract blob type (bytes for C33, a symbolic blob
   in the C24 check)                                                          *)
Section Gz.
Context {blob : Type}.

(* what compress/gzip's NewReader + ioutil.ReadAll do with an input *)
Inductive gz_result := GzOk (out : blob) | GzBodyErr (partial : blob) | GzHdrErr.

Record gzlib := {
  gz_head2 : blob -> option (N * N);   (* first two bytes, None when shorter *)
  gz_len : blob -> N;
  gz_gzip : blob -> blob;              (* GzipData: NewWriterLevel(BestSpeed) cannot fail *)
  gz_gunzip : blob -> gz_result;
  gz_empty : blob }.

(* IsGzippedContent *)
Definition is_gzipped_content (L : gzlib) (d : blob) : bool :=
  match gz_head2 L d with
  | Some (a, b) => (a =? 31) && (b =? 139)
  | None => false
  end.

(* MaybeGzipData *)
Definition maybe_gzip_data (L : gzlib) (input : blob) : blob :=
  if is_gzipped_content L input then input
  else let g := gz_gzip L input in
       if (gz_len L input * 9 <? gz_len L g * 10) then input else g.

(* DecompressData returns (output, err); DPanic = nil-pointer dereference *)
Inductive dres := DOk (out : blob) | DErr (out : blob) (unsupported : bool) | DPanic.

(* ungzipData.  repaired = false: the pinned code (`r, _ := gzip.NewReader(buf);
   defer r.Close()`); repaired = true: the working tree (error checked, returns nil, err). *)
Definition ungzip_data (repaired : bool) (L : gzlib) (input : blob) : dres :=
  match gz_gunzip L input with
  | GzOk o => DOk o
  | GzBodyErr p => DErr p false
  | GzHdrErr => if repaired then DErr (gz_empty L) false else DPanic
  end.

Definition decompress_data (repaired : bool) (L : gzlib) (input : blob) : dres :=
  if is_gzipped_content L input then ungzip_data repaired L input
  else DErr input true (* UnsupportedCompression *).

(* MaybeDecompressData *)
Inductive mres := MVal (b : blob) | MPanic.
Definition maybe_decompress_data (repaired : bool) (L : gzlib) (input : blob) : mres :=
  match decompress_data repaired L input with
  | DOk o => MVal o
  | DErr _ _ => MVal input
  | DPanic => MPanic
  end.

(* `x, err = DecompressData(x)` with the error only logged *)
Definition decompress_ignore_err (L : gzlib) (input : blob) : blob :=
  match decompress_data true L input with
  | DOk o => o
  | DErr o _ => o
  | DPanic => input
  end.
End Gz.
Arguments gz_result : clear implicits.
Arguments gzlib : clear implicits.
Arguments dres : clear implicits.
Arguments mres : clear implicits.

(* ------------------------------------------------------------------------- *)
(* bytes instance                                                             *)
Definition head2 (d : bytes) : option (N * N) :=
  match d with a :: b :: _ => Some (a, b) | _ => None end.

Record oracle := {
  o_gzip : bytes -> bytes;
  o_gunzip : bytes -> gz_result bytes;
  o_detect : bytes -> string;                       (* http.DetectContentType *)
  o_seal : bytes -> bytes -> bytes -> bytes;         (* key nonce plaintext -> ciphertext||tag *)
  o_open : bytes -> bytes -> bytes -> option bytes   (* key nonce (ciphertext||tag) *)
}.

Definition glib (O : oracle) : gzlib bytes :=
  {| gz_head2 := head2; gz_len := len; gz_gzip := o_gzip O; gz_gunzip := o_gunzip O; gz_empty := [] |}.

(* ------------------------------------------------------------------------- *)
(* IsCompressableFileType                                                     *)
Local Open Scope string_scope.

Definition has_prefix (p s : string) : bool := String.prefix p s.
Definition has_suffix (suf s : string) : bool :=
  let ls := String.length s in let lf := String.length suf in
  if Nat.ltb ls lf then false else String.eqb (String.substring (Nat.sub ls lf) lf s) suf.
Definition trim_prefix (p s : string) : string :=
  if has_prefix p s then String.substring (String.length p) (Nat.sub (String.length s) (String.length p)) s else s.
Definition str_in (s : string) (l : list string) : bool := existsb (String.eqb s) l.

Definition is_compressable_file_type (ext mtype : string) : bool * bool :=
  if has_prefix "text/" mtype then (true, true)
  else if str_in ext [".svg"; ".bmp"; ".wav"] then (true, true)
  else if has_prefix "image/" mtype then (false, true)
  else if str_in ext [".zip"; ".rar"; ".gz"; ".bz2"; ".xz"; ".zst"; ".br"] then (false, true)
  else if str_in ext [".pdf"; ".txt"; ".html"; ".htm"; ".css"; ".js"; ".json"] then (true, true)
  else if str_in ext [".php"; ".java"; ".go"; ".rb"; ".c"; ".cpp"; ".h"; ".hpp"] then (true, true)
  else if str_in ext [".png"; ".jpg"; ".jpeg"] then (false, true)
  else if has_prefix "application/" mtype && has_suffix "zstd" mtype then (false, true)
  else if has_prefix "application/" mtype && has_suffix "xml" mtype then (true, true)
  else if has_prefix "application/" mtype && has_suffix "script" mtype then (true, true)
  else if has_prefix "application/" mtype && has_suffix "vnd.rar" mtype then (false, true)
  else if has_prefix "audio/" mtype && str_in (trim_prefix "audio/" mtype) ["wave"; "wav"; "x-wav"; "x-pn-wav"] then (true, true)
  else (false, false).

(* filepath.Base on a slash-separated path: doUploadData passes the BASE NAME of
   the file (not its extension) as `ext` *)
Definition slash : ascii := "/"%char.
Fixpoint strip_trailing_slashes_rev (r : list ascii) : list ascii :=
  match r with
  | c :: r' => if Ascii.eqb c slash then strip_trailing_slashes_rev r' else r
  | [] => []
  end.
Fixpoint take_until_slash (r : list ascii) : list ascii :=
  match r with
  | c :: r' => if Ascii.eqb c slash then [] else c :: take_until_slash r'
  | [] => []
  end.
Definition file_base (path : string) : string :=
  if String.eqb path "" then "."
  else let r := strip_trailing_slashes_rev (rev (list_ascii_of_string path)) in
       let b := rev (take_until_slash r) in
       match b with [] => "/" | _ => string_of_list_ascii b end.

Local Open Scope N_scope.

(* ------------------------------------------------------------------------- *)
(* doUploadData                                                               *)
Record upload_in := {
  u_name : string; u_cipher : bool; u_data : bytes; u_ic : bool (* isInputCompressed *);
  u_mime : string;
  u_key : bytes; u_nonce : bytes   (* util.GenCipherKey / the GCM nonce: random, used when u_cipher *)
}.

(* the one multipart part that upload_content posts *)
Record wire := { w_body : bytes; w_ce_gzip : bool (* Content-Encoding: gzip *); w_filename : string }.

Record upload_result := {
  r_size : N; r_gzip : bool; r_key : option bytes;
  r_mime : string   (* only set by the client on the cipher path *)
}.

Definition octet : string := "application/octet-stream".

Definition effective_mime (O : oracle) (u : upload_in) : string :=
  if u_ic u then u_mime u
  else if String.eqb (u_mime u) "" then
         let d := o_detect O (u_data u) in if String.eqb d octet then ""%string else d
       else u_mime u.

Definition should_gzip_now (O : oracle) (u : upload_in) : bool :=
  if u_ic u then false
  else let mtype := effective_mime O u in
       let '(should, sure) := is_compressable_file_type (file_base (u_name u)) mtype in
       if sure && should then true
       else if negb sure && String.eqb mtype "" && (16384 <? len (u_data u)) (* 16*1024 *) then
              len (o_gzip O (firstn 128 (u_data u))) * 10 <? 128 * 9
            else false.

(* Encrypt: nonce || Seal *)
Definition encrypt (O : oracle) (key nonce plain : bytes) : bytes := (nonce ++ o_seal O key nonce plain)%list.
(* Decrypt: NonceSize = 12 *)
Definition decrypt (O : oracle) (key ct : bytes) : option bytes :=
  if len ct <? 12 then None else o_open O key (firstn 12 ct) (skipn 12 ct).

Definition upload (O : oracle) (u : upload_in) : wire * upload_result :=
  let L := glib O in
  let gz_now := should_gzip_now O u && negb (u_cipher u) in
  let data := if gz_now then o_gzip O (u_data u) else u_data u in
  let content_is_gzipped := if gz_now then true else u_ic u in
  (* `else if isInputCompressed { clearData, err = DecompressData(data); if err == nil { clearDataLen = ... } }` *)
  let '(clear, clear_len) :=
    if gz_now then (u_data u, len (u_data u))
    else if u_ic u then
      match decompress_data true L (u_data u) with
      | DOk c => (c, len c)
      | DErr out _ => (out, len (u_data u))
      | DPanic => (u_data u, len (u_data u))
      end
    else (u_data u, len (u_data u)) in
  if u_cipher u then
    ({| w_body := encrypt O (u_key u) (u_nonce u) clear; w_ce_gzip := false; w_filename := ""%string |},
     {| r_size := clear_len; r_gzip := false; r_key := Some (u_key u); r_mime := effective_mime O u |})
  else
    ({| w_body := data; w_ce_gzip := content_is_gzipped; w_filename := u_name u |},
     {| r_size := clear_len; r_gzip := content_is_gzipped; r_key := None; r_mime := ""%string |}).

(* ------------------------------------------------------------------------- *)
(* volume server: what is kept and how it is served                           *)
Record needle := { n_data : bytes; n_compressed : bool }.

(* ParseUpload: pu.IsGzipped = (Content-Encoding == "gzip"); the server-side
   compression block is `if false {...}` *)
Definition server_store (w : wire) : needle := {| n_data := w_body w; n_compressed := w_ce_gzip w |}.

Record get_req := { g_accept_gzip : bool; g_range : option (N * N) (* offset, size: "bytes=off-(off+size-1)" *) }.
Record response := { rs_status : N; rs_ce_gzip : bool; rs_body : bytes }.

Definition server_get (O : oracle) (n : needle) (q : get_req) : response :=
  let L := glib O in
  let '(ce, body) :=
    if n_compressed n then
      if g_accept_gzip q && is_gzipped_content L (n_data n) then (true, n_data n)
      else (false, decompress_ignore_err L (n_data n))
    else (false, n_data n) in
  match g_range q with
  | None => {| rs_status := 200; rs_ce_gzip := ce; rs_body := body |}
  | Some (off, size) =>
      (* parseRange on "bytes=off-(off+size-1)": size 0 gives end < start *)
      if (size =? 0) || (len body <? off) then {| rs_status := 416; rs_ce_gzip := ce; rs_body := [] |}
      else {| rs_status := 206; rs_ce_gzip := ce; rs_body := slice off (N.min (off + size) (len body) - off) body |}
  end.

(* ------------------------------------------------------------------------- *)
(* http_util.go                                                               *)
Inductive fres := FOk (b : bytes) | FErr | FPanic.

(* `reader, err = gzip.NewReader(r.Body); ...; defer reader.Close()` then reading.
   repaired = false: the pinned code (error not checked: a bad header leaves a nil
   *gzip.Reader that is then dereferenced); repaired = true: the working tree
   (`if err != nil { return ..., err }`) *)
Definition read_body (repaired : bool) (O : oracle) (r : response) : fres :=
  if rs_ce_gzip r then
    match o_gunzip O (rs_body r) with
    | GzOk o => FOk o
    | GzBodyErr _ => FErr
    | GzHdrErr => if repaired then FErr else FPanic
    end
  else FOk (rs_body r).

(* util.Get: reads the body first, then looks at the status *)
Definition http_get_all (repaired : bool) (O : oracle) (r : response) : fres :=
  match read_body repaired O r with
  | FOk b => if 400 <=? rs_status r then FErr else FOk b
  | other => other
  end.

(* ReadUrlAsStream(fileUrl, cipherKey, isContentGzipped, isFullChunk, offset, size, fn):
   the bytes handed to fn, concatenated *)
Definition fetch_gen (repaired : bool) (O : oracle) (n : needle) (key : option bytes) (gz full : bool) (off size : N) : fres :=
  match key with
  | Some k =>
      match http_get_all repaired O (server_get O n {| g_accept_gzip := true; g_range := None |}) with
      | FOk enc =>
          match decrypt O k enc with
          | None => FErr
          | Some d =>
              let d' := if gz then decompress_ignore_err (glib O) d else d in
              if len d' <? off + size then FErr
              else if full then FOk d' else FOk (slice off size d')
          end
      | other => other
      end
  | None =>
      let r := server_get O n {| g_accept_gzip := full; g_range := if full then None else Some (off, size) |} in
      if 400 <=? rs_status r then FErr else read_body repaired O r
  end.

(* the working tree *)
Definition fetch := fetch_gen true.

(* where the PINNED download path dereferenced nil (repaired since): a stored blob
   flagged compressed that carries the gzip magic but no valid gzip header, on a
   full or an encrypted fetch *)
Definition pinned_fetch_panic (O : oracle) (n : needle) (key : option bytes) (full : bool) : bool :=
  n_compressed n && is_gzipped_content (glib O) (n_data n) &&
  match o_gunzip O (n_data n) with GzHdrErr => true | _ => false end &&
  (match key with Some _ => true | None => full end).

(* ------------------------------------------------------------------------- *)
(* appended after the C33 audit (nothing above this line was changed)         *)

(* the bytes ReadUrlAsStream has handed to fn when it returns, error or not: on the
   plain path every Read result goes to fn before the error is looked at
   (`m, err = reader.Read(buf); fn(buf[:m])`), so a gzip body error still delivers
   the partial output; readEncryptedUrl calls fn only on success *)
Definition fetch_handed (O : oracle) (n : needle) (key : option bytes) (gz full : bool) (off size : N) : bytes :=
  match key with
  | Some _ => match fetch_gen true O n key gz full off size with FOk b => b | _ => [] end
  | None =>
      let r := server_get O n {| g_accept_gzip := full; g_range := if full then None else Some (off, size) |} in
      if 400 <=? rs_status r then []
      else if rs_ce_gzip r then
             match o_gunzip O (rs_body r) with GzOk o => o | GzBodyErr p => p | GzHdrErr => [] end
           else rs_body r
  end.

(* util.ReadUrl(fileUrl, cipherKey, isContentCompressed, isFullChunk, offset, size, buf)
   with len(buf) = buflen: the first n bytes of buf, or the error.  Encrypted:
   readEncryptedUrl with fn = copy into buf.  Plain: the status is looked at first,
   then `reader.Read(buf[i:])` until EOF, an error, or buf is full (then the rest is
   drained and its error dropped).  A gzip body error is only seen when buf is not
   full before the stream ends (compress/flate hands out everything it decoded
   together with the error when the output is below its 32 KiB window). *)
Definition read_url (repaired : bool) (O : oracle) (n : needle) (key : option bytes) (gz full : bool)
           (off size buflen : N) : fres :=
  match key with
  | Some _ =>
      match fetch_gen repaired O n key gz full off size with
      | FOk b => FOk (firstn (N.to_nat buflen) b)
      | other => other
      end
  | None =>
      let r := server_get O n {| g_accept_gzip := full; g_range := if full then None else Some (off, size) |} in
      if 400 <=? rs_status r then FErr
      else if rs_ce_gzip r then
             match o_gunzip O (rs_body r) with
             | GzOk o => FOk (firstn (N.to_nat buflen) o)
             | GzBodyErr p => if buflen <? len p then FOk (firstn (N.to_nat buflen) p) else FErr
             | GzHdrErr => if repaired then FErr else FPanic
             end
           else FOk (firstn (N.to_nat buflen) (rs_body r))
  end.

(* util.ReadUrlAsReaderCloser(fileUrl, rangeHeader) followed by ReadAll of the reader
   it returns (rangeHeader "" = None: Accept-Encoding gzip; else "bytes=off-(off+size-1)").
   The `defer reader.Close()` before the return only closes the flate state of a
   gzip.Reader (compress/flate's Close returns the pending error, it does not stop reads). *)
Definition read_closer (repaired : bool) (O : oracle) (n : needle) (rng : option (N * N)) : fres :=
  let r := server_get O n {| g_accept_gzip := match rng with None => true | Some _ => false end; g_range := rng |} in
  if 400 <=? rs_status r then FErr else read_body repaired O r.

(* known finding 0 of C33: the caller passed isInputCompressed but the data, although it
   starts with the gzip magic, is not a gzip stream (doUploadData ignores the
   DecompressData error and uploads anyway) *)
Definition false_gzip_promise (O : oracle) (u : upload_in) : bool :=
  u_ic u && is_gzipped_content (glib O) (u_data u) &&
  match o_gunzip O (u_data u) with GzOk _ => false | _ => true end.

(* what DecompressData leaves in clearData on such an input *)
Definition gunzip_partial (O : oracle) (d : bytes) : bytes :=
  match o_gunzip O d with GzOk o => o | GzBodyErr p => p | GzHdrErr => [] end.
