(* Model of weed/util/chunk_cache (C31): TieredChunkCache = an in-memory tier
   keyed by the file id and three on-disk tiers keyed by the NEEDLE KEY ONLY
   (volume id and cookie of the file id are dropped), each a ring of segments
   (OnDiskCacheLayer) whose oldest segment is reset when the newest is full.
   Faithful to the code as it is.  Executable definitions only; proofs are in
   proof/ChunkCacheProofs.v. *)
From Coq Require Import List NArith Bool.
Import ListNotations.
Local Open Scope N_scope.

Definition bytes := list N.
Definition blen (d : bytes) : N := N.of_nat (List.length d).
Definition is_empty (d : bytes) : bool := match d with [] => true | _ => false end.

(* a file id "vid,keycookie" in canonical spelling, or a string that
   needle.ParseFileIdFromString rejects *)
Inductive fileid := Fid (vid key cookie : N) | BadFid (tag : N).

Definition fileid_eqb (a b : fileid) : bool :=
  match a, b with
  | Fid v k c, Fid v' k' c' => (v =? v') && (k =? k') && (c =? c')
  | BadFid t, BadFid t' => t =? t'
  | _, _ => false
  end.

Definition fid_key (f : fileid) : option N :=
  match f with Fid _ k _ => Some k | BadFid _ => None end.

(* NewTieredChunkCache(maxEntries, dir, diskSizeInUnit, unitSize) *)
Record params := { unit_size : N; disk_units : N }.
Definition limit0 (p : params) : N := unit_size p.          (* onDiskCacheSizeLimit0 *)
Definition limit1 (p : params) : N := 4 * limit0 p.         (* onDiskCacheSizeLimit1 *)
(* NewOnDiskCacheLayer(dir, prefix, diskSize, segmentCount): diskSize/(30000 MiB) = 0
   volumes for every size below 30000 MiB, so segmentCount volumes of diskSize/segmentCount *)
Definition seg_limit0 (p : params) : N := (disk_units p * unit_size p / 8) / 2.
Definition seg_limit1 (p : params) : N := (disk_units p * unit_size p / 4 + disk_units p * unit_size p / 8) / 3.
Definition seg_limit2 (p : params) : N := (disk_units p * unit_size p / 2) / 2.

(* one record of a segment's index file: key, offset in the .dat, data, and
   whether the needle map still has it *)
Record rec := { r_key : N; r_off : N; r_data : bytes; r_valid : bool }.

(* ChunkCacheVolume: file number, fileSize, index records newest first *)
Record segment := { sg_id : N; sg_size : N; sg_recs : list rec }.
Definition layer := list segment.   (* newest segment first *)

Record state := {
  mem : list (fileid * bytes);   (* ccache contents if nothing had been evicted, newest first *)
  l0 : layer; l1 : layer; l2 : layer
}.

Fixpoint fresh_layer (n : nat) : layer :=
  match n with
  | O => []
  | S n' => {| sg_id := N.of_nat n'; sg_size := 0; sg_recs := [] |} :: fresh_layer n'
  end.
(* first open of an empty directory: the volume created last is the newest *)
Definition init_state : state :=
  {| mem := []; l0 := fresh_layer 2; l1 := fresh_layer 3; l2 := fresh_layer 2 |}.

(* ---------- one segment ---------- *)
(* WriteNeedle: append at fileSize, pad to NeedlePaddingSize = 8, nm.Put *)
Definition pad8 (n : N) : N := (n + 7) / 8 * 8.
Definition write_seg (s : segment) (key : N) (d : bytes) : segment :=
  {| sg_id := sg_id s;
     sg_size := sg_size s + pad8 (blen d);
     sg_recs := {| r_key := key; r_off := sg_size s; r_data := d; r_valid := true |} :: sg_recs s |}.

(* nm.Get + read: the newest record of the key, if the map still has it *)
Fixpoint seg_find (rs : list rec) (key : N) : option rec :=
  match rs with
  | [] => None
  | r :: rs' => if r_key r =? key then Some r else seg_find rs' key
  end.
Definition seg_get (s : segment) (key : N) : option bytes :=
  match seg_find (sg_recs s) key with
  | Some r => if r_valid r then Some (r_data r) else None
  | None => None
  end.

(* ---------- OnDiskCacheLayer ---------- *)
Definition reset_seg (s : segment) : segment := {| sg_id := sg_id s; sg_size := 0; sg_recs := [] |}.

Definition layer_set (limit : N) (l : layer) (key : N) (d : bytes) : layer :=
  match l with
  | [] => []
  | front :: rest =>
      if limit <? sg_size front + blen d then
        (* Reset the oldest volume and move it to the front *)
        write_seg (reset_seg (last l front)) key d :: removelast l
      else write_seg front key d :: rest
  end.

(* getChunk: newest segment first, the first non-empty answer *)
Fixpoint layer_get (l : layer) (key : N) : bytes :=
  match l with
  | [] => []
  | s :: l' => match seg_get s key with
               | Some d => if is_empty d then layer_get l' key else d
               | None => layer_get l' key
               end
  end.

(* getNeedleSlice: wanted = min(length, size - offset); negative => error *)
Definition slice (d : bytes) (off len : N) : option bytes :=
  if blen d <? off then None
  else Some (firstn (N.to_nat (N.min len (blen d - off))) (skipn (N.to_nat off) d)).

Fixpoint layer_get_slice (l : layer) (key off len : N) : bytes :=
  match l with
  | [] => []
  | s :: l' => match seg_get s key with
               | Some d => match slice d off len with
                           | Some x => if is_empty x then layer_get_slice l' key off len else x
                           | None => layer_get_slice l' key off len
                           end
               | None => layer_get_slice l' key off len
               end
  end.

(* ---------- TieredChunkCache ---------- *)
Fixpoint mem_find (m : list (fileid * bytes)) (f : fileid) : option bytes :=
  match m with
  | [] => None
  | (g, d) :: m' => if fileid_eqb g f then Some d else mem_find m' f
  end.

(* doSetChunk *)
Definition store (p : params) (st : state) (f : fileid) (d : bytes) : state :=
  let m := if blen d <=? limit0 p then (f, d) :: mem st else mem st in
  match fid_key f with
  | None => {| mem := m; l0 := l0 st; l1 := l1 st; l2 := l2 st |}
  | Some k =>
      if blen d <=? limit0 p then
        {| mem := m; l0 := layer_set (seg_limit0 p) (l0 st) k d; l1 := l1 st; l2 := l2 st |}
      else if blen d <=? limit1 p then
        {| mem := m; l0 := l0 st; l1 := layer_set (seg_limit1 p) (l1 st) k d; l2 := l2 st |}
      else
        {| mem := m; l0 := l0 st; l1 := l1 st; l2 := layer_set (seg_limit2 p) (l2 st) k d |}
  end.

(* doGetChunk with the memory tier answering [memd] (None = evicted / never stored) *)
Definition get_with (p : params) (st : state) (memd : option bytes) (f : fileid) (m : N) : bytes :=
  let md := match memd with Some d => d | None => [] end in
  if (m <=? limit0 p) && (m <=? blen md) then md else
  match fid_key f with
  | None => []
  | Some k =>
      let d0 := layer_get (l0 st) k in
      if (m <=? limit0 p) && (m <=? blen d0) then d0 else
      let d1 := layer_get (l1 st) k in
      if (m <=? limit1 p) && (m <=? blen d1) then d1 else
      let d2 := layer_get (l2 st) k in
      if m <=? blen d2 then d2 else []
  end.

(* doGetChunkSlice *)
Definition get_slice_with (p : params) (st : state) (memd : option bytes) (f : fileid) (off len : N) : bytes :=
  let m := off + len in
  let md := match memd with
            | Some d => match slice d off len with Some x => x | None => [] end
            | None => []
            end in
  if (m <=? limit0 p) && (m <=? blen md) then md else
  match fid_key f with
  | None => []
  | Some k =>
      let d0 := layer_get_slice (l0 st) k off len in
      if (m <=? limit0 p) && (m <=? blen d0) then d0 else
      let d1 := layer_get_slice (l1 st) k off len in
      if (m <=? limit1 p) && (m <=? blen d1) then d1 else
      let d2 := layer_get_slice (l2 st) k off len in
      if m <=? blen d2 then d2 else []
  end.

(* the memory tier is a ccache LRU: an entry may have been dropped at any time.
   The answers the model admits: with the entry evicted, and with it present. *)
Definition mem_choices (st : state) (f : fileid) : list (option bytes) :=
  match mem_find (mem st) f with Some d => [None; Some d] | None => [None] end.

(* ---------- restart ---------- *)
(* NewOnDiskCacheLayer re-opens the volume files and sorts them by the .dat
   modification time; [order] is the resulting order of file numbers (an input:
   file-system timestamps).  LoadOrCreateChunkCacheVolume -> NewLevelDbNeedleMap
   rebuilds the leveldb from the .idx when the leveldb LOG is not newer than the
   .idx ([regen], timestamps again): generateLevelDbFile deletes every key whose
   last index record has offset 0 or size 0. *)
Definition regen_rec (r : rec) : rec :=
  {| r_key := r_key r; r_off := r_off r; r_data := r_data r;
     r_valid := negb (r_off r =? 0) && negb (is_empty (r_data r)) |}.
Definition regen_seg (s : segment) : segment :=
  {| sg_id := sg_id s; sg_size := sg_size s; sg_recs := map regen_rec (sg_recs s) |}.

Fixpoint find_seg (l : layer) (id : N) : option segment :=
  match l with
  | [] => None
  | s :: l' => if sg_id s =? id then Some s else find_seg l' id
  end.
Fixpoint pick_segs (l : layer) (order : list N) : layer :=
  match order with
  | [] => []
  | id :: order' => match find_seg l id with
                    | Some s => s :: pick_segs l order'
                    | None => pick_segs l order'
                    end
  end.
Definition reorder (l : layer) (order : list N) : layer :=
  let l' := pick_segs l order in
  if Nat.eqb (List.length l') (List.length l) then l' else l.

Definition reopen_layer (regen : bool) (l : layer) (order : list N) : layer :=
  let l' := reorder l order in if regen then map regen_seg l' else l'.

Definition restart (st : state) (regen : bool) (o0 o1 o2 : list N) : state :=
  {| mem := [];
     l0 := reopen_layer regen (l0 st) o0;
     l1 := reopen_layer regen (l1 st) o1;
     l2 := reopen_layer regen (l2 st) o2 |}.

(* ---------- histories ---------- *)
Inductive op :=
| Store (f : fileid) (d : bytes)
| Get (f : fileid) (min_size : N)
| GetSlice (f : fileid) (off len : N)
| Restart (regen : bool) (o0 o1 o2 : list N).

Definition step (p : params) (st : state) (o : op) : state :=
  match o with
  | Store f d => store p st f d
  | Restart g a b c => restart st g a b c
  | _ => st
  end.

(* the answers admitted for an operation (stores and restarts answer nothing) *)
Definition answers (p : params) (st : state) (o : op) : list bytes :=
  match o with
  | Get f m => map (fun md => get_with p st md f m) (mem_choices st f)
  | GetSlice f off len => map (fun md => get_slice_with p st md f off len) (mem_choices st f)
  | _ => []
  end.

Fixpoint run (p : params) (st : state) (ops : list op) : list (list bytes) :=
  match ops with
  | [] => []
  | o :: ops' => answers p st o :: run p (step p st o) ops'
  end.

(* ---------- the property's reference ---------- *)
Fixpoint bytes_eqb (a b : bytes) : bool :=
  match a, b with
  | [], [] => true
  | x :: a', y :: b' => (x =? y) && bytes_eqb a' b'
  | _, _ => false
  end.

(* what a lookup may return when [d] was stored for the file id *)
Definition expected (o : op) (d : bytes) : option bytes :=
  match o with
  | Get _ m => if m <=? blen d then Some d else None
  | GetSlice _ off len =>
      if off + len <=? blen d then Some (firstn (N.to_nat len) (skipn (N.to_nat off) d)) else None
  | _ => None
  end.

Definition op_fid (o : op) : option fileid :=
  match o with Store f _ => Some f | Get f _ => Some f | GetSlice f _ _ => Some f | Restart _ _ _ _ => None end.

(* [r] is nothing, or what some earlier store FOR THE SAME FILE ID allows *)
Definition transparent_answer (stored : list (fileid * bytes)) (o : op) (r : bytes) : bool :=
  is_empty r ||
  match op_fid o with
  | Some f => existsb (fun fd => fileid_eqb (fst fd) f &&
                                 match expected o (snd fd) with Some x => bytes_eqb x r | None => false end) stored
  | None => false
  end.

Definition is_lookup (o : op) : bool := match o with Get _ _ | GetSlice _ _ _ => true | _ => false end.
Definition remember (stored : list (fileid * bytes)) (o : op) : list (fileid * bytes) :=
  match o with Store f d => (f, d) :: stored | _ => stored end.

(* every admitted answer of every lookup of the history is transparent *)
Fixpoint transparent_from (stored : list (fileid * bytes)) (ops : list op) (outs : list (list bytes)) : bool :=
  match ops, outs with
  | [], _ => true
  | o :: ops', rs :: outs' =>
      (if is_lookup o then forallb (transparent_answer stored o) rs else true) &&
      transparent_from (remember stored o) ops' outs'
  | _ :: _, [] => false
  end.

(* the correspondence relation: an implementation answer is accepted iff it is one
   of the admitted answers (the first admitted answer is always the one with the
   memory entry evicted) *)
Definition admits (rs : list bytes) (impl : bytes) : bool := existsb (bytes_eqb impl) rs.
Fixpoint admitted_all (ops : list op) (outs : list (list bytes)) (impl : list bytes) : bool :=
  match ops, outs, impl with
  | [], _, _ => true
  | o :: ops', rs :: outs', r :: impl' =>
      (if is_lookup o then admits rs r else true) && admitted_all ops' outs' impl'
  | _, _, _ => false
  end.

(* the property evaluated on the implementation's own answers (one per operation) *)
Fixpoint impl_transparent (stored : list (fileid * bytes)) (ops : list op) (impl : list bytes) : bool :=
  match ops, impl with
  | [], _ => true
  | o :: ops', r :: impl' =>
      (if is_lookup o then transparent_answer stored o r else true) &&
      impl_transparent (remember stored o) ops' impl'
  | _ :: _, [] => false
  end.

(* no two distinct file ids of the history share a needle key *)
Definition fids_of (ops : list op) : list fileid :=
  fold_right (fun o acc => match op_fid o with Some f => f :: acc | None => acc end) [] ops.
Definition key_clash (a b : fileid) : bool :=
  match fid_key a, fid_key b with
  | Some k, Some k' => (k =? k') && negb (fileid_eqb a b)
  | _, _ => false
  end.
Definition keys_unique (ops : list op) : bool :=
  let fs := fids_of ops in forallb (fun a => forallb (fun b => negb (key_clash a b)) fs) fs.
