(* Model of weed/util/chunk_cache (C31): TieredChunkCache = an in-memory tier
   keyed by the file id and three on-disk tiers keyed by the NEEDLE KEY ONLY
   (volume id and cookie of the file id are dropped), each a ring of segments
   (OnDiskCacheLayer) whose oldest segment is reset when the newest is full.
   Faithful to the code as it is.  Executable definitions only; proofs are in
   proof/ChunkCacheProofs.v. *)
From Coq Require Import List NArith Bool.
Import ListNotations.
Local Open Scope N_scope.

Definition bytes := list N.
Definition blen (d : bytes) : N := N.of_nat (List.length d).
Definition is_empty (d : bytes) : bool := match d with [] => true | _ => false end.

(* a file id "vid,keycookie" in canonical spelling, or a string that
   needle.ParseFileIdFromString rejects *)
Inductive fileid := Fid (vid key cookie : N) | BadFid (tag : N).

Definition fileid_eqb (a b : fileid) : bool :=
  match a, b with
  | Fid v k c, Fid v' k' c' => (v =? v') && (k =? k') && (c =? c')
  | BadFid t, BadFid t' => t =? t'
  | _, _ => false
  end.

Definition fid_key (f : fileid) : option N :=
  match f with Fid _ k _ => Some k | BadFid _ => None end.

(* Go's int(x) for a uint64 x: values from 2^63 on would be negative.  Since the
   repair (commit b3a266ba) doGetChunk / doGetChunkSlice return nil before any such
   conversion: [too_big] / [slice_guard] below; behind them int(x) = x. *)
Definition two63 : N := 9223372036854775808.   (* math.MaxInt64 + 1 *)
Definition two64 : N := 18446744073709551616.
(* doGetChunk: minSize > math.MaxInt64 *)
Definition too_big (m : N) : bool := two63 <=? m.
(* doGetChunkSlice: minSize := offset + length (uint64, wraps);
   minSize < offset || minSize > math.MaxInt64 *)
Definition slice_guard (off len : N) : bool :=
  let m := (off + len) mod two64 in (m <? off) || (two63 <=? m).

(* NewTieredChunkCache(maxEntries, dir, diskSizeInUnit, unitSize) *)
Record params := { unit_size : N; disk_units : N }.
Definition limit0 (p : params) : N := unit_size p.          (* onDiskCacheSizeLimit0 *)
Definition limit1 (p : params) : N := 4 * limit0 p.         (* onDiskCacheSizeLimit1 *)
(* NewOnDiskCacheLayer(dir, prefix, diskSize, segmentCount): diskSize/(30000 MiB) = 0
   volumes for every size below 30000 MiB, so segmentCount volumes of diskSize/segmentCount *)
Definition seg_limit0 (p : params) : N := (disk_units p * unit_size p / 8) / 2.
Definition seg_limit1 (p : params) : N := (disk_units p * unit_size p / 4 + disk_units p * unit_size p / 8) / 3.
Definition seg_limit2 (p : params) : N := (disk_units p * unit_size p / 2) / 2.

(* one record of a segment's index file: key, offset in the .dat, data, and
   whether the needle map still has it *)
Record rec := { r_key : N; r_off : N; r_data : bytes; r_valid : bool }.

(* ChunkCacheVolume: file number, fileSize, index records newest first *)
Record segment := { sg_id : N; sg_size : N; sg_recs : list rec }.
Definition layer := list segment.   (* newest segment first *)

Record state := {
  mem : list (fileid * bytes);   (* ccache contents if nothing had been evicted, newest first *)
  l0 : layer; l1 : layer; l2 : layer
}.

Fixpoint fresh_layer (n : nat) : layer :=
  match n with
  | O => []
  | S n' => {| sg_id := N.of_nat n'; sg_size := 0; sg_recs := [] |} :: fresh_layer n'
  end.
(* first open of an empty directory: the volume created last is the newest *)
Definition init_state : state :=
  {| mem := []; l0 := fresh_layer 2; l1 := fresh_layer 3; l2 := fresh_layer 2 |}.

(* ---------- one segment ---------- *)
(* WriteNeedle: append at fileSize, pad to NeedlePaddingSize = 8, nm.Put *)
Definition pad8 (n : N) : N := (n + 7) / 8 * 8.
Definition write_seg (s : segment) (key : N) (d : bytes) : segment :=
  {| sg_id := sg_id s;
     sg_size := sg_size s + pad8 (blen d);
     sg_recs := {| r_key := key; r_off := sg_size s; r_data := d; r_valid := true |} :: sg_recs s |}.

(* nm.Get + read: the newest record of the key, if the map still has it *)
Fixpoint seg_find (rs : list rec) (key : N) : option rec :=
  match rs with
  | [] => None
  | r :: rs' => if r_key r =? key then Some r else seg_find rs' key
  end.
Definition seg_get (s : segment) (key : N) : option bytes :=
  match seg_find (sg_recs s) key with
  | Some r => if r_valid r then Some (r_data r) else None
  | None => None
  end.

(* NewLevelDbNeedleMap -> generateLevelDbFile: the leveldb of a segment is rebuilt
   from its .idx file: every key whose last index record has offset 0 or size 0 is
   deleted (used by a restart, below, and by Reset) *)
Definition regen_rec (r : rec) : rec :=
  {| r_key := r_key r; r_off := r_off r; r_data := r_data r;
     r_valid := negb (r_off r =? 0) && negb (is_empty (r_data r)) |}.
Definition regen_seg (s : segment) : segment :=
  {| sg_id := sg_id s; sg_size := sg_size s; sg_recs := map regen_rec (sg_recs s) |}.

(* ---------- OnDiskCacheLayer ---------- *)
(* ChunkCacheVolume.Reset = doReset, then LoadOrCreateChunkCacheVolume of the same
   file name.  doReset (chunk_cache_on_disk.go:91-98), file by file:
     os.Truncate(.dat, 0)   the data file is emptied        (fileSize re-read as 0)
     os.Truncate(.idx, 0)   the index file is emptied       (no record survives)
     os.RemoveAll(.ldb)     the leveldb directory is removed
   The reload finds no leveldb and REGENERATES it from the .idx file — the emptied
   one.  (Were the .idx not emptied, the rebuilt map would keep the evicted needles'
   offsets pointing into the new contents of the .dat.) *)
Definition truncate_dat (s : segment) : segment :=
  {| sg_id := sg_id s; sg_size := 0; sg_recs := sg_recs s |}.
Definition truncate_idx (s : segment) : segment :=
  {| sg_id := sg_id s; sg_size := sg_size s; sg_recs := [] |}.
Definition reset_seg (s : segment) : segment := regen_seg (truncate_idx (truncate_dat s)).

Definition layer_set (limit : N) (l : layer) (key : N) (d : bytes) : layer :=
  match l with
  | [] => []
  | front :: rest =>
      if limit <? sg_size front + blen d then
        (* Reset the oldest volume and move it to the front *)
        write_seg (reset_seg (last l front)) key d :: removelast l
      else write_seg front key d :: rest
  end.

(* getChunk: newest segment first, the first non-empty answer *)
Fixpoint layer_get (l : layer) (key : N) : bytes :=
  match l with
  | [] => []
  | s :: l' => match seg_get s key with
               | Some d => if is_empty d then layer_get l' key else d
               | None => layer_get l' key
               end
  end.

(* getNeedleSlice / ChunkCacheInMemory.getChunkSlice:
   wanted = min(int(length), size - int(offset)); negative => error.
   Only reached behind [slice_guard], i.e. with offset and length below 2^63
   (int(offset) = offset); the first test (a negative int(length)) is kept so that
   the function is total on N, it is dead behind the guard. *)
Definition slice (d : bytes) (off len : N) : option bytes :=
  if two63 <=? len then None
  else if blen d <? off then None
  else Some (firstn (N.to_nat (N.min len (blen d - off))) (skipn (N.to_nat off) d)).

Fixpoint layer_get_slice (l : layer) (key off len : N) : bytes :=
  match l with
  | [] => []
  | s :: l' => match seg_get s key with
               | Some d => match slice d off len with
                           | Some x => if is_empty x then layer_get_slice l' key off len else x
                           | None => layer_get_slice l' key off len
                           end
               | None => layer_get_slice l' key off len
               end
  end.

(* ---------- TieredChunkCache ---------- *)
Fixpoint mem_find (m : list (fileid * bytes)) (f : fileid) : option bytes :=
  match m with
  | [] => None
  | (g, d) :: m' => if fileid_eqb g f then Some d else mem_find m' f
  end.

(* doSetChunk *)
Definition store (p : params) (st : state) (f : fileid) (d : bytes) : state :=
  let m := if blen d <=? limit0 p then (f, d) :: mem st else mem st in
  match fid_key f with
  | None => {| mem := m; l0 := l0 st; l1 := l1 st; l2 := l2 st |}
  | Some k =>
      if blen d <=? limit0 p then
        {| mem := m; l0 := layer_set (seg_limit0 p) (l0 st) k d; l1 := l1 st; l2 := l2 st |}
      else if blen d <=? limit1 p then
        {| mem := m; l0 := l0 st; l1 := layer_set (seg_limit1 p) (l1 st) k d; l2 := l2 st |}
      else
        {| mem := m; l0 := l0 st; l1 := l1 st; l2 := layer_set (seg_limit2 p) (l2 st) k d |}
  end.

(* doGetChunk with the memory tier answering [memd] (None = evicted / never stored) *)
Definition get_with (p : params) (st : state) (memd : option bytes) (f : fileid) (m : N) : bytes :=
  if too_big m then [] else
  let md := match memd with Some d => d | None => [] end in
  if (m <=? limit0 p) && (m <=? blen md) then md else
  match fid_key f with
  | None => []
  | Some k =>
      let d0 := layer_get (l0 st) k in
      if (m <=? limit0 p) && (m <=? blen d0) then d0 else
      let d1 := layer_get (l1 st) k in
      if (m <=? limit1 p) && (m <=? blen d1) then d1 else
      let d2 := layer_get (l2 st) k in
      if m <=? blen d2 then d2 else []
  end.

(* doGetChunkSlice behind the guard: offset + length did not wrap and is below 2^63 *)
Definition get_slice_small (p : params) (st : state) (memd : option bytes) (f : fileid) (off len : N) : bytes :=
  let m := off + len in
  let md := match memd with
            | Some d => match slice d off len with Some x => x | None => [] end
            | None => []
            end in
  if (m <=? limit0 p) && (m <=? blen md) then md else
  match fid_key f with
  | None => []
  | Some k =>
      let d0 := layer_get_slice (l0 st) k off len in
      if (m <=? limit0 p) && (m <=? blen d0) then d0 else
      let d1 := layer_get_slice (l1 st) k off len in
      if (m <=? limit1 p) && (m <=? blen d1) then d1 else
      let d2 := layer_get_slice (l2 st) k off len in
      if m <=? blen d2 then d2 else []
  end.

(* doGetChunkSlice: a lookup whose offset + length overflows or is 2^63 or more
   misses in every tier (before the repair: int(offset) negative, a panic in the
   memory tier and bytes in front of the chunk from a disk tier) *)
Definition get_slice_with (p : params) (st : state) (memd : option bytes) (f : fileid) (off len : N) : bytes :=
  if slice_guard off len then [] else get_slice_small p st memd f off len.

(* the memory tier is a ccache LRU: an entry may have been dropped at any time.
   The answers the model admits: with the entry evicted, and with it present. *)
Definition mem_choices (st : state) (f : fileid) : list (option bytes) :=
  match mem_find (mem st) f with Some d => [None; Some d] | None => [None] end.

(* ---------- restart ---------- *)
(* NewOnDiskCacheLayer re-opens the volume files and sorts them by the .dat
   modification time; the order of file numbers is an input (file-system
   timestamps).  LoadOrCreateChunkCacheVolume -> NewLevelDbNeedleMap rebuilds the
   leveldb of ONE segment from its .idx when that segment's leveldb LOG is not newer
   than its .idx (the flag beside the file number; timestamps again):
   generateLevelDbFile deletes every key whose last index record has offset 0 or
   size 0. *)
Fixpoint find_seg (l : layer) (id : N) : option segment :=
  match l with
  | [] => None
  | s :: l' => if sg_id s =? id then Some s else find_seg l' id
  end.
Fixpoint pick_segs (l : layer) (order : list (N * bool)) : layer :=
  match order with
  | [] => []
  | (id, regen) :: order' =>
      match find_seg l id with
      | Some s => (if regen then regen_seg s else s) :: pick_segs l order'
      | None => pick_segs l order'
      end
  end.
(* total: an order that does not name every segment leaves the layer as it is
   ([order_ok] below rejects such an order in the correspondence check) *)
Definition reopen_layer (l : layer) (order : list (N * bool)) : layer :=
  let l' := pick_segs l order in
  if Nat.eqb (List.length l') (List.length l) then l' else l.

Definition restart (st : state) (o0 o1 o2 : list (N * bool)) : state :=
  {| mem := [];
     l0 := reopen_layer (l0 st) o0;
     l1 := reopen_layer (l1 st) o1;
     l2 := reopen_layer (l2 st) o2 |}.

(* ---------- histories ---------- *)
Inductive op :=
| Store (f : fileid) (d : bytes)
| Get (f : fileid) (min_size : N)
| GetSlice (f : fileid) (off len : N)
| Restart (o0 o1 o2 : list (N * bool)).

Definition step (p : params) (st : state) (o : op) : state :=
  match o with
  | Store f d => store p st f d
  | Restart a b c => restart st a b c
  | _ => st
  end.

(* the answers admitted for an operation (stores and restarts answer nothing) *)
Definition answers (p : params) (st : state) (o : op) : list bytes :=
  match o with
  | Get f m => map (fun md => get_with p st md f m) (mem_choices st f)
  | GetSlice f off len => map (fun md => get_slice_with p st md f off len) (mem_choices st f)
  | _ => []
  end.

Fixpoint run (p : params) (st : state) (ops : list op) : list (list bytes) :=
  match ops with
  | [] => []
  | o :: ops' => answers p st o :: run p (step p st o) ops'
  end.

(* well-formed inputs of the correspondence check: the order of a restart is a
   permutation of the layer's file numbers, sizes and offsets are uint64 values *)
Definition order_ok (n : nat) (order : list (N * bool)) : bool :=
  Nat.eqb (List.length order) n &&
  forallb (fun i => existsb (fun e => fst e =? N.of_nat i) order) (seq 0 n).
Definition op_ok (o : op) : bool :=
  match o with
  | Store _ _ => true
  | Get _ m => m <? two64
  | GetSlice _ off len => (off <? two64) && (len <? two64)
  | Restart a b c => order_ok 2 a && order_ok 3 b && order_ok 2 c
  end.
Definition hist_ok (ops : list op) : bool := forallb op_ok ops.

(* ---------- the property's reference ---------- *)
Fixpoint bytes_eqb (a b : bytes) : bool :=
  match a, b with
  | [], [] => true
  | x :: a', y :: b' => (x =? y) && bytes_eqb a' b'
  | _, _ => false
  end.

(* what a lookup may return when [d] was stored for the file id *)
Definition expected (o : op) (d : bytes) : option bytes :=
  match o with
  | Get _ m => if m <=? blen d then Some d else None
  | GetSlice _ off len =>
      if off + len <=? blen d then Some (firstn (N.to_nat len) (skipn (N.to_nat off) d)) else None
  | _ => None
  end.

Definition op_fid (o : op) : option fileid :=
  match o with Store f _ => Some f | Get f _ => Some f | GetSlice f _ _ => Some f | Restart _ _ _ => None end.

(* [r] is nothing, or what some earlier store FOR THE SAME FILE ID allows *)
Definition transparent_answer (stored : list (fileid * bytes)) (o : op) (r : bytes) : bool :=
  is_empty r ||
  match op_fid o with
  | Some f => existsb (fun fd => fileid_eqb (fst fd) f &&
                                 match expected o (snd fd) with Some x => bytes_eqb x r | None => false end) stored
  | None => false
  end.

Definition is_lookup (o : op) : bool := match o with Get _ _ | GetSlice _ _ _ => true | _ => false end.
Definition remember (stored : list (fileid * bytes)) (o : op) : list (fileid * bytes) :=
  match o with Store f d => (f, d) :: stored | _ => stored end.

(* [P stored o r] for every admitted answer [r] of every lookup [o] of the
   history, [stored] being the stores before it *)
Definition pred := list (fileid * bytes) -> op -> bytes -> bool.
Fixpoint all_from (P : pred) (stored : list (fileid * bytes)) (ops : list op) (outs : list (list bytes)) : bool :=
  match ops, outs with
  | [], _ => true
  | o :: ops', rs :: outs' =>
      (if is_lookup o then forallb (P stored o) rs else true) &&
      all_from P (remember stored o) ops' outs'
  | _ :: _, [] => false
  end.
(* every admitted answer of every lookup of the history is transparent *)
Definition transparent_from := all_from transparent_answer.

(* the correspondence relation: an implementation answer is accepted iff it is one
   of the admitted answers (the first admitted answer is always the one with the
   memory entry evicted) *)
Definition admits (rs : list bytes) (impl : bytes) : bool := existsb (bytes_eqb impl) rs.
Fixpoint admitted_all (ops : list op) (outs : list (list bytes)) (impl : list bytes) : bool :=
  match ops, outs, impl with
  | [], _, _ => true
  | o :: ops', rs :: outs', r :: impl' =>
      (if is_lookup o then admits rs r else true) && admitted_all ops' outs' impl'
  | _, _, _ => false
  end.

(* [P] evaluated on the implementation's own answers (one per operation) *)
Fixpoint impl_from (P : pred) (stored : list (fileid * bytes)) (ops : list op) (impl : list bytes) : bool :=
  match ops, impl with
  | [], _ => true
  | o :: ops', r :: impl' =>
      (if is_lookup o then P stored o r else true) &&
      impl_from P (remember stored o) ops' impl'
  | _ :: _, [] => false
  end.
Definition impl_transparent := impl_from transparent_answer.

(* ---------- what the code guarantees without any hypothesis ---------- *)
(* the disk tiers drop the volume id and the cookie: [g] can answer for [f] *)
Definition same_key (g f : fileid) : bool :=
  match fid_key g, fid_key f with
  | Some k, Some k' => k =? k'
  | _, _ => false
  end.
Definition related (g f : fileid) : bool := fileid_eqb g f || same_key g f.

Definition allowed_by (rel : fileid -> fileid -> bool)
                      (stored : list (fileid * bytes)) (o : op) (r : bytes) : bool :=
  match op_fid o with
  | Some f => existsb (fun fd => rel (fst fd) f &&
                                 match expected o (snd fd) with Some x => bytes_eqb x r | None => false end) stored
  | None => false
  end.

(* [r] is nothing, or what an earlier store for a file id WITH THE SAME NEEDLE KEY
   (or the same file id) allows; "allows" is the property's [expected] *)
Definition explained : pred := fun stored o r =>
  is_empty r || allowed_by related stored o r.

(* the one known way an answer fails [transparent_answer] *)
Definition key_clash (a b : fileid) : bool :=
  match fid_key a, fid_key b with
  | Some k, Some k' => (k =? k') && negb (fileid_eqb a b)
  | _, _ => false
  end.
(* finding 0 at one lookup: the answer is what a store for ANOTHER file id with the
   same needle key allows *)
Definition alias_answer : pred := fun stored o r => allowed_by key_clash stored o r.

(* a store for another file id with the same needle key precedes the lookup *)
Definition alias_before (stored : list (fileid * bytes)) (o : op) : bool :=
  match op_fid o with
  | Some f => existsb (fun fd => key_clash (fst fd) f) stored
  | None => false
  end.
Definition step_clean (stored : list (fileid * bytes)) (o : op) : bool :=
  negb (alias_before stored o).
(* transparency demanded at exactly the clean lookups *)
Definition narrow_answer : pred := fun stored o r => negb (step_clean stored o) || transparent_answer stored o r.

(* the known finding a failing implementation answer falls under: every lookup
   whose answer is not transparent must be explained by finding 0 at THAT lookup.
   (Findings 1 and 2 — minimum size / slice offset from 2^63 on — are repaired:
   the numbers 1 and 2 are no longer emitted and are not reused.) *)
Fixpoint classify (stored : list (fileid * bytes)) (ops : list op) (impl : list bytes) (acc : option N) : option (option N) :=
  match ops, impl with
  | o :: ops', r :: impl' =>
      if is_lookup o && negb (transparent_answer stored o r) then
        if alias_answer stored o r then
          classify (remember stored o) ops' impl' (match acc with None => Some 0 | _ => acc end)
        else None
      else classify (remember stored o) ops' impl' acc
  | _, _ => Some acc
  end.
Definition trigger (ops : list op) (impl : list bytes) : option N :=
  match classify [] ops impl None with Some t => t | None => None end.

(* no two distinct file ids of the history share a needle key *)
Definition fids_of (ops : list op) : list fileid :=
  fold_right (fun o acc => match op_fid o with Some f => f :: acc | None => acc end) [] ops.
Definition keys_unique (ops : list op) : bool :=
  let fs := fids_of ops in forallb (fun a => forallb (fun b => negb (key_clash a b)) fs) fs.
