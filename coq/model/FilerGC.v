(* C20: chunk garbage collection.  The state machine (every path that schedules chunk
   deletions) is model/HardLink.v; this file adds the specification side:
   the referenced set, the two property oracles for one step, the decidable trigger
   predicates of the known findings and the client assumptions.
   Executable definitions only; proofs are in proof/FilerGCProofs.v. *)
From Coq Require Import List NArith ZArith Bool String.
From SW Require Import model.Chunks model.HardLink.
Import ListNotations.
Local Open Scope N_scope.

(* ---------- the property, for one step ---------- *)
(* no chunk id handed to a deletion sink is referenced by the state after the operation *)
Definition no_live_b (sched refs_after : list N) : bool := disjoint sched refs_after.

(* does the operation ask for the data to be deleted?  DeleteEntry carries the flag; the
   mount's unlink computes it from the counter it read; every other operation that drops
   chunks (overwrite, update, append, rename onto an existing name) always deletes them *)
Definition requests_deletion (ev : env) (s : st) (o : op) : bool :=
  match o with
  | Delete _ _ _ data => data
  | Unlink p => match find_entry ev s p with Some e => (h_cnt e <=? 1)%Z | None => false end
  | _ => true
  end.

(* every chunk id that was referenced before and is not referenced afterwards has been scheduled *)
Definition all_garbage_b (refs_before refs_after sched : list N) : bool :=
  forallb (fun c => mem c refs_after || mem c sched) refs_before.

Definition step_prop (ev : env) (s : st) (o : op) (refs_before refs_after sched : list N) : bool :=
  no_live_b sched refs_after &&
  (if requests_deletion ev s o then all_garbage_b refs_before refs_after sched else true).

(* ---------- trigger predicates of the known findings: one explanation PER OFFENDING CHUNK ----------
   A step fails the property through individual chunk ids: a scheduled id that is still referenced
   afterwards (live), or an id that stopped being referenced and was not scheduled although the
   operation asked for the data to go (leaked).  Every such id must be explained by the syntactic
   condition of one known finding, evaluated on the state BEFORE the step and on the operation's
   arguments (never on the model's outcome): a failing chunk that no condition explains is an
   unknown violation, whatever else happens in the history. *)

(* the offending chunk ids of one step, from the sets before / after and the scheduled ids *)
Definition live_ids (refs_after sched : list N) : list N := filter (fun c => mem c refs_after) sched.
Definition leaked_ids (req : bool) (refs_before refs_after sched : list N) : list N :=
  if req then filter (fun c => negb (mem c refs_after) && negb (mem c sched)) refs_before else [].

(* c sits under a (top-level) manifest chunk of the list *)
Definition under_manifest (ev : env) (cs : list chunk) (c : N) : bool :=
  existsb (fun m => c_manifest m &&
                    match ms_lookup (ms ev) (c_fid m) with Some sub => mem c (fids sub) | None => false end) cs.

Definition chunks_at (s : st) (p : path) : list chunk :=
  match w_find s p with Some e => h_chunks e | None => [] end.
Definition reach_at (ev : env) (s : st) (p : path) : list N :=
  match w_find s p with Some e => reach ev (h_chunks e) | None => [] end.

(* the chunk list an operation brings *)
Definition op_chunks (o : op) : list chunk :=
  match o with
  | Create _ e _ | Update _ e => h_chunks e
  | Append _ cs | Write _ cs _ _ => cs
  | _ => []
  end.

Definition via_update (o : op) : bool :=
  match o with Update _ _ | Write _ _ _ false => true | _ => false end.

(* k = 0 / 3: an entry is written over an existing one, the chunk stays reachable from the list the
   operation brings, and it sits under a manifest chunk of the new list (wrap: the top-level id
   comparison of deleteChunksIfNotNew does not see it) or of the old list (unwrap / re-wrap: a dropped
   manifest is expanded by one level and deleted with everything below it).
   0: the write goes through Filer.CreateEntry; 3: through the gRPC UpdateEntry handler *)
Definition explain_manifest (ev : env) (s : st) (o : op) (c : N) : bool :=
  match o with
  | Create p _ _ | Update p _ | Write p _ _ _ =>
      mem c (reach ev (op_chunks o)) &&
      (under_manifest ev (op_chunks o) c || under_manifest ev (chunks_at s p) c)
  | _ => false
  end.

(* the names whose entry an operation removes or replaces by an entry without link id, with data deletion *)
Definition victims (s : st) (o : op) : list path :=
  match o with
  | Delete p _ _ true => [p]
  | Create p e _ | Update p e => if h_hl e =? 0 then [p] else []
  | Rename oldp newp =>
      if path_eqb oldp newp then [] else newp :: map (fun c => child newp (fst c)) (list_children s oldp)
  | _ => []
  end.

(* the chunk is shown by the link record of the blob stored at [p], and other names carry that id too *)
Definition shared_at (ev : env) (s : st) (p : path) (c : N) : bool :=
  match nfind s p with
  | Some b => negb (h_hl b =? 0) && Nat.ltb 1 (count_names s (h_hl b)) && mem c (reach ev (h_chunks (view s b)))
  | None => false
  end.

(* k = 1: the chunk belongs to the link record of a victim name that is not the last name of its record *)
Definition explain_shared (ev : env) (s : st) (o : op) (c : N) : bool :=
  existsb (fun t => shared_at ev s t c) (victims s o).

(* k = 2 (leak): a directory is deleted recursively with data deletion and the chunk is shown by a
   child that carries a hard link id (left to maybeDeleteHardLinks, which schedules nothing) *)
Definition explain_rec_hl (ev : env) (s : st) (o : op) (c : N) : bool :=
  match o with
  | Delete p _ _ true =>
      match find_entry ev s p with
      | Some e => h_dir e &&
                  existsb (fun ch => negb (h_dir (snd ch)) && negb (h_hl (snd ch) =? 0) &&
                                     mem c (reach ev (h_chunks (view s (snd ch))))) (list_children s p)
      | None => false
      end
  | _ => false
  end.

(* k = 4: the chunk ids an operation may leave shared between a plain entry and a link record:
   a rename that moves (or replaces) a name whose blob carries the id of a record with other names
   (moveSelfEntry copies the chunks, not the id: the C21 finding), or an entry without id written over
   such a name (the counter is decremented since the repair, the new plain entry may keep the chunks) *)
Definition taint_of (ev : env) (s : st) (o : op) : list N :=
  let at_ (p : path) := filter (shared_at ev s p) (reach_at ev s p) in
  match o with
  | Create p e _ | Update p e => if h_hl e =? 0 then at_ p else []
  | Rename oldp newp =>
      if path_eqb oldp newp then []
      else at_ oldp ++ at_ newp ++
           flat_map (fun c => at_ (child oldp (fst c)) ++ at_ (child newp (fst c))) (list_children s oldp)
  | _ => []
  end.

(* the explanation of one offending chunk; [taint] = the ids tainted by EARLIER steps *)
Definition explain (ev : env) (taint : list N) (s : st) (o : op) (leak : bool) (c : N) : option N :=
  if negb leak && explain_manifest ev s o c then (if via_update o then Some 3 else Some 0)
  else if mem c taint then Some 4
  else if negb leak && explain_shared ev s o c then Some 1
  else if leak && explain_rec_hl ev s o c then Some 2
  else None.

(* one entry per offending chunk of every failing step of the model's run, in program order *)
Fixpoint failures (ev : env) (taint : list N) (s : st) (ops : list op) : list (option N) :=
  match ops with
  | [] => []
  | o :: ops' =>
      let r := step ev s o in
      let rb := refs ev s in
      let ra := refs ev (st_of r) in
      map (explain ev taint s o false) (live_ids ra (sched_of r)) ++
      map (explain ev taint s o true) (leaked_ids (requests_deletion ev s o) rb ra (sched_of r)) ++
      failures ev (taint_of ev s o ++ taint) (st_of r) ops'
  end.

Definition is_some {A} (x : option A) : bool := match x with Some _ => true | None => false end.

(* None: no step fails; Some (Some k): steps fail, EVERY offending chunk of EVERY failing step is
   explained by a known finding, k is the finding of the first one; Some None: some offending chunk is
   explained by nothing *)
Definition first_failure (ev : env) (ops : list op) : option (option N) :=
  match failures ev [] empty_st ops with
  | [] => None
  | k :: l => Some (if forallb is_some (k :: l) then k else None)
  end.

(* ---------- client assumptions (decidable) ---------- *)
Definition chunk_ok (c : chunk) : bool := (0 <? c_size c) && (c_off c + c_size c <? max_int64).
(* manifests hold data chunks only (SeaweedFS never nests manifests: doMaybeManifestize merges data chunks) *)
Definition flat_env (ev : env) : bool :=
  forallb (fun kv => forallb (fun c => negb (c_manifest c) && chunk_ok c) (snd kv)) (ms ev).
Definition manifests_known (ev : env) (cs : list chunk) : bool :=
  forallb (fun c => negb (c_manifest c) || match ms_lookup (ms ev) (c_fid c) with Some _ => true | None => false end) cs.

Definition op_path (o : op) : path :=
  match o with
  | Create p _ _ | Update p _ | Append p _ | Delete p _ _ _ | Write p _ _ _ | Unlink p => p
  | Rename p _ | Link p _ _ => p
  end.

(* a chunk id brought by an operation is new to the filer, or already belongs to the entry it is written to *)
Definition fresh_op (ev : env) (s : st) (o : op) : bool :=
  forallb (fun c => mem c (reach_at ev s (op_path o)) || negb (mem c (refs ev s))) (reach ev (op_chunks o)).

(* the client assumptions for one operation: those of C21 (requests of other clients carry no link
   id; the mount links an existing file to a new name with an unused id; only files are appended
   or written to), and: chunks are non-empty and end below MaxInt64; every manifest chunk is
   readable; chunk ids are fresh; a directory entry carries no chunks *)
Definition op_ok (ev : env) (s : st) (o : op) : bool :=
  forallb chunk_ok (op_chunks o) && manifests_known ev (op_chunks o) && fresh_op ev s o &&
  c21_op_ok ev s o &&
  match o with
  | Create _ e _ | Update _ e => negb (h_dir e) || match h_chunks e with [] => true | _ => false end
  | Append p cs =>
      (* the offsets AppendToEntry assigns stay below MaxInt64 (no int64 overflow) *)
      total_size (match find_entry ev s p with Some e => h_chunks e | None => [] end) +
      fold_right (fun c acc => c_size c + acc) 0 cs <? max_int64
  | _ => true
  end.

(* the hypothesis of the partial theorems of C20: the assumptions hold, the operation involves neither
   a hard link nor a manifest chunk (every known finding needs one of the two), and a renamed entry
   is a file (directory renames: C18) *)
Definition c20_quiet (ev : env) (s : st) (o : op) : bool :=
  op_ok ev s o &&
  match o with Link _ _ _ => false | _ => true end &&
  forallb (fun c => negb (c_manifest c)) (op_chunks o) &&
  match o with
  | Rename oldp _ => match nfind s oldp with Some e => negb (h_dir e) | None => true end
  | _ => true
  end.

Fixpoint c20_hist_quiet (ev : env) (s : st) (ops : list op) : bool :=
  match ops with
  | [] => true
  | o :: ops' => c20_quiet ev s o && c20_hist_quiet ev (st_of (step ev s o)) ops'
  end.

(* the C20 property at every step of the model's run *)
Fixpoint c20_run_ok (ev : env) (s : st) (ops : list op) : bool :=
  match ops with
  | [] => true
  | o :: ops' =>
      let r := step ev s o in
      step_prop ev s o (refs ev s) (refs ev (st_of r)) (sched_of r) && c20_run_ok ev (st_of r) ops'
  end.

Fixpoint hist_ok (ev : env) (s : st) (ops : list op) : bool :=
  match ops with
  | [] => true
  | o :: ops' => op_ok ev s o && hist_ok ev (st_of (step ev s o)) ops'
  end.
