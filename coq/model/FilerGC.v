(* C20: chunk garbage collection.  The state machine (every path that schedules chunk
   deletions) is model/HardLink.v; this file adds the specification side:
   the referenced set, the two property oracles for one step, the decidable trigger
   predicates of the known findings and the client assumptions.
   Executable definitions only; proofs are in proof/FilerGCProofs.v. *)
From Coq Require Import List NArith ZArith Bool String.
From SW Require Import model.Chunks model.HardLink.
Import ListNotations.
Local Open Scope N_scope.

(* ---------- the property, for one step ---------- *)
(* no chunk id handed to a deletion sink is referenced by the state after the operation *)
Definition no_live_b (sched refs_after : list N) : bool := disjoint sched refs_after.

(* does the operation ask for the data to be deleted?  DeleteEntry carries the flag; the
   mount's unlink computes it from the counter it read; every other operation that drops
   chunks (overwrite, update, append, rename onto an existing name) always deletes them *)
Definition requests_deletion (ev : env) (s : st) (o : op) : bool :=
  match o with
  | Delete _ _ _ data => data
  | Unlink p => match find_entry ev s p with Some e => (h_cnt e <=? 1)%Z | None => false end
  | _ => true
  end.

(* every chunk id that was referenced before and is not referenced afterwards has been scheduled *)
Definition all_garbage_b (refs_before refs_after sched : list N) : bool :=
  forallb (fun c => mem c refs_after || mem c sched) refs_before.

Definition step_prop (ev : env) (s : st) (o : op) (refs_before refs_after sched : list N) : bool :=
  no_live_b sched refs_after &&
  (if requests_deletion ev s o then all_garbage_b refs_before refs_after sched else true).

(* ---------- trigger predicates of the known findings ---------- *)
(* the names an operation writes *)
Definition touched (o : op) : list path :=
  match o with
  | Create p _ _ | Update p _ | Append p _ | Write p _ _ _ => [p]
  | Rename _ newp => [newp]
  | Link oldp newp _ => [oldp; newp]
  | Delete _ _ _ _ | Unlink _ => []
  end.

Definition reach_at (ev : env) (s : st) (p : path) : list N :=
  match w_find s p with Some e => reach ev (h_chunks e) | None => [] end.

(* k = 0 / 3: the operation schedules a chunk that the entry it has just written still reaches
   (the retained chunk sits under a manifest of the new list, so neither the top-level id
   comparison of deleteChunksIfNotNew nor the one-level expansion of a dropped manifest sees it).
   0: the write went through Filer.CreateEntry; 3: through the gRPC UpdateEntry handler *)
Definition trig_local (ev : env) (s : st) (o : op) : bool :=
  let r := step ev s o in
  existsb (fun p => negb (disjoint (sched_of r) (reach_at ev (st_of r) p))) (touched o).
Definition via_update (o : op) : bool :=
  match o with Update _ _ | Write _ _ _ false => true | _ => false end.

(* k = 1: the operation schedules a chunk that is still visible through a name carrying a hard link id *)
Definition trig_shared (ev : env) (s : st) (o : op) : bool :=
  let r := step ev s o in
  existsb (fun kv => negb (h_hl (snd kv) =? 0) &&
                     negb (disjoint (sched_of r) (reach ev (h_chunks (view (st_of r) (snd kv))))))
          (names (st_of r)).

(* k = 2: a directory deleted recursively with data deletion has a child that carries a hard link id
   (its chunks are left to maybeDeleteHardLinks, which never schedules any chunk) *)
Definition trig_rec_hl (ev : env) (s : st) (o : op) : bool :=
  match o with
  | Delete p _ _ true =>
      match find_entry ev s p with
      | Some e => h_dir e && existsb (fun c => negb (h_dir (snd c)) && negb (h_hl (snd c) =? 0)) (list_children s p)
      | None => false
      end
  | _ => false
  end.

(* k = 4 (sticky): an earlier operation detached a name from its link record but may have kept the
   record's chunks in the name's new plain entry — a rename of an entry whose blob carries a link id
   (moveSelfEntry copies the chunks, not the id: the C21 finding), or an entry without id written over
   such a name (the counter is decremented since the repair, but the new plain entry may keep chunks
   of the record).  From then on chunks can be shared outside any link record *)
Definition overwrites_linked (s : st) (o : op) : bool :=
  match o with
  | Create p e _ | Update p e => (h_hl e =? 0) && blob_linked s p
  | Rename oldp newp =>
      negb (path_eqb oldp newp) &&
      (blob_linked s newp ||
       existsb (fun c => blob_linked s (child newp (fst c))) (list_children s oldp))
  | _ => false
  end.
Definition renames_linked (ev : env) (s : st) (o : op) : bool :=
  trig_rename_linked s o || overwrites_linked s o.

Definition classify (ev : env) (detached : bool) (s : st) (o : op) : option N :=
  if trig_local ev s o then (if via_update o then Some 3 else Some 0)
  else if detached then Some 4
  else if trig_shared ev s o then Some 1
  else if trig_rec_hl ev s o then Some 2
  else None.

(* the first step of the model's run at which the property fails, classified *)
Fixpoint first_failure (ev : env) (detached : bool) (s : st) (ops : list op) : option (option N) :=
  match ops with
  | [] => None
  | o :: ops' =>
      let r := step ev s o in
      if step_prop ev s o (refs ev s) (refs ev (st_of r)) (sched_of r)
      then first_failure ev (detached || renames_linked ev s o) (st_of r) ops'
      else Some (classify ev detached s o)
  end.

(* ---------- client assumptions (decidable) ---------- *)
Definition chunk_ok (c : chunk) : bool := (0 <? c_size c) && (c_off c + c_size c <? max_int64).
(* manifests hold data chunks only (SeaweedFS never nests manifests: doMaybeManifestize merges data chunks) *)
Definition flat_env (ev : env) : bool :=
  forallb (fun kv => forallb (fun c => negb (c_manifest c) && chunk_ok c) (snd kv)) (ms ev).
Definition manifests_known (ev : env) (cs : list chunk) : bool :=
  forallb (fun c => negb (c_manifest c) || match ms_lookup (ms ev) (c_fid c) with Some _ => true | None => false end) cs.

(* the chunk list an operation brings *)
Definition op_chunks (o : op) : list chunk :=
  match o with
  | Create _ e _ | Update _ e => h_chunks e
  | Append _ cs | Write _ cs _ _ => cs
  | _ => []
  end.
Definition op_path (o : op) : path :=
  match o with
  | Create p _ _ | Update p _ | Append p _ | Delete p _ _ _ | Write p _ _ _ | Unlink p => p
  | Rename p _ | Link p _ _ => p
  end.

(* a chunk id brought by an operation is new to the filer, or already belongs to the entry it is written to *)
Definition fresh_op (ev : env) (s : st) (o : op) : bool :=
  forallb (fun c => mem c (reach_at ev s (op_path o)) || negb (mem c (refs ev s))) (reach ev (op_chunks o)).

(* the client assumptions for one operation: those of C21 (requests of other clients carry no link
   id; the mount links an existing file to a new name with an unused id; only files are appended
   or written to), and: chunks are non-empty and end below MaxInt64; every manifest chunk is
   readable; chunk ids are fresh; a directory entry carries no chunks *)
Definition op_ok (ev : env) (s : st) (o : op) : bool :=
  forallb chunk_ok (op_chunks o) && manifests_known ev (op_chunks o) && fresh_op ev s o &&
  c21_op_ok ev s o &&
  match o with
  | Create _ e _ | Update _ e => negb (h_dir e) || match h_chunks e with [] => true | _ => false end
  | Append p cs =>
      (* the offsets AppendToEntry assigns stay below MaxInt64 (no int64 overflow) *)
      total_size (match find_entry ev s p with Some e => h_chunks e | None => [] end) +
      fold_right (fun c acc => c_size c + acc) 0 cs <? max_int64
  | _ => true
  end.

(* the hypothesis of the partial theorems of C20: the assumptions hold, the operation involves neither
   a hard link nor a manifest chunk (every known finding needs one of the two), and a renamed entry
   is a file (directory renames: C18) *)
Definition c20_quiet (ev : env) (s : st) (o : op) : bool :=
  op_ok ev s o &&
  match o with Link _ _ _ => false | _ => true end &&
  forallb (fun c => negb (c_manifest c)) (op_chunks o) &&
  match o with
  | Rename oldp _ => match nfind s oldp with Some e => negb (h_dir e) | None => true end
  | _ => true
  end.

Fixpoint c20_hist_quiet (ev : env) (s : st) (ops : list op) : bool :=
  match ops with
  | [] => true
  | o :: ops' => c20_quiet ev s o && c20_hist_quiet ev (st_of (step ev s o)) ops'
  end.

(* the C20 property at every step of the model's run *)
Fixpoint c20_run_ok (ev : env) (s : st) (ops : list op) : bool :=
  match ops with
  | [] => true
  | o :: ops' =>
      let r := step ev s o in
      step_prop ev s o (refs ev s) (refs ev (st_of r)) (sched_of r) && c20_run_ok ev (st_of r) ops'
  end.

Fixpoint hist_ok (ev : env) (s : st) (ops : list op) : bool :=
  match ops with
  | [] => true
  | o :: ops' => op_ok ev s o && hist_ok ev (st_of (step ev s o)) ops'
  end.
