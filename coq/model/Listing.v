(* Model of directory listing (C19):
     weed/filer/filer_search.go        splitPattern, ListDirectoryEntries, StreamListDirectoryEntries,
                                       doListPatternMatchedEntries, doListValidEntries
     weed/filer/filer.go               doListDirectoryEntries (TTL expiry while listing)
     weed/filer/filerstore_wrapper.go  ListDirectoryPrefixedEntries, prefixFilterEntries
     weed/filer/leveldb{,2,3}/         ListDirectoryPrefixedEntries (start key / prefix break / limit)
   Executable definitions only, faithful to the code as it is (with the repairs
   "fix: splitPattern ...", "fix: leveldb start below prefix", "fix: prefixFilterEntries
   lastFileName", "fix: refill keeps lastFileName", "fix: a listing callback that returned
   false is not called again"); proofs are in proof/Listing*.v.

   A directory is the list of its children (name, expired?) in byte order of the
   names.  "expired" = TtlSec > 0 and Crtime + TtlSec is in the past at listing
   time.  In the first part all callbacks handed to the listing functions return true (this
   is the case for Filer.ListDirectoryEntries' own callback); callbacks that stop early are
   modelled by the *_s functions further down; limits are >= 0. *)
From Coq Require Import List NArith Bool String Ascii Arith.
Import ListNotations.
Local Open Scope string_scope.
Local Open Scope list_scope.
Local Notation length := List.length.

Definition entry := (string * bool)%type.
Definition ename (e : entry) : string := fst e.
Definition eexp (e : entry) : bool := snd e.
Definition elive (e : entry) : bool := negb (snd e).
Definition dirst := list entry.

Definition is_nil {A} (l : list A) : bool := match l with [] => true | _ => false end.

(* name of the last element, "" for the empty list (Go: lastFileName named result) *)
Fixpoint last_name (l : list entry) : string :=
  match l with
  | [] => ""
  | [e] => ename e
  | _ :: l' => last_name l'
  end.
Fixpoint last_str (l : list string) : string :=
  match l with
  | [] => ""
  | [n] => n
  | _ :: l' => last_str l'
  end.

(* `if next != "" { last = next }` *)
Definition keep_last (prev next : string) : string := if String.eqb next "" then prev else next.

(* ---------- strings ---------- *)
Fixpoint sdrop (n : nat) (s : string) : string :=
  match n, s with
  | O, _ => s
  | S n', String _ s' => sdrop n' s'
  | S _, EmptyString => EmptyString
  end.
Fixpoint stake (n : nat) (s : string) : string :=
  match n, s with
  | O, _ => EmptyString
  | S n', String c s' => String c (stake n' s')
  | S _, EmptyString => EmptyString
  end.

Definition star : ascii := "*"%char.
Definition qmark : ascii := "?"%char.
Definition lbracket : ascii := "["%char.
Definition backslash : ascii := "\"%char.
Definition is_meta (c : ascii) : bool :=
  Ascii.eqb c star || Ascii.eqb c qmark || Ascii.eqb c lbracket || Ascii.eqb c backslash.

(* strings.IndexAny(s, "*?[\\") *)
Fixpoint find_meta (s : string) : option nat :=
  match s with
  | EmptyString => None
  | String d s' => if is_meta d then Some O else option_map S (find_meta s')
  end.

(* path/filepath.Match restricted to patterns over literals, '*' and '?'
   (no '[' classes, no '\' escapes) and names without '/'. *)
Fixpoint glob (p s : string) {struct p} : bool :=
  match p with
  | EmptyString => match s with EmptyString => true | _ => false end
  | String c p' =>
      if Ascii.eqb c star then
        (fix any (s : string) : bool :=
           glob p' s || match s with EmptyString => false | String _ s' => any s' end) s
      else
        match s with
        | EmptyString => false
        | String d s' => (Ascii.eqb c qmark || Ascii.eqb c d) && glob p' s'
        end
  end.

(* splitPattern *)
Definition split_pattern (pat : string) : string * string :=
  match find_meta pat with
  | Some i => (stake i pat, sdrop i pat)
  | None => ("", pat)
  end.

(* startFileName / inclusive *)
Definition after (start : string) (incl : bool) (n : string) : bool :=
  if incl then String.leb start n else String.ltb start n.

(* ---------- the stores ---------- *)
Inductive store := Lvl (* leveldb, leveldb2, leveldb3 *) | Gen (* a store without native prefix listing *).

(* leveldb iterator positioned at the first key >= k *)
Fixpoint seek (k : string) (l : dirst) : dirst :=
  match l with
  | [] => []
  | e :: l' => if String.ltb (ename e) k then seek k l' else l
  end.

(* the loop body of LevelDB*Store.ListDirectoryPrefixedEntries *)
Fixpoint lvl_iter (l : dirst) (start : string) (incl : bool) (limit : nat) (p : string) : list entry :=
  match l with
  | [] => []
  | e :: l' =>
      if negb (String.prefix p (ename e)) then []                               (* !bytes.HasPrefix(key, directoryPrefix): break *)
      else if String.eqb (ename e) "" then lvl_iter l' start incl limit p        (* fileName == "": continue *)
      else if String.eqb (ename e) start && negb incl then lvl_iter l' start incl limit p
      else match limit with
           | O => []                                                            (* limit--; if limit < 0 break *)
           | S limit' => e :: lvl_iter l' start incl limit' p
           end
  end.

Definition lvl_list (d : dirst) (start : string) (incl : bool) (limit : nat) (p : string) : list entry :=
  (* lastFileStart := directoryPrefix(prefix)
     if startFileName != "" && startFileName >= prefix { lastFileStart = key(startFileName) } *)
  lvl_iter (seek (if negb (String.eqb start "") && String.leb p start then start else p) d) start incl limit p.

(* reference store: ListDirectoryEntries *)
Definition mem_list (d : dirst) (start : string) (incl : bool) (limit : nat) : list entry :=
  firstn limit (filter (fun e => after start incl (ename e)) d).

(* Store.DeleteOneEntry for every expired entry seen by doListDirectoryEntries' callback *)
Definition del_expired (vis : list entry) (d : dirst) : dirst :=
  filter (fun e => negb (existsb (fun v => eexp v && String.eqb (ename v) (ename e)) vis)) d.

(* prefixFilterEntries, `for _, entry := range notPrefixed`: entries handed to the callback and
   lastFileName.  [need] = limit - count >= 1 on entry of the loop *)
Fixpoint pf_batch (p : string) (need : nat) (batch : list entry) (last : string) : list entry * string :=
  match batch with
  | [] => ([], last)
  | e :: b' =>                                      (* lastFileName = entry.Name() *)
      if String.prefix p (ename e) then
        match need with
        | S (S n) => let '(em, l) := pf_batch p (S n) b' (ename e) in (e :: em, l)
        | _ => ([e], ename e)                        (* count >= limit: break *)
        end
      else pf_batch p need b' (ename e)
  end.

(* FilerStoreWrapper.prefixFilterEntries, the `for count < limit && len(notPrefixed) > 0` loop.
   None = out of fuel. *)
Fixpoint pf_loop (fuel : nat) (d : dirst) (limit : nat) (p last : string) (count : nat)
         (batch acc : list entry) : option (list entry * string) :=
  if Nat.ltb count limit && negb (is_nil batch) then
    match fuel with
    | O => None
    | S f =>
        let '(em, last') := pf_batch p (limit - count) batch last in
        let count' := count + length em in
        let d' := del_expired em d in
        if Nat.ltb count' limit then
          pf_loop f d' limit p last' count' (mem_list d' last' false limit) (acc ++ em)
        else Some (acc ++ em, last')
    end
  else Some (acc, last).

Record wres := { w_vis : list entry; w_last : string }.

Definition gen_list (d : dirst) (start : string) (incl : bool) (limit : nat) (p : string) : option wres :=
  if String.eqb p "" then
    let v := mem_list d start incl limit in
    Some {| w_vis := v; w_last := last_name v |}
  else
    let b1 := mem_list d start incl limit in
    (* every round that is followed by another one has examined a whole non-empty batch *)
    match pf_loop (S (length d)) d limit p (last_name b1) 0 b1 [] with
    | Some (v, last) => Some {| w_vis := v; w_last := last |}
    | None => None
    end.

(* FilerStoreWrapper.ListDirectoryPrefixedEntries: entries handed to the callback, lastFileName *)
Definition wrapper_list (s : store) (d : dirst) (start : string) (incl : bool) (limit : nat) (p : string) : option wres :=
  match s with
  | Lvl => let v := lvl_list d start incl limit p in
           Some {| w_vis := v; w_last := last_name v |}
  | Gen => gen_list d start incl limit p
  end.

(* ---------- Filer ---------- *)
Record lres := {
  r_count : nat;            (* expiredCount / missedCount *)
  r_last : string;          (* lastFileName *)
  r_names : list string;    (* names handed to the next callback up, in order *)
  r_dir : dirst             (* directory afterwards *)
}.

(* Filer.doListDirectoryEntries *)
Definition do_list (s : store) (d : dirst) (start : string) (incl : bool) (limit : nat) (p : string) : option lres :=
  match wrapper_list s d start incl limit p with
  | None => None
  | Some w =>
      let v := w_vis w in
      Some {| r_count := length (filter eexp v); r_last := w_last w;
              r_names := map ename (filter elive v); r_dir := del_expired v d |}
  end.

(* Filer.doListValidEntries: `for expiredCount > 0 && err == nil` *)
Fixpoint valid_loop (fuel : nat) (s : store) (p : string) (r : lres) : option lres :=
  match r_count r with
  | O => Some r
  | S _ =>
      match fuel with
      | O => None
      | S f =>
          match do_list s (r_dir r) (r_last r) false (r_count r) p with
          | None => None
          | Some r' =>
              valid_loop f s p {| r_count := r_count r'; r_last := keep_last (r_last r) (r_last r');
                                  r_names := r_names r ++ r_names r'; r_dir := r_dir r' |}
          end
      end
  end.

Definition list_valid (s : store) (d : dirst) (start : string) (incl : bool) (limit : nat) (p : string) : option lres :=
  match do_list s d start incl limit p with
  | None => None
  | Some r => valid_loop (S (length d)) s p r
  end.

(* the callback of doListPatternMatchedEntries: true = missedCount++ *)
Definition missed (p rest excl : string) (n : string) : bool :=
  (negb (String.eqb excl "") && glob excl n) ||
  (negb (String.eqb rest "") && negb (glob rest (sdrop (String.length p) n))).

(* Filer.doListPatternMatchedEntries *)
Definition pattern_list (s : store) (d : dirst) (start : string) (incl : bool) (limit : nat) (p rest excl : string) : option lres :=
  match list_valid s d start incl limit p with
  | None => None
  | Some r =>
      if String.eqb rest "" && String.eqb excl "" then
        Some {| r_count := 0; r_last := r_last r; r_names := r_names r; r_dir := r_dir r |}
      else
        Some {| r_count := length (filter (missed p rest excl) (r_names r)); r_last := r_last r;
                r_names := filter (fun n => negb (missed p rest excl n)) (r_names r); r_dir := r_dir r |}
  end.

(* Filer.StreamListDirectoryEntries: `for missedCount > 0 && err == nil` *)
Fixpoint stream_loop (fuel : nat) (s : store) (p rest excl : string) (r : lres) : option lres :=
  match r_count r with
  | O => Some r
  | S _ =>
      match fuel with
      | O => None
      | S f =>
          match pattern_list s (r_dir r) (r_last r) false (r_count r) p rest excl with
          | None => None
          | Some r' =>
              stream_loop f s p rest excl
                {| r_count := r_count r'; r_last := keep_last (r_last r) (r_last r');
                   r_names := r_names r ++ r_names r'; r_dir := r_dir r' |}
          end
      end
  end.

Definition eff_prefix (prefix pat : string) : string :=
  let pp := fst (split_pattern pat) in if String.eqb pp "" then prefix else pp.

Definition stream_list (s : store) (d : dirst) (start : string) (incl : bool) (limit : nat)
           (prefix pat excl : string) : option lres :=
  let p := eff_prefix prefix pat in
  let rest := snd (split_pattern pat) in
  match pattern_list s d start incl limit p rest excl with
  | None => None
  | Some r => stream_loop (S (length d)) s p rest excl r
  end.

(* Filer.ListDirectoryEntries: names, hasMore *)
Definition list_entries (s : store) (d : dirst) (start : string) (incl : bool) (limit : nat)
           (prefix pat excl : string) : option (list string * bool * lres) :=
  match stream_list s d start incl (S limit) prefix pat excl with
  | None => None
  | Some r =>
      let more := Nat.leb (S limit) (length (r_names r)) in
      Some (if more then firstn limit (r_names r) else r_names r, more, r)
  end.

(* ---------- following the last returned name ---------- *)
(* a client of ListDirectoryEntries: next page from the last entry's name while hasMore *)
Fixpoint paginate (fuel : nat) (s : store) (d : dirst) (start : string) (incl : bool) (limit : nat)
         (prefix pat excl : string) : option (list (list string)) :=
  match fuel with
  | O => None
  | S f =>
      match list_entries s d start incl limit prefix pat excl with
      | None => None
      | Some (names, more, r) =>
          if more && negb (is_nil names) then
            match paginate f s (r_dir r) (last_str names) false limit prefix pat excl with
            | None => None
            | Some pages => Some (names :: pages)
            end
          else Some [names]
      end
  end.

(* FilerServer.ListEntries (gRPC): next call from the lastFileName that
   StreamListDirectoryEntries returned, until a call yields no entry *)
Fixpoint paginate_stream (fuel : nat) (s : store) (d : dirst) (start : string) (incl : bool) (limit : nat)
         (prefix : string) : option (list (list string)) :=
  match fuel with
  | O => None
  | S f =>
      match stream_list s d start incl limit prefix "" "" with
      | None => None
      | Some r =>
          if is_nil (r_names r) then Some []
          else
            match paginate_stream f s (r_dir r) (r_last r) false limit prefix with
            | None => None
            | Some pages => Some (r_names r :: pages)
            end
      end
  end.

(* ---------- callbacks that stop early (return false) ---------- *)
(* The caller's callback (eachEntryFunc) = the list of its successive answers; it answers true
   once the list is exhausted.  Below the Filer the callback chain is: doListDirectoryEntries'
   closure (expired: delete, expiredCount++, return true), then doListValidEntries' eachFunc
   (remembers a false in `stopped`), then doListPatternMatchedEntries' closure (missed:
   missedCount++, return true), then StreamListDirectoryEntries' eachFunc (remembers a false in
   its own `stopped`), then eachEntryFunc.  [ms] = "missed"; the caller's callback sees exactly
   the entries with [passes ms e].  (With "fix: a listing callback that returned false is not
   called again" both eachFunc wrappers also short-circuit once stopped; every modelled store
   ends its scan at the first false, so the short-circuit is never reached here.) *)
Definition passes (ms : string -> bool) (e : entry) : bool := elive e && negb (ms (ename e)).

(* one invocation of the chain on entry e: (answers left, returned value) *)
Definition cb_step (ms : string -> bool) (ans : list bool) (e : entry) : list bool * bool :=
  if passes ms e then match ans with a :: ans' => (ans', a) | [] => ([], true) end else (ans, true).

(* entries handed to the chain, answers left, did the chain return false *)
Record hres := { h_vis : list entry; h_ans : list bool; h_stop : bool }.

(* leveldb loop body with `if !eachEntryFunc(entry) { break }` *)
Fixpoint lvl_iter_s (ms : string -> bool) (l : dirst) (start : string) (incl : bool) (limit : nat) (p : string)
         (ans : list bool) : hres :=
  match l with
  | [] => {| h_vis := []; h_ans := ans; h_stop := false |}
  | e :: l' =>
      if negb (String.prefix p (ename e)) then {| h_vis := []; h_ans := ans; h_stop := false |}
      else if String.eqb (ename e) "" then lvl_iter_s ms l' start incl limit p ans
      else if String.eqb (ename e) start && negb incl then lvl_iter_s ms l' start incl limit p ans
      else match limit with
           | O => {| h_vis := []; h_ans := ans; h_stop := false |}
           | S limit' =>
               let st := cb_step ms ans e in
               if snd st then
                 let h := lvl_iter_s ms l' start incl limit' p (fst st) in
                 {| h_vis := e :: h_vis h; h_ans := h_ans h; h_stop := h_stop h |}
               else {| h_vis := [e]; h_ans := fst st; h_stop := true |}
           end
  end.

(* reference store: `for _, e := range batch { lastFileName = e.Name(); if !eachEntryFunc(e) { break } }` *)
Fixpoint hand (ms : string -> bool) (batch : list entry) (ans : list bool) : hres :=
  match batch with
  | [] => {| h_vis := []; h_ans := ans; h_stop := false |}
  | e :: b =>
      let st := cb_step ms ans e in
      if snd st then let h := hand ms b (fst st) in {| h_vis := e :: h_vis h; h_ans := h_ans h; h_stop := h_stop h |}
      else {| h_vis := [e]; h_ans := fst st; h_stop := true |}
  end.

Record bres := { b_em : list entry; b_last : string; b_ans : list bool; b_stop : bool }.

(* prefixFilterEntries' inner loop with `if !eachEntryFunc(entry) { return }` *)
Fixpoint pf_batch_s (ms : string -> bool) (p : string) (need : nat) (batch : list entry) (last : string)
         (ans : list bool) : bres :=
  match batch with
  | [] => {| b_em := []; b_last := last; b_ans := ans; b_stop := false |}
  | e :: b' =>
      if String.prefix p (ename e) then
        let st := cb_step ms ans e in
        if snd st then
          match need with
          | S (S n) => let r := pf_batch_s ms p (S n) b' (ename e) (fst st) in
                       {| b_em := e :: b_em r; b_last := b_last r; b_ans := b_ans r; b_stop := b_stop r |}
          | _ => {| b_em := [e]; b_last := ename e; b_ans := fst st; b_stop := false |}
          end
        else {| b_em := [e]; b_last := ename e; b_ans := fst st; b_stop := true |}
      else pf_batch_s ms p need b' (ename e) ans
  end.

(* (entries handed to the chain, lastFileName, answers left, did the chain return false) *)
Fixpoint pf_loop_s (fuel : nat) (ms : string -> bool) (d : dirst) (limit : nat) (p last : string) (count : nat)
         (batch acc : list entry) (ans : list bool) : option (list entry * string * list bool * bool) :=
  if Nat.ltb count limit && negb (is_nil batch) then
    match fuel with
    | O => None
    | S f =>
        let r := pf_batch_s ms p (limit - count) batch last ans in
        if b_stop r then Some (acc ++ b_em r, b_last r, b_ans r, true)
        else
          let count' := count + length (b_em r) in
          let d' := del_expired (b_em r) d in
          if Nat.ltb count' limit then
            pf_loop_s f ms d' limit p (b_last r) count' (mem_list d' (b_last r) false limit) (acc ++ b_em r) (b_ans r)
          else Some (acc ++ b_em r, b_last r, b_ans r, false)
    end
  else Some (acc, last, ans, false).

Definition wrapper_list_s (s : store) (ms : string -> bool) (d : dirst) (start : string) (incl : bool) (limit : nat)
           (p : string) (ans : list bool) : option (wres * list bool * bool) :=
  match s with
  | Lvl =>
      let h := lvl_iter_s ms (seek (if negb (String.eqb start "") && String.leb p start then start else p) d)
                          start incl limit p ans in
      Some ({| w_vis := h_vis h; w_last := last_name (h_vis h) |}, h_ans h, h_stop h)
  | Gen =>
      if String.eqb p "" then
        let h := hand ms (mem_list d start incl limit) ans in
        Some ({| w_vis := h_vis h; w_last := last_name (h_vis h) |}, h_ans h, h_stop h)
      else
        let b1 := mem_list d start incl limit in
        match pf_loop_s (S (length d)) ms d limit p (last_name b1) 0 b1 [] ans with
        | Some (v, last, a, st) => Some ({| w_vis := v; w_last := last |}, a, st)
        | None => None
        end
  end.

Record sres := {
  s_exp : nat;              (* expiredCount *)
  s_miss : nat;             (* missedCount *)
  s_last : string;          (* lastFileName *)
  s_live : list string;     (* names handed to doListValidEntries' eachFunc (the unexpired ones), in order *)
  s_names : list string;    (* names handed to the caller's callback, in order *)
  s_dir : dirst;
  s_ans : list bool;        (* answers left *)
  s_stop : bool             (* `stopped`: the callback returned false *)
}.

(* Filer.doListDirectoryEntries under the pattern closure *)
Definition do_list_s (s : store) (ms : string -> bool) (d : dirst) (start : string) (incl : bool) (limit : nat)
           (p : string) (ans : list bool) : option sres :=
  match wrapper_list_s s ms d start incl limit p ans with
  | None => None
  | Some (w, a, st) =>
      let v := w_vis w in
      Some {| s_exp := length (filter eexp v);
              s_miss := length (filter ms (map ename (filter elive v)));
              s_last := w_last w;
              s_live := map ename (filter elive v);
              s_names := filter (fun n => negb (ms n)) (map ename (filter elive v));
              s_dir := del_expired v d; s_ans := a; s_stop := st |}
  end.

(* Filer.doListValidEntries: `for expiredCount > 0 && err == nil && !stopped` *)
Fixpoint valid_loop_s (fuel : nat) (s : store) (ms : string -> bool) (p : string) (r : sres) : option sres :=
  match s_exp r with
  | O => Some r
  | S _ =>
      if s_stop r then Some r else
      match fuel with
      | O => None
      | S f =>
          match do_list_s s ms (s_dir r) (s_last r) false (s_exp r) p (s_ans r) with
          | None => None
          | Some r' =>
              valid_loop_s f s ms p
                {| s_exp := s_exp r'; s_miss := s_miss r + s_miss r'; s_last := keep_last (s_last r) (s_last r');
                   s_live := s_live r ++ s_live r'; s_names := s_names r ++ s_names r'; s_dir := s_dir r';
                   s_ans := s_ans r'; s_stop := s_stop r' |}
          end
      end
  end.

(* Filer.doListPatternMatchedEntries (doListValidEntries starts with a fresh `stopped`) *)
Definition pattern_list_s (s : store) (ms : string -> bool) (d : dirst) (start : string) (incl : bool) (limit : nat)
           (p : string) (ans : list bool) : option sres :=
  match do_list_s s ms d start incl limit p ans with
  | None => None
  | Some r => valid_loop_s (S (length d)) s ms p r
  end.

(* Filer.StreamListDirectoryEntries: `for missedCount > 0 && err == nil && !stopped`.  Its `stopped`
   is false whenever a round starts, and a round sets it exactly when doListValidEntries' own flag
   is set (the pattern closure returns false only if eachFunc did): one flag per round suffices. *)
Fixpoint stream_loop_s (fuel : nat) (s : store) (ms : string -> bool) (p : string) (r : sres) : option sres :=
  match s_miss r with
  | O => Some r
  | S _ =>
      if s_stop r then Some r else
      match fuel with
      | O => None
      | S f =>
          match pattern_list_s s ms (s_dir r) (s_last r) false (s_miss r) p (s_ans r) with
          | None => None
          | Some r' =>
              stream_loop_s f s ms p
                {| s_exp := s_exp r'; s_miss := s_miss r'; s_last := keep_last (s_last r) (s_last r');
                   s_live := s_live r ++ s_live r'; s_names := s_names r ++ s_names r'; s_dir := s_dir r';
                   s_ans := s_ans r'; s_stop := s_stop r' |}
          end
      end
  end.

(* the closure of doListPatternMatchedEntries; without rest pattern and exclusion the caller's
   callback is passed down unwrapped *)
Definition ms_of (p rest excl : string) : string -> bool :=
  if String.eqb rest "" && String.eqb excl "" then (fun _ => false) else missed p rest excl.

Definition stream_list_s (s : store) (d : dirst) (start : string) (incl : bool) (limit : nat)
           (prefix pat excl : string) (ans : list bool) : option sres :=
  let p := eff_prefix prefix pat in
  let ms := ms_of p (snd (split_pattern pat)) excl in
  match pattern_list_s s ms d start incl limit p ans with
  | None => None
  | Some r => stream_loop_s (S (length d)) s ms p r
  end.

(* FilerServer.ListEntries (gRPC): overall limit [limit], page size [pag] = min(PaginationSize, limit);
   the callback sends the entry, then `limit--; if limit == 0 { return false }; return true`
   (after the false it is not called again).
   [sent] in pages; the loop `for limit > 0` ends when a call sent nothing or the limit is used up. *)
Definition grpc_answers (limit : nat) : list bool := repeat true (limit - 1) ++ [false].

Fixpoint grpc_list (fuel : nat) (s : store) (d : dirst) (start : string) (incl : bool) (limit pag : nat)
         (prefix : string) : option (list (list string)) :=
  match limit with
  | O => Some []
  | S _ =>
      match fuel with
      | O => None
      | S f =>
          match stream_list_s s d start incl pag prefix "" "" (grpc_answers limit) with
          | None => None
          | Some r =>
              if is_nil (s_names r) then Some []
              else
                match grpc_list f s (s_dir r) (s_last r) false (limit - length (s_names r)) pag prefix with
                | None => None
                | Some pages => Some (s_names r :: pages)
                end
          end
      end
  end.

(* index of the first call the callback answers false *)
Fixpoint first_false (ans : list bool) : option nat :=
  match ans with
  | [] => None
  | a :: t => if a then option_map S (first_false t) else Some O
  end.

(* a callback that returned false is not called again: at most (index of the refusal + 1) calls *)
Definition stop_respected (ans : list bool) (names : list string) : bool :=
  match first_false ans with
  | Some k => Nat.leb (length names) (S k)
  | None => true
  end.

(* number of entries a listing with limit [limit] hands to a callback with answers [ans]:
   up to and including the one it refuses *)
Definition stop_want (limit : nat) (ans : list bool) : nat :=
  match first_false ans with
  | Some k => Nat.min limit (S k)
  | None => limit
  end.

(* ---------- specification ---------- *)
Definition spec_match (prefix pat excl : string) (n : string) : bool :=
  String.prefix prefix n && (String.eqb pat "" || glob pat n) &&
  negb (negb (String.eqb excl "") && glob excl n).

Definition spec_sel (start : string) (incl : bool) (prefix pat excl : string) (e : entry) : bool :=
  elive e && after start incl (ename e) && spec_match prefix pat excl (ename e).

(* the matching children in name order *)
Definition spec_names (d : dirst) (start : string) (incl : bool) (prefix pat excl : string) : list string :=
  map ename (filter (spec_sel start incl prefix pat excl) d).

(* ---------- well-formed directories, decidable triggers ---------- *)
Fixpoint sorted_names (l : list string) : bool :=
  match l with
  | [] => true
  | a :: l' => match l' with [] => true | b :: _ => String.ltb a b end && sorted_names l'
  end.
Definition wfb (d : dirst) : bool :=
  sorted_names (map ename d) && forallb (fun e => negb (String.eqb (ename e) "")) d.

(* the pattern language of the model: no '[' classes, no '\' escapes *)
Fixpoint plain_pattern (s : string) : bool :=
  match s with
  | EmptyString => true
  | String d s' => negb (Ascii.eqb d lbracket) && negb (Ascii.eqb d backslash) && plain_pattern s'
  end.

(* finding 0 (documented restriction): prefix and namePattern are mutually exclusive *)
Definition trig_both (prefix pat : string) : bool :=
  negb (String.eqb prefix "") && negb (String.eqb pat "").

(* finding 0, narrowed: a pattern whose literal prefix is non-empty and extends the requested
   prefix is served exactly (the literal prefix replaces a prefix it implies) *)
Definition trig_narrow (prefix pat : string) : bool :=
  trig_both prefix pat &&
  negb (negb (String.eqb (fst (split_pattern pat)) "") && String.prefix prefix (fst (split_pattern pat))).
