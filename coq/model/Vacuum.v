(* Model of the master's vacuum orchestration (C14):
     weed/topology/topology_vacuum.go   vacuumOneVolumeLayout, batchVacuumVolumeCheck /
                                        Compact / Commit / Cleanup
     weed/topology/volume_layout.go     removeFromWritable, SetVolumeAvailable (model/TopoLayout.v)
   One round per volume id of a layout.  The volume servers are scripted: for each
   (vid, replica) what its VacuumVolumeCheck / Compact / Commit RPC does.
   Executable definitions only; proofs are in proof/VacuumProofs.v. *)
From Coq Require Import List NArith Bool.
From SW Require Export model.TopoLayout.
Import ListNotations.
Local Open Scope N_scope.

(* what a replica does with each RPC of the round *)
Inductive ck :=
| CkOver      (* answers, garbage ratio >= threshold *)
| CkUnder     (* answers, garbage ratio < threshold *)
| CkErr       (* answers with an error *)
| CkTimeout.  (* no answer before the master's timer fires *)
Inductive cp := CpOk | CpErr | CpTimeout.
(* the commit RPC has no timer on the master (context.Background()); a replica
   that never answers blocks the round for ever and is not modelled *)
Inductive cm :=
| CmOk        (* success, IsReadOnly = false *)
| CmOkRO      (* success, IsReadOnly = true *)
| CmErr.
Record script := { sc_ck : ck; sc_cp : cp; sc_cm : cm }.
Definition default_script : script := {| sc_ck := CkOver; sc_cp := CpOk; sc_cm := CmOk |}.

(* vid -> replica -> script *)
Definition scripts := list (N * list (N * script)).
Definition sget (scs : scripts) (v n : N) : script :=
  match aget v scs with
  | Some m => match aget n m with Some s => s | None => default_script end
  | None => default_script
  end.

Inductive rpc := RCheck | RCompact | RCommit | RCleanup.
(* one RPC received by replica n for volume v *)
Record entry := { e_vid : N; e_node : N; e_rpc : rpc }.
Definition mk (v : N) (r : rpc) (n : N) : entry := {| e_vid := v; e_node := n; e_rpc := r |}.

Definition is_over (s : script) : bool := match sc_ck s with CkOver => true | _ => false end.
Definition is_ck_err (s : script) : bool := match sc_ck s with CkErr => true | _ => false end.
Definition is_ck_timeout (s : script) : bool := match sc_ck s with CkTimeout => true | _ => false end.
Definition is_cp_ok (s : script) : bool := match sc_cp s with CpOk => true | _ => false end.
Definition is_cm_ok (s : script) : bool := match sc_cm s with CmErr => false | _ => true end.
Definition is_cm_ro (s : script) : bool := match sc_cm s with CmOkRO => true | _ => false end.

(* batchVacuumVolumeCheck: every replica is asked; the result is "go on" only if
   nobody timed out, nobody answered with an error and somebody is over the
   threshold; the list handed on holds the replicas over the threshold *)
Definition check_phase (scs : scripts) (v : N) (locs : list N) : list N * bool :=
  let vac := filter (fun n => is_over (sget scs v n)) locs in
  let timed_out := existsb (fun n => is_ck_timeout (sget scs v n)) locs in
  let errs := existsb (fun n => is_ck_err (sget scs v n)) locs in
  (vac, negb timed_out && negb errs && match vac with [] => false | _ => true end).

(* batchVacuumVolumeCompact's verdict: every replica of the list answered ok
   before the timer *)
Definition compact_ok (scs : scripts) (v : N) (vac : list N) : bool :=
  forallb (fun n => is_cp_ok (sget scs v n)) vac.
(* batchVacuumVolumeCommit *)
Definition commit_ok (scs : scripts) (v : N) (vac : list N) : bool :=
  forallb (fun n => is_cm_ok (sget scs v n)) vac.
Definition commit_ro (scs : scripts) (v : N) (vac : list N) : bool :=
  existsb (fun n => is_cm_ok (sget scs v n) && is_cm_ro (sget scs v n)) vac.

Record round := { r_lay : layout; r_log : list entry }.

(* the body of the loop of vacuumOneVolumeLayout for one vid; [locs] is the copy
   of the location list taken before the loop *)
Definition vacuum_round (c : cfg) (ns : nodes) (scs : scripts) (v : N) (locs : list N) (l : layout) : round :=
  if bs_true v (l_ro l) then {| r_lay := l; r_log := [] |}
  else
    let log1 := map (mk v RCheck) locs in
    let '(vac, need) := check_phase scs v locs in
    if need then
      (* batchVacuumVolumeCompact removes the vid from writables first *)
      let l1 := remove_writable v l in
      let log2 := map (mk v RCompact) vac in
      if compact_ok scs v vac then
        (* commit: sequential, every replica of the list is called even after a failure *)
        let log3 := map (mk v RCommit) vac in
        if commit_ok scs v vac then
          {| r_lay := fold_left (fun l' n => set_available c ns n v (commit_ro scs v vac) l') vac l1;
             r_log := log1 ++ log2 ++ log3 |}
        else {| r_lay := l1; r_log := log1 ++ log2 ++ log3 |}
      else {| r_lay := l1; r_log := log1 ++ log2 ++ map (mk v RCleanup) vac |}
    else {| r_lay := l; r_log := log1 |}.

(* vacuumOneVolumeLayout: all location lists are copied first, then one round per vid *)
Definition vacuum_layout (c : cfg) (ns : nodes) (scs : scripts) (l : layout) : round :=
  fold_left (fun r p =>
               let r' := vacuum_round c ns scs (fst p) (snd p) (r_lay r) in
               {| r_lay := r_lay r'; r_log := r_log r ++ r_log r' |})
            (l_loc l) {| r_lay := l; r_log := [] |}.

Definition rpc_eqb (a b : rpc) : bool :=
  match a, b with
  | RCheck, RCheck | RCompact, RCompact | RCommit, RCommit | RCleanup, RCleanup => true
  | _, _ => false
  end.

(* the RPCs replica n received for volume v, in order *)
Definition log_of (log : list entry) (v n : N) : list rpc :=
  map e_rpc (filter (fun e => (e_vid e =? v) && (e_node e =? n)) log).
Definition got (log : list entry) (v n : N) (r : rpc) : bool :=
  existsb (rpc_eqb r) (log_of log v n).

(* ---------- the writable criterion (C11) on the registered state ---------- *)
(* evaluated on the replicas the layout lists for v *)
Definition crit_loc (c : cfg) (ns : nodes) (l : layout) (v : N) : bool :=
  enough c (nlen (loc l v)) && forallb (replica_ok c ns v) (loc l v).

(* ---------- triggers of the known findings of C14 ---------- *)
Definition reaches_compact (scs : scripts) (l : layout) (v : N) : bool :=
  negb (bs_true v (l_ro l)) && snd (check_phase scs v (loc l v)).
Definition full_success (scs : scripts) (l : layout) (v : N) : bool :=
  let vac := fst (check_phase scs v (loc l v)) in
  reaches_compact scs l v && compact_ok scs v vac && commit_ok scs v vac && negb (commit_ro scs v vac).
(* 0: the round removed the vid from writables and did not finish with a clean commit *)
Definition trigger_stuck (scs : scripts) (l : layout) (v : N) : bool :=
  reaches_compact scs l v && negb (full_success scs l v).
(* 1: clean commit although the criterion does not hold *)
Definition trigger_readmit (c : cfg) (ns : nodes) (scs : scripts) (l : layout) (v : N) : bool :=
  full_success scs l v && negb (crit_loc c ns l v).
