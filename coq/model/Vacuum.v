(* Model of the master's vacuum orchestration (C14):
     weed/topology/topology_vacuum.go   Topology.Vacuum, vacuumOneVolumeLayout,
                                        batchVacuumVolumeCheck / Compact / Commit / Cleanup
     weed/topology/volume_layout.go     removeFromWritable, SetVolumeAvailable (model/TopoLayout.v)
   One round per volume id of a layout, one pass per call of Topology.Vacuum.  The
   volume servers are scripted: for each (vid, replica) what its VacuumVolumeCheck /
   Compact / Commit RPC does.  The master holds no lock between the phases of a
   round: [mid] events (heartbeats, collector sweeps, disconnects) are processed
   while the replicas compact, i.e. after removeFromWritable and before the commit.
   Executable definitions only; proofs are in proof/VacuumProofs.v. *)
From Coq Require Import List NArith Bool.
From SW Require Export model.TopoLayout.
Import ListNotations.
Local Open Scope N_scope.

(* what a replica does with each RPC of the round *)
Inductive ck :=
| CkOver      (* answers, garbage ratio >= threshold *)
| CkUnder     (* answers, garbage ratio < threshold *)
| CkErr       (* answers with an error *)
| CkTimeout   (* no answer before the master's timer fires *)
| CkDial.     (* nobody listens on the replica's address: the call fails, no RPC is received *)
Inductive cp := CpOk | CpErr | CpTimeout.
Inductive cm :=
| CmOk        (* success, IsReadOnly = false *)
| CmOkRO      (* success, IsReadOnly = true *)
| CmErr
| CmHang.     (* never answers: the commit RPC has no timer on the master (context.Background()) *)
Record script := { sc_ck : ck; sc_cp : cp; sc_cm : cm }.
Definition default_script : script := {| sc_ck := CkOver; sc_cp := CpOk; sc_cm := CmOk |}.

(* vid -> replica -> script *)
Definition scripts := list (N * list (N * script)).
Definition sget (scs : scripts) (v n : N) : script :=
  match aget v scs with
  | Some m => match aget n m with Some s => s | None => default_script end
  | None => default_script
  end.

Inductive rpc := RCheck | RCompact | RCommit | RCleanup.
(* one RPC received by replica n for volume v *)
Record entry := { e_vid : N; e_node : N; e_rpc : rpc }.
Definition mk (v : N) (r : rpc) (n : N) : entry := {| e_vid := v; e_node := n; e_rpc := r |}.

Definition is_over (s : script) : bool := match sc_ck s with CkOver => true | _ => false end.
Definition is_ck_err (s : script) : bool := match sc_ck s with CkErr | CkDial => true | _ => false end.
Definition is_ck_dial (s : script) : bool := match sc_ck s with CkDial => true | _ => false end.
Definition is_ck_timeout (s : script) : bool := match sc_ck s with CkTimeout => true | _ => false end.
Definition is_cp_ok (s : script) : bool := match sc_cp s with CpOk => true | _ => false end.
Definition is_cm_ok (s : script) : bool := match sc_cm s with CmOk | CmOkRO => true | _ => false end.
Definition is_cm_ro (s : script) : bool := match sc_cm s with CmOkRO => true | _ => false end.
Definition is_cm_hang (s : script) : bool := match sc_cm s with CmHang => true | _ => false end.

(* batchVacuumVolumeCheck: every replica is asked; the result is "go on" only if
   nobody timed out, nobody answered with an error and somebody is over the
   threshold; the list handed on holds the replicas over the threshold *)
Definition check_phase (scs : scripts) (v : N) (locs : list N) : list N * bool :=
  let vac := filter (fun n => is_over (sget scs v n)) locs in
  let timed_out := existsb (fun n => is_ck_timeout (sget scs v n)) locs in
  let errs := existsb (fun n => is_ck_err (sget scs v n)) locs in
  (vac, negb timed_out && negb errs && match vac with [] => false | _ => true end).
(* the replicas that receive the check RPC *)
Definition check_log (scs : scripts) (v : N) (locs : list N) : list entry :=
  map (mk v RCheck) (filter (fun n => negb (is_ck_dial (sget scs v n))) locs).

(* batchVacuumVolumeCompact's verdict: every replica of the list answered ok
   before the timer *)
Definition compact_ok (scs : scripts) (v : N) (vac : list N) : bool :=
  forallb (fun n => is_cp_ok (sget scs v n)) vac.
(* batchVacuumVolumeCommit: sequential, every replica of the list is called even
   after a failure; a replica that never answers blocks the loop.  Result: the
   replicas that received the commit RPC, and whether the loop hangs *)
Fixpoint commit_calls (scs : scripts) (v : N) (vac : list N) : list N * bool :=
  match vac with
  | [] => ([], false)
  | n :: rest =>
      if is_cm_hang (sget scs v n) then ([n], true)
      else let '(cs, h) := commit_calls scs v rest in (n :: cs, h)
  end.
Definition commit_ok (scs : scripts) (v : N) (vac : list N) : bool :=
  forallb (fun n => is_cm_ok (sget scs v n)) vac.
Definition commit_ro (scs : scripts) (v : N) (vac : list N) : bool :=
  existsb (fun n => is_cm_ok (sget scs v n) && is_cm_ro (sget scs v n)) vac.

Definition with_lay (l : layout) (s : state) : state := {| s_nodes := s_nodes s; s_lay := l |}.

(* ---------- what the round still holds after master-side events ---------- *)
(* The round works on copies of the location lists, i.e. on the *DataNode objects
   that were registered when the pass started.  UnRegisterDataNode unlinks the
   object but leaves its volume map intact; the node's next heartbeat gets a fresh
   object.  [dead_of]: the nodes whose stream ended during the events, each with the
   volume map its unlinked object keeps (first disconnect only). *)
Fixpoint dead_of (c : cfg) (s : state) (es : list event) (acc : list (N * vols)) : list (N * vols) :=
  match es with
  | [] => acc
  | e :: es' =>
      let acc' := match e with
                  | EDisconnect n =>
                      match aget n acc, aget n (s_nodes s) with
                      | None, Some vs => acc ++ [(n, vs)]
                      | _, _ => acc
                      end
                  | _ => acc
                  end in
      dead_of c (step c s e) es' acc'
  end.
(* dn.GetVolumesById on the objects the round holds *)
Definition held_nodes (c : cfg) (s : state) (es : list event) : nodes :=
  fold_left (fun ns p => aset (fst p) (snd p) ns) (dead_of c s es []) (s_nodes (run c s es)).
(* UnRegisterVolumeLayout deletes the VolumeLayout object from its collection once
   vid2location is empty; the pass keeps working on the deleted object, which has
   no entry for any vid any more *)
Definition detached (c : cfg) (s : state) (es : list event) : bool :=
  existsb (fun st => match l_loc (s_lay st) with [] => true | _ => false end) (trace c s es).

(* SetVolumeAvailable(dn, vid, isReadOnly) as called by the commit; the flag is
   "the master panicked": vl.vid2location[vid] is dereferenced without a nil check *)
Definition set_av (c : cfg) (held : nodes) (v : N) (ro : bool) (lp : layout * bool) (n : N) : layout * bool :=
  if snd lp then lp
  else match ginfo held n v with
       | None => lp
       | Some _ =>
           match aget v (l_loc (fst lp)) with
           | None => (fst lp, true)
           | Some _ => (set_available c held n v ro (fst lp), false)
           end
       end.

Record round := {
  r_st : state;           (* the master's state after the round *)
  r_log : list entry;
  r_hung : bool;          (* the round never returns *)
  r_panic : bool;         (* the master process panicked *)
  r_evs : list event      (* the master-side events processed during the round *)
}.
Definition r_lay (r : round) : layout := s_lay (r_st r).
Definition quiet (s : state) (log : list entry) (evs : list event) : round :=
  {| r_st := s; r_log := log; r_hung := false; r_panic := false; r_evs := evs |}.

(* the body of the loop of vacuumOneVolumeLayout for one vid; [locs] is the copy
   of the location list taken before the loop; [mid] are the events the master
   processes while the replicas compact *)
Definition vacuum_round (c : cfg) (s : state) (scs : scripts) (mid : list event) (v : N) (locs : list N) : round :=
  let l := s_lay s in
  if bs_true v (l_ro l) then quiet s [] []
  else
    let log1 := check_log scs v locs in
    let '(vac, need) := check_phase scs v locs in
    if need then
      (* batchVacuumVolumeCompact removes the vid from writables first *)
      let s1 := with_lay (remove_writable v l) s in
      let log2 := map (mk v RCompact) vac in
      let s2 := run c s1 mid in
      if compact_ok scs v vac then
        let '(called, hung) := commit_calls scs v vac in
        let log3 := map (mk v RCommit) called in
        if hung then {| r_st := s2; r_log := log1 ++ log2 ++ log3; r_hung := true; r_panic := false; r_evs := mid |}
        else if commit_ok scs v vac then
          let held := held_nodes c s1 mid in
          let ro := commit_ro scs v vac in
          if detached c s1 mid then
            (* SetVolumeAvailable runs on the deleted layout object *)
            {| r_st := s2; r_log := log1 ++ log2 ++ log3; r_hung := false;
               r_panic := existsb (fun n => match ginfo held n v with Some _ => true | None => false end) vac;
               r_evs := mid |}
          else
            let lp := fold_left (set_av c held v ro) vac (s_lay s2, false) in
            {| r_st := with_lay (fst lp) s2; r_log := log1 ++ log2 ++ log3; r_hung := false; r_panic := snd lp; r_evs := mid |}
        else quiet s2 (log1 ++ log2 ++ log3) mid
      else quiet s2 (log1 ++ log2 ++ map (mk v RCleanup) vac) mid
    else quiet s log1 [].

(* one call of Topology.Vacuum *)
Record pass := {
  p_pre : list event;               (* events processed before the pass (also by a master that never vacuums) *)
  p_scs : scripts;
  p_mid : list (N * list event)     (* vid -> events processed while that vid's replicas compact *)
}.
Definition mid_of (p : pass) (v : N) : list event :=
  match aget v (p_mid p) with Some es => es | None => [] end.

(* q_evs: the events the master processed during the pass, in order *)
Record pstate := { q_st : state; q_log : list entry; q_hung : bool; q_panic : bool; q_evs : list event }.
Definition pstart (s : state) : pstate := {| q_st := s; q_log := []; q_hung := false; q_panic := false; q_evs := [] |}.

(* vacuumOneVolumeLayout: all location lists are copied first, then one round per
   vid; a round that hangs or panics ends the pass *)
Definition round_step (c : cfg) (scs : scripts) (mids : N -> list event) (q : pstate) (p : N * list N) : pstate :=
  if q_hung q || q_panic q then q
  else let r := vacuum_round c (q_st q) scs (mids (fst p)) (fst p) (snd p) in
       {| q_st := r_st r; q_log := q_log q ++ r_log r; q_hung := r_hung r; q_panic := r_panic r;
          q_evs := q_evs q ++ r_evs r |}.
Definition vacuum_layout (c : cfg) (scs : scripts) (mids : N -> list event) (s : state) : pstate :=
  fold_left (round_step c scs mids) (l_loc (s_lay s)) (pstart s).

(* Topology.Vacuum: returns at once while an earlier call has not returned
   (vacuumLockCounter); after a panic there is no master any more *)
Definition pass_step (c : cfg) (q : pstate) (p : pass) : pstate :=
  if q_panic q then {| q_st := q_st q; q_log := []; q_hung := q_hung q; q_panic := true; q_evs := [] |}
  else
    let s := run c (q_st q) (p_pre p) in
    if q_hung q then {| q_st := s; q_log := []; q_hung := true; q_panic := false; q_evs := p_pre p |}
    else let q' := vacuum_layout c (p_scs p) (mid_of p) s in
         {| q_st := q_st q'; q_log := q_log q'; q_hung := q_hung q'; q_panic := q_panic q'; q_evs := p_pre p ++ q_evs q' |}.
(* the states after every pass (each with the log of that pass only) *)
Fixpoint passes (c : cfg) (q : pstate) (ps : list pass) : list pstate :=
  match ps with
  | [] => []
  | p :: ps' => let q' := pass_step c q p in q' :: passes c q' ps'
  end.
(* the master that never vacuums: the same events at the same times, no rounds *)
Fixpoint unvacuumed (c : cfg) (s : state) (qs : list pstate) : list state :=
  match qs with
  | [] => []
  | q :: qs' => let s' := run c s (q_evs q) in s' :: unvacuumed c s' qs'
  end.

Definition rpc_eqb (a b : rpc) : bool :=
  match a, b with
  | RCheck, RCheck | RCompact, RCompact | RCommit, RCommit | RCleanup, RCleanup => true
  | _, _ => false
  end.

(* the RPCs replica n received for volume v, in order *)
Definition log_of (log : list entry) (v n : N) : list rpc :=
  map e_rpc (filter (fun e => (e_vid e =? v) && (e_node e =? n)) log).
Definition got (log : list entry) (v n : N) (r : rpc) : bool :=
  existsb (rpc_eqb r) (log_of log v n).

(* ---------- the writable criterion (C11) on the registered state ---------- *)
(* evaluated on the replicas the layout lists for v *)
Definition crit_loc (c : cfg) (ns : nodes) (l : layout) (v : N) : bool :=
  enough c (nlen (loc l v)) && forallb (replica_ok c ns v) (loc l v).

(* ---------- triggers of the known findings of C14 (rounds without master-side events) ---------- *)
Definition vac_of (scs : scripts) (l : layout) (v : N) : list N := fst (check_phase scs v (loc l v)).
Definition reaches_compact (scs : scripts) (l : layout) (v : N) : bool :=
  negb (bs_true v (l_ro l)) && snd (check_phase scs v (loc l v)).
(* 2: the round reaches the commit of a replica that never answers *)
Definition trigger_hang (scs : scripts) (l : layout) (v : N) : bool :=
  let vac := vac_of scs l v in
  reaches_compact scs l v && compact_ok scs v vac && snd (commit_calls scs v vac).
Definition full_success (scs : scripts) (l : layout) (v : N) : bool :=
  let vac := vac_of scs l v in
  reaches_compact scs l v && compact_ok scs v vac && negb (snd (commit_calls scs v vac)) &&
  commit_ok scs v vac && negb (commit_ro scs v vac).
(* 0: the round removed a WRITABLE vid from writables and neither finished with a
   clean commit nor hangs *)
Definition trigger_stuck (scs : scripts) (l : layout) (v : N) : bool :=
  reaches_compact scs l v && negb (full_success scs l v) && negb (trigger_hang scs l v) && mem v (l_writ l).
(* SetVolumeAvailable's own test after a clean commit: the copy count, and some
   committing replica whose registered info is not read-only *)
Definition readmit_test (c : cfg) (ns : nodes) (scs : scripts) (l : layout) (v : N) : bool :=
  enough c (nlen (loc l v)) && existsb (replica_rw ns v) (vac_of scs l v).
(* 1: a clean commit makes a vid writable that was not *)
Definition trigger_readmit (c : cfg) (ns : nodes) (scs : scripts) (l : layout) (v : N) : bool :=
  full_success scs l v && negb (mem v (l_writ l)) && readmit_test c ns scs l v.
