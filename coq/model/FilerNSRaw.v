(* Model of the request layer of FilerServer.AtomicRenameEntry (C18, added after the audit):
     weed/server/filer_grpc_server_rename.go   path.Clean of both directories, the refusal of names
                                               that are not plain entry names, the own-subtree check
     weed/filer/filer_rename.go                CanRename / DetectBucket (no move across buckets)
   on top of model/FilerNS.v, whose [rename] works on clean segment lists, and the NARROW trigger of
   known finding 0.  Executable definitions only; proofs are in proof/FilerNSRaw.v and
   proof/FilerNSMerge.v.  (A separate file so that model/FilerNS.v, which C20 and C21 import,
   stays untouched.) *)
From Coq Require Import List NArith Bool String Ascii Arith.
From SW Require Export model.FilerNS.
Import ListNotations.
Local Open Scope string_scope.
Local Open Scope list_scope.

(* ---------- strings.Split(s, "/") ---------- *)
Definition is_slash (c : ascii) : bool := Ascii.eqb c "/"%char.

Fixpoint split_slash_acc (s : string) (cur : string) : list string :=
  match s with
  | EmptyString => [cur]
  | String c s' => if is_slash c then cur :: split_slash_acc s' EmptyString
                   else split_slash_acc s' (cur ++ String c EmptyString)
  end.
Definition split_slash (s : string) : list string := split_slash_acc s EmptyString.

Fixpoint has_slash (s : string) : bool :=
  match s with
  | EmptyString => false
  | String c s' => is_slash c || has_slash s'
  end.

(* ---------- path.Clean("/" + filepath.ToSlash(dir)) as a segment list ----------
   rooted path: empty and "." segments vanish, ".." removes the last segment (and is dropped at
   the root); filepath.ToSlash is the identity on the platform of the check (Separator = '/').
   [acc] is the cleaned path REVERSED. *)
Definition clean_step (acc : list name) (seg : string) : list name :=
  if String.eqb seg "" || String.eqb seg "." then acc
  else if String.eqb seg ".." then tl acc
  else seg :: acc.
Definition clean_dir (d : string) : path := rev (fold_left clean_step (split_slash d) []).

(* name == "" || name == "." || name == ".." || strings.Contains(name, "/")  is refused *)
Definition valid_name (n : string) : bool :=
  negb (String.eqb n "" || String.eqb n "." || String.eqb n ".." || has_slash n).

(* Filer.DetectBucket with DirBucketsPath = "/buckets", on a clean path: the segment after
   "buckets", "" when the path is not below the buckets folder *)
Definition buckets_name : name := "buckets".
Definition detect_bucket (p : path) : name :=
  match p with
  | b0 :: b :: _ => if String.eqb b0 buckets_name then b else ""
  | _ => ""
  end.
(* Filer.CanRename(oldParent, newParent) *)
Definition can_rename (od nd : path) : bool := String.eqb (detect_bucket od) (detect_bucket nd).

(* ---------- FilerServer.AtomicRenameEntry on the raw request strings ----------
   "invalid entry name", "can not move across collection" and "can not move ... to a subdirectory
   of itself" are one error class (EInvalid: the request is refused before anything is read) *)
Definition rename_raw (s : store) (od on nd nn : string) : store * err :=
  let odp := clean_dir od in
  let ndp := clean_dir nd in
  if negb (valid_name on && valid_name nn) then (s, EInvalid)
  else if negb (can_rename odp ndp) then (s, EInvalid)
  else rename s odp on ndp nn.

(* ---------- histories with raw renames ---------- *)
Inductive xop :=
| Plain (o : op)
| RenameRaw (od on nd nn : string).

Definition xstep (s : store) (x : xop) : store * err :=
  match x with
  | Plain o => step s o
  | RenameRaw od on nd nn => rename_raw s od on nd nn
  end.

Fixpoint xrun (s : store) (xs : list xop) : list (store * err) :=
  match xs with
  | [] => []
  | x :: xs' => let sr := xstep s x in sr :: xrun (fst sr) xs'
  end.

Fixpoint xfinal (s : store) (xs : list xop) : store :=
  match xs with
  | [] => s
  | x :: xs' => xfinal (fst (xstep s x)) xs'
  end.

(* ---------- the narrow trigger of known finding 0 ----------
   an entry of the source subtree meets an entry of the OTHER type at the same relative path
   below the target *)
Definition merge_conflict (s : store) (oldp newp : path) : bool :=
  existsb (fun kv => match strip_prefix oldp (fst kv) with
                     | Some r => match find s (newp ++ r) with
                                 | Some y => xorb (e_dir (snd kv)) (e_dir y)
                                 | None => false
                                 end
                     | None => false
                     end) s.

(* a directory renamed onto a non-empty directory (the wide trigger) AND the target is an ancestor
   of the source or there is a type conflict at a common relative path *)
Definition rename_trigger_n (s : store) (od : path) (on : name) (nd : path) (nn : name) : bool :=
  rename_trigger s od on nd nn &&
  (is_prefix (child nd nn) (child od on) || merge_conflict s (child od on) (child nd nn)).

Definition op_trigger_n (s : store) (o : op) : bool :=
  match o with
  | Rename od on nd nn => rename_trigger_n s od on nd nn
  | _ => false
  end.

Definition xop_trigger (s : store) (x : xop) : bool :=
  match x with
  | Plain o => op_trigger_n s o
  | RenameRaw od on nd nn =>
      valid_name on && valid_name nn && can_rename (clean_dir od) (clean_dir nd) &&
      rename_trigger_n s (clean_dir od) on (clean_dir nd) nn
  end.

(* ---------- the reference for a raw rename: refusal, else the reference rename of the
   normalised request ---------- *)
Definition ref_rename_raw (s : store) (od on nd nn : string) : option (store * err) :=
  if negb (valid_name on && valid_name nn) then Some (s, EInvalid)
  else if negb (can_rename (clean_dir od) (clean_dir nd)) then Some (s, EInvalid)
  else ref_rename s (clean_dir od) on (clean_dir nd) nn.

Definition xref_step (s : store) (x : xop) : option (store * err) :=
  match x with
  | Plain o => ref_step s o
  | RenameRaw od on nd nn => ref_rename_raw s od on nd nn
  end.

(* the merge of a directory into a non-empty directory as the reference sees it when there is no
   conflict: the source subtree laid over the target (ref_move keeps the target's other entries) *)
Definition is_dir_at (s : store) (p : path) : bool :=
  match find s p with Some e => e_dir e | None => false end.
