(* Model of the master's capacity accounting (property C12):
   weed/topology/{node.go,disk.go,disk_ec.go,data_node.go,data_node_ec.go,rack.go,
   data_center.go,topology.go,topology_ec.go,topology_event_handling.go} as driven by
   weed/server/master_grpc_server.go SendHeartbeat.
   Executable definitions only; proofs are in proof/TopoCountProofs.v.

   Representation.  Every node object of the Go tree (topology, data center, rack, data
   node, disk) is one entry of a flat table keyed by its path of ids
       []  [dc]  [dc;rack]  [dc;rack;node]  [dc;rack;node;disk]
   and carries what the Go object carries: its own DiskUsages counters and, for a disk,
   its volumes and EC shard maps.  The parent pointer of the Go object is the path
   without its last element, so UpAdjustDiskUsageDelta (add the delta here, then at the
   parent, ...) adds the delta to every entry whose path is a prefix of the start path.
   The counters of every level are kept AS THE CODE KEEPS THEM; nothing is recomputed.

   Faithful to the code as it is AFTER the three repairs of data_node.go / data_node_ec.go:
     - DeltaUpdateVolumes skips a deleted volume that is not registered on the disk and takes
       the remote/read-only flags from the REGISTERED VolumeInfo;
     - UpdateEcShards counts new/deleted shards per registered EC volume;
     - AdjustMaxVolumeCounts builds one delta object per disk type.
   Still as written: UpdateEcShards keys reported and registered EC volumes by id only.
   Go map iteration orders are explicit order oracles (TopoPlace.permute). *)
From Coq Require Import String List ZArith NArith Bool Arith.
From SW Require Import model.TopoPlace.
Import ListNotations.
Local Open Scope Z_scope.

(* ---------- paths ---------- *)
Definition path := list string.

Fixpoint path_eqb (a b : path) : bool :=
  match a, b with
  | [], [] => true
  | x :: a', y :: b' => String.eqb x y && path_eqb a' b'
  | _, _ => false
  end.

Fixpoint is_prefix (p q : path) : bool :=
  match p, q with
  | [], _ => true
  | x :: p', y :: q' => String.eqb x y && is_prefix p' q'
  | _ :: _, [] => false
  end.

(* q is a child of p *)
Definition is_child_of (p q : path) : bool := is_prefix p q && Nat.eqb (length q) (S (length p)).

(* ---------- types.ToDiskType (lower-case inputs): "" and "hdd" are the hard drive type ---------- *)
Definition to_dt (s : string) : string := if String.eqb s "hdd" then ""%string else s.

(* ---------- DiskUsageCounts / DiskUsages algebra (disk.go) ---------- *)
Definition cadd (a b : counts) : counts :=     (* addDiskUsageCounts *)
  mkCounts (volumeCount a + volumeCount b) (remoteVolumeCount a + remoteVolumeCount b)
           (activeVolumeCount a + activeVolumeCount b) (ecShardCount a + ecShardCount b)
           (maxVolumeCount a + maxVolumeCount b).
Definition cneg (a : counts) : counts :=
  mkCounts (- volumeCount a) (- remoteVolumeCount a) (- activeVolumeCount a) (- ecShardCount a) (- maxVolumeCount a).

(* for diskType, c := range delta.usages { getOrCreateDisk(diskType).addDiskUsageCounts(c) } *)
Definition uadd (u d : usages) : usages :=
  map (fun k => (k, cadd (uget u k) (uget d k))) (dedup String.eqb (map fst u ++ map fst d)).

(* DiskUsages.negative *)
Definition uneg (u : usages) : usages := map (fun kc => (fst kc, cneg (snd kc))) u.

(* d := delta.getOrCreateDisk(t); d.maxVolumeCount = x *)
Fixpoint uset_max (u : usages) (t : string) (x : Z) : usages :=
  match u with
  | [] => [(t, mkCounts 0 0 0 0 x)]
  | (k, c) :: u' =>
      if String.eqb k t
      then (k, mkCounts (volumeCount c) (remoteVolumeCount c) (activeVolumeCount c) (ecShardCount c) x) :: u'
      else (k, c) :: uset_max u' t x
  end.

(* ---------- what is registered ---------- *)
(* storage.VolumeInfo, projected: Id, DiskType, IsRemote(), ReadOnly *)
Record vinfo := mkV { v_id : N; v_disk : string; v_remote : bool; v_ro : bool }.
(* erasure_coding.EcVolumeInfo, projected: VolumeId, DiskType, ShardBits *)
Record ecinfo := mkE { e_id : N; e_disk : string; e_bits : N }.

Record ninfo := mkI { i_usage : usages; i_vols : list vinfo; i_ecs : list ecinfo }.
Definition empty_info : ninfo := {| i_usage := []; i_vols := []; i_ecs := [] |}.

Definition state := list (path * ninfo).
Definition init_state : state := [([], empty_info)].       (* NewTopology *)

Definition present (st : state) (p : path) : bool := existsb (fun e => path_eqb (fst e) p) st.

Fixpoint info (st : state) (p : path) : ninfo :=
  match st with
  | [] => empty_info
  | (k, i) :: st' => if path_eqb k p then i else info st' p
  end.

Definition upd (st : state) (p : path) (f : ninfo -> ninfo) : state :=
  map (fun e => if path_eqb (fst e) p then (fst e, f (snd e)) else e) st.

Definition add_usage (d : usages) (i : ninfo) : ninfo :=
  {| i_usage := uadd (i_usage i) d; i_vols := i_vols i; i_ecs := i_ecs i |}.
Definition set_vols (l : list vinfo) (i : ninfo) : ninfo :=
  {| i_usage := i_usage i; i_vols := l; i_ecs := i_ecs i |}.
Definition set_ecs (l : list ecinfo) (i : ninfo) : ninfo :=
  {| i_usage := i_usage i; i_vols := i_vols i; i_ecs := l |}.

(* NodeImpl.UpAdjustDiskUsageDelta started at the node with path p *)
Definition up_adjust (st : state) (p : path) (d : usages) : state :=
  map (fun e => if is_prefix (fst e) p then (fst e, add_usage d (snd e)) else e) st.

(* children of a data node are its disks *)
Definition disks_of (st : state) (n : path) : list (path * ninfo) :=
  filter (fun e => is_child_of n (fst e)) st.

(* DataNode.getOrCreateDisk: NewDisk + doLinkChildNode (the new disk's usages are empty,
   so the UpAdjustDiskUsageDelta of the link adds nothing) *)
Definition get_or_create_disk (st : state) (n : path) (disk : string) : state :=
  let q := n ++ [disk] in
  if present st q then st else st ++ [(q, empty_info)].

(* ---------- volumes ---------- *)
Fixpoint find_vol (id : N) (l : list vinfo) : option vinfo :=
  match l with
  | [] => None
  | v :: l' => if N.eqb (v_id v) id then Some v else find_vol id l'
  end.
Definition remove_vol (id : N) (l : list vinfo) : list vinfo :=
  filter (fun v => negb (N.eqb (v_id v) id)) l.
Fixpoint put_vol (v : vinfo) (l : list vinfo) : list vinfo :=       (* d.volumes[v.Id] = v *)
  match l with
  | [] => [v]
  | x :: l' => if N.eqb (v_id x) (v_id v) then v :: l' else x :: put_vol v l'
  end.

Definition b2z (b : bool) : Z := if b then 1 else 0.

(* deltaDiskUsage of one volume, sign +1 / -1 *)
Definition vol_delta (sign : Z) (v : vinfo) : usages :=
  [(to_dt (v_disk v),
    mkCounts sign (if v_remote v then sign else 0) (if v_ro v then 0 else sign) 0 0)].

(* DataNode.doAddOrUpdateVolume -> Disk.doAddOrUpdateVolume *)
Definition add_or_update_volume (st : state) (n : path) (v : vinfo) : state :=
  let st1 := get_or_create_disk st n (v_disk v) in
  let q := n ++ [v_disk v] in
  match find_vol (v_id v) (i_vols (info st1 q)) with
  | None =>
      up_adjust (upd st1 q (fun i => set_vols (put_vol v (i_vols i)) i)) q (vol_delta 1 v)
  | Some oldV =>
      let st2 :=
        if Bool.eqb (v_remote oldV) (v_remote v) then st1
        else
          let r := if v_remote v then 1 else 0 in
          let r := if v_remote oldV then -1 else r in
          up_adjust st1 q [(to_dt (v_disk v), mkCounts 0 r 0 0 0)] in
      upd st2 q (fun i => set_vols (put_vol v (i_vols i)) i)
  end.

(* delete(disk.volumes, vid); delta -1 with the flags of v; UpAdjustDiskUsageDelta *)
Definition delete_volume (st : state) (n : path) (v : vinfo) : state :=
  let st1 := get_or_create_disk st n (v_disk v) in
  let q := n ++ [v_disk v] in
  up_adjust (upd st1 q (fun i => set_vols (remove_vol (v_id v) (i_vols i)) i)) q (vol_delta (-1) v).

Definition node_volumes (st : state) (n : path) : list vinfo :=
  flat_map (fun e => i_vols (snd e)) (disks_of st n).

(* DataNode.UpdateVolumes (full heartbeat) *)
Definition update_volumes (st : state) (n : path) (actual : list vinfo) : state :=
  let existing := node_volumes st n in
  let st1 := fold_left (fun s v =>
      if existsb (fun a => N.eqb (v_id a) (v_id v)) actual then s   (* found in actualVolumeMap *)
      else delete_volume s n v) existing st in
  fold_left (fun s v => add_or_update_volume s n v) actual st1.

(* one deleted volume of DeltaUpdateVolumes: oldV, found := disk.volumes[v.Id]; if !found continue;
   the delta uses oldV.IsRemote() / oldV.ReadOnly and the disk type of the message *)
Definition delta_delete_volume (st : state) (n : path) (v : vinfo) : state :=
  let st1 := get_or_create_disk st n (v_disk v) in
  let q := n ++ [v_disk v] in
  match find_vol (v_id v) (i_vols (info st1 q)) with
  | None => st1
  | Some oldV =>
      up_adjust (upd st1 q (fun i => set_vols (remove_vol (v_id v) (i_vols i)) i)) q
                (vol_delta (-1) {| v_id := v_id v; v_disk := v_disk v;
                                   v_remote := v_remote oldV; v_ro := v_ro oldV |})
  end.

(* DataNode.DeltaUpdateVolumes (incremental heartbeat) *)
Definition delta_update_volumes (st : state) (n : path) (news dels : list vinfo) : state :=
  let st1 := fold_left (fun s v => delta_delete_volume s n v) dels st in
  fold_left (fun s v => add_or_update_volume s n v) news st1.

(* storage.NewVolumeInfoFromShort: no remote storage name, ReadOnly false *)
Definition vshort := (N * string)%type.
Definition of_short (m : vshort) : vinfo :=
  {| v_id := fst m; v_disk := snd m; v_remote := false; v_ro := false |}.

(* ---------- DataNode.AdjustMaxVolumeCounts ---------- *)
(* [maxs]: the map in iteration order; a fresh deltaDiskUsages object per disk type *)
Definition adjust_max (st : state) (n : path) (maxs : list (string * Z)) : state :=
  fold_left (fun (s : state) (km : string * Z) =>
      let '(raw, m) := km in
      if m =? 0 then s                                          (* "may have set the max to zero" *)
      else
        let dt := to_dt raw in
        let cur := maxVolumeCount (uget (i_usage (info s n)) dt) in
        if cur =? m then s
        else
          let s1 := get_or_create_disk s n dt in                (* dn.getOrCreateDisk(dt.String()) *)
          let delta := uset_max [] dt (m - cur) in              (* newDiskUsages(); getOrCreateDisk(dt) *)
          up_adjust s1 (n ++ [dt]) delta) maxs st.

(* ---------- EC shards ---------- *)
Fixpoint popcount_pos (p : positive) : Z :=
  match p with
  | xH => 1
  | xO p' => popcount_pos p'
  | xI p' => 1 + popcount_pos p'
  end.
Definition popcount (b : N) : Z := match b with N0 => 0 | Npos p => popcount_pos p end.  (* ShardIdCount *)

Fixpoint find_ec (id : N) (l : list ecinfo) : option ecinfo :=
  match l with
  | [] => None
  | e :: l' => if N.eqb (e_id e) id then Some e else find_ec id l'
  end.
(* map built by successive assignment: the last entry with the id wins *)
Definition find_ec_last (id : N) (l : list ecinfo) : option ecinfo := find_ec id (rev l).
Definition remove_ec (id : N) (l : list ecinfo) : list ecinfo :=
  filter (fun e => negb (N.eqb (e_id e) id)) l.
Fixpoint put_ec (s : ecinfo) (l : list ecinfo) : list ecinfo :=
  match l with
  | [] => [s]
  | x :: l' => if N.eqb (e_id x) (e_id s) then s :: l' else x :: put_ec s l'
  end.

Definition ec_delta (disk : string) (n : Z) : usages := [(to_dt disk, mkCounts 0 0 0 n 0)].

Definition node_ecs (st : state) (n : path) : list ecinfo :=
  flat_map (fun e => i_ecs (snd e)) (disks_of st n).

(* DataNode.doUpdateEcShards *)
Definition do_update_ec_shards (st : state) (n : path) (actual : list ecinfo) : state :=
  let st1 := map (fun e => if is_child_of n (fst e) then (fst e, set_ecs [] (snd e)) else e) st in
  fold_left (fun s a =>
      let s1 := get_or_create_disk s n (e_disk a) in
      upd s1 (n ++ [e_disk a]) (fun i => set_ecs (put_ec a (i_ecs i)) i)) actual st1.

(* DataNode.UpdateEcShards (full EC heartbeat); [order]: iteration order of GetEcShards() *)
Definition update_ec_shards (order : list nat) (st : state) (n : path) (actual : list ecinfo) : state :=
  let existing := permute order (node_ecs st n) in
  let '(st1, changed1) :=
    fold_left (fun (acc : state * bool) (e : ecinfo) =>
        let '(s, changed) := acc in
        let s1 := get_or_create_disk s n (e_disk e) in
        let newCount := 0 in                                     (* var newShardCount, deletedShardCount int *)
        let delCount := 0 in                                     (* declared inside the loop body *)
        let '(newCount', delCount', changed') :=
          match find_ec_last (e_id e) actual with
          | None => (newCount, delCount + popcount (e_bits e), true)
          | Some a =>
              let an := popcount (N.ldiff (e_bits a) (e_bits e)) in     (* actual.Minus(existing) *)
              let dn := popcount (N.ldiff (e_bits e) (e_bits a)) in     (* existing.Minus(actual) *)
              ((if 0 <? an then newCount + an else newCount),
               (if 0 <? dn then delCount + dn else delCount),
               changed || (0 <? an) || (0 <? dn))
          end in
        (* deltaDiskUsage.ecShardCount = newShardCount - deletedShardCount  (of this volume) *)
        (up_adjust s1 (n ++ [e_disk e]) (ec_delta (e_disk e) (newCount' - delCount')), changed'))
      existing (st, false) in
  let registered := node_ecs st n in                     (* dn.hasEcShards reads the maps, unchanged so far *)
  let '(st2, changed2) :=
    fold_left (fun (acc : state * bool) (a : ecinfo) =>
        let '(s, changed) := acc in
        if existsb (fun e => N.eqb (e_id e) (e_id a)) registered then acc
        else
          let s1 := get_or_create_disk s n (e_disk a) in
          (up_adjust s1 (n ++ [e_disk a]) (ec_delta (e_disk a) (popcount (e_bits a))), true))
      actual (st1, changed1) in
  if changed2 then do_update_ec_shards st2 n actual else st2.

(* Disk.AddOrUpdateEcShard / Disk.DeleteEcShard via DataNode *)
Definition add_or_update_ec (st : state) (n : path) (s : ecinfo) : state :=
  let st1 := get_or_create_disk st n (e_disk s) in
  let q := n ++ [e_disk s] in
  match find_ec (e_id s) (i_ecs (info st1 q)) with
  | None =>
      up_adjust (upd st1 q (fun i => set_ecs (put_ec s (i_ecs i)) i)) q
                (ec_delta (e_disk s) (popcount (e_bits s)))
  | Some ex =>
      let nb := N.lor (e_bits ex) (e_bits s) in
      let ex' := {| e_id := e_id ex; e_disk := e_disk ex; e_bits := nb |} in
      up_adjust (upd st1 q (fun i => set_ecs (put_ec ex' (i_ecs i)) i)) q
                (ec_delta (e_disk s) (popcount nb - popcount (e_bits ex)))
  end.

Definition delete_ec (st : state) (n : path) (s : ecinfo) : state :=
  let st1 := get_or_create_disk st n (e_disk s) in
  let q := n ++ [e_disk s] in
  match find_ec (e_id s) (i_ecs (info st1 q)) with
  | None => st1
  | Some ex =>
      let nb := N.ldiff (e_bits ex) (e_bits s) in
      let ex' := {| e_id := e_id ex; e_disk := e_disk ex; e_bits := nb |} in
      let st2 := up_adjust (upd st1 q (fun i => set_ecs (put_ec ex' (i_ecs i)) i)) q
                           (ec_delta (e_disk s) (popcount nb - popcount (e_bits ex))) in
      if popcount nb =? 0 then upd st2 q (fun i => set_ecs (remove_ec (e_id s) (i_ecs i)) i) else st2
  end.

(* DataNode.DeltaUpdateEcShards *)
Definition delta_update_ec (st : state) (n : path) (news dels : list ecinfo) : state :=
  let st1 := fold_left (fun s e => add_or_update_ec s n e) news st in
  fold_left (fun s e => delete_ec s n e) dels st1.

(* ---------- joining and leaving ---------- *)
(* GetOrCreateDataCenter / GetOrCreateRack: NewX + LinkChildNode of an empty node *)
Definition link_empty (st : state) (p : path) : state :=
  if present st p then st else st ++ [(p, empty_info)].

(* Rack.GetOrCreateDataNode *)
Definition join (st : state) (dc rack node : string) (maxs : list (string * Z)) : state :=
  let st1 := link_empty st [dc] in
  let st2 := link_empty st1 [dc; rack] in
  let n := [dc; rack; node] in
  if present st2 n then st2
  else
    let st3 := st2 ++ [(n, empty_info)] in
    fold_left (fun s (km : string * Z) =>
        let '(raw, m) := km in
        let q := n ++ [raw] in
        if present s q then s                                  (* doLinkChildNode: already a child *)
        else
          let u := [(to_dt raw, mkCounts 0 0 0 0 m)] in        (* NewDisk(raw) with its max count *)
          up_adjust (s ++ [(q, {| i_usage := u; i_vols := []; i_ecs := [] |})]) n u) maxs st3.

(* Topology.UnRegisterDataNode, then Parent().UnlinkChildNode *)
Definition unregister (st : state) (n : path) : state :=
  let st1 := up_adjust st n (uneg (i_usage (info st n))) in
  let st2 := up_adjust st1 (removelast n) (uneg (i_usage (info st1 n))) in
  filter (fun e => negb (is_prefix n (fst e))) st2.

(* ---------- histories ---------- *)
Inductive op :=
| Join (dc rack node : string) (maxs : list (string * Z))
| AdjustMax (n : path) (maxs : list (string * Z))
| FullVol (n : path) (vols : list vinfo)                  (* Topology.SyncDataNodeRegistration *)
| IncVol (n : path) (news dels : list vshort)             (* Topology.IncrementalSyncDataNodeRegistration *)
| FullEc (n : path) (shards : list ecinfo)                (* Topology.SyncDataNodeEcShards *)
| IncEc (n : path) (news dels : list ecinfo)              (* Topology.IncrementalSyncDataNodeEcShards *)
| Unregister (n : path)
| Grow (n : path) (v : vinfo).                            (* VolumeGrowth.grow: server.AddOrUpdateVolume(vi) *)

Definition op_node (o : op) : path :=
  match o with
  | Join dc rack node _ => [dc; rack; node]
  | AdjustMax n _ | FullVol n _ | IncVol n _ _ | FullEc n _ | IncEc n _ _ | Unregister n | Grow n _ => n
  end.

(* [order]: the iteration order of the one Go map whose order matters in this step *)
Definition step (order : list nat) (st : state) (o : op) : state :=
  match o with
  | Join dc rack node maxs => join st dc rack node maxs
  | _ =>
    let n := op_node o in
    if negb (present st n && Nat.eqb (length n) 3) then st     (* ops are sent to registered data nodes *)
    else match o with
         | Join _ _ _ _ => st
         | AdjustMax _ maxs => adjust_max st n (permute order maxs)
         | FullVol _ vs => update_volumes st n vs
         | IncVol _ news dels => delta_update_volumes st n (map of_short news) (map of_short dels)
         | FullEc _ shards => update_ec_shards order st n shards
         | IncEc _ news dels => delta_update_ec st n news dels
         | Unregister _ => unregister st n
         | Grow _ v => add_or_update_volume st n v
         end
  end.

Fixpoint run (orders : list (list nat)) (st : state) (ops : list op) : list state :=
  match ops with
  | [] => []
  | o :: ops' => let st' := step (hd [] orders) st o in st' :: run (tl orders) st' ops'
  end.

(* all successor states over the order oracle *)
Definition step_all (st : state) (o : op) : list state :=
  match o with
  | AdjustMax n maxs => map (fun ord => step ord st o) (all_orders (length maxs))
  | FullEc n _ => map (fun ord => step ord st o) (all_orders (length (node_ecs st n)))
  | _ => [step [] st o]
  end.

(* ---------- the reference: what was reported / registered ---------- *)
(* last max volume count reported per data node and disk type *)
Definition ref_state := list (path * list (string * Z)).

Fixpoint rget (l : list (string * Z)) (t : string) : Z :=
  match l with
  | [] => 0
  | (k, v) :: l' => if String.eqb k t then v else rget l' t
  end.
Fixpoint rset (l : list (string * Z)) (t : string) (x : Z) : list (string * Z) :=
  match l with
  | [] => [(t, x)]
  | (k, v) :: l' => if String.eqb k t then (k, x) :: l' else (k, v) :: rset l' t x
  end.
Fixpoint ref_info (r : ref_state) (p : path) : list (string * Z) :=
  match r with
  | [] => []
  | (k, i) :: r' => if path_eqb k p then i else ref_info r' p
  end.
Definition ref_present (r : ref_state) (p : path) : bool := existsb (fun e => path_eqb (fst e) p) r.

Definition ref_step (r : ref_state) (o : op) : ref_state :=
  match o with
  | Join dc rack node maxs =>
      let n := [dc; rack; node] in
      if ref_present r n then r
      else r ++ [(n, fold_left (fun acc (km : string * Z) =>
                       (* one disk per key; keys of the same type add up *)
                       rset acc (to_dt (fst km)) (rget acc (to_dt (fst km)) + snd km)) maxs [])]
  | AdjustMax n maxs =>
      map (fun e => if path_eqb (fst e) n
                    then (fst e, fold_left (fun acc (km : string * Z) =>
                                   if snd km =? 0 then acc else rset acc (to_dt (fst km)) (snd km)) maxs (snd e))
                    else e) r
  | Unregister n => filter (fun e => negb (path_eqb (fst e) n)) r
  | _ => r
  end.

Fixpoint ref_run (r : ref_state) (ops : list op) : list ref_state :=
  match ops with
  | [] => []
  | o :: ops' => let r' := ref_step r o in r' :: ref_run r' ops'
  end.

(* ---------- the recomputation oracle ---------- *)
Definition sumZ {A} (f : A -> Z) (l : list A) : Z := fold_right (fun x s => f x + s) 0 l.

Definition nvol (i : ninfo) (t : string) : Z :=
  sumZ (fun v => if String.eqb (to_dt (v_disk v)) t then 1 else 0) (i_vols i).
Definition nremote (i : ninfo) (t : string) : Z :=
  sumZ (fun v => if String.eqb (to_dt (v_disk v)) t && v_remote v then 1 else 0) (i_vols i).
Definition nec (i : ninfo) (t : string) : Z :=
  sumZ (fun e => if String.eqb (to_dt (e_disk e)) t then popcount (e_bits e) else 0) (i_ecs i).
(* max volume count of a disk entry (length 4) *)
Definition dmax (e : path * ninfo) (t : string) : Z :=
  if Nat.eqb (length (fst e)) 4 then maxVolumeCount (uget (i_usage (snd e)) t) else 0.

Definition beneath (st : state) (p : path) : list (path * ninfo) :=
  filter (fun e => is_prefix p (fst e)) st.

(* the counters of the entry at p for type t equal the recomputation from everything
   registered beneath p; for a data node the max count is the reported one *)
Definition exact_at (st : state) (r : ref_state) (p : path) (t : string) : bool :=
  let c := uget (i_usage (info st p)) t in
  let b := beneath st p in
  (volumeCount c =? sumZ (fun e => nvol (snd e) t) b) &&
  (remoteVolumeCount c =? sumZ (fun e => nremote (snd e) t) b) &&
  (ecShardCount c =? sumZ (fun e => nec (snd e) t) b) &&
  (maxVolumeCount c =? sumZ (fun e => dmax e t) b) &&
  (if Nat.eqb (length p) 3 then maxVolumeCount c =? rget (ref_info r p) t else true).

Definition types_of (st : state) (r : ref_state) : list string :=
  dedup String.eqb
    (flat_map (fun e => map fst (i_usage (snd e)) ++ map (fun v => to_dt (v_disk v)) (i_vols (snd e)) ++
                        map (fun x => to_dt (e_disk x)) (i_ecs (snd e))) st ++
     flat_map (fun e => map fst (snd e)) r).

Definition exact_b (st : state) (r : ref_state) : bool :=
  let ts := types_of st r in
  forallb (fun e => forallb (exact_at st r (fst e)) ts) st.

(* ---------- decidable trigger of the known finding ---------- *)
(* k = 0: an EC volume id listed twice in one full heartbeat, registered on two disks of the
          server, or reported on another disk than the one it is registered on *)
Definition trig_ec_irregular (st : state) (n : path) (actual : list ecinfo) : bool :=
  negb (nodupb N.eqb (map e_id actual)) ||
  negb (nodupb N.eqb (map e_id (node_ecs st n))) ||
  existsb (fun e => existsb (fun a => N.eqb (e_id a) (e_id e) && negb (String.eqb (e_disk a) (e_disk e))) actual)
          (node_ecs st n).

Definition trigger (st : state) (o : op) : option N :=
  let n := op_node o in
  match o with
  | FullEc _ actual =>
      if negb (present st n && Nat.eqb (length n) 3) then None
      else if trig_ec_irregular st n actual then Some 0%N else None
  | _ => None
  end.

(* input well-formedness (assumption, not a finding): MaxVolumeCounts is a Go map, so its keys
   are distinct; in AdjustMaxVolumeCounts they are moreover distinct disk types after
   ToDiskType (volume servers send normalised types) *)
Definition wf_op (o : op) : bool :=
  match o with
  | Join _ _ _ maxs => nodupb String.eqb (map fst maxs)
  | AdjustMax _ maxs => nodupb String.eqb (map (fun km => to_dt (fst km)) maxs)
  | _ => true
  end.

(* first trigger met along a run *)
Fixpoint first_trigger (orders : list (list nat)) (st : state) (ops : list op) : option N :=
  match ops with
  | [] => None
  | o :: ops' =>
      match trigger st o with
      | Some k => Some k
      | None => first_trigger (tl orders) (step (hd [] orders) st o) ops'
      end
  end.

(* ---------- comparison with an observed snapshot ---------- *)
Definition counts_eqb (a b : counts) : bool :=
  (volumeCount a =? volumeCount b) && (remoteVolumeCount a =? remoteVolumeCount b) &&
  (activeVolumeCount a =? activeVolumeCount b) && (ecShardCount a =? ecShardCount b) &&
  (maxVolumeCount a =? maxVolumeCount b).
Definition usages_eqb (a b : usages) : bool :=
  forallb (fun k => counts_eqb (uget a k) (uget b k)) (map fst a ++ map fst b).
Definition vinfo_eqb (a b : vinfo) : bool :=
  N.eqb (v_id a) (v_id b) && String.eqb (v_disk a) (v_disk b) &&
  Bool.eqb (v_remote a) (v_remote b) && Bool.eqb (v_ro a) (v_ro b).
Definition ecinfo_eqb (a b : ecinfo) : bool :=
  N.eqb (e_id a) (e_id b) && String.eqb (e_disk a) (e_disk b) && N.eqb (e_bits a) (e_bits b).
(* maps compared as sets of entries *)
Definition set_eqb {A} (eqb : A -> A -> bool) (a b : list A) : bool :=
  Nat.eqb (length a) (length b) && forallb (fun x => existsb (eqb x) b) a && forallb (fun y => existsb (eqb y) a) b.
Definition info_eqb (a b : ninfo) : bool :=
  usages_eqb (i_usage a) (i_usage b) && set_eqb vinfo_eqb (i_vols a) (i_vols b) &&
  set_eqb ecinfo_eqb (i_ecs a) (i_ecs b).
Definition state_eqb (a b : state) : bool :=
  Nat.eqb (length a) (length b) &&
  forallb (fun e => present b (fst e) && info_eqb (snd e) (info b (fst e))) a.

(* ====================================================================== *)
(* Additions after the audit (session 3).  Nothing above changes meaning. *)
(* ====================================================================== *)

(* ---------- what a full heartbeat must leave registered ---------- *)
Definition vpair := (N * string)%type.
Definition vpair_eqb (a b : vpair) : bool := N.eqb (fst a) (fst b) && String.eqb (snd a) (snd b).
Definition vpairs (l : list vinfo) : list vpair := map (fun v => (v_id v, v_disk v)) l.
Definition mem_pair (x : vpair) (l : list vpair) : bool := existsb (vpair_eqb x) l.
Definition same_pairs (a b : list vpair) : bool :=
  forallb (fun x => mem_pair x b) a && forallb (fun x => mem_pair x a) b.

(* after a full volume heartbeat [vs] of data node n the set of (volume id, disk) registered
   beneath n is the reported one *)
Definition reg_vol_ok (st' : state) (n : path) (vs : list vinfo) : bool :=
  same_pairs (vpairs (node_volumes st' n)) (vpairs vs).

(* k = 1: a volume registered on disk d of the server whose id is in the full heartbeat but
   not on d (UpdateVolumes looks the registered volume up by id only, data_node.go:76) *)
Definition trig_vol_moved (st : state) (n : path) (actual : list vinfo) : bool :=
  existsb (fun v => existsb (fun a => N.eqb (v_id a) (v_id v)) actual &&
                    negb (existsb (fun a => N.eqb (v_id a) (v_id v) && String.eqb (v_disk a) (v_disk v)) actual))
          (node_volumes st n).

(* the EC entries a full EC heartbeat registers: per (id, disk) the last one listed *)
Fixpoint last_per_key (l : list ecinfo) : list ecinfo :=
  match l with
  | [] => []
  | a :: l' =>
      if existsb (fun b => N.eqb (e_id b) (e_id a) && String.eqb (e_disk b) (e_disk a)) l'
      then last_per_key l' else a :: last_per_key l'
  end.
Definition reg_ec_ok (st' : state) (n : path) (actual : list ecinfo) : bool :=
  set_eqb ecinfo_eqb (node_ecs st' n) (last_per_key actual).

(* k = 0, narrowed (the check files a case under finding 0 only inside this set):
   (a) an id is listed on another disk than one it is registered on, or
   (b) an (id, disk) is listed twice and the id is registered nowhere on the server.
   Outside: an id listed twice on the disk it is registered on; an unregistered id listed once
   on each of two disks; an id registered on two disks and not listed at all. *)
Fixpoint dup_on_disk (l : list ecinfo) : list ecinfo :=
  match l with
  | [] => []
  | a :: l' =>
      if existsb (fun b => N.eqb (e_id b) (e_id a) && String.eqb (e_disk b) (e_disk a)) l'
      then a :: dup_on_disk l' else dup_on_disk l'
  end.
Definition trig_ec_narrow (st : state) (n : path) (actual : list ecinfo) : bool :=
  let reg := node_ecs st n in
  existsb (fun e => existsb (fun a => N.eqb (e_id a) (e_id e) && negb (String.eqb (e_disk a) (e_disk e))) actual) reg ||
  existsb (fun a => negb (existsb (fun e => N.eqb (e_id e) (e_id a)) reg)) (dup_on_disk actual).

Definition addressed (st : state) (o : op) : bool :=
  let n := op_node o in present st n && Nat.eqb (length n) 3.

(* per-step triggers of the two findings, evaluated on the state BEFORE the event *)
Definition step_k0 (st : state) (o : op) : bool :=
  match o with FullEc n a => addressed st o && trig_ec_narrow st n a | _ => false end.
Definition step_k1 (st : state) (o : op) : bool :=
  match o with FullVol n a => addressed st o && trig_vol_moved st n a | _ => false end.

(* the registration clause of one event *)
Definition step_reg_ok (st st' : state) (o : op) : bool :=
  negb (addressed st o) ||
  match o with
  | FullVol n vs => reg_vol_ok st' n vs
  | FullEc n a => reg_ec_ok st' n a
  | _ => true
  end.

(* ---------- EC drift: counter minus recomputation ---------- *)
Definition ec_drift (st : state) (p : path) (t : string) : Z :=
  ecShardCount (uget (i_usage (info st p)) t) - sumZ (fun e => nec (snd e) t) (beneath st p).

(* an event outside finding 0 leaves the drift of every node as it was; UnRegisterDataNode takes
   the node's drift off its ancestors; new nodes start without drift *)
Definition drift_step_ok (o : op) (st st' : state) : bool :=
  let ts := dedup String.eqb (types_of st [] ++ types_of st' []) in
  forallb (fun e' =>
    let p := fst e' in
    forallb (fun t =>
      ec_drift st' p t =?
      (if present st p
       then ec_drift st p t -
            (match o with
             | Unregister n => if addressed st o && is_prefix p n then ec_drift st n t else 0
             | _ => 0
             end)
       else 0)) ts) st'.

(* exactness of everything but the EC shard count *)
Definition exact_noec_at (st : state) (r : ref_state) (p : path) (t : string) : bool :=
  let c := uget (i_usage (info st p)) t in
  let b := beneath st p in
  (volumeCount c =? sumZ (fun e => nvol (snd e) t) b) &&
  (remoteVolumeCount c =? sumZ (fun e => nremote (snd e) t) b) &&
  (maxVolumeCount c =? sumZ (fun e => dmax e t) b) &&
  (if Nat.eqb (length p) 3 then maxVolumeCount c =? rget (ref_info r p) t else true).
Definition exact_noec_b (st : state) (r : ref_state) : bool :=
  let ts := types_of st r in
  forallb (fun e => forallb (exact_noec_at st r (fst e)) ts) st.

(* ---------- free slots (NodeImpl.AvailableSpaceFor = TopoPlace.free_space) ---------- *)
Definition recomputed (st : state) (p : path) (t : string) : counts :=
  let b := beneath st p in
  mkCounts (sumZ (fun e => nvol (snd e) t) b) (sumZ (fun e => nremote (snd e) t) b) 0
           (sumZ (fun e => nec (snd e) t) b) (sumZ (fun e => dmax e t) b).
Definition free_exact_b (st : state) (r : ref_state) : bool :=
  forallb (fun e => forallb (fun t =>
      free_space (uget (i_usage (info st (fst e))) t) =? free_space (recomputed st (fst e) t)) (types_of st r)) st.
