(* Model of the master's volume layout bookkeeping (C11, used by C14):
     weed/topology/volume_layout.go        VolumeLayout, volumesBinaryState
     weed/topology/volume_location_list.go VolumeLocationList.Set / Remove
     weed/topology/data_node.go, disk.go   UpdateVolumes, DeltaUpdateVolumes, doAddOrUpdateVolume
     weed/topology/topology.go             SyncDataNodeRegistration, IncrementalSyncDataNodeRegistration,
                                           RegisterVolumeLayout, UnRegisterVolumeLayout, Lookup
     weed/topology/topology_event_handling.go  SetVolumeCapacityFull, UnRegisterDataNode
     weed/topology/node.go                 CollectDeadNodeAndFullVolumes
   One VolumeLayout (one collection / replication / ttl / disk type) and the data
   nodes reporting into it.  Executable definitions only; proofs are in
   proof/TopoLayoutProofs.v.

   Data nodes are identified by a number (the code identifies them by Ip:Port in
   VolumeLocationList.Set/Remove); a location list stores node numbers where the
   code stores *DataNode pointers. *)
From Coq Require Import List NArith Bool.
Import ListNotations.
Local Open Scope N_scope.

(* ---------- association lists keyed by N (Go maps) ---------- *)
Section AList.
  Context {V : Type}.
  Fixpoint aget (k : N) (m : list (N * V)) : option V :=
    match m with
    | [] => None
    | (k', v) :: m' => if k' =? k then Some v else aget k m'
    end.
  Fixpoint aset (k : N) (v : V) (m : list (N * V)) : list (N * V) :=
    match m with
    | [] => [(k, v)]
    | (k', v') :: m' => if k' =? k then (k, v) :: m' else (k', v') :: aset k v m'
    end.
  Definition adel (k : N) (m : list (N * V)) : list (N * V) :=
    filter (fun p => negb (fst p =? k)) m.
End AList.

(* ---------- VolumeLocationList ---------- *)
Definition mem (n : N) (l : list N) : bool := existsb (N.eqb n) l.
(* Set: replace the entry with the same Ip:Port, else append *)
Definition lset (n : N) (l : list N) : list N := if mem n l then l else l ++ [n].
(* Remove: delete the first entry with the same Ip:Port *)
Fixpoint lremove (n : N) (l : list N) : list N :=
  match l with
  | [] => []
  | x :: l' => if x =? n then l' else x :: lremove n l'
  end.
Definition nlen (l : list N) : N := N.of_nat (length l).

(* ---------- storage.VolumeInfo (the fields the layout logic reads) ---------- *)
Record vinfo := { vi_id : N; vi_size : N; vi_ro : bool }.

(* NewVolumeInfoFromShort: an incremental heartbeat carries no Size and no ReadOnly *)
Definition short_info (v : N) : vinfo := {| vi_id := v; vi_size := 0; vi_ro := false |}.

Record cfg := {
  c_copy : N;      (* rp.GetCopyCount() *)
  c_asmin : bool;  (* replicationAsMin *)
  c_limit : N      (* volumeSizeLimit *)
}.

(* ---------- VolumeLayout ---------- *)
Record layout := {
  l_loc : list (N * list N);   (* vid2location *)
  l_writ : list N;             (* writables *)
  l_ro : list (N * list N);    (* readonlyVolumes.copyMap *)
  l_os : list (N * list N)     (* oversizedVolumes.copyMap *)
}.
Definition empty_layout : layout := {| l_loc := []; l_writ := []; l_ro := []; l_os := [] |}.
Definition with_loc x l := {| l_loc := x; l_writ := l_writ l; l_ro := l_ro l; l_os := l_os l |}.
Definition with_writ x l := {| l_loc := l_loc l; l_writ := x; l_ro := l_ro l; l_os := l_os l |}.
Definition with_ro x l := {| l_loc := l_loc l; l_writ := l_writ l; l_ro := x; l_os := l_os l |}.
Definition with_os x l := {| l_loc := l_loc l; l_writ := l_writ l; l_ro := l_ro l; l_os := x |}.

(* every data node's volume map: node -> (vid -> info); only linked nodes *)
Definition nodes := list (N * list (N * vinfo)).
(* dn.GetVolumesById *)
Definition ginfo (ns : nodes) (n v : N) : option vinfo :=
  match aget n ns with Some vols => aget v vols | None => None end.

Definition loc (l : layout) (v : N) : list N :=
  match aget v (l_loc l) with Some x => x | None => [] end.

(* volumesBinaryState with indicator ExistCopies(): IsTrue <-> the vid has a list *)
Definition bs_add (v n : N) (m : list (N * list N)) : list (N * list N) :=
  match aget v m with
  | Some l => aset v (lset n l) m
  | None => aset v [n] m
  end.
Definition bs_remove (v n : N) (m : list (N * list N)) : list (N * list N) :=
  match aget v m with
  | Some l => let l' := lremove n l in
              if nlen l' =? 0 then adel v m else aset v l' m
  | None => m
  end.
Definition bs_true (v : N) (m : list (N * list N)) : bool :=
  match aget v m with Some _ => true | None => false end.

(* removeFromWritable / setVolumeWritable *)
Definition remove_writable (v : N) (l : layout) : layout := with_writ (lremove v (l_writ l)) l.
Definition set_writable (v : N) (l : layout) : layout :=
  if mem v (l_writ l) then l else with_writ (l_writ l ++ [v]) l.

(* enoughCopies *)
Definition enough (c : cfg) (k : N) : bool :=
  (k =? c_copy c) || (c_asmin c && (c_copy c <? k)).

(* isAllWritable: a replica whose info is missing counts as writable *)
Definition all_writable (ns : nodes) (v : N) (locs : list N) : bool :=
  forallb (fun m => match ginfo ns m v with Some i => negb (vi_ro i) | None => true end) locs.

(* ensureCorrectWritables *)
Definition ensure (c : cfg) (ns : nodes) (v : N) (l : layout) : layout :=
  if enough c (nlen (loc l v)) && all_writable ns v (loc l v) then
    if negb (bs_true v (l_os l)) then set_writable v l else l
  else remove_writable v l.

(* the loop of RegisterVolume over the location list; stops at the first
   read-only or unknown replica *)
Fixpoint reg_loop (ns : nodes) (v : N) (locs : list N) (l : layout) : layout :=
  match locs with
  | [] => l
  | m :: rest =>
      match ginfo ns m v with
      | Some i =>
          if vi_ro i then with_ro (bs_add v m (l_ro l)) (remove_writable v l)
          else reg_loop ns v rest (with_ro (bs_remove v m (l_ro l)) l)
      | None => with_ro (bs_remove v m (l_ro l)) (remove_writable v l)
      end
  end.

(* rememberOversizedVolume (deferred in RegisterVolume: runs last) *)
Definition remember_oversized (c : cfg) (vi : vinfo) (n : N) (l : layout) : layout :=
  if c_limit c <=? vi_size vi then with_os (bs_add (vi_id vi) n (l_os l)) l
  else with_os (bs_remove (vi_id vi) n (l_os l)) l.

(* VolumeLayout.RegisterVolume *)
Definition register_volume (c : cfg) (ns : nodes) (vi : vinfo) (n : N) (l : layout) : layout :=
  let v := vi_id vi in
  let locs := lset n (loc l v) in
  let l1 := with_loc (aset v locs (l_loc l)) l in
  remember_oversized c vi n (reg_loop ns v locs l1).

(* VolumeLayout.UnRegisterVolume *)
Definition unregister_volume (c : cfg) (ns : nodes) (v n : N) (l : layout) : layout :=
  match aget v (l_loc l) with
  | None => l
  | Some locs =>
      if mem n locs then
        let locs' := lremove n locs in
        let l1 := with_loc (aset v locs' (l_loc l)) l in
        let l2 := with_ro (bs_remove v n (l_ro l1)) l1 in
        let l3 := with_os (bs_remove v n (l_os l2)) l2 in
        let l4 := ensure c ns v l3 in
        if nlen locs' =? 0 then with_loc (adel v (l_loc l4)) l4 else l4
      else l
  end.

(* VolumeLayout.SetVolumeUnavailable *)
Definition set_unavailable (c : cfg) (n v : N) (l : layout) : layout :=
  match aget v (l_loc l) with
  | None => l
  | Some locs =>
      if mem n locs then
        let locs' := lremove n locs in
        let l1 := with_loc (aset v locs' (l_loc l)) l in
        let l2 := with_ro (bs_remove v n (l_ro l1)) l1 in
        let l3 := with_os (bs_remove v n (l_os l2)) l2 in
        if nlen locs' <? c_copy c then remove_writable v l3 else l3
      else l
  end.

(* VolumeLayout.SetVolumeAvailable (used by the vacuum commit, C14).
   The code dereferences vl.vid2location[vid] unconditionally: for a vid without
   an entry it would panic; the model leaves the layout unchanged there. *)
Definition set_available (c : cfg) (ns : nodes) (n v : N) (is_ro : bool) (l : layout) : layout :=
  match ginfo ns n v with
  | None => l
  | Some i =>
      match aget v (l_loc l) with
      | None => l
      | Some locs =>
          let l1 := with_loc (aset v (lset n locs) (l_loc l)) l in
          if vi_ro i || is_ro then l1
          else if enough c (nlen (loc l1 v)) then set_writable v l1 else l1
      end
  end.

(* VolumeLayout.SetVolumeCapacityFull *)
Definition set_capacity_full (v : N) (l : layout) : layout := remove_writable v l.

(* Topology.RegisterVolumeLayout / UnRegisterVolumeLayout (the latter drops the
   whole layout object once vid2location is empty; the next use creates a new one) *)
Definition register_layout (c : cfg) (ns : nodes) (vi : vinfo) (n : N) (l : layout) : layout :=
  ensure c ns (vi_id vi) (register_volume c ns vi n l).
Definition unregister_layout (c : cfg) (ns : nodes) (v n : N) (l : layout) : layout :=
  let l' := unregister_volume c ns v n l in
  match l_loc l' with [] => empty_layout | _ => l' end.

(* ---------- DataNode.UpdateVolumes / DeltaUpdateVolumes ---------- *)
Definition vols := list (N * vinfo).

Record upd := { u_vols : vols; u_new : list vinfo; u_chg : list vinfo }.

(* Disk.doAddOrUpdateVolume, accumulating the isNew / isChangedRO lists *)
Definition add_or_update (u : upd) (vi : vinfo) : upd :=
  match aget (vi_id vi) (u_vols u) with
  | None => {| u_vols := aset (vi_id vi) vi (u_vols u); u_new := u_new u ++ [vi]; u_chg := u_chg u |}
  | Some old =>
      {| u_vols := aset (vi_id vi) vi (u_vols u); u_new := u_new u;
         u_chg := if Bool.eqb (vi_ro old) (vi_ro vi) then u_chg u else u_chg u ++ [vi] |}
  end.

Definition in_actual (actual : list vinfo) (v : N) : bool :=
  existsb (fun a => vi_id a =? v) actual.

(* the volumes UpdateVolumes reports as deleted (with the info the node had) *)
Definition deleted_of (vs : vols) (actual : list vinfo) : list vinfo :=
  map snd (filter (fun p => negb (in_actual actual (fst p))) vs).

Definition update_volumes (vs : vols) (actual : list vinfo) : upd * list vinfo :=
  let dels := deleted_of vs actual in
  let vs1 := fold_left (fun m d => adel (vi_id d) m) dels vs in
  (fold_left add_or_update actual {| u_vols := vs1; u_new := []; u_chg := [] |}, dels).

Definition delta_update_volumes (vs : vols) (news dels : list vinfo) : vols :=
  let vs1 := fold_left (fun m d => adel (vi_id d) m) dels vs in
  u_vols (fold_left add_or_update news {| u_vols := vs1; u_new := []; u_chg := [] |}).

(* ---------- the master's state and the events that change it ---------- *)
Record state := { s_nodes : nodes; s_lay : layout }.
Definition init : state := {| s_nodes := []; s_lay := empty_layout |}.

Inductive event :=
| EFull (n : N) (vs : list vinfo)        (* heartbeat with the full volume list (or HasNoVolumes) *)
| EIncr (n : N) (news dels : list N)     (* incremental heartbeat: NewVolumes / DeletedVolumes short infos *)
| ECollect                               (* one sweep of CollectDeadNodeAndFullVolumes + SetVolumeCapacityFull *)
| EDisconnect (n : N).                   (* heartbeat stream ends: UnRegisterDataNode; the next heartbeat of n
                                            gets a fresh DataNode from GetOrCreateDataNode *)

Definition node_vols (ns : nodes) (n : N) : vols :=
  match aget n ns with Some x => x | None => [] end.

(* Topology.SyncDataNodeRegistration *)
Definition sync_full (c : cfg) (n : N) (actual : list vinfo) (s : state) : state :=
  let '(u, dels) := update_volumes (node_vols (s_nodes s) n) actual in
  let ns := aset n (u_vols u) (s_nodes s) in
  let l1 := fold_left (fun l vi => register_layout c ns vi n l) (u_new u) (s_lay s) in
  let l2 := fold_left (fun l vi => unregister_layout c ns (vi_id vi) n l) dels l1 in
  let l3 := fold_left (fun l vi => ensure c ns (vi_id vi) l) (u_chg u) l2 in
  {| s_nodes := ns; s_lay := l3 |}.

(* Topology.IncrementalSyncDataNodeRegistration *)
Definition sync_incr (c : cfg) (n : N) (news dels : list N) (s : state) : state :=
  let nv := map short_info news in
  let dv := map short_info dels in
  let ns := aset n (delta_update_volumes (node_vols (s_nodes s) n) nv dv) (s_nodes s) in
  let l1 := fold_left (fun l vi => register_layout c ns vi n l) nv (s_lay s) in
  let l2 := fold_left (fun l vi => unregister_layout c ns (vi_id vi) n l) dv l1 in
  {| s_nodes := ns; s_lay := l2 |}.

(* CollectDeadNodeAndFullVolumes feeding SetVolumeCapacityFull: every volume of
   every linked node whose reported size reached the limit *)
Definition full_vids (c : cfg) (ns : nodes) : list N :=
  flat_map (fun p => map (fun q => vi_id (snd q))
                         (filter (fun q => c_limit c <=? vi_size (snd q)) (snd p))) ns.
Definition collect_full (c : cfg) (s : state) : state :=
  {| s_nodes := s_nodes s;
     s_lay := fold_left (fun l v => set_capacity_full v l) (full_vids c (s_nodes s)) (s_lay s) |}.

(* Topology.UnRegisterDataNode, then the DataNode object is dropped *)
Definition disconnect (c : cfg) (n : N) (s : state) : state :=
  {| s_nodes := adel n (s_nodes s);
     s_lay := fold_left (fun l p => set_unavailable c n (fst p) l) (node_vols (s_nodes s) n) (s_lay s) |}.

Definition step (c : cfg) (s : state) (e : event) : state :=
  match e with
  | EFull n vs => sync_full c n vs s
  | EIncr n news dels => sync_incr c n news dels s
  | ECollect => collect_full c s
  | EDisconnect n => disconnect c n s
  end.

Definition run (c : cfg) (s : state) (es : list event) : state := fold_left (step c) es s.

(* the states after every step *)
Fixpoint trace (c : cfg) (s : state) (es : list event) : list state :=
  match es with
  | [] => []
  | e :: es' => let s' := step c s e in s' :: trace c s' es'
  end.

(* Topology.Lookup / VolumeLayout.Lookup *)
Definition lookup (s : state) (v : N) : list N := loc (s_lay s) v.
Definition writable (s : state) (v : N) : bool := mem v (l_writ (s_lay s)).

(* ---------- the property's criterion, evaluated on the REGISTERED state ---------- *)
(* data nodes that currently hold volume v *)
Definition holders (ns : nodes) (v : N) : list N :=
  map fst (filter (fun p => match aget v (snd p) with Some _ => true | None => false end) ns).

Definition replica_ok (c : cfg) (ns : nodes) (v n : N) : bool :=
  match ginfo ns n v with
  | Some i => negb (vi_ro i) && (vi_size i <? c_limit c)
  | None => false
  end.
Definition replica_rw (ns : nodes) (v n : N) : bool :=
  match ginfo ns n v with Some i => negb (vi_ro i) | None => false end.
Definition replica_small (c : cfg) (ns : nodes) (v n : N) : bool :=
  match ginfo ns n v with Some i => vi_size i <? c_limit c | None => false end.

(* "every registered replica is writable, the replica count matches the
   replication setting (or exceeds it with replication-as-minimum) and the volume
   is below the size limit" *)
Definition crit (c : cfg) (ns : nodes) (v : N) : bool :=
  let hs := holders ns v in
  enough c (nlen hs) && forallb (replica_ok c ns v) hs.

(* known finding 0 of C11: some full heartbeat reports a size at or over the limit *)
Definition reports_full (c : cfg) (e : event) : bool :=
  match e with
  | EFull _ vs => existsb (fun vi => c_limit c <=? vi_size vi) vs
  | _ => false
  end.
Definition trigger_size (c : cfg) (es : list event) : bool := existsb (reports_full c) es.

(* well-formed messages: a volume server lists each volume once; an incremental
   message does not both add and delete a volume (the server sends one volume per
   incremental message) *)
Fixpoint nodupb (l : list N) : bool :=
  match l with [] => true | x :: l' => negb (mem x l') && nodupb l' end.
Definition wf_event (e : event) : bool :=
  match e with
  | EFull _ vs => nodupb (map vi_id vs)
  | EIncr _ news dels => nodupb news && nodupb dels && forallb (fun v => negb (mem v dels)) news
  | _ => true
  end.

(* ---------- sorted projections for the correspondence check ---------- *)
Fixpoint ninsert (x : N) (l : list N) : list N :=
  match l with
  | [] => [x]
  | y :: l' => if x <=? y then x :: l else y :: ninsert x l'
  end.
Definition nsort (l : list N) : list N := fold_right ninsert [] l.

Section KeySort.
  Context {A : Type} (key : A -> N).
  Fixpoint kinsert (x : A) (l : list A) : list A :=
    match l with
    | [] => [x]
    | y :: l' => if key x <=? key y then x :: l else y :: kinsert x l'
    end.
  Definition ksort (l : list A) : list A := fold_right kinsert [] l.
End KeySort.

Fixpoint list_eqb {A} (f : A -> A -> bool) (l1 l2 : list A) : bool :=
  match l1, l2 with
  | [], [] => true
  | x :: l1', y :: l2' => f x y && list_eqb f l1' l2'
  | _, _ => false
  end.
Definition nl_eqb := list_eqb N.eqb.

(* registered state: linked nodes with at least one volume, sorted by node;
   per node the sorted (vid, (size, read-only)) *)
Definition regs := list (N * list (N * (N * bool))).
Definition reg_of (ns : nodes) : regs :=
  ksort fst
    (map (fun p => (fst p, ksort fst (map (fun q => (fst q, (vi_size (snd q), vi_ro (snd q)))) (snd p))))
         (filter (fun p => match snd p with [] => false | _ => true end) ns)).
Definition vol_eqb (a b : N * (N * bool)) : bool :=
  (fst a =? fst b) && (fst (snd a) =? fst (snd b)) && Bool.eqb (snd (snd a)) (snd (snd b)).
Definition reg_eqb : regs -> regs -> bool :=
  list_eqb (fun a b => (fst a =? fst b) && list_eqb vol_eqb (snd a) (snd b)).

(* the property's criterion recomputed from a registered-state dump *)
Definition r_info (r : regs) (n v : N) : option (N * bool) :=
  match aget n r with Some vs => aget v vs | None => None end.
Definition r_holders (r : regs) (v : N) : list N :=
  map fst (filter (fun p => match aget v (snd p) with Some _ => true | None => false end) r).
Definition r_crit (c : cfg) (r : regs) (v : N) : bool :=
  let hs := r_holders r v in
  enough c (nlen hs) &&
  forallb (fun n => match r_info r n v with
                    | Some (sz, ro) => negb ro && (sz <? c_limit c)
                    | None => false
                    end) hs.
