(* Model of incremental volume backup (C37):
     weed/storage/volume_backup.go   IncrementalBackup, findLastAppendAtNs, locateLastAppendEntry,
                                     BinarySearchByAppendAtNs, VolumeFileScanner4GenIdx
     weed/server/volume_grpc_copy_incremental.go   VolumeIncrementalCopy, VolumeSyncStatus
     weed/command/backup.go          runBackup
     weed/storage/volume_write.go    doWriteRequest / isFileUnchanged / doDeleteRequest (source side)
     weed/storage/volume_vacuum.go   Compact2 (copyDataBasedOnIndexFile) + CommitCompact
   Executable definitions only; proofs are in proof/BackupProofs.v.

   A volume is the list of its .dat records, OLDEST FIRST.  The .idx file is not a
   separate component: in every state reachable here idx entry i points at dat
   record i (every append writes one record and one idx entry; Compact2 rewrites
   both files in the same ascending-key walk; the backup's replay appends one idx
   entry per scanned record).  So "the AppendAtNs of idx entry m" is the timestamp
   of record m and "the bytes [offset of idx entry l, end of .dat)" are the records
   from position l on.
   The little compaction semantics needed here is defined locally ([compact]): the
   live record of every key, in ascending key order, timestamps preserved
   (copyDataBasedOnIndexFile: ReadData keeps AppendAtNs, Append writes it back).
   Volumes have no TTL, payloads are non-empty.  AppendAtNs (time.Now().UnixNano() at
   the moment of the append, volume_write.go doWriteRequest/doDeleteRequest, stored
   with no monotonic guard) is an INPUT of every Write/Delete operation: equal and
   backward clock readings are part of the histories. *)
From Coq Require Import List NArith ZArith Bool Arith.
Import ListNotations.
Local Open Scope N_scope.

Record rec := {
  r_key : N;
  r_ts : N;          (* AppendAtNs *)
  r_live : bool;     (* false: the Size = 0 record a delete appends *)
  r_val : N; r_len : N;  (* payload identity: generator tag and data length *)
  r_meta : N             (* bytes of optional needle fields after the data (name, mime,
                            last-modified, pairs, each with its length prefix); their
                            content is a function of the tag *)
}.

(* GetActualSize, Version3: header 16 + Size + checksum 4 + timestamp 8 + padding 1..8;
   Size = 4 + len + 1 (+ optional fields) for a needle with data, 0 for a tombstone *)
Definition disk_size (r : rec) : N :=
  let size := if r_live r then r_len r + 5 + r_meta r else 0 in
  let raw := 16 + size + 4 + 8 in
  raw + (8 - raw mod 8).

Record vol := { recs : list rec; rev : N (* SuperBlock.CompactionRevision *) }.

Definition empty_vol : vol := {| recs := []; rev := 0 |}.

Definition dat_size (v : vol) : N :=
  fold_right (fun r a => disk_size r + a) 8 (* SuperBlockSize *) (recs v).

(* the needle map after loading / replaying the idx: the LAST entry of a key decides *)
Fixpoint latest (l : list rec) (k : N) : option rec :=
  match l with
  | [] => None
  | r :: l' =>
      match latest l' k with
      | Some x => Some x
      | None => if r_key r =? k then Some r else None
      end
  end.

Definition live_lookup (l : list rec) (k : N) : option rec :=
  match latest l k with
  | Some r => if r_live r then Some r else None
  | None => None
  end.

(* what a GET returns: the payload, or nothing *)
Definition read (v : vol) (k : N) : option (N * N) :=
  match live_lookup (recs v) k with
  | Some r => Some (r_val r, r_len r)
  | None => None
  end.

(* ---------- source side ---------- *)

(* doWriteRequest: isFileUnchanged (same cookie, same checksum, same data bytes; the
   optional fields are NOT compared) => nothing is appended.  [ts] is what
   time.Now().UnixNano() returns. *)
Definition src_write (v : vol) (k val len meta ts : N) : vol :=
  let unchanged :=
    match live_lookup (recs v) k with
    | Some r => (r_val r =? val) && (r_len r =? len)
    | None => false
    end in
  if unchanged then v
  else {| recs := recs v ++ [{| r_key := k; r_ts := ts; r_live := true; r_val := val; r_len := len; r_meta := meta |}];
          rev := rev v |}.

(* doDeleteRequest: only a live entry gets a tombstone record *)
Definition src_delete (v : vol) (k ts : N) : vol :=
  match live_lookup (recs v) k with
  | Some _ => {| recs := recs v ++ [{| r_key := k; r_ts := ts; r_live := false; r_val := 0; r_len := 0; r_meta := 0 |}];
                 rev := rev v |}
  | None => v
  end.

(* sorted, duplicate-free key list (MemDb.AscendingVisit) *)
Fixpoint insert_key (k : N) (l : list N) : list N :=
  match l with
  | [] => [k]
  | x :: l' => if k <? x then k :: l else if k =? x then l else x :: insert_key k l'
  end.
Definition keys_sorted (l : list rec) : list N := fold_right insert_key [] (map r_key l).

Definition live_rec (l : list rec) (k : N) : list rec :=
  match live_lookup l k with Some r => [r] | None => [] end.

(* copyDataBasedOnIndexFile + SaveToIdx: live records in ascending key order *)
Definition compact (l : list rec) : list rec := flat_map (live_rec l) (keys_sorted l).

(* Compact2 + CommitCompact *)
Definition compact_vol (v : vol) : vol := {| recs := compact (recs v); rev := rev v + 1 |}.

(* ---------- backup side ---------- *)

(* findLastAppendAtNs: the record the LAST idx entry points at; 0 for an empty idx *)
Definition find_last_append_ns (l : list rec) : N := last (map r_ts l) 0.

(* BinarySearchByAppendAtNs: plain binary search over the idx entries' record
   timestamps, no monotonicity check.  [fuel] bounds the loop; length + 1 is enough. *)
Fixpoint bsearch_loop (fuel : nat) (ts : list N) (since : N) (l h : nat) : nat :=
  match fuel with
  | O => l
  | S f =>
      if (l <? h)%nat then
        let m := ((l + h) / 2)%nat in
        if nth m ts 0 <=? since then bsearch_loop f ts since (S m) h
        else bsearch_loop f ts since l m
      else l
  end.

(* None = isLast (nothing newer); Some l = start copying at idx entry l *)
Definition binary_search_by_append_ns (l : list rec) (since : N) : option nat :=
  let ts := map r_ts l in
  let n := length ts in
  let r := bsearch_loop (S n) ts since 0%nat n in
  if (r =? n)%nat then None else Some r.

(* VolumeIncrementalCopy + the client's WriteAt loop + ScanVolumeFileFrom(VolumeFileScanner4GenIdx):
   the bytes [offset of entry l, source .dat end) are appended and indexed record by record *)
Definition incremental_backup (src bk : vol) : vol :=
  match binary_search_by_append_ns (recs src) (find_last_append_ns (recs bk)) with
  | None => bk
  | Some l => {| recs := recs bk ++ skipn l (recs src); rev := rev bk |}
  end.

(* runBackup *)
Definition backup_run (src bk : vol) : vol :=
  (* local Compact2 + CommitCompact when the source's revision is ahead; revision overwritten *)
  let bk1 := if rev bk <? rev src then {| recs := compact (recs bk); rev := rev src |} else bk in
  (* datSize > stats.TailOffset: destroy, recreate empty (revision 0) *)
  let bk2 := if dat_size src <? dat_size bk1 then empty_vol else bk1 in
  incremental_backup src bk2.

(* ---------- histories ---------- *)
Inductive op :=
| Write (k val len meta ts : N)
| Delete (k ts : N)
| Compact
| Backup.

Record state := { src : vol; bk : vol }.

Definition init : state := {| src := empty_vol; bk := empty_vol |}.

Definition step (st : state) (o : op) : state :=
  match o with
  | Write k val len meta ts => {| src := src_write (src st) k val len meta ts; bk := bk st |}
  | Delete k ts => {| src := src_delete (src st) k ts; bk := bk st |}
  | Compact => {| src := compact_vol (src st); bk := bk st |}
  | Backup => {| src := src st; bk := backup_run (src st) (bk st) |}
  end.

Definition exec (st : state) (h : list op) : state := fold_left step h st.

(* payloads are non-empty (an empty blob is the subject of C01's finding 0); the clock
   never reads 0 (0 is findLastAppendAtNs's answer for an empty index) *)
Definition op_ok (o : op) : bool :=
  match o with
  | Write _ _ len _ ts => (0 <? len) && (0 <? ts)
  | Delete _ ts => 0 <? ts
  | _ => true
  end.
Definition hist_ok (h : list op) : bool := forallb op_ok h.
Definition op_ts_pos (o : op) : bool :=
  match o with Write _ _ _ _ ts => 0 <? ts | Delete _ ts => 0 <? ts | _ => true end.
Definition ts_positive (h : list op) : bool := forallb op_ts_pos h.

(* ---------- the decidable hypotheses of the partial theorem (state level, per step) ----------

   [maxts bk]: the newest AppendAtNs the backup holds.  [split_newer M l] = (P, A) with
   l = P ++ A and A the longest suffix of l whose records are all newer than M: the
   part of the source the next run is certain to copy (c37_search_not_late).
   [reflects st]: every key that has no record in A is served by the backup exactly
   as by P.  It holds initially, is re-established by every backup run and is kept
   by every append whose AppendAtNs is newer than [maxts bk] (proved).  The two ways
   the code can break it are the two findings:
     0  a source compaction (Compact2 rewrites the index in key order with the old
        timestamps and drops tombstones) moves or drops a record of A;
     1  an append whose clock reading is not newer than [maxts bk] (equal timestamps,
        a clock that stepped back).
   The trigger fires at such a step only when [reflects] is really lost by it. *)
Definition maxts (l : list rec) : N := fold_right (fun r a => N.max (r_ts r) a) 0 l.

Fixpoint split_newer (M : N) (l : list rec) : list rec * list rec :=
  match l with
  | [] => ([], [])
  | r :: l' =>
      let '(P, A) := split_newer M l' in
      match P with
      | [] => if M <? r_ts r then ([], r :: A) else ([r], A)
      | _ => (r :: P, A)
      end
  end.

Definition rec_eqb (a b : rec) : bool :=
  (r_key a =? r_key b) && (r_ts a =? r_ts b) && Bool.eqb (r_live a) (r_live b)
  && (r_val a =? r_val b) && (r_len a =? r_len b) && (r_meta a =? r_meta b).

Definition orec_eqb (a b : option rec) : bool :=
  match a, b with
  | Some x, Some y => rec_eqb x y
  | None, None => true
  | _, _ => false
  end.

Definition reflects (st : state) : bool :=
  let '(P, A) := split_newer (maxts (recs (bk st))) (recs (src st)) in
  forallb (fun k => match latest A k with
                    | Some _ => true
                    | None => orec_eqb (live_lookup (recs (bk st)) k) (live_lookup P k)
                    end)
          (map r_key (recs (src st)) ++ map r_key (recs (bk st))).

Definition appended (st st' : state) : bool :=
  negb (Nat.eqb (length (recs (src st'))) (length (recs (src st)))).

(* Some 0 / Some 1: the step [o] from [st] is an instance of finding 0 / 1 *)
Definition step_trigger (st : state) (o : op) : option N :=
  let st' := step st o in
  match o with
  | Compact => if reflects st' then None else Some 0
  | Write _ _ _ _ ts | Delete _ ts =>
      if appended st st' && (ts <=? maxts (recs (bk st))) && negb (reflects st') then Some 1 else None
  | Backup => None
  end.

(* the first step of the history that is an instance of a finding *)
Fixpoint trigger_from (st : state) (h : list op) : option N :=
  match h with
  | [] => None
  | o :: h' =>
      match step_trigger st o with
      | Some k => Some k
      | None => trigger_from (step st o) h'
      end
  end.
Definition trigger (h : list op) : option N := trigger_from init h.

(* a coarser, history-level sufficient condition (second partial theorem): no source
   compaction while a write/delete issued since the last backup run is unpulled ... *)
Fixpoint pulled_from (dirty : bool) (h : list op) : bool :=
  match h with
  | [] => true
  | Write _ _ _ _ _ :: h' => pulled_from true h'
  | Delete _ _ :: h' => pulled_from true h'
  | Compact :: h' => negb dirty && pulled_from dirty h'
  | Backup :: h' => pulled_from false h'
  end.
Definition pulled_before_each_compaction (h : list op) : bool := pulled_from false h.

(* ... and strictly increasing clock readings *)
Fixpoint ts_increasing_from (c : N) (h : list op) : bool :=
  match h with
  | [] => true
  | Write _ _ _ _ ts :: h' => (c <? ts) && ts_increasing_from ts h'
  | Delete _ ts :: h' => (c <? ts) && ts_increasing_from ts h'
  | _ :: h' => ts_increasing_from c h'
  end.
Definition ts_increasing (h : list op) : bool := ts_increasing_from 0 h.

(* ---------- observables of the correspondence check ---------- *)
Record obs := {
  o_sdat : N; o_bdat : N; o_srev : N; o_brev : N;
  o_sidx : N; o_bidx : N;   (* .idx entries (file size / NeedleMapEntrySize): one per .dat record *)
  o_sreads : list (option (N * N)); o_breads : list (option (N * N))
}.

Fixpoint key_range (n : nat) : list N :=   (* [1; ..; n] *)
  match n with O => [] | S n' => key_range n' ++ [N.of_nat n] end.

Definition observe (nkeys : N) (st : state) : obs :=
  let ks := key_range (N.to_nat nkeys) in
  {| o_sdat := dat_size (src st); o_bdat := dat_size (bk st);
     o_srev := rev (src st); o_brev := rev (bk st);
     o_sidx := N.of_nat (length (recs (src st))); o_bidx := N.of_nat (length (recs (bk st)));
     o_sreads := map (read (src st)) ks; o_breads := map (read (bk st)) ks |}.

(* one observation after every backup run *)
Fixpoint run (nkeys : N) (st : state) (h : list op) : list obs :=
  match h with
  | [] => []
  | o :: h' =>
      let st' := step st o in
      match o with
      | Backup => observe nkeys st' :: run nkeys st' h'
      | _ => run nkeys st' h'
      end
  end.

(* ---------- the .idx file as an observable ----------
   The model keeps no separate index (see the header): idx entry i is DEFINED as
   (key, byte offset, Size) of .dat record i.  [idx_of] spells these entries out so
   that the check can compare them with the bytes of the real .idx file after every
   operation; [rec_at_from] is the way the code goes from an idx entry back to a
   record (readAppendAtNs(offset), ReadData(offset)), and
   proof/BackupProofs.v idx_entry_points_at_record shows that for [idx_of] this
   lookup yields record i — the fact findLastAppendAtNs / BinarySearchByAppendAtNs
   are modelled with.  Which NeedleMapper implementation (NeedleMapInMemory,
   NeedleMapLevelDb, NeedleMapLevelDbMedium, NeedleMapLevelDbLarge) maintains the
   .idx is NOT a parameter of any definition in this file: every kind has to produce
   exactly these entries and serve exactly [read]. *)
Definition idx_entry := (N * N * Z)%type.   (* key, Offset.ToActualOffset(), Size (TombstoneFileSize = -1) *)

Definition idx_size (r : rec) : Z :=
  if r_live r then Z.of_N (r_len r + 5 + r_meta r) else (-1)%Z.

Fixpoint idx_from (off : N) (l : list rec) : list idx_entry :=
  match l with
  | [] => []
  | r :: l' => (r_key r, off, idx_size r) :: idx_from (off + disk_size r) l'
  end.

Definition idx_of (v : vol) : list idx_entry := idx_from 8 (* SuperBlockSize *) (recs v).

(* the record that starts at byte offset [off] of a .dat whose records [l] start at [cur] *)
Fixpoint rec_at_from (cur : N) (l : list rec) (off : N) : option rec :=
  match l with
  | [] => None
  | r :: l' => if off =? cur then Some r else rec_at_from (cur + disk_size r) l' off
  end.
Definition rec_at (v : vol) (off : N) : option rec := rec_at_from 8 (recs v) off.

(* the source's .idx after EVERY operation of the history *)
Fixpoint run_sidx (st : state) (h : list op) : list (list idx_entry) :=
  match h with
  | [] => []
  | o :: h' => let st' := step st o in idx_of (src st') :: run_sidx st' h'
  end.

(* the backup's .idx after every backup run *)
Fixpoint run_bidx (st : state) (h : list op) : list (list idx_entry) :=
  match h with
  | [] => []
  | o :: h' =>
      let st' := step st o in
      match o with
      | Backup => idx_of (bk st') :: run_bidx st' h'
      | _ => run_bidx st' h'
      end
  end.
