(* Model of incremental volume backup (C37):
     weed/storage/volume_backup.go   IncrementalBackup, findLastAppendAtNs, locateLastAppendEntry,
                                     BinarySearchByAppendAtNs, VolumeFileScanner4GenIdx
     weed/server/volume_grpc_copy_incremental.go   VolumeIncrementalCopy, VolumeSyncStatus
     weed/command/backup.go          runBackup
     weed/storage/volume_write.go    doWriteRequest / isFileUnchanged / doDeleteRequest (source side)
     weed/storage/volume_vacuum.go   Compact2 (copyDataBasedOnIndexFile) + CommitCompact
   Executable definitions only; proofs are in proof/BackupProofs.v.

   A volume is the list of its .dat records, OLDEST FIRST.  The .idx file is not a
   separate component: in every state reachable here idx entry i points at dat
   record i (every append writes one record and one idx entry; Compact2 rewrites
   both files in the same ascending-key walk; the backup's replay appends one idx
   entry per scanned record).  So "the AppendAtNs of idx entry m" is the timestamp
   of record m and "the bytes [offset of idx entry l, end of .dat)" are the records
   from position l on.
   The little compaction semantics needed here is defined locally ([compact]): the
   live record of every key, in ascending key order, timestamps preserved
   (copyDataBasedOnIndexFile: ReadData keeps AppendAtNs, Append writes it back).
   Volumes have no TTL, payloads are non-empty, AppendAtNs values are distinct and
   increasing (the model's clock). *)
From Coq Require Import List NArith Bool Arith.
Import ListNotations.
Local Open Scope N_scope.

Record rec := {
  r_key : N;
  r_ts : N;          (* AppendAtNs *)
  r_live : bool;     (* false: the Size = 0 record a delete appends *)
  r_val : N; r_len : N   (* payload identity: generator tag and length *)
}.

(* GetActualSize, Version3: header 16 + Size + checksum 4 + timestamp 8 + padding 1..8;
   Size = 4 + len + 1 for a needle that only has data, 0 for a tombstone *)
Definition disk_size (r : rec) : N :=
  let size := if r_live r then r_len r + 5 else 0 in
  let raw := 16 + size + 4 + 8 in
  raw + (8 - raw mod 8).

Record vol := { recs : list rec; rev : N (* SuperBlock.CompactionRevision *) }.

Definition empty_vol : vol := {| recs := []; rev := 0 |}.

Definition dat_size (v : vol) : N :=
  fold_right (fun r a => disk_size r + a) 8 (* SuperBlockSize *) (recs v).

(* the needle map after loading / replaying the idx: the LAST entry of a key decides *)
Fixpoint latest (l : list rec) (k : N) : option rec :=
  match l with
  | [] => None
  | r :: l' =>
      match latest l' k with
      | Some x => Some x
      | None => if r_key r =? k then Some r else None
      end
  end.

Definition live_lookup (l : list rec) (k : N) : option rec :=
  match latest l k with
  | Some r => if r_live r then Some r else None
  | None => None
  end.

(* what a GET returns: the payload, or nothing *)
Definition read (v : vol) (k : N) : option (N * N) :=
  match live_lookup (recs v) k with
  | Some r => Some (r_val r, r_len r)
  | None => None
  end.

(* ---------- source side ---------- *)

(* doWriteRequest: isFileUnchanged (same cookie, same bytes) => nothing is appended *)
Definition src_write (v : vol) (clock k val len : N) : vol * N :=
  let unchanged :=
    match live_lookup (recs v) k with
    | Some r => (r_val r =? val) && (r_len r =? len)
    | None => false
    end in
  if unchanged then (v, clock)
  else ({| recs := recs v ++ [{| r_key := k; r_ts := clock + 1; r_live := true; r_val := val; r_len := len |}];
           rev := rev v |}, clock + 1).

(* doDeleteRequest: only a live entry gets a tombstone record *)
Definition src_delete (v : vol) (clock k : N) : vol * N :=
  match live_lookup (recs v) k with
  | Some _ => ({| recs := recs v ++ [{| r_key := k; r_ts := clock + 1; r_live := false; r_val := 0; r_len := 0 |}];
                  rev := rev v |}, clock + 1)
  | None => (v, clock)
  end.

(* sorted, duplicate-free key list (MemDb.AscendingVisit) *)
Fixpoint insert_key (k : N) (l : list N) : list N :=
  match l with
  | [] => [k]
  | x :: l' => if k <? x then k :: l else if k =? x then l else x :: insert_key k l'
  end.
Definition keys_sorted (l : list rec) : list N := fold_right insert_key [] (map r_key l).

Definition live_rec (l : list rec) (k : N) : list rec :=
  match live_lookup l k with Some r => [r] | None => [] end.

(* copyDataBasedOnIndexFile + SaveToIdx: live records in ascending key order *)
Definition compact (l : list rec) : list rec := flat_map (live_rec l) (keys_sorted l).

(* Compact2 + CommitCompact *)
Definition compact_vol (v : vol) : vol := {| recs := compact (recs v); rev := rev v + 1 |}.

(* ---------- backup side ---------- *)

(* findLastAppendAtNs: the record the LAST idx entry points at; 0 for an empty idx *)
Definition find_last_append_ns (l : list rec) : N := last (map r_ts l) 0.

(* BinarySearchByAppendAtNs: plain binary search over the idx entries' record
   timestamps, no monotonicity check.  [fuel] bounds the loop; length + 1 is enough. *)
Fixpoint bsearch_loop (fuel : nat) (ts : list N) (since : N) (l h : nat) : nat :=
  match fuel with
  | O => l
  | S f =>
      if (l <? h)%nat then
        let m := ((l + h) / 2)%nat in
        if nth m ts 0 <=? since then bsearch_loop f ts since (S m) h
        else bsearch_loop f ts since l m
      else l
  end.

(* None = isLast (nothing newer); Some l = start copying at idx entry l *)
Definition binary_search_by_append_ns (l : list rec) (since : N) : option nat :=
  let ts := map r_ts l in
  let n := length ts in
  let r := bsearch_loop (S n) ts since 0%nat n in
  if (r =? n)%nat then None else Some r.

(* VolumeIncrementalCopy + the client's WriteAt loop + ScanVolumeFileFrom(VolumeFileScanner4GenIdx):
   the bytes [offset of entry l, source .dat end) are appended and indexed record by record *)
Definition incremental_backup (src bk : vol) : vol :=
  match binary_search_by_append_ns (recs src) (find_last_append_ns (recs bk)) with
  | None => bk
  | Some l => {| recs := recs bk ++ skipn l (recs src); rev := rev bk |}
  end.

(* runBackup *)
Definition backup_run (src bk : vol) : vol :=
  (* local Compact2 + CommitCompact when the source's revision is ahead; revision overwritten *)
  let bk1 := if rev bk <? rev src then {| recs := compact (recs bk); rev := rev src |} else bk in
  (* datSize > stats.TailOffset: destroy, recreate empty (revision 0) *)
  let bk2 := if dat_size src <? dat_size bk1 then empty_vol else bk1 in
  incremental_backup src bk2.

(* ---------- histories ---------- *)
Inductive op :=
| Write (k val len : N)
| Delete (k : N)
| Compact
| Backup.

Record state := { src : vol; clock : N; bk : vol }.

Definition init : state := {| src := empty_vol; clock := 0; bk := empty_vol |}.

Definition step (st : state) (o : op) : state :=
  match o with
  | Write k val len =>
      let '(v, c) := src_write (src st) (clock st) k val len in {| src := v; clock := c; bk := bk st |}
  | Delete k =>
      let '(v, c) := src_delete (src st) (clock st) k in {| src := v; clock := c; bk := bk st |}
  | Compact => {| src := compact_vol (src st); clock := clock st; bk := bk st |}
  | Backup => {| src := src st; clock := clock st; bk := backup_run (src st) (bk st) |}
  end.

Definition exec (st : state) (h : list op) : state := fold_left step h st.

(* payloads are non-empty (an empty blob is the subject of C01's finding 0) *)
Definition op_ok (o : op) : bool := match o with Write _ _ len => 0 <? len | _ => true end.
Definition hist_ok (h : list op) : bool := forallb op_ok h.

(* the decidable hypothesis of the partial theorem: no source compaction happens
   while the source holds a write or delete the backup has not pulled yet.
   [dirty] = a Write/Delete was issued since the last backup run. *)
Fixpoint pulled_from (dirty : bool) (h : list op) : bool :=
  match h with
  | [] => true
  | Write _ _ _ :: h' => pulled_from true h'
  | Delete _ :: h' => pulled_from true h'
  | Compact :: h' => negb dirty && pulled_from dirty h'
  | Backup :: h' => pulled_from false h'
  end.
Definition pulled_before_each_compaction (h : list op) : bool := pulled_from false h.
(* trigger of finding 0 *)
Definition trig_compacted_before_pull (h : list op) : bool := negb (pulled_before_each_compaction h).

(* ---------- observables of the correspondence check ---------- *)
Record obs := {
  o_sdat : N; o_bdat : N; o_srev : N; o_brev : N;
  o_sreads : list (option (N * N)); o_breads : list (option (N * N))
}.

Fixpoint key_range (n : nat) : list N :=   (* [1; ..; n] *)
  match n with O => [] | S n' => key_range n' ++ [N.of_nat n] end.

Definition observe (nkeys : N) (st : state) : obs :=
  let ks := key_range (N.to_nat nkeys) in
  {| o_sdat := dat_size (src st); o_bdat := dat_size (bk st);
     o_srev := rev (src st); o_brev := rev (bk st);
     o_sreads := map (read (src st)) ks; o_breads := map (read (bk st)) ks |}.

(* one observation after every backup run *)
Fixpoint run (nkeys : N) (st : state) (h : list op) : list obs :=
  match h with
  | [] => []
  | o :: h' =>
      let st' := step st o in
      match o with
      | Backup => observe nkeys st' :: run nkeys st' h'
      | _ => run nkeys st' h'
      end
  end.
