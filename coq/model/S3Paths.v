(* Model of the filer paths the S3 gateway produces (C29): for every object /
   multipart / copy / tagging / batch-delete / listing / bucket / POST-upload route of
   weed/s3api the sequence of filer-facing calls (HTTP requests to the filer's ServeMux,
   gRPC requests to the filer service) with the exact path strings, and for every call
   the path the filer ends up acting on:
     * HTTP: net/http.ServeMux answers a non-canonical path with 301 to cleanPath(p);
       the gateway's http.Client follows it (PUT/DELETE become GET);
     * gRPC LookupDirectoryEntry / DeleteEntry / UpdateEntry(find): util.JoinPath =
       filepath.Join cleans dir + "/" + name;
     * gRPC CreateEntry / UpdateEntry(store) / ListEntries use the string as it is
       (parents of a created entry are created at the cleaned prefixes).
   Data dependent calls (the empty-folder purge after a batch delete, the directories a
   listing descends into) are given as candidate sets (`candidates`).
   Trigger sets: `req_climbs` / `req_enters_uploads` (a lexical walk, `escapes`, over the
   strings a route builds its paths from), `odd_bucket` (a "%" in the bucket name; the
   names the router refuses, `router_refuses`, reach no handler: `calls` = []); the first,
   purely syntactic ones (`req_dotdot`, `req_uploads_seg`) are kept for the corollaries
   in proof/S3PathsCompat.v.
   Executable definitions only; proofs are in proof/S3PathsProofs.v. *)
From Coq Require Import List NArith Bool String Ascii Arith.
From SW Require Import model.S3List.   (* split_slash, cut_slash, join_slash, no_slash *)
Import ListNotations.
Local Open Scope list_scope.
Local Open Scope string_scope.   (* "++" is string append; list appends are marked %list *)

(* ---------- strings ---------- *)

Definition starts_with_slash (s : string) : bool :=
  match s with String c _ => Ascii.eqb c slash | EmptyString => false end.

Fixpoint ends_with_slash (s : string) : bool :=
  match s with
  | EmptyString => false
  | String c EmptyString => Ascii.eqb c slash
  | String _ r => ends_with_slash r
  end.

(* strings.LastIndex(s, "/") split: Some (s[:i], s[i+1:]) *)
Fixpoint rcut_slash (s : string) : option (string * string) :=
  match s with
  | EmptyString => None
  | String c r =>
      match rcut_slash r with
      | Some (a, b) => Some (String c a, b)
      | None => if Ascii.eqb c slash then Some (EmptyString, r) else None
      end
  end.

Definition trim_leading_slash (s : string) : string :=
  match s with String c r => if Ascii.eqb c slash then r else s | EmptyString => s end.

(* ---------- path.Clean / filepath.Clean ---------- *)

(* one step of the lexical normalisation on a reversed stack of kept segments;
   rooted paths drop ".." at the root, relative paths keep leading ".." *)
Definition norm_step (rooted : bool) (acc : list string) (s : string) : list string :=
  if (s =? "") || (s =? ".") then acc
  else if s =? ".." then
    match acc with
    | [] => if rooted then [] else [".."]
    | t :: acc' => if t =? ".." then ".." :: acc else acc'
    end
  else s :: acc.

Definition norm_segs (rooted : bool) (segs : list string) : list string :=
  rev (fold_left (norm_step rooted) segs []).

(* Clean(p) for any p *)
Definition clean (p : string) : string :=
  if starts_with_slash p then "/" ++ join_slash (norm_segs true (split_slash p))
  else match norm_segs false (split_slash p) with
       | [] => "."
       | l => join_slash l
       end.

(* net/http cleanPath: Clean, but a trailing "/" is kept *)
Definition mux_clean (p : string) : string :=
  let p := if p =? "" then "/" else if starts_with_slash p then p else "/" ++ p in
  let np := clean p in
  if ends_with_slash p && negb (np =? "/") then np ++ "/" else np.

Definition canonical (p : string) : bool := mux_clean p =? p.

(* util.JoinPath(dir, name) = filepath.Join: empty elements are ignored *)
Definition join_path (dir name : string) : string :=
  if name =? "" then clean dir else if dir =? "" then clean name else clean (dir ++ "/" ++ name).

(* util.FullPath.DirAndName *)
Definition dir_and_name (fp : string) : string * string :=
  match rcut_slash fp with
  | None => ("/", "")                                   (* len(dir) < 1 *)
  | Some (d, n) => if d =? "" then ("/", n) else (d, n)  (* dir == "/"  |  dir[:len-1] *)
  end.

(* filepath.Base: strip trailing slashes, take what follows the last slash; "" -> ".",
   only slashes -> "/".  That is the last non-empty segment. *)
Definition last_nonempty (l : list string) : option string :=
  fold_left (fun acc s => if s =? "" then acc else Some s) l None.
Definition path_base (p : string) : string :=
  if p =? "" then "."
  else match last_nonempty (split_slash p) with Some s => s | None => "/" end.

(* filepath.Dir *)
Definition path_dir (p : string) : string :=
  match rcut_slash p with
  | None => "."
  | Some (d, _) => clean (d ++ "/")
  end.

(* ---------- percent decoding (net/url unescape of a path) ---------- *)

Definition hex_val (c : ascii) : option N :=
  let n := N_of_ascii c in
  if (48 <=? n)%N && (n <=? 57)%N then Some (n - 48)%N
  else if (65 <=? n)%N && (n <=? 70)%N then Some (n - 55)%N
  else if (97 <=? n)%N && (n <=? 102)%N then Some (n - 87)%N
  else None.

Fixpoint pct_decode (s : string) : option string :=
  match s with
  | EmptyString => Some EmptyString
  | String c r =>
      if Ascii.eqb c "%"%char then
        match r with
        | String h (String l r') =>
            match hex_val h, hex_val l, pct_decode r' with
            | Some a, Some b, Some t => Some (String (ascii_of_N (a * 16 + b)) t)
            | _, _, _ => None
            end
        | _ => None
        end
      else match pct_decode r with Some t => Some (String c t) | None => None end
  end.

(* ---------- the filer as the gateway sees it: a fixed set of entries ---------- *)

(* clean full path |-> is it a directory *)
Definition fixture := list (string * bool).

Fixpoint fx_find (fx : fixture) (p : string) : option bool :=
  match fx with
  | [] => None
  | (q, d) :: r => if q =? p then Some d else fx_find r p
  end.

Fixpoint strip_one_trailing_slash (s : string) : string :=
  match s with
  | EmptyString => EmptyString
  | String c EmptyString => if Ascii.eqb c slash then EmptyString else s
  | String c r => String c (strip_one_trailing_slash r)
  end.

(* ListEntries(dir string as given, one trailing "/" stripped) returns something *)
Definition fx_has_children (fx : fixture) (dir : string) : bool :=
  let dir := if Nat.ltb 1 (String.length dir) then strip_one_trailing_slash dir else dir in
  existsb (fun e => match rcut_slash (fst e) with
                    | Some (d, _) => d =? dir
                    | None => false
                    end) fx.

(* ---------- filer-facing calls ---------- *)

Inductive meth := MGet | MHead | MPut | MDelete.

Inductive fcall :=
| Http (m : meth) (path : string)                    (* r.URL.Path as the filer decodes it *)
| GLookup (dir name : string)
| GList (dir : string)
| GCreate (dir name : string) (isdir : bool)
| GUpdate (dir name : string)
| GDelete (dir name : string) (recursive : bool).

(* the path the filer acts on for a call; None: no entry is addressed (a 301) *)
Definition effective (c : fcall) : option string :=
  match c with
  | Http _ p => if canonical p then Some p else None
  | GLookup d n => Some (join_path d n)
  | GList d => Some d
  | GCreate d n _ => Some (d ++ "/" ++ n)
  | GUpdate d n => Some (d ++ "/" ++ n)
  | GDelete d n _ => Some (join_path d n)
  end.

(* Filer.CreateEntry -> ensureParentDirecotryEntry: the parent directories it looks up
   (and creates when missing) for the literal path p are "/" + util.Join(parts[:level])
   for level = 1 .. len(parts)-1, parts = strings.Split(p, "/"); util.Join ignores
   empty elements and cleans the rest as a RELATIVE path *)
Definition join_rel (parts : list string) : string :=
  match filter (fun s => negb (s =? "")) parts with
  | [] => ""
  | l => clean (join_slash l)
  end.
Definition create_parents (p : string) : list string :=
  let parts := split_slash p in
  map (fun k => "/" ++ join_rel (firstn k parts)) (seq 1 (List.length parts - 1)).

(* http.Client: a 301 is followed; PUT / DELETE are re-issued as GET *)
Definition redirect_meth (m : meth) : meth :=
  match m with MGet => MGet | MHead => MHead | MPut => MGet | MDelete => MGet end.

Definition http_calls (m : meth) (p : string) : list fcall :=
  if canonical p then [Http m p] else [Http m p; Http (redirect_meth m) (mux_clean p)].

(* the status class of GET p as the copy handlers see it *)
Definition http_get_ok (fx : fixture) (p : string) : bool :=
  let q := mux_clean p in
  let for_dir := ends_with_slash q in
  let path := if for_dir && negb (q =? "/") then strip_one_trailing_slash q else q in
  if path =? "/" then true
  else match fx_find fx path with
       | Some true => true
       | Some false => negb for_dir
       | None => false
       end.

(* ---------- the gateway router's {bucket} matcher ---------- *)

Fixpoint no_pct (s : string) : bool :=
  match s with EmptyString => true | String c r => negb (Ascii.eqb c "%"%char) && no_pct r end.

Definition dot : ascii := "."%char.

(* registerRouter: apiRouter.PathPrefix(`/{bucket:[^/.][^/]*|\.[^/.][^/]*|\.\.[^/]+}`), matched
   (anchored on both sides of the segment: the next template character is "/" or the end)
   against the DECODED request path, alternative by alternative *)
Definition bucket_pattern (b : string) : bool :=
  match b with
  | EmptyString => false
  | String c r =>
      if negb (Ascii.eqb c slash) && negb (Ascii.eqb c dot) then no_slash r          (* [^/.][^/]* *)
      else if Ascii.eqb c dot then
        match r with
        | EmptyString => false
        | String d r' =>
            if negb (Ascii.eqb d slash) && negb (Ascii.eqb d dot) then no_slash r'   (* \.[^/.][^/]* *)
            else if Ascii.eqb d dot then negb (r' =? "") && no_slash r'              (* \.\.[^/]+ *)
            else false
        end
      else false
  end.

(* the same set, said directly: no handler is reached for the bucket names "", "." and ".."
   (and a mux variable never holds a "/"); proof/S3PathsProofs.v: bucket_pattern_spec *)
Definition router_refuses (b : string) : bool :=
  (b =? "") || (b =? ".") || (b =? "..") || negb (no_slash b).

(* finding 2: a bucket name with a "%" (the router accepts it) *)
Definition odd_bucket (b : string) : bool := negb (no_pct b).

(* not an ordinary name: refused by the router, or odd *)
Definition bad_bucket (b : string) : bool := router_refuses b || odd_bucket b.

(* ---------- requests ---------- *)

Inductive route :=
| RPut | RGet | RHead | RDelete
| RBatchDelete
| RCopy (replace : bool)
| RCopyPart
| RNewUpload | RPutPart | RComplete | RAbort | RListParts
| RGetTag | RPutTag | RDelTag
(* ListObjects V1 (marker) / V2 (start-after) with query prefix / marker, delimiter "/" or none *)
| RList (v2 : bool) (prefix marker : string) (delim : bool)
| RListUploads                                   (* ListMultipartUploads *)
| RPutBucket | RDeleteBucket | RHeadBucket
| RPostPolicy.                                   (* browser POST upload; q_object = form field "key" *)

Record req := mk_req {
  q_route : route;
  q_bucket : string;       (* mux var "bucket" *)
  q_object : string;       (* mux var "object" (decoded request path behind the bucket);
                              RPostPolicy: the form field "key" as sent *)
  q_upload : string;       (* query uploadId (decoded) *)
  q_part : string;         (* the 4-digit part file name, e.g. "0001.part" *)
  q_src : string;          (* header X-Amz-Copy-Source, as sent *)
  q_keys : list string     (* <Key> elements of a DeleteObjects body *)
}.

Definition buckets_path : string := "/buckets".
Definition bucket_dir (b : string) : string := buckets_path ++ "/" ++ b.
Definition uploads_dir (b : string) : string := bucket_dir b ++ "/.uploads".

(* getBucketAndObject *)
Definition norm_object (o : string) : string := if starts_with_slash o then o else "/" ++ o.

(* pathToBucketAndObject *)
Definition src_bucket_object (src : string) : string * string :=
  let p := trim_leading_slash src in
  match cut_slash p with
  | Some (b, o) => (b, "/" ++ o)
  | None => (p, "/")
  end.

(* DeleteMultipleObjectsHandler: (parentDirectoryPath, entryName) of one key *)
Definition batch_dir_name (b key : string) : string * string :=
  match rcut_slash key with
  | Some (d, n) =>
      (* lastSeparator > 0 && lastSeparator+1 < len(key) *)
      if negb (d =? "") && negb (n =? "") then (bucket_dir b ++ "/" ++ d, n)
      else (bucket_dir b, key)
  | None => (bucket_dir b, key)
  end.

(* doDeleteEmptyDirectories: the directories it may try to remove for one parent
   directory: the directory itself and the chain of DirAndName parents, until the
   parent is BucketsPath (fuel = number of segments).  Each candidate is first looked
   up (s3a.exists(parentDir, dirName, true)) and only deleted when the lookup returns
   a directory. *)
Fixpoint purge_chain (fuel : nat) (dir : string) : list fcall :=
  match fuel with
  | O => []
  | S f =>
      let '(parent, name) := dir_and_name dir in
      if parent =? buckets_path then []
      else GLookup parent name :: GDelete parent name false :: purge_chain f parent
  end.

Definition purge_candidates (b : string) (keys : list string) : list fcall :=
  flat_map (fun k => let d := fst (batch_dir_name b k) in
                     purge_chain (S (List.length (split_slash d))) d) keys.

(* completeMultipartUpload: (dirName, entryName) of the final object *)
Definition complete_rel_dir (key : string) : string :=
  let d := path_dir key in
  let d := if d =? "." then "" else d in
  trim_leading_slash d.
Definition complete_dir_name (b key : string) : string * string :=
  let entry := path_base key in
  let d := bucket_dir b ++ "/" ++ complete_rel_dir key in
  let d := if ends_with_slash d then strip_one_trailing_slash d else d in
  (d, entry).

(* listFilerEntries: filepath.Split(prefix) = (everything up to and including the last
   "/", the rest); the directory that is listed *)
Definition split_dir_file (p : string) : string * string :=
  match rcut_slash p with Some (d, n) => (d ++ "/", n) | None => ("", p) end.
Definition list_rel_dir (prefix : string) : string := trim_leading_slash (fst (split_dir_file prefix)).
Definition list_req_dir (b prefix : string) : string :=
  let d := bucket_dir b ++ "/" ++ list_rel_dir prefix in
  if ends_with_slash d then strip_one_trailing_slash d else d.

(* doListFilerEntries: a marker "s1/s2/../sk" first lists dir/s1/../s(k-1), then its
   parents up to dir, each one after the recursion into the next one returned (the
   directories the filer returns in between are data dependent: list_candidates).
   fuel = length of the marker *)
Fixpoint marker_heads (fuel : nat) (dir marker : string) : list string :=
  match fuel with
  | O => [dir]
  | S f =>
      match cut_slash marker with
      | Some (sub, rest) => (marker_heads f (dir ++ "/" ++ sub) rest ++ [dir])%list
      | None => [dir]
      end
  end.

(* the directories below d the listing may descend into: ListEntries(d) (one trailing
   "/" stripped by the filer) returns the entries whose parent is literally that string *)
Definition child_dirs (fx : fixture) (d : string) : list string :=
  let d := if Nat.ltb 1 (String.length d) then strip_one_trailing_slash d else d in
  flat_map (fun e => match rcut_slash (fst e) with
                     | Some (p, n) => if (p =? d) && snd e && negb (n =? "") then [n] else []
                     | None => []
                     end) fx.
Fixpoint list_desc (fuel : nat) (fx : fixture) (d : string) : list (string * string) :=
  match fuel with
  | O => []
  | S f => flat_map (fun n => (d, n) :: list_desc f fx (d ++ "/" ++ n)) (child_dirs fx d)
  end.
(* what a listing may call besides its heads: the existence check of the bucket when
   nothing was listed; for every directory reached below a head: its listing (recursion,
   isDirectoryAllEmpty) and the removal of an empty folder (isDirectoryAllEmpty) *)
Definition list_candidates (fx : fixture) (b : string) (heads : list string) : list fcall :=
  GLookup buckets_path b ::
  flat_map (fun h => flat_map (fun dn => [GList (fst dn ++ "/" ++ snd dn); GDelete (fst dn) (snd dn) true])
                              (list_desc (List.length fx) fx h)) heads.

(* the calls of one request, each with the bucket whose directory it is supposed to
   stay in (the destination bucket, or the bucket named by the copy source) *)
Definition ccall := (string * fcall)%type.

Definition within (b : string) (l : list fcall) : list ccall := map (fun c => (b, c)) l.

Definition is_dir_at (fx : fixture) (p : string) : bool :=
  match fx_find fx p with Some true => true | _ => false end.
Definition exists_at (fx : fixture) (p : string) : bool :=
  match fx_find fx p with Some _ => true | None => false end.

(* the Name of the entry a lookup of (dir, name) returns: the last segment of the
   cleaned path (the root entry has the empty name) *)
Definition entry_name (p : string) : string :=
  match rcut_slash p with Some (_, n) => n | None => p end.

(* setTags / touch: UpdateEntry{Directory: dir, Entry: the entry the lookup returned} *)
Definition update_after_lookup (fx : fixture) (d n : string) : list fcall :=
  if exists_at fx (join_path d n) then [GUpdate d (entry_name (join_path d n))] else [].

(* Filer.CreateEntry(dir + "/" + name) as a file succeeds unless an ancestor (at the
   cleaned prefixes) is a file or the path itself is an existing directory *)
(* ensureParentDirecotryEntry walks the parents from the deepest one upwards; the first
   one that exists decides: a file is an error, a directory ends the walk *)
Fixpoint parents_ok (fx : fixture) (deepest_first : list string) : bool :=
  match deepest_first with
  | [] => true
  | p :: r =>
      if p =? "/" then true
      else match fx_find fx p with
           | Some true => true
           | Some false => false
           | None => parents_ok fx r
           end
  end.
Definition create_file_ok (fx : fixture) (d n : string) : bool :=
  let p := d ++ "/" ++ n in
  parents_ok fx (rev (create_parents p)) &&
  match fx_find fx p with Some true => false | _ => true end.

(* GET / HEAD / PUT / DELETE object and the POST upload proxy to the filer's HTTP side with
   the URL  "http://" + filer + BucketsPath + "/" + bucket + urlPathEscape(object): only the
   key is escaped, so http.NewRequest (url.Parse) decodes the bucket part once more; a bad
   escape in it fails NewRequest and nothing is sent *)
Definition obj_url_path (b object : string) : option string :=
  match pct_decode (bucket_dir b) with Some d => Some (d ++ object) | None => None end.
Definition obj_http (m : meth) (b object : string) : list fcall :=
  match obj_url_path b object with Some p => http_calls m p | None => [] end.

(* what the HANDLER of a route does once the router has handed it the bucket name *)
Definition handler_calls (fx : fixture) (q : req) : list ccall :=
  let b := q_bucket q in
  let object := norm_object (q_object q) in
  let key := trim_leading_slash object in       (* objectKey *)
  let opath := bucket_dir b ++ object in
  match q_route q with
  | RPut =>
      if ends_with_slash object then within b [GCreate buckets_path (b ++ object) true]
      else within b (obj_http MPut b object)
  | RGet => if ends_with_slash object then [] else within b (obj_http MGet b object)
  | RHead => within b (obj_http MHead b object)
  | RDelete => within b (obj_http MDelete b object)
  | RBatchDelete =>
      within b (map (fun k => let '(d, n) := batch_dir_name b k in GDelete d n false) (q_keys q))
  | RCopy replace =>
      (* url.QueryUnescape of the header; a bad escape keeps the header as it is *)
      let cp := match pct_decode (q_src q) with Some s => s | None => q_src q end in
      let '(sb, so) := src_bucket_object cp in
      if ((sb =? b) && (so =? object) || (cp =? "")) && replace then
        let '(d, n) := dir_and_name opath in
        within b (GLookup d n :: update_after_lookup fx d n)
      else if (sb =? "") then []
      else if (sb =? b) && (so =? object) then []
      else
        (* both URLs are built without escaping, so url.Parse decodes them once more *)
        match pct_decode (bucket_dir sb ++ so) with
        | None => []
        | Some sp =>
            (within sb (http_calls MGet sp) ++
             (* resp.StatusCode >= 400: ErrInvalidCopySource, nothing is written *)
             (if http_get_ok fx sp then
                match pct_decode opath with
                | None => []
                | Some dp => within b (http_calls MPut dp)
                end
              else []))%list
        end
  | RCopyPart =>
      let cp := match pct_decode (q_src q) with Some s => s | None => q_src q end in
      let '(sb, so) := src_bucket_object cp in
      if (sb =? "") then []
      else
        (* s3a.exists(genUploadsFolder(dstBucket), uploadID, true), else NoSuchUpload *)
        (within b [GLookup (uploads_dir b) (q_upload q)] ++
         (if is_dir_at fx (join_path (uploads_dir b) (q_upload q)) then
            match pct_decode (bucket_dir sb ++ so) with
            | None => []
            | Some sp =>
                (within sb (http_calls MGet sp) ++
                 (if http_get_ok fx sp then
                    match pct_decode (uploads_dir b ++ "/" ++ q_upload q ++ "/" ++ q_part q) with
                    | None => []
                    | Some dp => within b (http_calls MPut dp)
                    end
                  else []))%list
            end
          else []))%list
  | RNewUpload => within b [GCreate (uploads_dir b) "UUID" true]
  | RPutPart =>
      within b (GLookup (uploads_dir b) (q_upload q) ::
                (if is_dir_at fx (join_path (uploads_dir b) (q_upload q)) then
                   match pct_decode (uploads_dir b ++ "/" ++ q_upload q ++ "/" ++ q_part q) with
                   | None => []
                   | Some dp => http_calls MPut dp
                   end
                 else []))
  | RComplete =>
      let udir := uploads_dir b ++ "/" ++ q_upload q in
      within b (GList udir ::
                (if fx_has_children fx udir then
                   (* getEntry: util.NewFullPath(dir, name).DirAndName() *)
                   let '(ld, ln) := dir_and_name udir in
                   GLookup ld ln ::
                   (if exists_at fx (join_path ld ln) then
                      let '(d, n) := complete_dir_name b key in
                      GCreate d n false ::
                      (if create_file_ok fx d n then [GDelete (uploads_dir b) (q_upload q) true] else [])
                    else [])
                 else []))
  | RAbort =>
      within b (GLookup (uploads_dir b) (q_upload q) ::
                (if is_dir_at fx (join_path (uploads_dir b) (q_upload q))
                 then [GDelete (uploads_dir b) (q_upload q) true] else []))
  | RListParts => within b [GList (uploads_dir b ++ "/" ++ q_upload q)]
  | RGetTag => let '(d, n) := dir_and_name opath in within b [GLookup d n]
  | RPutTag =>
      let '(d, n) := dir_and_name opath in
      within b (GLookup d n :: update_after_lookup fx d n)
  | RDelTag => let '(d, n) := dir_and_name opath in within b [GLookup d n]
  | RList _ prefix marker _ =>
      within b (map GList (marker_heads (String.length marker) (list_req_dir b prefix) marker))
  | RListUploads => within b [GList (uploads_dir b)]
  | RHeadBucket =>
      (* checkBucket: getEntry(BucketsPath, bucket) = NewFullPath(dir, name).DirAndName() *)
      let '(d, n) := dir_and_name (buckets_path ++ "/" ++ b) in within b [GLookup d n]
  | RDeleteBucket =>
      let '(d, n) := dir_and_name (buckets_path ++ "/" ++ b) in
      within b (GLookup d n ::
                (if exists_at fx (join_path d n) then [GDelete buckets_path b true] else []))
  | RPutBucket =>
      within b (GLookup buckets_path b ::
                (if is_dir_at fx (join_path buckets_path b) then [] else [GCreate buckets_path b true]))
  | RPostPolicy =>
      (* repaired (fix: POST policy upload must keep the bucket and the form key apart):
         uploadUrl = BucketsPath + "/" + bucket + "/" + urlPathEscape(TrimPrefix(key, "/")) *)
      within b (obj_http MPut b (norm_object (q_object q)))
  end.

(* the routes that put the bucket name into a filer URL (where it is decoded once more);
   the other routes hand it to the filer's gRPC side as it is *)
Definition decodes_bucket (r : route) : bool :=
  match r with
  | RPut | RGet | RHead | RDelete | RPostPolicy | RCopy _ | RCopyPart | RPutPart => true
  | _ => false
  end.
(* finding 2, per request: an odd bucket name on one of these routes *)
Definition odd_request (q : req) : bool := odd_bucket (q_bucket q) && decodes_bucket (q_route q).

(* the router in front: a bucket name it refuses reaches no handler (404, no filer call) *)
Definition calls (fx : fixture) (q : req) : list ccall :=
  if router_refuses (q_bucket q) then [] else handler_calls fx q.

(* the data dependent calls a request may make besides `calls` *)
Definition handler_candidates (fx : fixture) (q : req) : list fcall :=
  match q_route q with
  | RBatchDelete => purge_candidates (q_bucket q) (q_keys q)
  | RList _ prefix marker _ =>
      list_candidates fx (q_bucket q)
        (marker_heads (String.length marker) (list_req_dir (q_bucket q) prefix) marker)
  | _ => []
  end.
Definition candidates (fx : fixture) (q : req) : list fcall :=
  if router_refuses (q_bucket q) then [] else handler_candidates fx q.

(* ---------- containment ---------- *)

(* p (already clean) is the bucket directory or lies inside it *)
Definition inside (dir p : string) : bool := (p =? dir) || String.prefix (dir ++ "/") p.

Definition contained (b : string) (p : string) : bool := inside (clean (bucket_dir b)) (clean p).

Definition call_contained (c : ccall) : bool :=
  match effective (snd c) with
  | Some p => contained (fst c) p
  | None => true
  end.

Definition all_contained (fx : fixture) (q : req) : bool :=
  forallb call_contained (calls fx q) &&
  (router_refuses (q_bucket q) ||
   forallb (fun c => call_contained (q_bucket q, c)) (purge_candidates (q_bucket q) (q_keys q))).

(* the data dependent calls (purge after a batch delete, descent of a listing) *)
Definition candidates_contained (fx : fixture) (q : req) : bool :=
  forallb (fun c => call_contained (q_bucket q, c)) (candidates fx q).

(* the names of the entries of a fixture are ordinary names (the root has the empty name) *)
Definition plain_seg (s : string) : bool := negb ((s =? "") || (s =? ".") || (s =? "..")).
Definition fx_plain (fx : fixture) : bool :=
  forallb (fun e => match rcut_slash (fst e) with Some (_, n) => (n =? "") || plain_seg n | None => true end) fx.

(* object routes: every route that takes an object key as an ordinary object *)
Definition object_route (r : route) : bool :=
  match r with
  | RPut | RGet | RHead | RDelete | RBatchDelete | RCopy _ | RGetTag | RPutTag | RDelTag
  | RPostPolicy => true
  | _ => false
  end.

(* a call of an object route addresses the multipart area of its bucket *)
Definition call_in_uploads (c : ccall) : bool :=
  match effective (snd c) with
  | Some p => inside (clean (uploads_dir (fst c))) (clean p)
  | None => false
  end.

Definition uploads_hidden (fx : fixture) (q : req) : bool :=
  negb (object_route (q_route q)) || negb (existsb call_in_uploads (calls fx q)).

(* ---------- decidable trigger sets ---------- *)

Definition has_seg (x : string) (s : string) : bool := existsb (String.eqb x) (split_slash s).
Definition has_dotdot (s : string) : bool := has_seg ".." s.

Definition dec1 (s : string) : string := match pct_decode s with Some t => t | None => s end.


(* the copy source as the copy handlers address it *)
Definition src_bucket (q : req) : string := fst (src_bucket_object (dec1 (q_src q))).
Definition src_path (q : req) : string :=
  let '(sb, so) := src_bucket_object (dec1 (q_src q)) in bucket_dir sb ++ so.

(* the path strings an OBJECT route builds from the key, the copy source and the batch
   keys (raw, and after the extra URL decoding of the copy routes) *)
Definition obj_paths (q : req) : list string :=
  (q_object q ::
   dec1 (bucket_dir (q_bucket q) ++ norm_object (q_object q)) ::
   (if q_src q =? "" then [] else [dec1 (src_path q)]) ++
   q_keys q)%list.

(* the path strings a multipart route builds from the upload id (and the part name) *)
Definition mp_paths (q : req) : list string :=
  [q_upload q; dec1 (uploads_dir (q_bucket q) ++ "/" ++ q_upload q ++ "/" ++ q_part q)].

(* finding 0: a ".." segment in one of these strings, or a copy source whose bucket is
   not a plain name *)
Definition req_dotdot (q : req) : bool :=
  existsb has_dotdot (obj_paths q ++ mp_paths q)%list ||
  (negb (q_src q =? "") && bad_bucket (src_bucket q)).

(* finding 1: an object route with a ".uploads" segment in the key, the copy source or
   a batch key *)
Definition req_uploads_seg (q : req) : bool :=
  object_route (q_route q) && existsb (has_seg ".uploads") (obj_paths q).

(* ---------- narrower triggers: a lexical walk ---------- *)

(* Walk the segments of a path RELATIVE to a bucket directory with the stack of kept
   segments (deepest first), like norm_step: "" and "." are skipped, ".." pops.  The
   walk escapes when ".." meets the empty stack (the path climbs above the bucket
   directory), or when a segment satisfying `forbid` is pushed onto the empty stack
   (the path enters that child of the bucket directory). *)
Definition skip_seg (s : string) : bool := (s =? "") || (s =? ".").

Fixpoint escapes (forbid : string -> bool) (stack segs : list string) : bool :=
  match segs with
  | [] => false
  | s :: r =>
      if skip_seg s then escapes forbid stack r
      else if s =? ".." then
        match stack with [] => true | _ :: st => escapes forbid st r end
      else if (match stack with [] => forbid s | _ :: _ => false end) then true
      else escapes forbid (s :: stack) r
  end.

Definition forbid_none (s : string) : bool := false.
Definition forbid_uploads (s : string) : bool := s =? ".uploads".

(* rel climbs above the directory it is relative to *)
Definition climbs (rel : string) : bool := escapes forbid_none [] (split_slash rel).
(* rel climbs above it or passes through its child ".uploads" *)
Definition enters_uploads (rel : string) : bool := escapes forbid_uploads [] (split_slash rel).

(* the strings, relative to the bucket directory (the copy source: to the source bucket's
   directory), from which a route builds its filer paths *)
Definition rel_object (q : req) : string := norm_object (q_object q).
Definition src_rel (q : req) : string := snd (src_bucket_object (dec1 (q_src q))).
Definition up_rel (q : req) : string := ".uploads/" ++ q_upload q.
Definition part_rel (q : req) : string := ".uploads/" ++ q_upload q ++ "/" ++ q_part q.
Definition complete_rel (q : req) : string :=
  let key := trim_leading_slash (rel_object q) in complete_rel_dir key ++ "/" ++ path_base key.
(* the listed directory (relative, "" or ending in "/") followed by the marker chain *)
Definition list_rel (prefix marker : string) : string := list_rel_dir prefix ++ "/" ++ marker.

Definition rels (q : req) : list string :=
  match q_route q with
  | RPut | RGet | RHead | RDelete | RGetTag | RPutTag | RDelTag | RPostPolicy => [rel_object q]
  | RBatchDelete => q_keys q
  | RCopy _ => [rel_object q; dec1 (rel_object q); dec1 (src_rel q)]
  | RCopyPart => [up_rel q; dec1 (part_rel q); dec1 (src_rel q)]
  | RPutPart => [up_rel q; dec1 (part_rel q)]
  | RComplete => [up_rel q; complete_rel q]
  | RAbort | RListParts => [up_rel q]
  | RList _ prefix marker _ => [list_rel prefix marker]
  | RNewUpload | RListUploads | RPutBucket | RDeleteBucket | RHeadBucket => []
  end.

(* a copy route whose source names a bucket that is not a plain name *)
Definition src_bad (q : req) : bool :=
  match q_route q with
  | RCopy _ | RCopyPart => negb (src_bucket q =? "") && bad_bucket (src_bucket q)
  | _ => false
  end.

(* finding 0, narrowed: one of the route's relative strings climbs above the bucket directory *)
Definition req_climbs (q : req) : bool := existsb climbs (rels q) || src_bad q.

(* finding 1, narrowed: an object route one of whose relative strings passes through ".uploads" *)
Definition req_enters_uploads (q : req) : bool :=
  object_route (q_route q) && (existsb enters_uploads (rels q) || src_bad q).

