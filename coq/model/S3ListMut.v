(* C27, second part of the model: a LIST request CHANGES the bucket.
   With delimiter "/" and without -allowEmptyFolder, doListFilerEntries asks
   isDirectoryAllEmpty for every folder it meets; isDirectoryAllEmpty deletes (recursively,
   with data) what it takes for empty.  This file threads the bucket tree through
   doListFilerEntries / isDirectoryAllEmpty / the pagination loop, so that
     - the deletions themselves are observable (final tree of a pagination loop),
     - later pages (and later parts of the same request) see the changed tree,
   and defines the input-only trigger sets of the known findings (trigger_of).
   Executable definitions only; proofs are in proof/S3ListMut.v (do_list_m coincides with
   S3List.do_list and leaves the tree alone when no emptiness test can run).            *)
From Coq Require Import List NArith ZArith Bool String Ascii Arith.
From SW Require Import model.S3List.
Import ListNotations.
Local Open Scope string_scope.
Local Open Scope list_scope.

(* util.JoinPath(dir, name) = filepath.Join: empty segments disappear ("." and ".." never
   reach this point: a directory string with such a segment lists nothing) *)
Definition clean_path (p : list string) : list string := filter (fun s => negb (s =? "")) p.

(* filer DeleteEntry(recursive): the entry at path p and everything below it *)
Fixpoint remove_in (p : list string) (kids : list tree) : list tree :=
  match p with
  | [] => kids
  | n :: p' =>
      match p' with
      | [] => filter (fun t => negb (tname t =? n)) kids
      | _ :: _ => map (fun t => match t with
                                | Dir m k => if m =? n then Dir m (remove_in p' k) else t
                                | File _ => t
                                end) kids
      end
  end.

(* isDirectoryAllEmpty(parentDir = string of D, name = n) on the current tree.
   currentDir = parentDir + "/" + name is LISTED as that exact string (resolve), but the
   deletion goes through filepath.Join (clean_path).  Returns (isEmpty, tree afterwards).
   The entries of currentDir are read first (pages of 8 until a file shows up or the
   directory is exhausted); a file anywhere => not empty, nothing deleted.  Otherwise the
   sub folders are tested in order (each test may delete), and the first non-empty one
   stops the test (what was deleted before stays deleted). *)
Fixpoint all_empty (fuel : nat) (rootk : list tree) (D : list string) (n : string) : bool * list tree :=
  match fuel with
  | O => (false, rootk)
  | S f =>
      let kids := resolve rootk (D ++ [n]) in
      if existsb (fun t => negb (is_dir t)) kids then (false, rootk)
      else
        let fix subs (l : list tree) (rk : list tree) : bool * list tree :=
            match l with
            | [] => (true, rk)
            | t :: r => let '(e, rk') := all_empty f rk (D ++ [n]) (tname t) in
                        if e then subs r rk' else (false, rk')
            end in
        let '(e, rk) := subs kids rootk in
        if e then (true, remove_in (clean_path (D ++ [n])) rk) else (false, rk)
  end.

Section DoListM.
  Variable ae : bool.
  Variable delim : bool.
  Variable efuel : nat.          (* fuel of all_empty: more than the height of the tree *)

  Fixpoint loop_m (rec : list tree -> list string -> Z -> res * list tree) (rootk : list tree)
           (D : list string) (maxKeys1 : Z)
           (es : list tree) (items : list item) (counter : Z) (trunc : bool) (next : string)
           {struct es} : res * list tree :=
    match es with
    | [] => (mk_res items counter trunc next, rootk)
    | e :: es' =>
        if (counter >=? maxKeys1)%Z then (mk_res items counter true next, rootk)
        else
          match e with
          | Dir n _ =>
              if n =? uploads then loop_m rec rootk D maxKeys1 es' items counter trunc n
              else if negb delim then
                let '(r, rk) := rec rootk (D ++ [n]) (maxKeys1 - counter)%Z in
                let items' := items ++ r_items r in
                let counter' := (counter + r_count r)%Z in
                let next' := (n ++ "/" ++ r_next r)%string in
                if r_trunc r then (mk_res items' counter' true next', rk)
                else loop_m rec rk D maxKeys1 es' items' counter' trunc next'
              else if negb ae then
                let '(emp, rk) := all_empty efuel rootk D n in
                if emp then loop_m rec rk D maxKeys1 es' items counter trunc n
                else loop_m rec rk D maxKeys1 es' (items ++ [ICP (D ++ [n])]) (counter + 1)%Z trunc n
              else loop_m rec rootk D maxKeys1 es' (items ++ [ICP (D ++ [n])]) (counter + 1)%Z trunc n
          | File n => loop_m rec rootk D maxKeys1 es' (items ++ [IKey (D ++ [n])]) (counter + 1)%Z trunc n
          end
    end.

  (* the entries of one ListEntries call are those of the tree at the time of the call
     (the filer reads them from one leveldb iterator) *)
  Fixpoint do_list_m (fuel : nat) (rootk : list tree) (D : list string) (prefix : string) (maxKeys : Z)
           (marker : string) : res * list tree :=
    match fuel with
    | O => (empty_res, rootk)
    | S f =>
      if (prefix =? "/") && delim then (empty_res, rootk)
      else if (maxKeys <=? 0)%Z then (empty_res, rootk)
      else
        let '(items0, maxKeys1, trunc0, next0, marker1, rk0) :=
          match cut_slash marker with
          | Some (subDir, subMarker) =>
              let '(r, rk) := do_list_m f rootk (D ++ [subDir]) "" maxKeys subMarker in
              (r_items r, (maxKeys - r_count r)%Z, r_trunc r, (subDir ++ "/" ++ r_next r)%string, subDir, rk)
          | None => ([], maxKeys, false, "", marker, rootk)
          end in
        let entries := list_entries (resolve rk0 D) prefix marker1 (Z.to_nat (maxKeys1 + 1)) in
        loop_m (fun rk D' m' => do_list_m f rk D' "" m' "") rk0 D maxKeys1 entries items0 0%Z trunc0 next0
    end.
End DoListM.

Definition list_objects_m (ae : bool) (rootk : list tree) (prefix : string) (maxKeys : Z) (marker : string)
           (delim : bool) : page * list tree :=
  let '(r, rk) := do_list_m ae delim (S (forest_height rootk)) (list_fuel rootk marker) rootk
                            (req_dir prefix) (snd (split_prefix prefix)) maxKeys marker in
  (mk_page (flat_map key_of (r_items r)) (flat_map cp_of (r_items r)) (r_trunc r)
           (if r_trunc r then r_next r else ""), rk).

(* the client: at most n requests, each on the tree the previous one left behind.
   Result: (marker sent, page received) per request, and the final tree. *)
Fixpoint run_m (n : nat) (ae : bool) (rootk : list tree) (prefix : string) (maxKeys : Z) (delim : bool)
         (st : style) (marker : string) : list (string * page) * list tree :=
  match n with
  | O => ([], rootk)
  | S n' =>
      let '(p, rk) := list_objects_m ae rootk prefix maxKeys marker delim in
      if pg_trunc p then
        match next_marker st p with
        | Some m => let '(l, rk') := run_m n' ae rk prefix maxKeys delim st m in ((marker, p) :: l, rk')
        | None => ([(marker, p)], rk)
        end
      else ([(marker, p)], rk)
  end.

(* ---------- decidable trigger sets (functions of the INPUT only) ---------- *)

Fixpoint tree_eqb (a b : tree) {struct a} : bool :=
  match a, b with
  | File n, File m => n =? m
  | Dir n k, Dir m k' =>
      (n =? m) &&
      (fix go (l : list tree) (l' : list tree) : bool :=
         match l, l' with
         | [], [] => true
         | x :: r, y :: r' => tree_eqb x y && go r r'
         | _, _ => false
         end) k k'
  | _, _ => false
  end.
Fixpoint forest_eqb (l l' : list tree) : bool :=
  match l, l' with
  | [], [] => true
  | x :: r, y :: r' => tree_eqb x y && forest_eqb r r'
  | _, _ => false
  end.

Fixpoint strs_eqb (l1 l2 : list string) : bool :=
  match l1, l2 with
  | [], [] => true
  | x :: r1, y :: r2 => String.eqb x y && strs_eqb r1 r2
  | _, _ => false
  end.

(* b = a ++ c ++ ... with c < "/" (0x2f): b sorts between a and a/ *)
Fixpoint ext_below (a b : string) : bool :=
  match a, b with
  | EmptyString, String c _ => (N_of_ascii c <? 47)%N
  | String x a', String y b' => Ascii.eqb x y && ext_below a' b'
  | _, EmptyString => false
  end.

(* finding 6: the listing follows the filer's order (directory by directory), not the
   byte order of the keys.  At some level of the marker (segments segs):
   clash_a: a directory name is extended by the marker segment with a character below "/"
            (the directory is skipped although its keys sort behind the marker), or
   clash_b: the segment is followed by "/" and a sibling extends it by a character below
            "/" (the sibling is listed although it sorts before the marker) *)
Fixpoint order_clash (kids : list tree) (segs : list string) : bool :=
  match segs with
  | [] => false
  | s :: rest =>
      existsb (fun t => is_dir t && ext_below (tname t) s) kids ||
      match rest with
      | [] => false
      | _ :: _ => existsb (fun t => ext_below s (tname t)) kids ||
                  match find_dir s kids with Some k => order_clash k rest | None => false end
      end
  end.

(* finding 1, per request range: an entry of the prefix directory that carries the name
   prefix and does not sort before the first segment of the first marker yields nothing
   but uses up the look-ahead *)
Definition entry_ok (ae delim : bool) (t : tree) : bool :=
  match t with
  | File _ => true
  | Dir n k => negb (n =? uploads) &&
               (if delim then ae || tree_has_file t else negb (tree_zero_yield t))
  end.
Definition first_seg (m : string) : string :=
  match cut_slash m with Some (s, _) => s | None => m end.
Definition zero_yield_in_range (ae delim : bool) (rootk : list tree) (prefix start : string) : bool :=
  existsb (fun t => String.prefix (snd (split_prefix prefix)) (tname t) &&
                    negb (String.ltb (tname t) (first_seg start)) &&
                    negb (entry_ok ae delim t))
          (resolve rootk (req_dir prefix)).

(* finding 7: a directory string with an empty segment reaches isDirectoryAllEmpty *)
Definition empty_dirseg (m : string) : bool :=
  existsb (String.eqb "") (removelast (split_slash m)).
Definition into_subdir (prefix : string) (delim : bool) (m : string) : bool :=
  marker_into_subdir prefix delim m || (match cut_slash m with Some (s, _) => s =? "" | None => false end).

Definition lists_equal_keys (a b : list tree) : bool := strs_eqb (bucket_keys a) (bucket_keys b).

(* the cascade.  ms = the markers the client sends (computed by the model from the input),
   final = the tree the model predicts after the last request *)
Definition trigger_of (ae : bool) (rootk : list tree) (prefix : string) (delim : bool) (st : style)
           (start : string) (ms : list string) (final : list tree) : option N :=
  let full_key_marker_used :=
      negb (start =? "") || (full_key_style st && Nat.leb 2 (List.length ms)) in
  if delim && negb ae && (existsb empty_dirseg ms || existsb (String.eqb "") (req_dir prefix))
     && negb (lists_equal_keys rootk final) then Some 7%N
  else if existsb deep_marker ms then Some 3%N
  else if full_key_marker_used && prefix_has_dir prefix then Some 0%N
  else if existsb (into_subdir prefix delim) ms then Some 2%N
  else if bad_prefix prefix then Some 4%N
  else if start_is_dir rootk start then Some 5%N
  else if negb (start =? "") && order_clash rootk (split_slash start) then Some 6%N
  else if zero_yield_in_range ae delim rootk prefix start then Some 1%N
  else None.
