(* Model of weed/shell/command_ec_balance.go + command_ec_common.go (C16):
   the ec.balance planner working on its in-memory books (list of EcNode, map of
   EcRack).  Executable definitions only; proofs are in proof/EcBalanceProofs.v.

   Nondeterminism (Go map iteration order, sort.Slice on ties) is an explicit
   ORACLE argument: every function below is deterministic given the oracle, and
   VALIDATES it (an oracle that is not a possible iteration order / sort result
   makes the run return None).  Theorems quantify over all oracles. *)
From Coq Require Import List NArith ZArith Bool.
Import ListNotations.
Local Open Scope N_scope.

(* ---------- erasure_coding.ShardBits (uint32) ---------- *)
(* TotalShardsCount = 14 *)
Definition shard_range : list N := [0;1;2;3;4;5;6;7;8;9;10;11;12;13].
Definition bit_range : list N :=
  [0;1;2;3;4;5;6;7;8;9;10;11;12;13;14;15;16;17;18;19;20;21;22;23;24;25;26;27;28;29;30;31].
Definition total_shards : Z := 14.

Definition has (b i : N) : bool := N.testbit b i.                 (* HasShardId *)
Definition add_id (b i : N) : N := N.lor b (N.shiftl 1 i).        (* b | (1<<id) *)
Definition remove_id (b i : N) : N := N.ldiff b (N.shiftl 1 i).   (* b &^ (1<<id) *)
Definition shard_ids (b : N) : list N := filter (has b) shard_range.   (* ShardIds: ids < 14 *)
Definition count (b : N) : Z := Z.of_nat (length (filter (has b) bit_range)).  (* ShardIdCount: popcount *)

(* ceilDivide(total, n) = int(math.Ceil(float64(total)/float64(n))), total >= 0, n > 0 *)
Definition ceil_div (t n : Z) : Z := if (n =? 0)%Z then 0%Z else ((t + n - 1) / n)%Z.

(* ---------- books ---------- *)
(* one VolumeEcShardInformationMessage of DiskInfos[""] (HardDriveType) *)
Record entry := { e_vid : N; e_coll : N; e_bits : N }.
(* EcNode; n_disk = None when info.DiskInfos has no "" (hdd) key *)
Record node := { n_id : N; n_dc : N; n_rack : N; n_free : Z; n_disk : option (list entry) }.
(* nodes = allEcNodes (slice order); racks = map[RackId]*EcRack: rack id -> freeEcSlot *)
Record state := { nodes : list node; racks : list (N * Z) }.

Definition set_free (n : node) (f : Z) : node :=
  {| n_id := n_id n; n_dc := n_dc n; n_rack := n_rack n; n_free := f; n_disk := n_disk n |}.
Definition set_disk (n : node) (f : Z) (es : list entry) : node :=
  {| n_id := n_id n; n_dc := n_dc n; n_rack := n_rack n; n_free := f; n_disk := Some es |}.
Definition set_bits (e : entry) (b : N) : entry :=
  {| e_vid := e_vid e; e_coll := e_coll e; e_bits := b |}.

Definition entries (n : node) : list entry := match n_disk n with Some es => es | None => [] end.

(* findEcVolumeShards: first entry with that vid *)
Fixpoint find_bits (es : list entry) (v : N) : N :=
  match es with
  | [] => 0
  | e :: es' => if e_vid e =? v then e_bits e else find_bits es' v
  end.
Definition find (n : node) (v : N) : N := find_bits (entries n) v.

(* addEcVolumeShards(vid, collection, [s]) *)
Fixpoint add_in (es : list entry) (v s : N) : option (list entry * Z) :=
  match es with
  | [] => None
  | e :: es' =>
      if e_vid e =? v then
        let nb := add_id (e_bits e) s in
        Some (set_bits e nb :: es', (count nb - count (e_bits e))%Z)
      else match add_in es' v s with
           | Some (r, d) => Some (e :: r, d)
           | None => None
           end
  end.
Definition new_entry (v c s : N) : entry := {| e_vid := v; e_coll := c; e_bits := add_id 0 s |}.
Definition add_shard (v c s : N) (n : node) : node :=
  match n_disk n with
  | Some es =>
      match add_in es v s with
      | Some (es', d) => set_disk n (n_free n - d)%Z es'
      | None => set_disk n (n_free n - 1)%Z (es ++ [new_entry v c s])
      end
  | None => set_disk n (n_free n - 1)%Z [new_entry v c s]
  end.

(* deleteEcVolumeShards(vid, [s]): every entry with that vid *)
Fixpoint del_in (es : list entry) (v s : N) : list entry * Z :=
  match es with
  | [] => ([], 0%Z)
  | e :: es' =>
      let '(r, d) := del_in es' v s in
      if e_vid e =? v then
        let nb := remove_id (e_bits e) s in
        (set_bits e nb :: r, (d + (count nb - count (e_bits e)))%Z)
      else (e :: r, d)
  end.
Definition del_shard (v s : N) (n : node) : node :=
  match n_disk n with
  | Some es => let '(es', d) := del_in es v s in set_disk n (n_free n - d)%Z es'
  | None => n
  end.

Fixpoint get_node (ns : list node) (id : N) : option node :=
  match ns with
  | [] => None
  | n :: ns' => if n_id n =? id then Some n else get_node ns' id
  end.
Definition upd_node (ns : list node) (id : N) (f : node -> node) : list node :=
  map (fun n => if n_id n =? id then f n else n) ns.

Definition node_free (ns : list node) (id : N) : Z :=
  match get_node ns id with Some n => n_free n | None => 0%Z end.
Definition node_bits (ns : list node) (id v : N) : N :=
  match get_node ns id with Some n => find n v | None => 0 end.
Definition node_rack (ns : list node) (id : N) : N :=
  match get_node ns id with Some n => n_rack n | None => 0 end.
Definition node_has_disk (ns : list node) (id : N) : bool :=
  match get_node ns id with Some n => match n_disk n with Some _ => true | None => false end | None => false end.

(* moveMountedShardToEcNode, bookkeeping part (identical for dry run and -force) *)
Definition move_shard (ns : list node) (src v c s dst : N) : list node :=
  upd_node (upd_node ns dst (add_shard v c s)) src (del_shard v s).

(* ---------- small assoc helpers (Go maps with int values) ---------- *)
Fixpoint alookup (l : list (N * Z)) (k : N) : Z :=
  match l with
  | [] => 0%Z
  | (k', x) :: l' => if k' =? k then x else alookup l' k
  end.
Fixpoint aadd (l : list (N * Z)) (k : N) (d : Z) : list (N * Z) :=
  match l with
  | [] => [(k, d)]
  | (k', x) :: l' => if k' =? k then (k', (x + d)%Z) :: l' else (k', x) :: aadd l' k d
  end.
(* picked map[ShardId]*EcNode *)
Fixpoint pset (l : list (N * N)) (k x : N) : list (N * N) :=
  match l with
  | [] => [(k, x)]
  | (k', y) :: l' => if k' =? k then (k', x) :: l' else (k', y) :: pset l' k x
  end.
Fixpoint ptake (l : list (N * N)) (k : N) : option (N * list (N * N)) :=
  match l with
  | [] => None
  | (k', y) :: l' =>
      if k' =? k then Some (y, l')
      else match ptake l' k with Some (x, r) => Some (x, (k', y) :: r) | None => None end
  end.

Definition mem (x : N) (l : list N) : bool := existsb (N.eqb x) l.
Fixpoint occ (x : N) (l : list N) : nat :=
  match l with [] => O | y :: l' => if y =? x then S (occ x l') else occ x l' end.
(* l1 is a permutation of l2 *)
Definition perm_eqb (l1 l2 : list N) : bool :=
  Nat.eqb (length l1) (length l2) && forallb (fun x => Nat.eqb (occ x l1) (occ x l2)) l1.
Fixpoint dedup (l : list N) : list N :=
  match l with [] => [] | x :: l' => if mem x l' then dedup l' else x :: dedup l' end.

(* collectVolumeIdToEcNodes: vid -> nodes (allEcNodes order, once per entry) *)
Definition locations (ns : list node) (v : N) : list N :=
  flat_map (fun n => map (fun _ => n_id n) (filter (fun e => e_vid e =? v) (entries n))) ns.
Definition all_vids (ns : list node) : list N :=
  dedup (flat_map (fun n => map e_vid (entries n)) ns).
(* collectRacks *)
Definition collect_racks (ns : list node) : list (N * Z) :=
  fold_left (fun acc n => aadd acc (n_rack n) (n_free n)) ns [].
Definition rack_ids (st : state) : list N := map fst (racks st).
Definition rack_node_ids (ns : list node) (r : N) : list N :=
  map n_id (filter (fun n => n_rack n =? r) ns).
(* groupByCount(locations, rack, ShardIdCount) *)
Definition group_count (ns : list node) (locs : list N) (v : N) : list (N * Z) :=
  fold_left (fun acc id => aadd acc (node_rack ns id) (count (node_bits ns id v))) locs [].

(* ---------- what the run prints / does ---------- *)
Inductive event :=
| ERound (c : N)                       (* balanceEcVolumes <collection> *)
| EKeep (v s : N) (n : Z) (keep : N)   (* ec shard v.s has n copies, keeping X *)
| ENoRack (v s src : N)                (* ec shard v.s at X can not find a destination rack *)
| EMove (src v s dst : N)              (* X moves ec shard v.s to Y *)
| EOver (src : N) (k : Z) (v s : N)    (* X has k overlimit, moving ec shard v.s *)
| ERackMove (src v s dst : N).         (* X moves ec shards v.s to Y *)

Inductive mkind := KAcross | KWithin | KRack.
(* one bookkeeping move with the facts of the books at the moment of the move *)
Record mrec := {
  m_kind : mkind; m_src : N; m_dst : N; m_vid : N; m_shard : N;
  m_dst_free : Z;        (* destination freeEcSlot before the move *)
  m_dst_held : bool;     (* destination already holds (vid, shard) before the move *)
  m_src_rack : N; m_dst_rack : N;
  m_dst_rack_count : Z;  (* shards of vid on the destination rack after the move *)
  m_limit : Z }.         (* ceil(14 / #racks) *)

Inductive item :=
| IEvent (e : event)                        (* printed, books unchanged *)
| IMove (e : event) (m : mrec)              (* printed move + bookkeeping *)
| IDrop (v s src : N) (e : option event).   (* picked shard abandoned (books already lost it) *)

Definition item_events (i : item) : list event :=
  match i with
  | IEvent e => [e]
  | IMove e _ => [e]
  | IDrop _ _ _ (Some e) => [e]
  | IDrop _ _ _ None => []
  end.
Definition events_of (l : list item) : list event := flat_map item_events l.
Definition is_drop (i : item) : bool := match i with IDrop _ _ _ _ => true | _ => false end.

Definition rack_vid_count (ns : list node) (r v : N) : Z :=
  fold_left (fun acc n => if n_rack n =? r then (acc + count (find n v))%Z else acc) ns 0%Z.

Definition mk_mrec (k : mkind) (ns ns' : list node) (limit : Z) (src v s dst : N) : mrec :=
  {| m_kind := k; m_src := src; m_dst := dst; m_vid := v; m_shard := s;
     m_dst_free := node_free ns dst;
     m_dst_held := has (node_bits ns dst v) s;
     m_src_rack := node_rack ns src; m_dst_rack := node_rack ns dst;
     m_dst_rack_count := rack_vid_count ns' (node_rack ns dst) v;
     m_limit := limit |}.

(* ---------- pickOneEcNodeAndMoveOneShard ---------- *)
Definition eligible (ns : list node) (src v : N) (limit : Z) (d : N) : bool :=
  negb (d =? src) && (0 <? node_free ns d)%Z && (count (node_bits ns d v) <? limit)%Z.
(* after sortEcNodesByFreeslotsDecending the first eligible node is an eligible node
   of maximal freeEcSlot (ties in any order); None = loop ends without a move *)
Definition valid_dest (ns : list node) (src v : N) (limit : Z) (dests : list N) (d : option N) : bool :=
  match d with
  | Some x => mem x dests && eligible ns src v limit x &&
              forallb (fun y => negb (eligible ns src v limit y) || (node_free ns y <=? node_free ns x)%Z) dests
  | None => forallb (fun y => negb (eligible ns src v limit y)) dests
  end.

(* ---------- deleteDuplicatedEcShards ---------- *)
Record dd_orc := { dd_vid : N; dd_keeps : list N }.  (* kept node per duplicated shard, ascending shard id *)

Definition holders (ns : list node) (locs : list N) (v s : N) : list N :=
  filter (fun id => has (node_bits ns id v) s) locs.
Fixpoint remove_first (x : N) (l : list N) : list N :=
  match l with [] => [] | y :: l' => if y =? x then l' else y :: remove_first x l' end.

(* doDeduplicateEcShards over shard ids ss *)
Fixpoint dedup_shards (apply : bool) (ns : list node) (locs : list N) (v : N) (ss : list N) (keeps : list N)
  : option (list node * list item) :=
  match ss with
  | [] => match keeps with [] => Some (ns, []) | _ => None end
  | s :: ss' =>
      let hs := holders ns locs v s in
      if (length hs <=? 1)%nat then dedup_shards apply ns locs v ss' keeps
      else match keeps with
           | [] => None
           | k :: keeps' =>
               (* sortEcNodesByFreeslotsAscending; ecNodes[0] is kept *)
               if mem k hs && forallb (fun h => (node_free ns k <=? node_free ns h)%Z) hs then
                 let ns1 := if apply
                            then fold_left (fun acc h => upd_node acc h (del_shard v s)) (remove_first k hs) ns
                            else ns in   (* dry run: `continue` before the bookkeeping *)
                 match dedup_shards apply ns1 locs v ss' keeps' with
                 | Some (ns2, its) => Some (ns2, IEvent (EKeep v s (Z.of_nat (length hs)) k) :: its)
                 | None => None
                 end
               else None
           end
  end.

Fixpoint dedup_vids (apply : bool) (ns : list node) (os : list dd_orc) : option (list node * list item) :=
  match os with
  | [] => Some (ns, [])
  | o :: os' =>
      match dedup_shards apply ns (locations ns (dd_vid o)) (dd_vid o) shard_range (dd_keeps o) with
      | Some (ns1, i1) =>
          match dedup_vids apply ns1 os' with
          | Some (ns2, i2) => Some (ns2, i1 ++ i2)
          | None => None
          end
      | None => None
      end
  end.

Definition dedup_phase (apply : bool) (st : state) (os : list dd_orc) : option (state * list item) :=
  if perm_eqb (map dd_vid os) (all_vids (nodes st)) then
    match dedup_vids apply (nodes st) os with
    | Some (ns, its) => Some ({| nodes := ns; racks := racks st |}, its)
    | None => None
    end
  else None.

(* ---------- pickNEcShardsToMoveFrom ---------- *)
(* candidate = (node id, shardCount) *)
Fixpoint first_nonzero (ns : list node) (v : N) (cands : list (N * Z)) (i : nat) : option (nat * N * N) :=
  match cands with
  | [] => None
  | (id, _) :: cs =>
      let b := node_bits ns id v in
      if 0 <? b then Some (i, id, b) else first_nonzero ns v cs (S i)
  end.

(* ensureSortedEcNodes(data, index, count desc) *)
Fixpoint bubble_left_rev (rp : list (N * Z)) (x : N * Z) (passed : list (N * Z)) : list (N * Z) :=
  match rp with
  | z :: rp' => if (snd x >? snd z)%Z then bubble_left_rev rp' x (z :: passed) else rev rp ++ x :: passed
  | [] => x :: passed
  end.
Fixpoint bubble_right (y : N * Z) (post : list (N * Z)) : list (N * Z) :=
  match post with
  | z :: post' => if (snd z >? snd y)%Z then z :: bubble_right y post' else y :: post
  | [] => [y]
  end.
Definition ensure_sorted (l : list (N * Z)) (idx : nat) : list (N * Z) :=
  match skipn idx l with
  | [] => l
  | x :: post =>
      let l1 := bubble_left_rev (rev (firstn idx l)) x [] ++ post in
      match skipn idx l1 with
      | [] => l1
      | y :: post1 => firstn idx l1 ++ bubble_right y post1
      end
  end.
Fixpoint dec_at (l : list (N * Z)) (i : nat) : list (N * Z) :=
  match l, i with
  | [], _ => []
  | (id, c) :: l', O => (id, (c - 1)%Z) :: l'
  | x :: l', S i' => x :: dec_at l' i'
  end.

Fixpoint pick_n (n : nat) (v : N) (cands : list (N * Z)) (ns : list node) (picked : list (N * N))
  : list node * list (N * N) :=
  match n with
  | O => (ns, picked)
  | S n' =>
      match first_nonzero ns v cands O with
      | None => (ns, picked)
      | Some (i, id, b) =>
          match shard_ids b with
          | [] => (ns, picked)
          | s :: _ =>
              (* picked[shardId] = node; node.deleteEcVolumeShards(vid, [shardId]) *)
              pick_n n' v (ensure_sorted (dec_at cands i) i) (upd_node ns id (del_shard v s)) (pset picked s id)
          end
      end
  end.

Fixpoint sorted_desc (l : list Z) : bool :=
  match l with
  | x :: ((y :: _) as l') => (y <=? x)%Z && sorted_desc l'
  | _ => true
  end.

(* the candidate slice after sort.Slice(count desc): a permutation of the nodes of
   the rack that hold >0 shards of vid, sorted by count (ties in any order) *)
Definition valid_cands (ns : list node) (possible : list N) (v : N) (cands : list N) : bool :=
  perm_eqb cands (filter (fun id => (0 <? count (node_bits ns id v))%Z) possible) &&
  sorted_desc (map (fun id => count (node_bits ns id v)) cands).

(* first loop of doBalanceEcShardsAcrossRacks: racks in oracle order *)
Fixpoint pick_racks (ns : list node) (v : N) (avg : Z) (rsc : list (N * Z)) (locs : list N)
         (ro : list (N * list N)) (picked : list (N * N)) : option (list node * list (N * N)) :=
  match ro with
  | [] => Some (ns, picked)
  | (r, cands) :: ro' =>
      let cnt := alookup rsc r in
      if (cnt >? avg)%Z then
        let possible := filter (fun id => node_rack ns id =? r) locs in
        if valid_cands ns possible v cands then
          let '(ns1, picked1) :=
            pick_n (Z.to_nat (cnt - avg)) v (map (fun id => (id, count (node_bits ns id v))) cands) ns picked in
          pick_racks ns1 v avg rsc locs ro' picked1
        else None
      else pick_racks ns v avg rsc locs ro' picked
  end.

(* ---------- doBalanceEcShardsAcrossRacks ---------- *)
Inductive choice :=
| NoRack                         (* pickOneRack returned "" *)
| ToRack (r : N) (d : option N). (* rack r; destination node or none found *)

Record av_orc := {
  av_vid : N;
  av_racks : list (N * list N);   (* iteration order of rackToShardCount, candidate order per rack *)
  av_moves : list (N * choice) }. (* iteration order of ecShardsToMove with the choices made *)

(* pickOneRack: a rack qualifies when its count is below average and it has a free slot *)
Definition rack_ok (st : state) (rsc : list (N * Z)) (avg : Z) (r : N) : bool :=
  (alookup rsc r <? avg)%Z && (0 <? alookup (racks st) r)%Z.

Fixpoint across_moves (c v : N) (avg : Z) (st : state) (rsc : list (N * Z)) (picked : list (N * N))
         (ms : list (N * choice)) : option (state * list item) :=
  match ms with
  | [] => match picked with [] => Some (st, []) | _ => None end
  | (s, ch) :: ms' =>
      match ptake picked s with
      | None => None
      | Some (src, picked') =>
          match ch with
          | NoRack =>
              if existsb (rack_ok st rsc avg) (rack_ids st) then None
              else match across_moves c v avg st rsc picked' ms' with
                   | Some (st', its) => Some (st', IDrop v s src (Some (ENoRack v s src)) :: its)
                   | None => None
                   end
          | ToRack r d =>
              if mem r (rack_ids st) && rack_ok st rsc avg r then
                let ns := nodes st in
                let dests := rack_node_ids ns r in
                if valid_dest ns src v avg dests d then
                  let srack := node_rack ns src in
                  let rsc' := aadd (aadd rsc r 1%Z) srack (-1)%Z in
                  let racks' := aadd (aadd (racks st) r (-1)%Z) srack 1%Z in
                  match d with
                  | Some dst =>
                      let ns' := move_shard ns src v c s dst in
                      match across_moves c v avg {| nodes := ns'; racks := racks' |} rsc' picked' ms' with
                      | Some (st', its) =>
                          Some (st', IMove (EMove src v s dst)
                                       (mk_mrec KAcross ns ns' avg src v s dst) :: its)
                      | None => None
                      end
                  | None =>
                      match across_moves c v avg {| nodes := ns; racks := racks' |} rsc' picked' ms' with
                      | Some (st', its) => Some (st', IDrop v s src None :: its)
                      | None => None
                      end
                  end
                else None
              else None
          end
      end
  end.

Definition across_vid (c : N) (st : state) (o : av_orc) : option (state * list item) :=
  let v := av_vid o in
  let ns := nodes st in
  let locs := locations ns v in
  let avg := ceil_div total_shards (Z.of_nat (length (racks st))) in
  let rsc := group_count ns locs v in
  if perm_eqb (map fst (av_racks o)) (map fst rsc) then
    match pick_racks ns v avg rsc locs (av_racks o) [] with
    | Some (ns1, picked) =>
        across_moves c v avg {| nodes := ns1; racks := racks st |} rsc picked (av_moves o)
    | None => None
    end
  else None.

Fixpoint across_vids (c : N) (st : state) (os : list av_orc) : option (state * list item) :=
  match os with
  | [] => Some (st, [])
  | o :: os' =>
      match across_vid c st o with
      | Some (st1, i1) =>
          match across_vids c st1 os' with
          | Some (st2, i2) => Some (st2, i1 ++ i2)
          | None => None
          end
      | None => None
      end
  end.

Definition across_phase (c : N) (st : state) (os : list av_orc) : option (state * list item) :=
  if perm_eqb (map av_vid os) (all_vids (nodes st)) then across_vids c st os else None.

(* ---------- balanceEcShardsWithinRacks ---------- *)
Record wr_orc := { wr_rack : N; wr_dests : list (option N) }.  (* one choice per "overlimit" line *)
Record wv_orc := { wv_vid : N; wv_racks : list wr_orc }.

(* inner loop of doBalanceEcShardsWithinOneRack for one source node *)
Fixpoint within_shards (c v : N) (avgn : Z) (nracks : nat) (ns : list node) (src : N) (dests : list N)
         (ss : list N) (over : Z) (ch : list (option N)) : option (list node * list item * list (option N)) :=
  match ss with
  | [] => Some (ns, [], ch)
  | s :: ss' =>
      if (over <=? 0)%Z then Some (ns, [], ch)
      else match ch with
           | [] => None
           | d :: ch' =>
               if valid_dest ns src v avgn dests d then
                 match d with
                 | Some dst =>
                     let ns' := move_shard ns src v c s dst in
                     match within_shards c v avgn nracks ns' src dests ss' (over - 1)%Z ch' with
                     | Some (ns2, its, ch2) =>
                         Some (ns2, IEvent (EOver src over v s) ::
                                    IMove (EMove src v s dst) (mk_mrec KWithin ns ns' (ceil_div total_shards (Z.of_nat nracks)) src v s dst) :: its, ch2)
                     | None => None
                     end
                 | None =>
                     match within_shards c v avgn nracks ns src dests ss' (over - 1)%Z ch' with
                     | Some (ns2, its, ch2) => Some (ns2, IEvent (EOver src over v s) :: its, ch2)
                     | None => None
                     end
                 end
               else None
           end
  end.

Fixpoint within_sources (c v : N) (avgn : Z) (nracks : nat) (ns : list node) (srcs dests : list N)
         (ch : list (option N)) : option (list node * list item * list (option N)) :=
  match srcs with
  | [] => Some (ns, [], ch)
  | src :: srcs' =>
      let b := node_bits ns src v in
      match within_shards c v avgn nracks ns src dests (shard_ids b) (count b - avgn)%Z ch with
      | Some (ns1, i1, ch1) =>
          match within_sources c v avgn nracks ns1 srcs' dests ch1 with
          | Some (ns2, i2, ch2) => Some (ns2, i1 ++ i2, ch2)
          | None => None
          end
      | None => None
      end
  end.

Fixpoint within_racks (c v : N) (nracks : nat) (rsc : list (N * Z)) (locs : list N) (ns : list node)
         (ros : list wr_orc) : option (list node * list item) :=
  match ros with
  | [] => Some (ns, [])
  | ro :: ros' =>
      let r := wr_rack ro in
      let dests := filter (node_has_disk ns) (rack_node_ids ns r) in
      let srcs := filter (fun id => node_rack ns id =? r) locs in
      let avgn := ceil_div (alookup rsc r) (Z.of_nat (length dests)) in
      match within_sources c v avgn nracks ns srcs dests (wr_dests ro) with
      | Some (ns1, i1, []) =>
          match within_racks c v nracks rsc locs ns1 ros' with
          | Some (ns2, i2) => Some (ns2, i1 ++ i2)
          | None => None
          end
      | _ => None
      end
  end.

Definition within_vid (c : N) (nracks : nat) (ns : list node) (o : wv_orc) : option (list node * list item) :=
  let v := wv_vid o in
  let locs := locations ns v in
  let rsc := group_count ns locs v in
  if perm_eqb (map wr_rack (wv_racks o)) (map fst rsc) then within_racks c v nracks rsc locs ns (wv_racks o)
  else None.

Fixpoint within_vids (c : N) (nracks : nat) (ns : list node) (os : list wv_orc) : option (list node * list item) :=
  match os with
  | [] => Some (ns, [])
  | o :: os' =>
      match within_vid c nracks ns o with
      | Some (ns1, i1) =>
          match within_vids c nracks ns1 os' with
          | Some (ns2, i2) => Some (ns2, i1 ++ i2)
          | None => None
          end
      | None => None
      end
  end.

Definition within_phase (c : N) (st : state) (os : list wv_orc) : option (state * list item) :=
  if perm_eqb (map wv_vid os) (all_vids (nodes st)) then
    match within_vids c (length (racks st)) (nodes st) os with
    | Some (ns, its) => Some ({| nodes := ns; racks := racks st |}, its)
    | None => None
    end
  else None.

(* ---------- balanceEcVolumes ---------- *)
Record round_orc := { ro_coll : N; ro_dedup : list dd_orc; ro_across : list av_orc; ro_within : list wv_orc }.

Definition round (apply : bool) (st : state) (o : round_orc) : option (state * list item) :=
  match dedup_phase apply st (ro_dedup o) with
  | Some (st1, i1) =>
      match across_phase (ro_coll o) st1 (ro_across o) with
      | Some (st2, i2) =>
          match within_phase (ro_coll o) st2 (ro_within o) with
          | Some (st3, i3) => Some (st3, IEvent (ERound (ro_coll o)) :: i1 ++ i2 ++ i3)
          | None => None
          end
      | None => None
      end
  | None => None
  end.

Fixpoint rounds (apply : bool) (st : state) (os : list round_orc) : option (state * list item) :=
  match os with
  | [] => Some (st, [])
  | o :: os' =>
      match round apply st o with
      | Some (st1, i1) =>
          match rounds apply st1 os' with
          | Some (st2, i2) => Some (st2, i1 ++ i2)
          | None => None
          end
      | None => None
      end
  end.

(* ---------- balanceEcRacks / doBalanceEcRack ---------- *)
Record rb_orc := { rb_rack : N; rb_steps : list (N * N) }.  (* (emptyNode, fullNode) of every loop iteration *)

Definition node_total (ns : list node) (id : N) : Z :=
  match get_node ns id with
  | Some n => fold_left (fun acc e => (acc + count (e_bits e))%Z) (entries n) 0%Z
  | None => 0%Z
  end.
Definition node_entries (ns : list node) (id : N) : list entry :=
  match get_node ns id with Some n => entries n | None => [] end.

(* after sort.Slice(freeEcSlot desc): [0] has maximal, [len-1] minimal freeEcSlot, distinct positions *)
Definition valid_ends (ns : list node) (ids : list N) (e f : N) : bool :=
  mem e ids && mem f ids && negb (e =? f) &&
  forallb (fun x => (node_free ns x <=? node_free ns e)%Z && (node_free ns f <=? node_free ns x)%Z) ids.

Fixpoint first_foreign (es : list entry) (empty_vids : list N) : option entry :=
  match es with
  | [] => None
  | e :: es' => if mem (e_vid e) empty_vids then first_foreign es' empty_vids else Some e
  end.

Fixpoint rack_loop (nracks : nat) (ns : list node) (ids : list N) (cnts : list (N * Z)) (avg : Z)
         (steps : list (N * N)) : option (list node * list item) :=
  match steps with
  | [] => None   (* the loop always ends with an iteration that moves nothing *)
  | (e, f) :: rest =>
      if valid_ends ns ids e f then
        let stop := match rest with [] => Some (ns, []) | _ => None end in
        (* ... && emptyNode.freeEcSlot > 0  (repaired: the destination needs a free slot) *)
        if (alookup cnts f >? avg)%Z && (alookup cnts e + 1 <=? avg)%Z && (0 <? node_free ns e)%Z then
          match first_foreign (node_entries ns f) (map e_vid (node_entries ns e)) with
          | None => stop
          | Some en =>
              match shard_ids (e_bits en) with
              | [] => stop
              | s :: _ =>
                  let v := e_vid en in
                  let ns' := move_shard ns f v (e_coll en) s e in
                  match rack_loop nracks ns' ids (aadd (aadd cnts e 1%Z) f (-1)%Z) avg rest with
                  | Some (ns2, its) =>
                      Some (ns2, IMove (ERackMove f v s e) (mk_mrec KRack ns ns' (ceil_div total_shards (Z.of_nat nracks)) f v s e) :: its)
                  | None => None
                  end
              end
          end
        else stop
      else None
  end.

Definition balance_rack (nracks : nat) (ns : list node) (o : rb_orc) : option (list node * list item) :=
  let ids := rack_node_ids ns (rb_rack o) in
  if (length ids <=? 1)%nat then
    match rb_steps o with [] => Some (ns, []) | _ => None end
  else
    let cnts := map (fun id => (id, node_total ns id)) ids in
    let total := fold_left (fun acc p => (acc + snd p)%Z) cnts 0%Z in
    rack_loop nracks ns ids cnts (ceil_div total (Z.of_nat (length ids))) (rb_steps o).

Fixpoint balance_racks_list (nracks : nat) (ns : list node) (os : list rb_orc) : option (list node * list item) :=
  match os with
  | [] => Some (ns, [])
  | o :: os' =>
      match balance_rack nracks ns o with
      | Some (ns1, i1) =>
          match balance_racks_list nracks ns1 os' with
          | Some (ns2, i2) => Some (ns2, i1 ++ i2)
          | None => None
          end
      | None => None
      end
  end.

Definition balance_racks (st : state) (os : list rb_orc) : option (state * list item) :=
  if perm_eqb (map rb_rack os) (rack_ids st) then
    match balance_racks_list (length (racks st)) (nodes st) os with
    | Some (ns, its) => Some ({| nodes := ns; racks := racks st |}, its)
    | None => None
    end
  else None.

(* ---------- commandEcBalance.Do after collectEcNodes ---------- *)
Record plan_orc := { po_rounds : list round_orc; po_racks : option (list rb_orc) }.
(* po_racks = None: only balanceEcVolumes is run (entry point without balanceEcRacks) *)

Definition init_state (ns : list node) : state := {| nodes := ns; racks := collect_racks ns |}.

Definition run_plan (apply : bool) (st : state) (o : plan_orc) : option (state * list item) :=
  match rounds apply st (po_rounds o) with
  | Some (st1, i1) =>
      match po_racks o with
      | Some rbs =>
          match balance_racks st1 rbs with
          | Some (st2, i2) => Some (st2, i1 ++ i2)
          | None => None
          end
      | None => Some (st1, i1)
      end
  | None => None
  end.

(* ---------- observables used by the theorems ---------- *)
(* number of nodes whose books hold shard s of volume v *)
Definition total (ns : list node) (v s : N) : nat :=
  length (filter (fun n => has (find n v) s) ns).

(* trigger of finding 1: some shard is on more than one node in the snapshot *)
Definition has_dup (ns : list node) : bool :=
  existsb (fun v => existsb (fun s => (1 <? total ns v s)%nat) bit_range) (all_vids ns).
(* EcIndexBits is a uint32 *)
Definition bits32 (ns : list node) : bool :=
  forallb (fun n => forallb (fun e => e_bits e <? 4294967296) (entries n)) ns.
(* trigger of finding 0: a picked shard was abandoned *)
Definition has_drop (its : list item) : bool := existsb is_drop its.

(* ---------- per key (volume, shard) versions of the two triggers ---------- *)
(* finding 1, per key: shard s of volume v is on more than one node in the snapshot *)
Definition dup_key (ns : list node) (v s : N) : bool := (1 <? total ns v s)%nat.
(* finding 0, per key: the run abandoned a picked shard s of volume v *)
Definition drop_of (v s : N) (i : item) : bool :=
  match i with IDrop v' s' _ _ => (v' =? v) && (s' =? s) | _ => false end.
Definition drops_key (its : list item) (v s : N) : bool := existsb (drop_of v s) its.
(* an abandoned pick that prints nothing (rack found, no node in it) *)
Definition is_silent_drop (i : item) : bool := match i with IDrop _ _ _ None => true | _ => false end.
(* "can not find a destination rack" lines for shard s of volume v in the printed plan *)
Definition norack_of (v s : N) (e : event) : bool :=
  match e with ENoRack v' s' _ => (v' =? v) && (s' =? s) | _ => false end.
Definition printed_norack (evs : list event) (v s : N) : bool := existsb (norack_of v s) evs.

(* ---------- commandEcBalance.Do: the gate after collectEcNodes ---------- *)
(* totalFreeEcSlots = sum of the per-node free slots; Do returns an error when it is < 1 *)
Definition total_free (ns : list node) : Z := fold_left (fun acc n => (acc + n_free n)%Z) ns 0%Z.
Definition gate (ns : list node) : bool := (1 <=? total_free ns)%Z.
(* None = refused ("no free ec shard slots"), nothing planned *)
Definition ec_balance_do (ns : list node) (o : plan_orc) : option (option (state * list item)) :=
  if gate ns then Some (run_plan false (init_state ns) o) else None.

(* snapshot-decidable: every volume already respects the spread limit on every rack
   (then balanceEcShardsAcrossRacks picks nothing, so nothing can be abandoned) *)
Definition rack_balanced (ns : list node) : bool :=
  let rk := collect_racks ns in
  let avg := ceil_div total_shards (Z.of_nat (length rk)) in
  forallb (fun v => forallb (fun r => (rack_vid_count ns r v <=? avg)%Z) (map fst rk)) (all_vids ns).
