(* Model of the filer metadata codec and of what an embedded store keeps (C24):
     weed/filer/entry_codec.go, entry.go           entry <-> filer_pb.Entry
     weed/pb/filer_pb/filer_pb_helper.go            Before/AfterEntrySerialization
     weed/storage/needle/file_id.go, needle.go      file id text <-> (volume, key, cookie)
     weed/filer/filerstore_wrapper.go, filerstore_hardlink.go
     weed/filer/leveldb{,2,3}/*_store.go            InsertEntry / FindEntry / List
   protobuf and gzip are ORACLES (a record the functions take as an argument);
   the compression decisions come from model/UploadCodec.v.  Executable
   definitions only; proofs are in proof/EntryCodecProofs.v. *)
From Coq Require Import List NArith ZArith Bool String Ascii Decimal DecimalN.
From SW Require Import model.UploadCodec.
Import ListNotations.
Local Open Scope N_scope.

(* ------------------------------------------------------------------------- *)
(* file id strings (as byte codes)                                            *)
Definition fidstr := list N.

Record fid := { f_vid : N (* uint32 *); f_key : N (* uint64 *); f_cookie : N (* uint32 *) }.

Definition fid_wf (f : fid) : bool :=
  (f_vid f <? 4294967296) && (f_key f <? 18446744073709551616) && (f_cookie f <? 4294967296).

Fixpoint bytes_eqb (a b : list N) : bool :=
  match a, b with
  | [], [] => true
  | x :: a', y :: b' => (x =? y) && bytes_eqb a' b'
  | _, _ => false
  end.

Definition fid_eqb (a b : fid) : bool :=
  (f_vid a =? f_vid b) && (f_key a =? f_key b) && (f_cookie a =? f_cookie b).

(* --- decimal (strconv.FormatUint / ParseUint base 10) via Coq's Decimal --- *)
Fixpoint uint_digits (d : Decimal.uint) : list N :=
  match d with
  | Nil => []
  | D0 d => 48 :: uint_digits d | D1 d => 49 :: uint_digits d | D2 d => 50 :: uint_digits d
  | D3 d => 51 :: uint_digits d | D4 d => 52 :: uint_digits d | D5 d => 53 :: uint_digits d
  | D6 d => 54 :: uint_digits d | D7 d => 55 :: uint_digits d | D8 d => 56 :: uint_digits d
  | D9 d => 57 :: uint_digits d
  end.

Definition dec_of_N (n : N) : list N := uint_digits (N.to_uint n).

Definition uint_cons (c : N) (d : Decimal.uint) : option Decimal.uint :=
  match c with
  | 48 => Some (D0 d) | 49 => Some (D1 d) | 50 => Some (D2 d) | 51 => Some (D3 d) | 52 => Some (D4 d)
  | 53 => Some (D5 d) | 54 => Some (D6 d) | 55 => Some (D7 d) | 56 => Some (D8 d) | 57 => Some (D9 d)
  | _ => None
  end.

Fixpoint digits_uint (l : list N) : option Decimal.uint :=
  match l with
  | [] => Some Nil
  | c :: l' => match digits_uint l' with Some d => uint_cons c d | None => None end
  end.

(* ParseUint(s, 10, 64) without the range check: digits only, not empty *)
Definition parse_dec (l : list N) : option N :=
  match l with
  | [] => None
  | _ => match digits_uint l with Some d => Some (N.of_uint d) | None => None end
  end.

(* --- hexadecimal --- *)
Definition hex_val (c : N) : option N :=
  if (48 <=? c) && (c <=? 57) then Some (c - 48)
  else if (97 <=? c) && (c <=? 102) then Some (c - 87)
  else if (65 <=? c) && (c <=? 70) then Some (c - 55)
  else None.

Fixpoint parse_hex_acc (acc : N) (l : list N) : option N :=
  match l with
  | [] => Some acc
  | c :: l' => match hex_val c with Some v => parse_hex_acc (acc * 16 + v) l' | None => None end
  end.

(* ParseUint(s, 16, 64) on at most 16 characters (no overflow possible) *)
Definition parse_hex (l : list N) : option N :=
  match l with [] => None | _ => parse_hex_acc 0 l end.

Definition hex_digit (v : N) : N := if v <? 10 then 48 + v else 87 + v.
Definition hex_byte (b : N) : list N := [hex_digit (b / 16); hex_digit (b mod 16)].

(* k bytes, big endian, of n mod 256^k *)
Fixpoint be_bytes (k : nat) (n : N) : list N :=
  match k with
  | O => []
  | S k' => be_bytes k' (n / 256) ++ [n mod 256]
  end.

(* formatNeedleIdCookie (working tree, repaired: `nonzero_index < NeedleIdSize-1`): at most
   NeedleIdSize-1 = 7 leading zero bytes are dropped, so one key byte is always printed *)
Fixpoint strip_zero_bytes (fuel : nat) (l : list N) : list N :=
  match fuel, l with
  | S f, 0 :: l' => strip_zero_bytes f l'
  | _, _ => l
  end.

Definition format_key_cookie (key cookie : N) : list N :=
  flat_map hex_byte (strip_zero_bytes 7 (be_bytes 8 key ++ be_bytes 4 cookie)).

(* FileId.String *)
Definition format_fid (f : fid) : fidstr :=
  dec_of_N (f_vid f) ++ 44 :: format_key_cookie (f_key f) (f_cookie f).

(* splitVolumeId: strings.Index(fid, ","), commaIndex <= 0 is an error *)
Fixpoint split_comma (l : list N) : option (list N * list N) :=
  match l with
  | [] => None
  | c :: l' =>
      if c =? 44 then Some ([], l')
      else match split_comma l' with Some (a, b) => Some (c :: a, b) | None => None end
  end.

(* ParseNeedleIdCookie: CookieSize*2 = 8 < len <= (NeedleIdSize+CookieSize)*2 = 24 *)
Definition parse_key_cookie (kc : list N) : option (N * N) :=
  let n := List.length kc in
  if Nat.leb n 8 then None
  else if Nat.ltb 24 n then None
  else match parse_hex (firstn (n - 8) kc), parse_hex (skipn (n - 8) kc) with
       | Some k, Some c => Some (k, c)
       | _, _ => None
       end.

(* ParseFileIdFromString / ToFileIdObject; NewVolumeId is ParseUint(vid, 10, 32) *)
Definition parse_fid (s : fidstr) : option fid :=
  match split_comma s with
  | Some (v, kc) =>
      match v with
      | [] => None
      | _ => match parse_dec v with
             | Some vid =>
                 if vid <? 4294967296 then
                   match parse_key_cookie kc with
                   | Some (k, c) => Some {| f_vid := vid; f_key := k; f_cookie := c |}
                   | None => None
                   end
                 else None
             | None => None
             end
      end
  | None => None
  end.

(* ------------------------------------------------------------------------- *)
(* chunks                                                                     *)
Record chunk := {
  c_file_id : fidstr; c_offset : Z; c_size : N; c_mtime : Z; c_etag : string;
  c_source_file_id : fidstr; c_fid : option fid; c_source_fid : option fid;
  c_cipher_key : bytes; c_is_compressed : bool; c_is_manifest : bool }.

Definition nonempty {A} (l : list A) : bool := match l with [] => false | _ => true end.

(* `if chunk.FileId != "" { if fid, err := ToFileIdObject(chunk.FileId); err == nil { chunk.Fid = fid; chunk.FileId = "" } }` *)
Definition before_id (s : fidstr) (f : option fid) : fidstr * option fid :=
  if nonempty s then
    match parse_fid s with Some x => ([], Some x) | None => (s, f) end
  else (s, f).

(* `if chunk.Fid != nil && chunk.FileId == "" { chunk.FileId = chunk.Fid.toFileIdString() }` *)
Definition after_id (s : fidstr) (f : option fid) : fidstr :=
  match f with
  | Some x => if nonempty s then s else format_fid x
  | None => s
  end.

(* BeforeEntrySerialization, one chunk *)
Definition before_chunk (c : chunk) : chunk :=
  let i := before_id (c_file_id c) (c_fid c) in
  let s := before_id (c_source_file_id c) (c_source_fid c) in
  {| c_file_id := fst i; c_offset := c_offset c; c_size := c_size c; c_mtime := c_mtime c; c_etag := c_etag c;
     c_source_file_id := fst s; c_fid := snd i; c_source_fid := snd s; c_cipher_key := c_cipher_key c;
     c_is_compressed := c_is_compressed c; c_is_manifest := c_is_manifest c |}.

(* AfterEntryDeserialization, one chunk *)
Definition after_chunk (c : chunk) : chunk :=
  {| c_file_id := after_id (c_file_id c) (c_fid c); c_offset := c_offset c; c_size := c_size c;
     c_mtime := c_mtime c; c_etag := c_etag c;
     c_source_file_id := after_id (c_source_file_id c) (c_source_fid c);
     c_fid := c_fid c; c_source_fid := c_source_fid c; c_cipher_key := c_cipher_key c;
     c_is_compressed := c_is_compressed c; c_is_manifest := c_is_manifest c |}.

(* GetFileIdString semantics: what a reader of the chunk uses as its file id *)
Definition id_string (s : fidstr) (f : option fid) : fidstr :=
  if nonempty s then s else match f with Some x => format_fid x | None => [] end.

Definition view_chunk (c : chunk) : chunk :=
  {| c_file_id := id_string (c_file_id c) (c_fid c); c_offset := c_offset c; c_size := c_size c;
     c_mtime := c_mtime c; c_etag := c_etag c;
     c_source_file_id := id_string (c_source_file_id c) (c_source_fid c);
     c_fid := None; c_source_fid := None; c_cipher_key := c_cipher_key c;
     c_is_compressed := c_is_compressed c; c_is_manifest := c_is_manifest c |}.

(* ------------------------------------------------------------------------- *)
(* filer.Attr / filer_pb.FuseAttributes.  A time.Time is its Unix() seconds and
   its Nanosecond() part; the wire format carries the seconds only            *)
Record attr := {
  a_mtime : Z; a_mtime_ns : N; a_crtime : Z; a_crtime_ns : N; a_mode : N (* os.FileMode, uint32 *); a_uid : N; a_gid : N;
  a_mime : string; a_replication : string; a_collection : string; a_ttl_sec : Z;
  a_disk_type : string; a_user_name : string; a_group_names : list string;
  a_symlink_target : string; a_md5 : bytes; a_file_size : N }.

Record pb_attr := {
  p_file_size : N; p_mtime : Z; p_file_mode : N; p_uid : N; p_gid : N; p_crtime : Z;
  p_mime : string; p_replication : string; p_collection : string; p_ttl_sec : Z;
  p_user_name : string; p_group_name : list string; p_symlink_target : string;
  p_md5 : bytes; p_disk_type : string }.

(* EntryAttributeToPb *)
Definition attr_to_pb (a : attr) : pb_attr :=
  {| p_file_size := a_file_size a; p_mtime := a_mtime a; p_file_mode := a_mode a;
     p_uid := a_uid a; p_gid := a_gid a; p_crtime := a_crtime a; p_mime := a_mime a;
     p_replication := a_replication a; p_collection := a_collection a; p_ttl_sec := a_ttl_sec a;
     p_user_name := a_user_name a; p_group_name := a_group_names a;
     p_symlink_target := a_symlink_target a; p_md5 := a_md5 a; p_disk_type := a_disk_type a |}.

(* the zero Attr: time.Time{}.Unix() *)
Definition zero_time : Z := (-62135596800)%Z.
Definition zero_attr : attr :=
  {| a_mtime := zero_time; a_mtime_ns := 0; a_crtime := zero_time; a_crtime_ns := 0; a_mode := 0; a_uid := 0; a_gid := 0;
     a_mime := ""; a_replication := ""; a_collection := ""; a_ttl_sec := 0%Z; a_disk_type := "";
     a_user_name := ""; a_group_names := []; a_symlink_target := ""; a_md5 := []; a_file_size := 0 |}.

(* PbToEntryAttribute: `t.Crtime = time.Unix(attr.Crtime, 0)`, `t.Mtime = time.Unix(attr.Mtime, 0)` *)
Definition pb_to_attr (o : option pb_attr) : attr :=
  match o with
  | None => zero_attr
  | Some p =>
      {| a_mtime := p_mtime p; a_mtime_ns := 0; a_crtime := p_crtime p; a_crtime_ns := 0; a_mode := p_file_mode p; a_uid := p_uid p;
         a_gid := p_gid p; a_mime := p_mime p; a_replication := p_replication p;
         a_collection := p_collection p; a_ttl_sec := p_ttl_sec p; a_disk_type := p_disk_type p;
         a_user_name := p_user_name p; a_group_names := p_group_name p;
         a_symlink_target := p_symlink_target p; a_md5 := p_md5 p; a_file_size := p_file_size p |}
  end.

Record remote := { rm_last_modified_at : Z; rm_size : Z; rm_etag : string }.

(* filer.Entry without its path *)
Record entry := {
  e_attr : attr; e_extended : list (string * bytes); e_chunks : list chunk;
  e_hard_link_id : bytes; e_hard_link_counter : Z; e_content : bytes; e_remote : option remote }.

(* filer_pb.Entry as EncodeAttributesAndChunks fills it (name is never set) *)
Record pb_entry := {
  m_is_directory : bool; m_chunks : list chunk; m_attributes : option pb_attr;
  m_extended : list (string * bytes); m_hard_link_id : bytes; m_hard_link_counter : Z;
  m_content : bytes; m_remote : option remote }.

(* attr.Mode & os.ModeDir > 0, ModeDir = 1 << 31 *)
Definition is_directory (a : attr) : bool := N.testbit (a_mode a) 31.

(* ToExistingProtoEntry *)
Definition to_pb (e : entry) : pb_entry :=
  {| m_is_directory := is_directory (e_attr e); m_chunks := e_chunks e;
     m_attributes := Some (attr_to_pb (e_attr e)); m_extended := e_extended e;
     m_hard_link_id := e_hard_link_id e; m_hard_link_counter := e_hard_link_counter e;
     m_content := e_content e; m_remote := e_remote e |}.

(* FromPbEntryToExistingEntry *)
Definition from_pb (m : pb_entry) : entry :=
  {| e_attr := pb_to_attr (m_attributes m); e_extended := m_extended m; e_chunks := m_chunks m;
     e_hard_link_id := m_hard_link_id m; e_hard_link_counter := m_hard_link_counter m;
     e_content := m_content m; e_remote := m_remote m |}.

(* the tag byte of the first field golang/protobuf writes (fields in number order;
   zero values are skipped): is_directory=2 varint, chunks=3, attributes=4,
   extended=5, hard_link_id=7, hard_link_counter=8 varint, content=9, remote=10 *)
Definition pb_first_byte (m : pb_entry) : option N :=
  if m_is_directory m then Some 16
  else if nonempty (m_chunks m) then Some 26
  else match m_attributes m with
  | Some _ => Some 34
  | None =>
  if nonempty (m_extended m) then Some 42
  else if nonempty (m_hard_link_id m) then Some 58
  else if negb (Z.eqb (m_hard_link_counter m) 0) then Some 64
  else if nonempty (m_content m) then Some 74
  else match m_remote m with Some _ => Some 82 | None => None end
  end.

(* ------------------------------------------------------------------------- *)
(* FilerStoreWrapper.InsertEntry / UpdateEntry, before the store is called     *)
Definition octet_stream : string := "application/octet-stream".

Definition set_mime (a : attr) (m : string) : attr :=
  {| a_mtime := a_mtime a; a_mtime_ns := a_mtime_ns a; a_crtime := a_crtime a; a_crtime_ns := a_crtime_ns a;
     a_mode := a_mode a; a_uid := a_uid a; a_gid := a_gid a;
     a_mime := m; a_replication := a_replication a; a_collection := a_collection a;
     a_ttl_sec := a_ttl_sec a; a_disk_type := a_disk_type a; a_user_name := a_user_name a;
     a_group_names := a_group_names a; a_symlink_target := a_symlink_target a; a_md5 := a_md5 a;
     a_file_size := a_file_size a |}.

Definition set_attr_chunks (e : entry) (a : attr) (cs : list chunk) : entry :=
  {| e_attr := a; e_extended := e_extended e; e_chunks := cs; e_hard_link_id := e_hard_link_id e;
     e_hard_link_counter := e_hard_link_counter e; e_content := e_content e; e_remote := e_remote e |}.

(* BeforeEntrySerialization(entry.Chunks); if entry.Mime == "application/octet-stream" { entry.Mime = "" } *)
Definition prepare (e : entry) : entry :=
  set_attr_chunks e
    (if String.eqb (a_mime (e_attr e)) octet_stream then set_mime (e_attr e) "" else e_attr e)
    (map before_chunk (e_chunks e)).

(* AfterEntryDeserialization(entry.Chunks) *)
Definition finish (e : entry) : entry := set_attr_chunks e (e_attr e) (map after_chunk (e_chunks e)).

(* AfterEntryDeserialization . BeforeEntrySerialization with the Mime rule *)
Definition canon (e : entry) : entry := finish (prepare e).

(* what the wire format keeps of an entry: whole seconds of Mtime and Crtime *)
Definition wire_attr (a : attr) : attr :=
  {| a_mtime := a_mtime a; a_mtime_ns := 0; a_crtime := a_crtime a; a_crtime_ns := 0;
     a_mode := a_mode a; a_uid := a_uid a; a_gid := a_gid a;
     a_mime := a_mime a; a_replication := a_replication a; a_collection := a_collection a;
     a_ttl_sec := a_ttl_sec a; a_disk_type := a_disk_type a; a_user_name := a_user_name a;
     a_group_names := a_group_names a; a_symlink_target := a_symlink_target a; a_md5 := a_md5 a;
     a_file_size := a_file_size a |}.
Definition wire (e : entry) : entry := set_attr_chunks e (wire_attr (e_attr e)) (e_chunks e).

(* what a lookup (FilerStoreWrapper.FindEntry) or a wrapper listing returns for an
   entry that was written as e; the embedded stores' own prefixed listing (the
   filer's production listing path) returns [wire (prepare e)] *)
Definition read_back (e : entry) : entry := wire (canon e).

(* the reader's view of an entry: file ids through GetFileIdString *)
Definition view (e : entry) : entry := set_attr_chunks e (e_attr e) (map view_chunk (e_chunks e)).

(* canonicalisation of one file id string *)
Definition canon_str (s : fidstr) : fidstr :=
  match parse_fid s with Some f => format_fid f | None => s end.

Definition fidstr_canonical (s : fidstr) : bool := bytes_eqb (canon_str s) s.

Definition chunk_canonical (c : chunk) : bool :=
  fidstr_canonical (c_file_id c) && fidstr_canonical (c_source_file_id c).

(* ------------------------------------------------------------------------- *)
(* byte order of names (bytes.Compare on the key bytes after the common prefix) *)
Fixpoint str_leb (a b : string) : bool :=
  match a, b with
  | EmptyString, _ => true
  | String _ _, EmptyString => false
  | String x a', String y b' =>
      let nx := N_of_ascii x in let ny := N_of_ascii y in
      if nx <? ny then true else if ny <? nx then false else str_leb a' b'
  end.

(* insertion into an ascending list without duplicates *)
Fixpoint insert_name (n : string) (l : list string) : list string :=
  match l with
  | [] => [n]
  | m :: l' => if String.eqb n m then l else if str_leb n m then n :: l else m :: insert_name n l'
  end.

(* ------------------------------------------------------------------------- *)
(* the store                                                                  *)
Section Store.
Context {blob : Type}.

Record codec := {
  cd_gz : gzlib blob;
  cd_encode : pb_entry -> blob;          (* proto.Marshal *)
  cd_decode : blob -> option pb_entry    (* proto.UnmarshalMerge into a fresh message *)
}.

Definition path := (string * string)%type.  (* directory, name *)
Definition path_eqb (a b : path) : bool := String.eqb (fst a) (fst b) && String.eqb (snd a) (snd b).

(* leveldb as two finite maps (entries by path, KvPut/KvGet by raw key) *)
Record state := { st_entries : list (path * blob); st_kv : list (bytes * blob) }.
Definition empty_state : state := {| st_entries := []; st_kv := [] |}.

Fixpoint aget {K V} (eqb : K -> K -> bool) (k : K) (l : list (K * V)) : option V :=
  match l with
  | [] => None
  | (k', v) :: l' => if eqb k k' then Some v else aget eqb k l'
  end.
Definition adel {K V} (eqb : K -> K -> bool) (k : K) (l : list (K * V)) : list (K * V) :=
  filter (fun kv => negb (eqb k (fst kv))) l.
Definition aput {K V} (eqb : K -> K -> bool) (k : K) (v : V) (l : list (K * V)) : list (K * V) :=
  (k, v) :: adel eqb k l.

Definition kv_put (k : bytes) (v : blob) (st : state) : state :=
  {| st_entries := st_entries st; st_kv := aput bytes_eqb k v (st_kv st) |}.
Definition kv_del (k : bytes) (st : state) : state :=
  {| st_entries := st_entries st; st_kv := adel bytes_eqb k (st_kv st) |}.
Definition kv_get (k : bytes) (st : state) : option blob := aget bytes_eqb k (st_kv st).

Variable C : codec.

Definition encode_entry (e : entry) : blob := cd_encode C (to_pb e).

(* MaybeDecompressData in the working tree (never panics, see C33) *)
Definition maybe_decompress (b : blob) : blob :=
  match maybe_decompress_data true (cd_gz C) b with MVal x => x | MPanic => b end.

(* LevelDB{,2,3}Store.InsertEntry: `if len(entry.Chunks) > 50 { value = MaybeGzipData(value) }` *)
Definition stored_value (e : entry) : blob :=
  let value := encode_entry e in
  if 50 <? len (e_chunks e) then maybe_gzip_data (cd_gz C) value else value.

Definition store_insert (st : state) (p : path) (e : entry) : state :=
  {| st_entries := aput path_eqb p (stored_value e) (st_entries st); st_kv := st_kv st |}.

Inductive sres (A : Type) := SOk (a : A) | SNotFound | SErr.
Arguments SOk {A}. Arguments SNotFound {A}. Arguments SErr {A}.

Definition decode_entry (b : blob) : option entry :=
  match cd_decode C b with Some m => Some (from_pb m) | None => None end.

(* LevelDB{,2,3}Store.FindEntry *)
Definition store_find (st : state) (p : path) : sres entry :=
  match aget path_eqb p (st_entries st) with
  | None => SNotFound
  | Some data => match decode_entry (maybe_decompress data) with Some e => SOk e | None => SErr end
  end.

(* DeleteHardLink *)
Definition delete_hard_link (st : state) (id : bytes) : option state :=
  match kv_get id st with
  | None => Some st
  | Some v =>
      match decode_entry v with
      | None => None
      | Some e =>
          let cnt := (e_hard_link_counter e - 1)%Z in
          if (cnt <=? 0)%Z then Some (kv_del id st)
          else Some (kv_put id (encode_entry
                 {| e_attr := e_attr e; e_extended := e_extended e; e_chunks := e_chunks e;
                    e_hard_link_id := e_hard_link_id e; e_hard_link_counter := cnt;
                    e_content := e_content e; e_remote := e_remote e |}) st)
      end
  end.

(* handleUpdateToHardLinks (entry already prepared) *)
Definition handle_hard_links (st : state) (p : path) (e : entry) : option state :=
  if nonempty (e_hard_link_id e) then
    let st1 := kv_put (e_hard_link_id e) (encode_entry e) st in   (* setHardLink: no compression *)
    match store_find st1 p with
    | SErr => None
    | SNotFound => Some st1
    | SOk existing =>
        if nonempty (e_hard_link_id existing) && negb (bytes_eqb (e_hard_link_id existing) (e_hard_link_id e))
        then delete_hard_link st1 (e_hard_link_id existing)
        else Some st1
    end
  else Some st.

(* FilerStoreWrapper.InsertEntry and UpdateEntry (the same code; None = an error is returned) *)
Definition wrapper_insert (st : state) (p : path) (e : entry) : option state :=
  let e1 := prepare e in
  match handle_hard_links st p e1 with
  | Some st1 => Some (store_insert st1 p e1)
  | None => None
  end.

(* maybeReadHardLink: errors are logged and ignored *)
Definition maybe_read_hard_link (st : state) (e : entry) : entry :=
  if nonempty (e_hard_link_id e) then
    match kv_get (e_hard_link_id e) st with
    | Some v => match decode_entry v with Some e' => e' | None => e end
    | None => e
    end
  else e.

(* FilerStoreWrapper.FindEntry *)
Definition wrapper_find (st : state) (p : path) : sres entry :=
  match store_find st p with
  | SOk e => SOk (finish (maybe_read_hard_link st e))
  | SNotFound => SNotFound
  | SErr => SErr
  end.

(* ---- listing ---- *)
(* the names stored under one directory, in the order of the association list *)
Definition names_in (st : state) (dir : string) : list string :=
  flat_map (fun kv => if String.eqb (fst (fst kv)) dir then [snd (fst kv)] else []) (st_entries st).

(* leveldb iterates in ascending key order; all keys of one directory share a
   prefix (dir 0x00 / md5(dir)), so the order is the byte order of the names *)
Definition sort_names (l : list string) : list string := fold_right insert_name [] l.

(* LevelDB{,2,3}Store.ListDirectoryPrefixedEntries, which names are visited:
   `bytes.HasPrefix(key, directoryPrefix)`; the iterator starts at startFileName when
   `startFileName != "" && startFileName >= prefix` (otherwise every name of the
   prefix range is above startFileName anyway); `fileName == startFileName &&
   !includeStartFile` is skipped *)
Definition list_filter (start : string) (incl : bool) (pfx : string) (n : string) : bool :=
  String.prefix pfx n && str_leb start n && (incl || negb (String.eqb n start)).

(* all of them, before `limit--; if limit < 0 { break }`; None marks a value that
   fails to decode (the real loop stops there with an error) *)
Definition store_list_all (st : state) (dir start : string) (incl : bool) (pfx : string)
  : list (string * option entry) :=
  map (fun n => (n, match aget path_eqb (dir, n) (st_entries st) with
                    | Some b => decode_entry (maybe_decompress b)
                    | None => None
                    end))
      (filter (list_filter start incl pfx) (sort_names (names_in st dir))).

Definition store_list (st : state) (dir start : string) (incl : bool) (limit : nat) (pfx : string) :=
  firstn limit (store_list_all st dir start incl pfx).

(* FilerStoreWrapper.ListDirectoryEntries: the callback is wrapped with
   maybeReadHardLink and AfterEntryDeserialization *)
Definition decorate (st : state) (ne : string * option entry) : string * option entry :=
  (fst ne, match snd ne with Some e => Some (finish (maybe_read_hard_link st e)) | None => None end).
Definition wrapper_list_all (st : state) (dir start : string) (incl : bool) :=
  map (decorate st) (store_list_all st dir start incl "").
Definition wrapper_list (st : state) (dir start : string) (incl : bool) (limit : nat) :=
  firstn limit (wrapper_list_all st dir start incl).

(* FilerStoreWrapper.ListDirectoryPrefixedEntries on leveldb / leveldb2 / leveldb3 (they
   implement the prefixed listing themselves, so the ErrUnsupportedListDirectoryPrefixed
   fallback is not taken): the caller's callback goes to the store UNWRAPPED -- no
   maybeReadHardLink, no AfterEntryDeserialization.  This is the path of
   Filer.doListDirectoryEntries. *)
Definition wrapper_list_prefixed (st : state) (dir start : string) (incl : bool) (limit : nat) (pfx : string) :=
  store_list st dir start incl limit pfx.
End Store.
Arguments codec : clear implicits.
Arguments state : clear implicits.
Arguments SOk {A}. Arguments SNotFound {A}. Arguments SErr {A}.

(* ------------------------------------------------------------------------- *)
(* the free instance of the oracles: a marshalled entry is the message itself,
   gzip is a constructor.  The first byte of a marshalled entry is the model's
   [pb_first_byte]; the two lengths that drive the 10 % rule are parameters (the
   correspondence check passes the lengths measured on the real blobs). *)
Inductive sblob := SPb (m : pb_entry) | SGz (b : sblob) | SEmpty.

Definition sym_codec (blen glen : N) : codec sblob :=
  {| cd_gz := {| gz_head2 := fun b => match b with
                                       | SPb m => match pb_first_byte m with Some a => Some (a, 0) | None => None end
                                       | SGz _ => Some (31, 139)
                                       | SEmpty => None
                                       end;
                 gz_len := fun b => match b with SPb _ => blen | SGz _ => glen | SEmpty => 0 end;
                 gz_gzip := SGz;
                 gz_gunzip := fun b => match b with SGz x => GzOk x | _ => GzHdrErr end;
                 gz_empty := SEmpty |};
     cd_encode := SPb;
     cd_decode := fun b => match b with SPb m => Some m | _ => None end |}.

(* printable text as byte codes *)
Definition s2b (s : string) : list N := map N_of_ascii (list_ascii_of_string s).

(* ------------------------------------------------------------------------- *)
(* known findings of C24 (decidable triggers)                                 *)
(* 0: Mime "application/octet-stream" is stored as "" *)
Definition trigger_octet (e : entry) : bool := String.eqb (a_mime (e_attr e)) octet_stream.
(* 2: the sub-second part of Mtime / Crtime is not stored *)
Definition trigger_subsec (e : entry) : bool :=
  negb (a_mtime_ns (e_attr e) =? 0) || negb (a_crtime_ns (e_attr e) =? 0).
(* (former finding 1, a file id with needle key 0 rewritten to a string that does not parse, is
   repaired in the working tree: see format_key_cookie; trigger number 1 is retired) *)
