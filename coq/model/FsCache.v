(* Model of weed/filesys/fscache.go: the mount's path -> node cache (C39).
   Executable definitions only; proofs are in proof/FsCacheProofs.v.

   A path is the component list util.FullPath.Split returns ("/" = []).
   fs.Node values are represented by small ids (N); a nil node is None.
   FsNode.children (a Go map) is an association list: lookups take the first
   binding of a name, inserts replace all bindings of the name, so the list
   order is unobservable. *)
From Coq Require Import String List NArith Bool.
Import ListNotations.
Local Open Scope string_scope.
Local Open Scope list_scope.

Definition path := list string.

Inductive tree := Node : option N -> list (string * tree) -> tree.

Definition value (t : tree) : option N := match t with Node v _ => v end.
Definition children (t : tree) : list (string * tree) := match t with Node _ k => k end.

(* &FsNode{node: nil, children: nil} *)
Definition empty_node : tree := Node None [].

(* findChild *)
Fixpoint find_child (n : string) (k : list (string * tree)) : option tree :=
  match k with
  | [] => None
  | (m, c) :: k' => if String.eqb n m then Some c else find_child n k'
  end.
(* delete(children, name) *)
Definition remove_child (n : string) (k : list (string * tree)) : list (string * tree) :=
  filter (fun e => negb (String.eqb n (fst e))) k.
(* children[name] = c *)
Definition put_child (n : string) (c : tree) (k : list (string * tree)) : list (string * tree) :=
  (n, c) :: remove_child n k.
(* ensureChild: the existing child or a fresh empty one *)
Definition child_or_empty (n : string) (t : tree) : tree :=
  match find_child n (children t) with Some c => c | None => empty_node end.

(* the FsNode reached by findChild along p *)
Fixpoint node_at (t : tree) (p : path) : option tree :=
  match p with
  | [] => Some t
  | n :: p' => match find_child n (children t) with
               | Some c => node_at c p'
               | None => None
               end
  end.

(* doGetFsNode: nil when a component is missing, else the node's value (maybe nil) *)
Definition get (t : tree) (p : path) : option N :=
  match node_at t p with Some c => value c | None => None end.

Definition has (t : tree) (p : path) : bool :=
  match node_at t p with Some _ => true | None => false end.

(* doSetFsNode: ensureChild along p, then t.node = node *)
Fixpoint set (t : tree) (p : path) (v : N) : tree :=
  match p with
  | [] => Node (Some v) (children t)
  | n :: p' => Node (value t) (put_child n (set (child_or_empty n t) p' v) (children t))
  end.

(* EnsureFsNode: the generator runs only when doGetFsNode returned nil.
   Result: new tree, returned node, whether the generator was called. *)
Definition ensure (t : tree) (p : path) (fresh : N) : tree * N * bool :=
  match get t p with
  | Some v => (t, v, false)
  | None => (set t p fresh, fresh, true)
  end.

(* findChild along p; if found, parent.disconnectChild(t) *)
Fixpoint remove_at (t : tree) (p : path) : tree :=
  match p with
  | [] => t
  | n :: p' =>
      match find_child n (children t) with
      | None => t
      | Some c =>
          match p' with
          | [] => Node (value t) (remove_child n (children t))
          | _ :: _ => Node (value t) (put_child n (remove_at c p') (children t))
          end
      end
  end.

(* DeleteFsNode: a missing path changes nothing; the root has no parent and is
   only cleared by deleteSelf (node = nil, children = nil); any other node is
   disconnected from its parent together with its whole subtree. *)
Definition delete (t : tree) (p : path) : tree :=
  match p with
  | [] => Node None []
  | _ :: _ => remove_at t p
  end.

(* second half of Move: ensureChild along newPath, drop the target FsNode,
   connect src under the target's name *)
Fixpoint graft (t : tree) (p : path) (s : tree) : tree :=
  match p with
  | [] => t  (* newPath = "/": the Go code dereferences a nil parent; excluded by valid_op *)
  | n :: p' =>
      match p' with
      | [] => Node (value t) (put_child n s (children t))
      | _ :: _ => Node (value t) (put_child n (graft (child_or_empty n t) p' s) (children t))
      end
  end.

(* Move: nil when the source FsNode is missing (nothing is created then);
   otherwise the source is disconnected FIRST, the target path is ensured in
   what remains, the target is dropped and the source takes its place.
   Result: new tree, "returned a non-nil *FsNode". *)
Definition move (t : tree) (old new : path) : tree * bool :=
  match node_at t old with
  | None => (t, false)
  | Some src => (graft (remove_at t old) new src, true)
  end.

(* ---- operations and histories ---- *)
Inductive op :=
| Set_ (p : path) (v : N)
| Ensure (p : path) (fresh : N)
| Get (p : path)
| Delete (p : path)
| Move (old new : path).

(* Move of "/" builds a cyclic structure and Move onto "/" panics in Go: both
   are outside the model (a rename always names an entry below the root). *)
Definition valid_op (o : op) : bool :=
  match o with
  | Move old new => match old, new with _ :: _, _ :: _ => true | _, _ => false end
  | _ => true
  end.

(* what the caller sees from one operation *)
Record ret := { r_node : option N; r_flag : bool }.
Definition no_ret : ret := {| r_node := None; r_flag := false |}.

Definition step (t : tree) (o : op) : tree * ret :=
  match o with
  | Set_ p v => (set t p v, no_ret)
  | Ensure p fresh => let '(t', v, called) := ensure t p fresh in (t', {| r_node := Some v; r_flag := called |})
  | Get p => (t, {| r_node := get t p; r_flag := false |})
  | Delete p => (delete t p, no_ret)
  | Move old new => let '(t', moved) := move t old new in (t', {| r_node := None; r_flag := moved |})
  end.

Fixpoint run (t : tree) (ops : list op) : tree :=
  match ops with
  | [] => t
  | o :: ops' => run (fst (step t o)) ops'
  end.

(* ================= reference: a flat map path -> node ================= *)
(* The reference "tree" is nothing but the observable content: the list of
   (path, node) pairs, first binding wins.  A path exists iff it or something
   below it is bound. *)
Fixpoint path_eqb (a b : path) : bool :=
  match a, b with
  | [], [] => true
  | x :: a', y :: b' => String.eqb x y && path_eqb a' b'
  | _, _ => false
  end.

(* is_prefix a b: b = a ++ something *)
Fixpoint is_prefix (a b : path) : bool :=
  match a, b with
  | [], _ => true
  | x :: a', y :: b' => String.eqb x y && is_prefix a' b'
  | _ :: _, [] => false
  end.

Definition rmap := list (path * N).

Fixpoint r_get (m : rmap) (p : path) : option N :=
  match m with
  | [] => None
  | (q, v) :: m' => if path_eqb p q then Some v else r_get m' p
  end.

Definition r_has (m : rmap) (p : path) : bool := existsb (fun e => is_prefix p (fst e)) m.

Definition r_set (m : rmap) (p : path) (v : N) : rmap := (p, v) :: m.
Definition r_delete (m : rmap) (p : path) : rmap := filter (fun e => negb (is_prefix p (fst e))) m.
Definition r_ensure (m : rmap) (p : path) (fresh : N) : rmap * N * bool :=
  match r_get m p with
  | Some v => (m, v, false)
  | None => (r_set m p fresh, fresh, true)
  end.
(* subtree move: everything at or below old is re-keyed below new; whatever
   else was at or below new is replaced *)
Definition rekey (old new : path) (e : path * N) : path * N :=
  (new ++ skipn (length old) (fst e), snd e).
Definition r_move (m : rmap) (old new : path) : rmap * bool :=
  if r_has m old then
    (map (rekey old new) (filter (fun e => is_prefix old (fst e)) m)
       ++ r_delete (r_delete m old) new, true)
  else (m, false).

Definition r_step (m : rmap) (o : op) : rmap * ret :=
  match o with
  | Set_ p v => (r_set m p v, no_ret)
  | Ensure p fresh => let '(m', v, called) := r_ensure m p fresh in (m', {| r_node := Some v; r_flag := called |})
  | Get p => (m, {| r_node := r_get m p; r_flag := false |})
  | Delete p => (r_delete m p, no_ret)
  | Move old new => let '(m', moved) := r_move m old new in (m', {| r_node := None; r_flag := moved |})
  end.

Fixpoint r_run (m : rmap) (ops : list op) : rmap :=
  match ops with
  | [] => m
  | o :: ops' => r_run (fst (r_step m o)) ops'
  end.

(* initial states: newFsCache(root) *)
Definition init (root : option N) : tree := Node root [].
Definition r_init (root : option N) : rmap := match root with Some v => [([], v)] | None => [] end.

(* ============ placeholder-aware reference (flat, no tree) ============ *)
(* The flat map above forgets directories that hold nothing.  This second
   reference remembers them: the cache content ([p_vals], the same flat map with
   the same set/delete/re-key operations) plus the set of paths at which an
   FsNode exists ([p_dirs], explicitly prefix-closed: a Set of /a/x/y creates
   /, /a, /a/x and /a/x/y).  It is defined on paths only and shares nothing with
   [tree] but [path_eqb]/[is_prefix]. *)
Record pstate := { p_vals : rmap; p_dirs : list path }.

(* every prefix of p, from [] to p itself *)
Fixpoint prefixes (p : path) : list path :=
  [] :: match p with [] => [] | n :: p' => map (cons n) (prefixes p') end.

Definition d_mem (d : list path) (q : path) : bool := existsb (path_eqb q) d.
Definition p_get (s : pstate) (q : path) : option N := r_get (p_vals s) q.
(* the root FsNode always exists *)
Definition p_has (s : pstate) (q : path) : bool :=
  match q with [] => true | _ :: _ => d_mem (p_dirs s) q end.

Definition p_set (s : pstate) (p : path) (v : N) : pstate :=
  {| p_vals := r_set (p_vals s) p v; p_dirs := prefixes p ++ p_dirs s |}.
Definition p_ensure (s : pstate) (p : path) (fresh : N) : pstate * N * bool :=
  match p_get s p with
  | Some v => (s, v, false)
  | None => (p_set s p fresh, fresh, true)
  end.
Definition p_delete (s : pstate) (p : path) : pstate :=
  {| p_vals := r_delete (p_vals s) p;
     p_dirs := filter (fun e => negb (is_prefix p e)) (p_dirs s) |}.
Definition rekey_path (old new e : path) : path := new ++ skipn (length old) e.
(* Move succeeds as soon as the source DIRECTORY exists, bound or not: the source
   subtree (values and directories) is re-keyed below new, new and its ancestors
   exist, whatever else was at or below new is dropped. *)
Definition p_move (s : pstate) (old new : path) : pstate * bool :=
  if p_has s old then
    ({| p_vals := map (rekey old new) (filter (fun e => is_prefix old (fst e)) (p_vals s))
                    ++ r_delete (r_delete (p_vals s) old) new;
        p_dirs := map (rekey_path old new) (filter (is_prefix old) (p_dirs s))
                    ++ prefixes new
                    ++ filter (fun e => negb (is_prefix new e))
                         (filter (fun e => negb (is_prefix old e)) (p_dirs s)) |}, true)
  else (s, false).

Definition p_step (s : pstate) (o : op) : pstate * ret :=
  match o with
  | Set_ p v => (p_set s p v, no_ret)
  | Ensure p fresh => let '(s', v, called) := p_ensure s p fresh in (s', {| r_node := Some v; r_flag := called |})
  | Get p => (s, {| r_node := p_get s p; r_flag := false |})
  | Delete p => (p_delete s p, no_ret)
  | Move old new => let '(s', moved) := p_move s old new in (s', {| r_node := None; r_flag := moved |})
  end.

Fixpoint p_run (s : pstate) (ops : list op) : pstate :=
  match ops with
  | [] => s
  | o :: ops' => p_run (fst (p_step s o)) ops'
  end.

Definition p_init (root : option N) : pstate := {| p_vals := r_init root; p_dirs := [[]] |}.

(* ---- known finding 0, decided WITHOUT the model tree: a Move whose source
   directory exists in the placeholder-aware reference while the flat reference
   has nothing at or below it, and the flat reference has something at or below
   the target. *)
Definition pghost_move (s : pstate) (m : rmap) (o : op) : bool :=
  match o with
  | Move old new => p_has s old && negb (r_has m old) && r_has m new
  | _ => false
  end.

Fixpoint ptrigger_from (s : pstate) (m : rmap) (ops : list op) : bool :=
  match ops with
  | [] => false
  | o :: ops' => pghost_move s m o || ptrigger_from (fst (p_step s o)) (fst (r_step m o)) ops'
  end.

Definition ptrigger (root : option N) (ops : list op) : bool :=
  ptrigger_from (p_init root) (r_init root) ops.

(* the same, one step from an arbitrary point of an arbitrary history: the flat
   reference restarted from what the cache holds *)
Definition pghost_here (s : pstate) (o : op) : bool := pghost_move s (p_vals s) o.

(* ---- known finding 0 as seen on the model tree (used in the proofs only; the
   theorems of props/C39.v are stated with [ptrigger] above, which proof/
   shows to be the same predicate): Move whose source FsNode exists only as a
   leftover placeholder (no node at or below it) while something is cached at or
   below the target: the cache drops the target subtree, the reference (source
   missing) keeps it. *)
Definition ghost_move (t : tree) (m : rmap) (o : op) : bool :=
  match o with
  | Move old new => has t old && negb (r_has m old) && r_has m new
  | _ => false
  end.

Fixpoint trigger_from (t : tree) (m : rmap) (ops : list op) : bool :=
  match ops with
  | [] => false
  | o :: ops' => ghost_move t m o || trigger_from (fst (step t o)) (fst (r_step m o)) ops'
  end.

Definition trigger (root : option N) (ops : list op) : bool :=
  trigger_from (init root) (r_init root) ops.
