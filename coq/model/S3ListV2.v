(* C27, third part of the model: the REQUEST FORMS of ListObjects.
   weed/s3api/s3api_server.go routes GET /<bucket> with the query list-type=2 to
   ListObjectsV2Handler and every other GET /<bucket> to ListObjectsV1Handler.
     getListObjectsV1Args reads  prefix, marker, delimiter, max-keys
     getListObjectsV2Args reads  prefix, continuation-token, start-after, delimiter,
                                 fetch-owner, max-keys
   (fetch-owner is read and dropped; encoding-type is never read).  The V2 handler derives
   the marker it hands to listFilerEntries as

        marker := continuationToken
        if continuationToken == "" { marker = startAfter }

   i.e. a non-empty continuation token ALWAYS wins over start-after, whatever the byte
   order of the two strings is; NextContinuationToken is the NextMarker of the listing.
   This file models the request record, that derivation, and a client that walks the pages
   in every way the two APIs allow: V1 marker from NextMarker / from the last key, V2
   continuation-token alone, V2 continuation-token with the ORIGINAL start-after resent on
   every page (what the AWS SDK paginators do), V2 start-after moved to the last key (alone
   or together with the token of the page), the first request starting at any marker /
   start-after.  Executable definitions only; proofs are in proof/S3ListV2.v.            *)
From Coq Require Import List NArith ZArith Bool String Ascii Arith.
From SW Require Import model.S3List model.S3ListMut.
Import ListNotations.
Local Open Scope string_scope.
Local Open Scope list_scope.

Record request := mk_req {
  rq_v2 : bool;               (* query list-type=2 *)
  rq_marker : string;         (* query marker              (read by V1 only) *)
  rq_token : string;          (* query continuation-token  (read by V2 only) *)
  rq_start_after : string;    (* query start-after         (read by V2 only) *)
  rq_fetch_owner : bool;      (* query fetch-owner=true    (V2 reads it, nothing depends on it) *)
  rq_enc_url : bool           (* query encoding-type=url   (never read: keys are not encoded) *)
}.

(* ListObjectsV2Handler: marker := continuationToken; if continuationToken == "" { marker = startAfter } *)
Definition v2_marker (token startAfter : string) : string :=
  if token =? "" then startAfter else token.

(* the marker argument of listFilerEntries for a request *)
Definition handler_marker (rq : request) : string :=
  if rq_v2 rq then v2_marker (rq_token rq) (rq_start_after rq) else rq_marker rq.

(* one request on the current bucket tree: the page answered (pg_next = NextMarker for V1,
   NextContinuationToken for V2: the same string) and the tree afterwards *)
Definition serve (ae : bool) (rootk : list tree) (prefix : string) (maxKeys : Z) (delim : bool)
           (rq : request) : page * list tree :=
  list_objects_m ae rootk prefix maxKeys (handler_marker rq) delim.

(* ---------- the client ---------- *)

Record client := mk_client {
  cl_style : style;       (* how the next page is asked for (S3List.style) *)
  cl_resend : bool;       (* V2Token: every follow-up request carries the ORIGINAL start-after
                             beside the continuation-token;
                             V2StartAfter: every follow-up request carries the page's
                             NextContinuationToken beside the moved start-after *)
  cl_start : string;      (* marker (V1) / start-after (V2) of the first request, "" = none *)
  cl_stray : string;      (* value sent in the parameters of the OTHER API version
                             (marker on V2 requests, continuation-token and start-after on
                             V1 requests); "" = not sent *)
  cl_fetch_owner : bool;
  cl_enc_url : bool
}.

Definition is_v2_style (st : style) : bool :=
  match st with V2Token | V2StartAfter => true | _ => false end.

Definition v1_request (cl : client) (marker : string) : request :=
  mk_req false marker (cl_stray cl) (cl_stray cl) (cl_fetch_owner cl) (cl_enc_url cl).
Definition v2_request (cl : client) (token startAfter : string) : request :=
  mk_req true (cl_stray cl) token startAfter (cl_fetch_owner cl) (cl_enc_url cl).

Definition first_request (cl : client) : request :=
  if is_v2_style (cl_style cl) then v2_request cl "" (cl_start cl) else v1_request cl (cl_start cl).

Definition next_request (cl : client) (p : page) : option request :=
  match cl_style cl with
  | V2Token => Some (v2_request cl (pg_next p) (if cl_resend cl then cl_start cl else ""))
  | V2StartAfter =>
      match last_key p with
      | Some k => Some (v2_request cl (if cl_resend cl then pg_next p else "") k)
      | None => None
      end
  | V1NextMarker => Some (v1_request cl (pg_next p))
  | V1LastKey =>
      match last_key p with
      | Some k => Some (v1_request cl k)
      | None => None
      end
  end.

(* at most n requests, each on the tree the previous one left behind; the client stops at
   the first page that is not truncated.  Result: (request sent, page received) per
   request, and the final tree. *)
Fixpoint run_v (n : nat) (ae : bool) (rootk : list tree) (prefix : string) (maxKeys : Z) (delim : bool)
         (cl : client) (rq : request) : list (request * page) * list tree :=
  match n with
  | O => ([], rootk)
  | S n' =>
      let '(p, rk) := serve ae rootk prefix maxKeys delim rq in
      if pg_trunc p then
        match next_request cl p with
        | Some rq' => let '(l, rk') := run_v n' ae rk prefix maxKeys delim cl rq' in ((rq, p) :: l, rk')
        | None => ([(rq, p)], rk)
        end
      else ([(rq, p)], rk)
  end.

Definition run_client (n : nat) (ae : bool) (rootk : list tree) (prefix : string) (maxKeys : Z)
           (delim : bool) (cl : client) : list (request * page) * list tree :=
  run_v n ae rootk prefix maxKeys delim cl (first_request cl).

(* the plain client of S3ListMut.run_m: nothing resent, no stray parameters *)
Definition plain_client (st : style) (start : string) : client := mk_client st false start "" false false.

(* every truncated page carries a non-empty continuation token / NextMarker *)
Definition tokens_nonempty (l : list (string * page)) : bool :=
  forallb (fun mp => negb (pg_trunc (snd mp)) || negb (pg_next (snd mp) =? "")) l.
