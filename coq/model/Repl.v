(* Model of the replication event mapping (C36):
     weed/replication/replicator.go      Replicator.Replicate
     weed/command/filer_sync.go          genProcessFunction / buildKey / the
                                         signature filter of doSubscribeFilerMetaChanges
     weed/replication/sink/localsink     LocalSink on a small file tree
   Paths are Go strings; every string operation of the Go code (HasPrefix,
   TrimSuffix, Trim, slicing s[n:], FullPath.Child, filepath.Join/Clean) is
   modelled on Coq strings.  The model follows the tree AFTER the repairs:
   component-wise prefix test (pathIsUnder in filer_sync.go, the trimmed [dir] in
   Replicate), the early test of genProcessFunction also looking at the new
   location, LocalSink.UpdateEntry reporting a moved entry as not found.
   Executable definitions only; proofs are in proof/ReplProofs.v. *)
From Coq Require Import List NArith ZArith Bool String Ascii Arith.
Import ListNotations.
Local Open Scope list_scope.

Infix "^^" := String.append (at level 60, right associativity).

(* ---------- Go string operations ---------- *)
Definition is_slash (c : ascii) : bool := Ascii.eqb c "/"%char.
Definition nonempty (s : string) : bool := match s with EmptyString => false | _ => true end.

(* s[n:] for n <= len(s) (callers check the length where Go would panic) *)
Fixpoint drop (n : nat) (s : string) : string :=
  match n with
  | O => s
  | S n' => match s with EmptyString => EmptyString | String _ s' => drop n' s' end
  end.

(* strings.HasSuffix(s, "/") *)
Fixpoint ends_with_slash (s : string) : bool :=
  match s with
  | EmptyString => false
  | String c s' => match s' with EmptyString => is_slash c | _ => ends_with_slash s' end
  end.

(* strings.TrimSuffix(s, "/") *)
Fixpoint trim_suffix_slash (s : string) : string :=
  match s with
  | EmptyString => EmptyString
  | String c s' => match s' with
                   | EmptyString => if is_slash c then EmptyString else s
                   | _ => String c (trim_suffix_slash s')
                   end
  end.

(* strings.Trim(s, "/") *)
Fixpoint trim_left_slashes (s : string) : string :=
  match s with
  | EmptyString => EmptyString
  | String c s' => if is_slash c then trim_left_slashes s' else s
  end.
Fixpoint trim_right_slashes (s : string) : string :=
  match s with
  | EmptyString => EmptyString
  | String c s' => let t := trim_right_slashes s' in
                   if is_slash c && negb (nonempty t) then EmptyString else String c t
  end.
Definition trim_slashes (s : string) : string := trim_right_slashes (trim_left_slashes s).

(* util.FullPath(dir).Child(name) *)
Definition child (dir name : string) : string :=
  if ends_with_slash dir then dir ^^ name else dir ^^ "/" ^^ name.

(* strings.Split(s, "/") *)
Fixpoint split_slash (s : string) : list string :=
  match s with
  | EmptyString => [EmptyString]
  | String c s' =>
      if is_slash c then EmptyString :: split_slash s'
      else match split_slash s' with
           | h :: t => String c h :: t
           | [] => [String c EmptyString]
           end
  end.

(* strings.Join(l, "/") *)
Fixpoint join_sep (l : list string) : string :=
  match l with
  | [] => EmptyString
  | x :: l' => match l' with [] => x | _ => x ^^ "/" ^^ join_sep l' end
  end.

Definition is_rooted (s : string) : bool :=
  match s with String c _ => is_slash c | EmptyString => false end.

(* the element loop of filepath.Clean; [acc] is the output so far, reversed *)
Fixpoint clean_segs (rooted : bool) (acc : list string) (l : list string) : list string :=
  match l with
  | [] => rev acc
  | x :: l' =>
      if String.eqb x "" || String.eqb x "." then clean_segs rooted acc l'
      else if String.eqb x ".." then
        match acc with
        | a :: acc' => if String.eqb a ".." then clean_segs rooted (x :: acc) l'
                       else clean_segs rooted acc' l'
        | [] => if rooted then clean_segs rooted [] l' else clean_segs rooted [x] l'
        end
      else clean_segs rooted (x :: acc) l'
  end.

(* filepath.Clean (unix) *)
Definition clean (s : string) : string :=
  match s with
  | EmptyString => "."%string
  | _ => let out := clean_segs (is_rooted s) [] (split_slash s) in
         if is_rooted s then "/" ^^ join_sep out
         else match out with [] => "."%string | _ => join_sep out end
  end.

(* util.Join = filepath.ToSlash(filepath.Join(...)): leading empty elements are
   skipped, the rest is joined with "/" and cleaned *)
Fixpoint join (elems : list string) : string :=
  match elems with
  | [] => EmptyString
  | e :: rest => if nonempty e then clean (join_sep elems) else join rest
  end.

(* filepath.Dir for a cleaned path with at least one slash *)
Fixpoint no_slash (s : string) : bool :=
  match s with EmptyString => true | String c s' => negb (is_slash c) && no_slash s' end.

(* ---------- abstract paths: lists of plain segments ---------- *)
Definition plain (x : string) : bool :=
  nonempty x && negb (String.eqb x ".") && negb (String.eqb x "..") && no_slash x.
Fixpoint render (l : list string) : string :=
  match l with [] => EmptyString | x :: l' => "/" ^^ x ^^ render l' end.
(* the clean absolute path with the given segments *)
Definition abs (l : list string) : string := match l with [] => "/"%string | _ => render l end.
(* the non-empty components of a path string *)
Definition segs (s : string) : list string := filter nonempty (split_slash s).
Definition is_clean_abs (s : string) : bool :=
  forallb plain (segs s) && String.eqb s (abs (segs s)).

Fixpoint lprefix (p l : list string) : bool :=
  match p, l with
  | [], _ => true
  | x :: p', y :: l' => String.eqb x y && lprefix p' l'
  | _ :: _, [] => false
  end.

(* ---------- events, configuration, sink operations ---------- *)
Record entry := {
  e_name : string;
  e_isdir : bool;
  e_date : string;  (* time.Unix(Attributes.Mtime,0).Format("2006-01-02"): library, supplied with the case *)
  e_data : list N   (* the bytes of the file: its chunks (contiguous, non-overlapping) in offset order *)
}.

(* filer_pb.SubscribeMetadataResponse / EventNotification *)
Record event := {
  ev_dir : string;               (* resp.Directory *)
  ev_old : option entry;
  ev_new : option entry;
  ev_new_parent : string;        (* NewParentPath *)
  ev_delete_chunks : bool;
  ev_from_other : bool;          (* IsFromOtherCluster *)
  ev_sigs : list Z               (* Signatures (int32) *)
}.

Record config := {
  src : string;                  (* source.Dir / sourcePath *)
  tgt : string;                  (* sink.GetSinkToDirectory() / targetPath *)
  incremental : bool;            (* sink.IsIncremental() *)
  sink_is_filer : bool;          (* sink.GetName() == "filer" *)
  target_sig : Z                 (* targetFilerSignature (filer.sync) *)
}.

Inductive sinkop :=
| Create (key : string) (e : entry)
| Delete (key : string) (isdir delete_chunks : bool)
| Update (key : string) (new_parent : string) (e : entry) (delete_chunks : bool).

(* what the event function does with the sink:
     Do o            one call, its error is returned
     UpdateOr u d c  UpdateEntry; if it reports an existing entry return its error;
                     else DeleteEntry (error => return); then CreateEntry
     Panic           a Go slice-bounds panic *)
Inductive plan :=
| Nothing
| Do (o : sinkop)
| UpdateOr (u d c : sinkop)
| Panic.

Definition date_key (ev : event) : string :=
  match ev_new ev with
  | Some n => e_date n
  | None => match ev_old ev with Some o => e_date o | None => EmptyString end
  end.

(* ---------- Replicator.Replicate (repaired) ---------- *)
Definition replicate (c : config) (key : string) (ev : event) : plan :=
  if ev_from_other ev && sink_is_filer c then Nothing else
  let dir := trim_suffix_slash (src c) in
  if negb (String.eqb key dir) && negb (String.prefix (dir ^^ "/") key) then Nothing else
  let dk := if incremental c then date_key ev else EmptyString in
  let nk := join [tgt c; dk; drop (String.length dir) key] in
  match ev_old ev, ev_new ev with
  | Some o, None => Do (Delete nk (e_isdir o) (ev_delete_chunks ev))
  | None, Some n => Do (Create nk n)
  | None, None => Nothing
  | Some o, Some n =>
      UpdateOr (Update nk (ev_new_parent ev) n (ev_delete_chunks ev))
               (Delete nk (e_isdir o) false)
               (Create nk n)
  end.

(* the key under which filer_notify.go queues an event: the old path if there is
   an old entry, else the new path *)
Definition event_key (ev : event) : string :=
  match ev_old ev, ev_new ev with
  | Some o, _ => child (ev_dir ev) (e_name o)
  | None, Some n => child (ev_new_parent ev) (e_name n)
  | None, None => ev_dir ev
  end.

(* ---------- genProcessFunction (repaired) ---------- *)
(* pathIsUnder(p, dir) *)
Definition under (p dir : string) : bool :=
  String.eqb p dir || String.prefix (trim_suffix_slash dir ^^ "/") p.

(* buildKey; escapeKey is the identity off Windows *)
Definition build_key (c : config) (ev : event) (nsrc key : string) : string :=
  if incremental c then join [tgt c; date_key ev; drop (String.length nsrc) key]
  else join [tgt c; drop (String.length nsrc) key].

Definition sync_process (c : config) (ev : event) : plan :=
  let nsrc := "/" ^^ trim_slashes (src c) in
  (* neither the old nor the new location is in the watched directory *)
  if negb (under (ev_dir ev) nsrc) &&
     negb (match ev_new ev with Some _ => under (ev_new_parent ev) nsrc | None => false end)
  then Nothing else
  match ev_old ev, ev_new ev with
  | Some o, None =>
      let ok := child (ev_dir ev) (e_name o) in
      if negb (under ok nsrc) then Nothing
      else Do (Delete (build_key c ev nsrc ok) (e_isdir o) (ev_delete_chunks ev))
  | None, Some n =>
      let nk := child (ev_new_parent ev) (e_name n) in
      if negb (under nk nsrc) then Nothing
      else Do (Create (build_key c ev nsrc nk) n)
  | None, None => Nothing
  | Some o, Some n =>
      let ok := child (ev_dir ev) (e_name o) in
      let nk := child (ev_new_parent ev) (e_name n) in
      if under ok nsrc then
        if under nk nsrc then
          if negb (incremental c) then
            if Nat.ltb (String.length (ev_new_parent ev)) (String.length nsrc) then Panic else
            let old_key := join [tgt c; drop (String.length nsrc) ok] in
            let np := join [tgt c; drop (String.length nsrc) (ev_new_parent ev)] in
            UpdateOr (Update old_key np n (ev_delete_chunks ev))
                     (Delete old_key (e_isdir o) false)
                     (Create (build_key c ev nsrc nk) n)
          else Do (Create (build_key c ev nsrc nk) n)
        else
          if negb (incremental c) then Do (Delete (build_key c ev nsrc ok) (e_isdir o) (ev_delete_chunks ev))
          else Nothing
      else
        if under nk nsrc then Do (Create (build_key c ev nsrc nk) n)
        else Nothing
  end.

(* processEventFn of doSubscribeFilerMetaChanges: skip events that carry the
   target filer's signature *)
Definition carries_sig (c : config) (ev : event) : bool :=
  existsb (fun s => Z.eqb s (target_sig c) && negb (Z.eqb (target_sig c) 0)) (ev_sigs ev).
Definition sync_filtered (c : config) (ev : event) : plan :=
  if carries_sig c ev then Nothing else sync_process c ev.

(* ---------- running a plan against a sink ---------- *)
(* a sink answers an operation with (found existing entry, error) *)
Section Exec.
  Variable S : Type.
  Variable do_op : S -> sinkop -> S * (bool * bool).

  Definition exec_plan (st : S) (p : plan) : S * bool :=
    match p with
    | Nothing => (st, false)
    | Panic => (st, true)
    | Do o => let '(st1, (_, err)) := do_op st o in (st1, err)
    | UpdateOr u d c =>
        let '(st1, (found, err)) := do_op st u in
        if found then (st1, err) else
        let '(st2, (_, errd)) := do_op st1 d in
        if errd then (st2, true) else
        let '(st3, (_, errc)) := do_op st2 c in (st3, errc)
    end.
End Exec.

(* the recording sink: appends the call, never fails, answers UpdateEntry with
   the scripted [found] *)
Definition rec_do (found : bool) (log : list sinkop) (o : sinkop) : list sinkop * (bool * bool) :=
  (log ++ [o], (found, false)).
Definition run_rec (found : bool) (p : plan) : list sinkop := fst (exec_plan _ (rec_do found) [] p).
Definition is_panic (p : plan) : bool := match p with Panic => true | _ => false end.

(* ---------- the intended behaviour (the property's reference) ---------- *)
(* Works on segment lists only: no string prefix test, no slicing. *)
Definition src_segs (c : config) : list string := segs (src c).
Definition tgt_segs (c : config) : list string := segs (tgt c).
(* strictly below the watched directory, comparing whole components *)
Definition inside (c : config) (k : list string) : bool :=
  lprefix (src_segs c) k && Nat.ltb (List.length (src_segs c)) (List.length k).
Definition map_path (c : config) (k : list string) : string :=
  abs (tgt_segs c ++ skipn (List.length (src_segs c)) k).
Definition old_key (ev : event) : option (list string) :=
  option_map (fun o => segs (ev_dir ev) ++ [e_name o]) (ev_old ev).
Definition new_key (ev : event) : option (list string) :=
  option_map (fun n => segs (ev_new_parent ev) ++ [e_name n]) (ev_new ev).

Definition mirror_spec (c : config) (ev : event) : plan :=
  match ev_old ev, ev_new ev with
  | Some o, None =>
      let ok := segs (ev_dir ev) ++ [e_name o] in
      if inside c ok then Do (Delete (map_path c ok) (e_isdir o) (ev_delete_chunks ev)) else Nothing
  | None, Some n =>
      let nk := segs (ev_new_parent ev) ++ [e_name n] in
      if inside c nk then Do (Create (map_path c nk) n) else Nothing
  | None, None => Nothing
  | Some o, Some n =>
      let ok := segs (ev_dir ev) ++ [e_name o] in
      let nk := segs (ev_new_parent ev) ++ [e_name n] in
      if inside c ok then
        if inside c nk then
          UpdateOr (Update (map_path c ok) (map_path c (segs (ev_new_parent ev))) n (ev_delete_chunks ev))
                   (Delete (map_path c ok) (e_isdir o) false)
                   (Create (map_path c nk) n)
        else Do (Delete (map_path c ok) (e_isdir o) (ev_delete_chunks ev))
      else if inside c nk then Do (Create (map_path c nk) n) else Nothing
  end.

(* ---------- decidable side conditions ---------- *)
Definition opt_all {A} (f : A -> bool) (o : option A) : bool :=
  match o with Some x => f x | None => true end.

(* the source directory is a clean absolute path, optionally written with one
   trailing slash; the target directory is a clean absolute path *)
Definition wf_src (s : string) : bool :=
  is_clean_abs s ||
  (ends_with_slash s && is_clean_abs (trim_suffix_slash s) && negb (String.eqb (trim_suffix_slash s) "/")).
Definition wf_config (c : config) : bool := wf_src (src c) && is_clean_abs (tgt c).

(* events as the filer emits them: clean absolute directories, plain names; an
   event without an old entry is filed under the new entry's directory *)
Definition wf_event (ev : event) : bool :=
  is_clean_abs (ev_dir ev) &&
  opt_all (fun o => plain (e_name o)) (ev_old ev) &&
  opt_all (fun n => plain (e_name n) && is_clean_abs (ev_new_parent ev)) (ev_new ev) &&
  match ev_old ev, ev_new ev with
  | None, Some _ => String.eqb (ev_dir ev) (ev_new_parent ev)
  | _, _ => true
  end.

Fixpoint list_eqb (a b : list string) : bool :=
  match a, b with
  | [], [] => true
  | x :: a', y :: b' => String.eqb x y && list_eqb a' b'
  | _, _ => false
  end.

(* the event is about the watched directory's own entry (the property is silent
   about it) *)
Definition touches_root (c : config) (ev : event) : bool :=
  match old_key ev with Some k => list_eqb k (src_segs c) | None => false end ||
  match new_key ev with Some k => list_eqb k (src_segs c) | None => false end.

(* every key the event mentions lies outside the watched directory (component-wise) *)
Definition all_outside (c : config) (ev : event) : bool :=
  opt_all (fun k => negb (lprefix (src_segs c) k)) (old_key ev) &&
  opt_all (fun k => negb (lprefix (src_segs c) k)) (new_key ev).

(* finding 0: Replicate handles an event with both entries by its old key only
   and hands NewParentPath to the sink unmapped; it is right exactly when both
   keys are outside, or the entry stays where it is and the mapping is the
   identity on its directory *)
Definition replicate_unsafe (c : config) (ev : event) : bool :=
  match old_key ev, new_key ev with
  | Some ok, Some nk =>
      negb ((negb (inside c ok) && negb (inside c nk)) ||
            (inside c ok && list_eqb ok nk &&
             String.eqb (map_path c (segs (ev_new_parent ev))) (ev_new_parent ev)))
  | _, _ => false
  end.

(* ---------- LocalSink on a file tree ---------- *)
(* a tree: clean absolute paths with a kind (true = directory); "/" is the
   scratch root and always a directory *)
Definition tree := list (string * bool).

Definition lookup_tree (t : tree) (p : string) : option bool :=
  if String.eqb p "/" then Some true else
  match find (fun x => String.eqb (fst x) p) t with Some x => Some (snd x) | None => None end.

(* proper ancestors of a path given by segments, nearest the root first; without the root *)
Fixpoint ancestors_from (pre : list string) (l : list string) : list string :=
  match l with
  | [] => []
  | x :: l' => match l' with
               | [] => []
               | _ => abs (pre ++ [x]) :: ancestors_from (pre ++ [x]) l'
               end
  end.
Definition ancestors (p : string) : list string := ancestors_from [] (segs p).

Definition ancestor_is_file (t : tree) (p : string) : bool :=
  existsb (fun a => match lookup_tree t a with Some false => true | _ => false end) (ancestors p).

Definition add_entry (t : tree) (p : string) (isdir : bool) : tree :=
  match lookup_tree t p with Some _ => t | None => t ++ [(p, isdir)] end.

Definition has_child (t : tree) (p : string) : bool :=
  existsb (fun x => String.prefix (p ^^ "/") (fst x)) t.

(* isMultiPartEntry: strings.HasSuffix(key, ".part") && strings.Contains(key, "/.uploads/") *)
Fixpoint contains (sub s : string) : bool :=
  String.prefix sub s || match s with EmptyString => false | String _ s' => contains sub s' end.
Fixpoint has_suffix (suf s : string) : bool :=
  String.eqb suf s || match s with EmptyString => false | String _ s' => has_suffix suf s' end.
Definition is_multipart (key : string) : bool := has_suffix ".part" key && contains "/.uploads/" key.

(* CreateEntry for a file: MkdirAll(filepath.Dir(key)) when Stat says "not exist",
   then OpenFile(O_CREATE|O_TRUNC) *)
Definition local_create (t : tree) (key : string) (e : entry) : tree * bool :=
  if e_isdir e || is_multipart key then (t, false) else
  if ancestor_is_file t key then (t, true) else               (* ENOTDIR *)
  match lookup_tree t key with
  | Some true => (t, true)                                      (* EISDIR *)
  | Some false => (t, false)                                    (* truncated in place *)
  | None => (add_entry (fold_left (fun acc a => add_entry acc a true) (ancestors key) t) key false, false)
  end.

(* DeleteEntry: os.Remove, error only logged *)
Definition local_delete (t : tree) (key : string) : tree :=
  if is_multipart key then t else
  match lookup_tree t key with
  | Some false => filter (fun x => negb (String.eqb (fst x) key)) t
  | Some true => if has_child t key || String.eqb key "/" then t
                 else filter (fun x => negb (String.eqb (fst x) key)) t
  | None => t
  end.

(* util.FileExists: everything but ENOENT counts as existing *)
Definition local_exists (t : tree) (key : string) : bool :=
  ancestor_is_file t key || match lookup_tree t key with Some _ => true | None => false end.

Definition local_do (t : tree) (o : sinkop) : tree * (bool * bool) :=
  match o with
  | Create key e => let '(t', err) := local_create t key e in (t', (false, err))
  | Delete key _ _ => (local_delete t key, (false, false))
  | Update key np e _ =>
      if is_multipart key then (t, (true, false)) else
      (* the entry moved: report "not found", the caller deletes the old key and creates the new one *)
      if negb (String.eqb (join [np; e_name e]) key) then (t, (false, false)) else
      let found := local_exists t key in
      let '(t', err) := local_create t key e in (t', (found, err))
  end.

(* a stream of events through genProcessFunction into a LocalSink; the error
   flag of every event is kept *)
Fixpoint run_local (c : config) (t : tree) (evs : list event) : tree * list bool :=
  match evs with
  | [] => (t, [])
  | ev :: evs' =>
      let '(t1, err) := exec_plan _ local_do t (sync_process c ev) in
      let '(t2, errs) := run_local c t1 evs' in (t2, err :: errs)
  end.

(* reference for the file set of the backup directory: every file event applied
   at the mapped path *)
Definition files_of (t : tree) : list string := map fst (filter (fun x => negb (snd x)) t).
Definition remove_str (p : string) (l : list string) : list string :=
  filter (fun x => negb (String.eqb x p)) l.
Definition spec_files_step (c : config) (fs : list string) (ev : event) : list string :=
  let fs1 := match ev_old ev with
             | Some o => let k := segs (ev_dir ev) ++ [e_name o] in
                         if negb (e_isdir o) && inside c k then remove_str (map_path c k) fs else fs
             | None => fs
             end in
  match ev_new ev with
  | Some n => let k := segs (ev_new_parent ev) ++ [e_name n] in
              if negb (e_isdir n) && inside c k
              then (if existsb (String.eqb (map_path c k)) fs1 then fs1 else fs1 ++ [map_path c k])
              else fs1
  | None => fs1
  end.
Definition spec_files (c : config) (evs : list event) : list string :=
  fold_left (spec_files_step c) evs [].

(* ---------- LocalSink, whole histories ---------- *)
(* the backup tree has an entry of the other kind at [key] *)
Definition kind_clash (t : tree) (key : string) (isdir : bool) : bool :=
  match lookup_tree t key with Some d => negb (Bool.eqb d isdir) | None => false end.

(* What makes one event's effect on the backup tree differ from the reference
   file set: a multipart key (LocalSink skips /.uploads/*.part on purpose), an
   entry of the other kind at the mapped key (os.Remove does not look at the
   kind; OpenFile on a directory is EISDIR), a file among the ancestors of a
   created file (ENOTDIR), an entry that changes its kind in one event. *)
Definition local_step_clash (c : config) (t : tree) (ev : event) : bool :=
  match ev_old ev with
  | Some o => let k := segs (ev_dir ev) ++ [e_name o] in
              inside c k && (is_multipart (map_path c k) || kind_clash t (map_path c k) (e_isdir o))
  | None => false
  end ||
  match ev_new ev with
  | Some n => let k := segs (ev_new_parent ev) ++ [e_name n] in
              inside c k && negb (e_isdir n) &&
              (is_multipart (map_path c k) || ancestor_is_file t (map_path c k) || kind_clash t (map_path c k) false)
  | None => false
  end ||
  match ev_old ev, ev_new ev with
  | Some o, Some n => negb (Bool.eqb (e_isdir o) (e_isdir n))
  | _, _ => false
  end.

(* some event of the history meets such a clash (evaluated on the tree the
   model has reached before that event) *)
Fixpoint local_clash (c : config) (t : tree) (evs : list event) : bool :=
  match evs with
  | [] => false
  | ev :: evs' =>
      local_step_clash c t ev ||
      local_clash c (fst (exec_plan _ local_do t (sync_process c ev))) evs'
  end.

(* ---------- the labels of the events a filer operation emits ---------- *)
(* weed/filer/filer.go CreateEntry + ensureParentDirecotryEntry,
   weed/filer/filer_delete_entry.go, weed/server/filer_grpc_server.go UpdateEntry,
   weed/server/filer_grpc_server_rename.go: every emitted event goes through
   Filer.NotifyUpdateEvent(old, new, deleteChunks, isFromOtherCluster, signatures),
   which appends the filer's own signature.  Which events exist is an input (the
   skeleton: key, kind); the model says which signatures / flag each one carries. *)
Inductive opkind := ECreate | EUpdate | EDelete | ERename.

Record emitted := {
  m_key : string;           (* queue key = full path of the old entry, else of the new entry *)
  m_isdir : bool;
  m_has_old : bool;
  m_has_new : bool;
  m_sigs : list Z;          (* observed / predicted Signatures *)
  m_from_other : bool       (* observed / predicted IsFromOtherCluster *)
}.

Record emit_op := {
  em_self : Z;              (* Filer.Signature *)
  em_kind : opkind;
  em_top : string;          (* the path the request names (rename: the old path) *)
  em_top2 : string;         (* rename: the new path *)
  em_sigs : list Z;         (* the request's Signatures *)
  em_from_other : bool;     (* the request's IsFromOtherCluster *)
  em_evs : list emitted
}.

(* NotifyUpdateEvent: append the own signature unless present *)
Definition with_self (self : Z) (sigs : list Z) : list Z :=
  if existsb (Z.eqb self) sigs then sigs else sigs ++ [self].

(* filepath.Dir of a clean absolute path *)
Definition parent_path (p : string) : string := abs (removelast (segs p)).

(* the events that are emitted with signatures = nil: implicitly created parent
   directories (filer.go: NotifyUpdateEvent(nil, dirEntry, false, isFromOtherCluster, nil))
   and everything below the directory of a recursive delete
   (filer_delete_entry.go: NotifyUpdateEvent(sub, nil, ..., nil) and the recursion with (false, nil)) *)
Definition emitted_bare (op : emit_op) (m : emitted) : bool :=
  match em_kind op with
  | ECreate => negb (String.eqb (m_key m) (em_top op))
  | EUpdate => false
  | EDelete => negb (String.eqb (m_key m) (em_top op))
  | ERename => m_isdir m && negb (m_has_old m) &&
               String.prefix (m_key m ^^ "/") (em_top2 op)
  end.

Definition emitted_flag (op : emit_op) (m : emitted) : bool :=
  match em_kind op with
  | ECreate | EUpdate => em_from_other op
  | EDelete =>
      if String.eqb (m_key m) (em_top op) then em_from_other op
      else (* a file directly in the deleted directory keeps the flag; sub-directories and
              everything below them are notified with false *)
           em_from_other op && negb (m_isdir m) && String.eqb (parent_path (m_key m)) (em_top op)
  | ERename => false        (* AtomicRenameEntry has no such flag: CreateEntry(.., false, ..) *)
  end.

Definition emit_label (op : emit_op) (m : emitted) : list Z * bool :=
  (if emitted_bare op m then [em_self op] else with_self (em_self op) (em_sigs op),
   emitted_flag op m).

(* the property: an event emitted while applying a change that came with
   signatures S (the filers that have already seen it) carries all of S, and a
   replicated change stays marked as replicated *)
Definition emit_ok (op : emit_op) (sigs : list Z) (flag : bool) : bool :=
  forallb (fun s => existsb (Z.eqb s) sigs) (em_sigs op) && (negb (em_from_other op) || flag).

(* finding 1: some emitted event is notified without the request's signatures /
   flag, and the request had some to lose *)
Definition emit_unsafe (op : emit_op) : bool :=
  existsb (fun m => let '(sg, fl) := emit_label op m in negb (emit_ok op sg fl)) (em_evs op).

(* ---------- incremental sinks: the reference ---------- *)
(* the mapped path with the date folder inserted after the target directory;
   nothing is ever deleted or updated for a change that leaves a new entry *)
Definition map_path_inc (c : config) (date : string) (k : list string) : string :=
  abs (tgt_segs c ++ [date] ++ skipn (List.length (src_segs c)) k).
Definition mirror_spec_inc (c : config) (ev : event) : plan :=
  let dk := date_key ev in
  match ev_old ev, ev_new ev with
  | Some o, None =>
      let ok := segs (ev_dir ev) ++ [e_name o] in
      if inside c ok then Do (Delete (map_path_inc c dk ok) (e_isdir o) (ev_delete_chunks ev)) else Nothing
  | _, Some n =>
      let nk := segs (ev_new_parent ev) ++ [e_name n] in
      if inside c nk then Do (Create (map_path_inc c dk nk) n) else Nothing
  | None, None => Nothing
  end.

(* ---------- LocalSink: file content ---------- *)
(* CreateEntry: OpenFile(O_CREATE|O_TRUNC) + CopyFromChunkViews writes the new
   entry's bytes, whether or not the file existed.  The content map follows the
   tree: after every sink call it holds exactly the paths that are files. *)
Definition contents := list (string * list N).
Definition set_data (m : contents) (k : string) (d : list N) : contents :=
  filter (fun x => negb (String.eqb (fst x) k)) m ++ [(k, d)].
Definition keep_files (t : tree) (m : contents) : contents :=
  filter (fun x => match lookup_tree t (fst x) with Some false => true | _ => false end) m.

Definition local_do_data (st : tree * contents) (o : sinkop) : (tree * contents) * (bool * bool) :=
  let '(t, m) := st in
  let '(t', (found, err)) := local_do t o in
  let m1 := match o with
            | Create key e => if negb err && negb (e_isdir e) && negb (is_multipart key) then set_data m key (e_data e) else m
            | Update key np e _ =>
                if negb err && negb (e_isdir e) && negb (is_multipart key) && String.eqb (join [np; e_name e]) key
                then set_data m key (e_data e) else m
            | Delete _ _ _ => m
            end in
  ((t', keep_files t' m1), (found, err)).

Fixpoint run_local_data (c : config) (st : tree * contents) (evs : list event) : tree * contents :=
  match evs with
  | [] => st
  | ev :: evs' => run_local_data c (fst (exec_plan _ local_do_data st (sync_process c ev))) evs'
  end.

(* reference for the content: the bytes of the last new entry at each mapped path *)
Definition spec_data_step (c : config) (m : contents) (ev : event) : contents :=
  let m1 := match ev_old ev with
            | Some o => let k := segs (ev_dir ev) ++ [e_name o] in
                        if negb (e_isdir o) && inside c k
                        then filter (fun x => negb (String.eqb (fst x) (map_path c k))) m else m
            | None => m
            end in
  match ev_new ev with
  | Some n => let k := segs (ev_new_parent ev) ++ [e_name n] in
              if negb (e_isdir n) && inside c k then set_data m1 (map_path c k) (e_data n) else m1
  | None => m1
  end.
Definition spec_data (c : config) (evs : list event) : contents := fold_left (spec_data_step c) evs [].
