(* Model of a volume that stops at an arbitrary point and is opened again (C03):
     weed/storage/volume_write.go      doWriteRequest / isFileUnchanged / doDeleteRequest (append order:
                                       data record first, then index entry; tombstones)
     weed/storage/backend/disk_file.go NewDiskFile (fileSize rounded UP to a multiple of 8), WriteAt,
                                       Truncate, GetStat (answers the cached fileSize)
     weed/storage/volume_loading.go    load: super block, index file, CheckAndFixVolumeDataIntegrity
                                       => noWriteOrDelete on error, needle map (in-memory, or the sorted
                                       file map for a read-only volume)
     weed/storage/volume_checking.go   CheckAndFixVolumeDataIntegrity, doCheckAndFixVolumeData,
                                       verifyIndexFileIntegrity (drops a torn trailing entry),
                                       verifyNeedleIntegrity (also used for deletion entries)
     weed/storage/needle_map_memory.go doLoading;  needle_map_sorted_file.go NewSortedFileNeedleMap,
     weed/storage/erasure_coding/ec_encoder.go readNeedleMap (what the .sdx is built from),
     weed/storage/needle_map_metric.go reverseWalkIndexFile (refuses a size that is no multiple of 16)
     weed/storage/volume_read.go       readNeedle;  weed/storage/store.go WriteVolumeNeedle / DeleteVolumeNeedle guards
   The .dat file is a byte string ([list N], byte codec = model/Needle.v, needle version 3), the
   .idx file a list of entries plus the number of bytes of a torn trailing entry (those bytes
   are never parsed by the code: every reader of the index stops at the last full entry or
   looks at the file size only).
   Executable definitions only; proofs are in proof/VolumeCrashProofs.v.  Everything mirrors the
   Go code as it is. *)
From Coq Require Import List NArith ZArith Bool.
From SW Require Import model.Needle.
Import ListNotations.
Local Open Scope N_scope.

Definition Ver : N := 3.                          (* needle.CurrentVersion = Version3 *)
Definition SuperBlockSize : N := 8.
Definition NeedleMapEntrySize : N := 16.          (* NeedleIdSize + OffsetSize + SizeSize *)
Definition MaxPossibleVolumeSize : N := 34359738368.   (* 4 * 1024 * 1024 * 1024 * 8 *)
Definition TombstoneFileSize : Z := (-1)%Z.

(* ---------- index entries and the needle map ---------- *)
(* offset in units of NeedlePaddingSize = 8 bytes (types.Offset, 4 bytes); size is an int32 *)
Record entry := { e_key : N; e_off : N; e_size : Z }.

Record nval := { nv_off : N; nv_size : Z }.
Definition nmap := list (N * nval).               (* newest binding first *)

Fixpoint nm_get (m : nmap) (k : N) : option nval :=
  match m with
  | [] => None
  | (k', v) :: m' => if k' =? k then Some v else nm_get m' k
  end.
Definition nm_set (m : nmap) (k : N) (v : nval) : nmap := (k, v) :: m.
(* Size.IsValid / Size.IsDeleted *)
Definition size_valid (s : Z) : bool := (0 <? s)%Z && negb (s =? TombstoneFileSize)%Z.
Definition size_deleted (s : Z) : bool := (s <? 0)%Z || (s =? TombstoneFileSize)%Z.
(* CompactMap.Delete: negate the size when it is valid; the offset stays *)
Definition nm_delete (m : nmap) (k : N) : nmap :=
  match nm_get m k with
  | Some v => if size_valid (nv_size v) then (k, {| nv_off := nv_off v; nv_size := (- nv_size v)%Z |}) :: m else m
  | None => m
  end.
(* MemDb.Delete (leveldb delete): the key is gone *)
Fixpoint nm_remove (m : nmap) (k : N) : nmap :=
  match m with
  | [] => []
  | (k', v) :: m' => if k' =? k then nm_remove m' k else (k', v) :: nm_remove m' k
  end.

(* doLoading (needle_map_memory.go), one index entry *)
Definition load_compact_step (m : nmap) (e : entry) : nmap :=
  if negb (e_off e =? 0) && size_valid (e_size e)
  then nm_set m (e_key e) {| nv_off := e_off e; nv_size := e_size e |}
  else nm_delete m (e_key e).
Definition load_compact (es : list entry) : nmap := fold_left load_compact_step es [].

(* readNeedleMap (ec_encoder.go) feeding WriteSortedFileFromIdx: what the .sdx of a read-only
   volume holds *)
Definition load_sorted_step (m : nmap) (e : entry) : nmap :=
  if negb (e_off e =? 0) && negb (e_size e =? TombstoneFileSize)%Z
  then nm_set (nm_remove m (e_key e)) (e_key e) {| nv_off := e_off e; nv_size := e_size e |}
  else nm_remove m (e_key e).
Definition load_sorted (es : list entry) : nmap := fold_left load_sorted_step es [].

(* ---------- the running volume (before the crash) ---------- *)
(* The record-level behaviour of doWriteRequest / doDeleteRequest on a healthy volume (reads of
   stored records succeed; that is C01's subject): the state keeps the appended records with
   their offsets, the files they produce, and the needle map. *)
Record arec := { a_n : needle; a_tomb : bool }.

Record pstate := {
  p_recs : list (N * arec);     (* (offset, record), oldest first *)
  p_dat : list N;               (* the .dat file *)
  p_idx : list entry;           (* the .idx file *)
  p_map : nmap
}.

(* the super block of a version-3 volume without replication or TTL: version, replica
   placement, TTL (2), compaction revision (2), extra size (2) *)
Definition super_block : list N := [3; 0; 0; 0; 0; 0; 0; 0].
Definition p_init : pstate := {| p_recs := []; p_dat := super_block; p_idx := []; p_map := [] |}.

Inductive op :=
| Write (n : needle)            (* Store.WriteVolumeNeedle; [append_at_ns n] is the clock reading *)
| Delete (k c ts : N).          (* Store.DeleteVolumeNeedle of a needle with Id k, Cookie c; ts = clock *)

Fixpoint find_rec (l : list (N * arec)) (off : N) : option arec :=
  match l with
  | [] => None
  | (o, r) :: l' => if o =? off then Some r else find_rec l' off
  end.

Definition entry_size (r : arec) : Z := if a_tomb r then TombstoneFileSize else Z.of_N (body_size (a_n r)).
Definition entry_of (off : N) (r : arec) : entry :=
  {| e_key := id (a_n r); e_off := off / 8 (* ToOffset *); e_size := entry_size r |}.

(* isFileUnchanged (volume TTL empty): ReadData of the mapped record recomputes its checksum
   from its data; a stored record carries Checksum = NewCRC(Data) *)
Definition p_unchanged (st : pstate) (n : needle) : bool :=
  match nm_get (p_map st) (id n) with
  | Some nv =>
      if negb (nv_off nv =? 0) && size_valid (nv_size nv) then
        match find_rec (p_recs st) (nv_off nv * 8) with
        | Some r => (cookie (a_n r) =? cookie n) && (checksum (a_n r) =? checksum n)
                    && bytes_eqb (data (a_n r)) (data n)
        | None => false
        end
      else false
  | None => false
  end.

(* "check whether existing needle cookie matches": ReadNeedleHeader at the mapped offset *)
Definition p_cookie_ok (st : pstate) (n : needle) : bool :=
  match nm_get (p_map st) (id n) with
  | Some nv =>
      match find_rec (p_recs st) (nv_off nv * 8) with
      | Some r => cookie (a_n r) =? cookie n
      | None => false
      end
  | None => true
  end.

(* Needle.Append at the end of the file *)
Definition p_append (st : pstate) (r : arec) (m : nmap) (with_entry : bool) : pstate :=
  let off := len (p_dat st) in
  {| p_recs := p_recs st ++ [(off, r)];
     p_dat := p_dat st ++ encode Ver (a_n r);
     p_idx := if with_entry then p_idx st ++ [entry_of off r] else p_idx st;
     p_map := m |}.

Definition p_write (st : pstate) (n : needle) : pstate :=
  if p_unchanged st n then st
  else if negb (p_cookie_ok st n) then st
  else
    let off := len (p_dat st) in
    let r := {| a_n := n; a_tomb := false |} in
    (* if !ok || uint64(nv.Offset.ToActualOffset()) < offset { nm.Put } *)
    let newer := match nm_get (p_map st) (id n) with Some nv => nv_off nv * 8 <? off | None => true end in
    if newer
    then p_append st r (nm_set (p_map st) (id n) {| nv_off := off / 8; nv_size := Z.of_N (body_size n) |}) true
    else p_append st r (p_map st) false.

(* the record doDeleteRequest appends: n.Data = nil, so Size = 0 and nothing but the header,
   the checksum of the request needle (zero value), the timestamp and the padding is stored *)
Definition tombstone (k c ts : N) : needle :=
  {| cookie := c; id := k; data := []; flags := 0; name := []; mime := []; pairs_size := 0;
     pairs := []; last_modified := 0; ttl := None; checksum := 0; append_at_ns := ts |}.

Definition p_delete (st : pstate) (k c ts : N) : pstate :=
  match nm_get (p_map st) k with
  | Some nv =>
      if size_valid (nv_size nv)
      then p_append st {| a_n := tombstone k c ts; a_tomb := true |} (nm_delete (p_map st) k) true
      else st
  | None => st
  end.

Definition p_step (st : pstate) (o : op) : pstate :=
  match o with
  | Write n => p_write st n
  | Delete k c ts => p_delete st k c ts
  end.

Definition p_run (h : list op) : pstate := fold_left p_step h p_init.

Definition op_key (o : op) : N := match o with Write n => id n | Delete k _ _ => k end.

(* ---------- the crash: each file keeps a prefix ---------- *)
Record files := {
  f_dat : list N;
  f_idx : list entry;           (* the full entries of the index file *)
  f_torn : N                    (* bytes of a torn trailing entry, 0..15 *)
}.

(* [dcut] bytes of the .dat survive, [icut] bytes of the .idx *)
Definition crash (st : pstate) (dcut icut : N) : files :=
  {| f_dat := takeN dcut (p_dat st);
     f_idx := takeN (icut / NeedleMapEntrySize) (p_idx st);
     f_torn := if icut / NeedleMapEntrySize <? len (p_idx st) then icut mod NeedleMapEntrySize else 0 |}.

(* ---------- opening the volume ---------- *)
(* backend.DiskFile: the bytes on disk and the cached fileSize (NewDiskFile rounds it up) *)
Record dfile := { d_bytes : list N; d_fsize : N }.

Definition round_up8 (x : N) : N := if x mod 8 =? 0 then x else x + (8 - x mod 8).
Definition open_dat (b : list N) : dfile := {| d_bytes := b; d_fsize := round_up8 (len b) |}.

(* File.Truncate(off) with off below the size on disk (see the proof file: fileSize > off and
   both multiples of 8 imply that the disk holds more than off bytes) *)
Definition d_truncate (d : dfile) (off : N) : dfile := {| d_bytes := takeN off (d_bytes d); d_fsize := off |}.

Inductive cres :=
| CNil                 (* no error *)
| CEof                 (* io.EOF *)
| CMismatch            (* ErrorSizeMismatch *)
| COther.              (* any other error *)

Section WithCrc.
  Variable crc : list N -> N.

  (* verifyNeedleIntegrity, version 3; [size] >= 0 *)
  Definition verify_needle (d : dfile) (off key : N) (size : Z) : cres * dfile :=
    let rest := dropN off (d_bytes d) in
    (* ReadNeedleHeader: a short read (count < 16, or nothing) is io.EOF *)
    if len rest <? NeedleHeaderSize then (CEof, d) else
    let '(_, _, hs) := parse_header rest in
    (* n.Size != size, both int32 *)
    if negb (Z.of_N hs =? size)%Z then (CMismatch, d) else
    let sz := Z.to_N size in
    (* ReadAt(8 bytes, offset + NeedleHeaderSize + size + NeedleChecksumSize) *)
    if len (dropN (NeedleHeaderSize + sz + NeedleChecksumSize) rest) <? TimestampSize then (CEof, d) else
    let tail := off + actual_size sz Ver in
    if d_fsize d =? tail then (CNil, d)
    else if tail <? d_fsize d then (CNil, d_truncate d tail)
    else
      (* data file shorter than expected: ReadData, then the id *)
      let '(dn, st) := read_data crc (d_bytes d) off sz Ver in
      match st with
      | SOk => if id (d_n dn) =? key then (CNil, d) else (COther, d)
      | _ => (COther, d)
      end.

  (* doCheckAndFixVolumeData on one index entry (as repaired for finding c03-tombstone-tail-readonly:
     a deletion entry is verified at the tombstone record it points to, which has Size 0) *)
  Definition check_entry (d : dfile) (e : entry) : cres * dfile :=
    if e_off e =? 0 then (CNil, d)
    else verify_needle d (e_off e * 8) (e_key e) (if (e_size e <? 0)%Z then 0%Z else e_size e).

  (* the loop of CheckAndFixVolumeDataIntegrity over the last <= 10 entries, newest first;
     [cnt] = number of entries up to and including the head of [es]; [healthy] in entries;
     [last] = the error of the previous iteration *)
  Fixpoint check_loop (n : nat) (es : list entry) (cnt : N) (d : dfile) (healthy : N) (last : cres)
    : cres * dfile * N :=
    match n, es with
    | S n', e :: es' =>
        let '(r, d') := check_entry d e in
        match r with
        | CEof => check_loop n' es' (cnt - 1) d' (cnt - 1) CEof
        | CMismatch => check_loop n' es' (cnt - 1) d' healthy CMismatch
        | _ => (r, d', healthy)
        end
    | _, _ => (last, d, healthy)
    end.

  (* CheckAndFixVolumeDataIntegrity for an index whose size is a multiple of 16: the error
     (as a flag), the data file, the index entries that remain *)
  Definition check_and_fix (d : dfile) (es : list entry) : bool * dfile * list entry :=
    match es with
    | [] => (false, d, es)                                    (* indexSize == 0 *)
    | _ =>
        let ie := len es in
        let '(r, d', healthy) := check_loop 10 (rev es) ie d ie CNil in
        if healthy <? ie
        then (false, d', takeN healthy es)                    (* err = indexFile.Truncate(...) = nil *)
        else (match r with CNil => false | _ => true end, d', es)
    end.

  (* ---------- the loaded volume ---------- *)
  Record lstate := {
    l_dat : dfile;
    l_idx : list entry;
    l_map : nmap;
    l_nwod : bool                (* noWriteOrDelete *)
  }.

  Inductive lres :=
  | LNotLoaded                   (* NewVolume returns an error: the volume is not served *)
  | Loaded (L : lstate).

  (* Volume.load(alsoLoadIndex = true) on existing files *)
  Definition load (f : files) : lres :=
    (* fileSize < SuperBlockSize: "volume ... not initialized" *)
    if len (f_dat f) <? SuperBlockSize then LNotLoaded
    else
      (* verifyIndexFileIntegrity (as repaired for finding c03-torn-index-entry-panic): the
         [f_torn f] bytes of a torn trailing entry are cut off the index file (opened read-write:
         the data file is writable) and the check goes on with the whole entries *)
      let '(err, d, es) := check_and_fix (open_dat (f_dat f)) (f_idx f) in
      Loaded {| l_dat := d; l_idx := es;
                l_map := if err then load_sorted es else load_compact es;
                l_nwod := err |}.

  (* ---------- reading ---------- *)
  Inductive rres :=
  | RNotFound                    (* ErrorNotFound *)
  | RDeleted                     (* ErrorDeleted *)
  | REmpty                       (* size 0: (0, nil) without touching the file *)
  | ROk (d : dneedle)
  | RErr (code : N).             (* status_code of the failing ReadData *)

  (* Volume.readNeedle without ReadDeleted (needles without TTL: the expiry test is C01/C09's) *)
  Definition l_read (L : lstate) (k : N) : rres :=
    match nm_get (l_map L) k with
    | None => RNotFound
    | Some nv =>
        if nv_off nv =? 0 then RNotFound
        else if size_deleted (nv_size nv) then RDeleted
        else if (nv_size nv =? 0)%Z then REmpty
        else
          let sz := Z.to_N (nv_size nv) in
          let r1 := read_data crc (d_bytes (l_dat L)) (nv_off nv * 8) sz Ver in
          (* if err == ErrorSizeMismatch && OffsetSize == 4: retry 32 GiB further *)
          let r2 := match snd r1 with
                    | SSizeMismatch => read_data crc (d_bytes (l_dat L)) (nv_off nv * 8 + MaxPossibleVolumeSize) sz Ver
                    | _ => r1
                    end in
          match snd r2 with
          | SOk => ROk (fst r2)
          | s => RErr (status_code s)
          end
    end.

  (* ---------- writing after the reopen ---------- *)
  Inductive wres := WOk | WUnchanged | WReadOnly | WOther.

  (* isFileUnchanged on the files *)
  Definition l_unchanged (L : lstate) (n : needle) : bool :=
    match nm_get (l_map L) (id n) with
    | Some nv =>
        if negb (nv_off nv =? 0) && size_valid (nv_size nv) then
          let r := read_data crc (d_bytes (l_dat L)) (nv_off nv * 8) (Z.to_N (nv_size nv)) Ver in
          match snd r with
          | SOk => (cookie (d_n (fst r)) =? cookie n) && (checksum (d_n (fst r)) =? checksum n)
                   && bytes_eqb (data (d_n (fst r))) (data n)
          | _ => false
          end
        else false
    | None => false
    end.

  (* WriteAt at the cached fileSize: a gap up to it reads as zeros *)
  Definition zeros (k : N) : list N := repeat 0 (N.to_nat k).
  Definition d_append (d : dfile) (b : list N) : dfile :=
    {| d_bytes := d_bytes d ++ zeros (d_fsize d - len (d_bytes d)) ++ b; d_fsize := d_fsize d + len b |}.

  (* Store.WriteVolumeNeedle: the read-only guard, then doWriteRequest *)
  Definition l_write (L : lstate) (n : needle) : lstate * wres :=
    if l_nwod L then (L, WReadOnly)
    else if l_unchanged L n then (L, WUnchanged)
    else
      let g := nm_get (l_map L) (id n) in
      let cookie_err :=
        match g with
        | Some nv =>
            let rest := dropN (nv_off nv * 8) (d_bytes (l_dat L)) in
            if len rest <? NeedleHeaderSize then true            (* "reading existing needle: EOF" *)
            else let '(c, _, _) := parse_header rest in negb (c =? cookie n)
        | None => false
        end in
      if cookie_err then (L, WOther)
      else
        let off := d_fsize (l_dat L) in
        let d' := d_append (l_dat L) (encode Ver n) in
        let newer := match g with Some nv => nv_off nv * 8 <? off | None => true end in
        if newer then
          ({| l_dat := d'; l_idx := l_idx L ++ [{| e_key := id n; e_off := off / 8; e_size := Z.of_N (body_size n) |}];
              l_map := nm_set (l_map L) (id n) {| nv_off := off / 8; nv_size := Z.of_N (body_size n) |};
              l_nwod := false |}, WOk)
        else ({| l_dat := d'; l_idx := l_idx L; l_map := l_map L; l_nwod := false |}, WOk).

  (* Store.DeleteVolumeNeedle: the read-only guard, then doDeleteRequest: a live key gets a
     tombstone record appended (Data = nil) and NeedleMap.Delete negates the size in the map and
     appends the deletion entry to the index; the answer is (read only?, the size that was mapped) *)
  Definition l_delete (L : lstate) (k c ts : N) : lstate * (bool * Z) :=
    if l_nwod L then (L, (true, 0%Z))
    else match nm_get (l_map L) k with
         | Some nv =>
             if size_valid (nv_size nv)
             then ({| l_dat := d_append (l_dat L) (encode Ver (tombstone k c ts));
                      l_idx := l_idx L ++ [entry_of (d_fsize (l_dat L)) {| a_n := tombstone k c ts; a_tomb := true |}];
                      l_map := nm_delete (l_map L) k; l_nwod := false |}, (false, nv_size nv))
             else (L, (false, 0%Z))
         | None => (L, (false, 0%Z))
         end.

  (* what an operation answers *)
  Inductive ores := RW (w : wres) | RD (ro : bool) (sz : Z).

  Definition l_step (L : lstate) (o : op) : lstate * ores :=
    match o with
    | Write n => let '(L', w) := l_write L n in (L', RW w)
    | Delete k c ts => let '(L', (ro, sz)) := l_delete L k c ts in (L', RD ro sz)
    end.

  (* the reopened volume after further operations *)
  Definition l_after (L : lstate) (h : list op) : lstate := fold_left (fun L o => fst (l_step L o)) h L.
End WithCrc.

(* what the RUNNING volume answers to an operation (record level) *)
Definition p_res (st : pstate) (o : op) : ores :=
  match o with
  | Write n => if p_unchanged st n then RW WUnchanged
               else if negb (p_cookie_ok st n) then RW WOther else RW WOk
  | Delete k _ _ =>
      match nm_get (p_map st) k with
      | Some nv => if size_valid (nv_size nv) then RD false (nv_size nv) else RD false 0%Z
      | None => RD false 0%Z
      end
  end.

(* what readNeedle answers on the RUNNING volume, on the record level (the mapped record is in
   the file and decodes to itself; that is C01/C02's subject): the yardstick for a reopened one *)
Definition p_read (st : pstate) (k : N) : rres :=
  match nm_get (p_map st) k with
  | None => RNotFound
  | Some nv =>
      if nv_off nv =? 0 then RNotFound
      else if size_deleted (nv_size nv) then RDeleted
      else if (nv_size nv =? 0)%Z then REmpty
      else match find_rec (p_recs st) (nv_off nv * 8) with
           | Some r => ROk (dview Ver (a_n r))
           | None => RErr 0
           end
  end.

(* ---------- the specification of the running volume ---------- *)
(* key -> cookie, the needle stored last (None once deleted), and the number of the appended
   record that made it so.  A write is refused when the key exists with another cookie and
   changes nothing when it repeats the live content; a delete of a key that is not live changes
   nothing.  [nrec] counts the records appended so far. *)
Record sval := { s_cookie : N; s_live : option needle; s_rec : N }.
Definition smap := list (N * sval).
Fixpoint s_get (m : smap) (k : N) : option sval :=
  match m with
  | [] => None
  | (k', v) :: m' => if k' =? k then Some v else s_get m' k
  end.

Definition s_put (st : smap * N) (n : needle) : smap * N :=
  ((id n, {| s_cookie := cookie n; s_live := Some n; s_rec := snd st + 1 |}) :: fst st, snd st + 1).

Definition s_step (st : smap * N) (o : op) : smap * N :=
  match o with
  | Write n =>
      match s_get (fst st) (id n) with
      | Some v =>
          if negb (s_cookie v =? cookie n) then st
          else match s_live v with
               | Some n0 => if bytes_eqb (data n0) (data n) then st else s_put st n
               | None => s_put st n
               end
      | None => s_put st n
      end
  | Delete k _ _ =>
      match s_get (fst st) k with
      | Some v => match s_live v with
                  | Some _ => ((k, {| s_cookie := s_cookie v; s_live := None; s_rec := snd st + 1 |}) :: fst st, snd st + 1)
                  | None => st
                  end
      | None => st
      end
  end.
Definition s_run (ops : list op) : smap * N := fold_left s_step ops ([], 0).

Definition s_read (m : smap) (k : N) : rres :=
  match s_get m k with
  | None => RNotFound
  | Some v => match s_live v with Some n => ROk (dview Ver n) | None => RDeleted end
  end.

(* the answer of the specification to an operation: (code, size) with code 0 = done, 1 = unchanged,
   3 = refused (the key exists with another cookie); a delete answers the Size of the record it
   deleted (0 when there was nothing to delete) *)
Definition s_res (m : smap) (o : op) : N * Z :=
  match o with
  | Write n =>
      match s_get m (id n) with
      | Some v =>
          if negb (s_cookie v =? cookie n) then (3, 0%Z)
          else match s_live v with
               | Some n0 => if bytes_eqb (data n0) (data n) then (1, 0%Z) else (0, 0%Z)
               | None => (0, 0%Z)
               end
      | None => (0, 0%Z)
      end
  | Delete k _ _ =>
      match s_get m k with
      | Some v => match s_live v with Some n0 => (0, Z.of_N (body_size n0)) | None => (0, 0%Z) end
      | None => (0, 0%Z)
      end
  end.

(* the specification after the longest prefix of [ops] that appends at most [lim] records in all *)
Fixpoint s_upto (st : smap * N) (ops : list op) (lim : N) : smap * N :=
  match ops with
  | [] => st
  | o :: ops' => let st' := s_step st o in if snd st' <=? lim then s_upto st' ops' lim else st
  end.

(* ---------- what the correspondence check observes for one crash point ---------- *)
(* projection of a read: class, cookie, data *)
Definition rres_proj (r : rres) : N * N * list N :=
  match r with
  | ROk d => (0, cookie (d_n d), data (d_n d))
  | RNotFound => (1, 0, [])
  | RDeleted => (2, 0, [])
  | REmpty => (3, 0, [])
  | RErr c => (10 + c, 0, [])
  end.

Definition wres_code (w : wres) : N :=
  match w with WOk => 0 | WUnchanged => 1 | WReadOnly => 2 | WOther => 3 end.

(* the two files cut anywhere: [dcut] bytes of the data file and [icut] bytes of the index ([crash]
   is this on the files of a running volume) *)
Definition cut_files (dat : list N) (idx : list entry) (dcut icut : N) : files :=
  {| f_dat := takeN dcut dat;
     f_idx := takeN (icut / NeedleMapEntrySize) idx;
     f_torn := if icut / NeedleMapEntrySize <? len idx then icut mod NeedleMapEntrySize else 0 |}.

Definition ores_code (r : ores) : N * Z :=
  match r with
  | RW w => (wres_code w, 0%Z)
  | RD ro sz => (if ro then 2 else 0, sz)
  end.

(* the operations [h] on a reopened volume, with their answers *)
Fixpoint l_run (crc : list N -> N) (L : lstate) (h : list op) : lstate * list ores :=
  match h with
  | [] => (L, [])
  | o :: h' => let '(L1, r) := l_step crc L o in let '(L2, rs) := l_run crc L1 h' in (L2, r :: rs)
  end.

(* three stages: (1) the reopened volume; (2) after the further operations [post]; (3) stopped
   again -- the data file whole, the index file short of its last [drop2] bytes -- and reopened *)
Record obs := {
  o_load : N;                        (* 0 loaded, 1 not loaded (2 = run-time panic: never in the model) *)
  o_readonly : bool;
  o_dat_len : N;                     (* bytes of the .dat on disk after the load *)
  o_idx_len : N;                     (* bytes of the .idx on disk after the load *)
  o_reads : list (N * N * list N);   (* one per probed key *)
  o_post : list (N * Z);             (* the answer to every further operation *)
  o_reads2 : list (N * N * list N);  (* the probed keys after them *)
  o_dat_len2 : N;                    (* sizes on disk after them *)
  o_idx_len2 : N;
  o_load3 : N;                       (* the second reopen *)
  o_readonly3 : bool;
  o_reads3 : list (N * N * list N);
  o_dat_len3 : N;
  o_idx_len3 : N
}.

Definition observe (crc : list N -> N) (f : files) (keys : list N) (post : list op) (drop2 : N) : obs :=
  match load crc f with
  | LNotLoaded => {| o_load := 1; o_readonly := false; o_dat_len := 0; o_idx_len := 0; o_reads := [];
                     o_post := []; o_reads2 := []; o_dat_len2 := 0; o_idx_len2 := 0;
                     o_load3 := 1; o_readonly3 := false; o_reads3 := []; o_dat_len3 := 0; o_idx_len3 := 0 |}
  | Loaded L =>
      let '(L2, rs) := l_run crc L post in
      let dat2 := d_bytes (l_dat L2) in
      let ilen2 := NeedleMapEntrySize * len (l_idx L2) in
      let l3 := load crc (cut_files dat2 (l_idx L2) (len dat2) (ilen2 - drop2)) in
      {| o_load := 0; o_readonly := l_nwod L;
         o_dat_len := len (d_bytes (l_dat L)); o_idx_len := NeedleMapEntrySize * len (l_idx L);
         o_reads := map (fun k => rres_proj (l_read crc L k)) keys;
         o_post := map ores_code rs;
         o_reads2 := map (fun k => rres_proj (l_read crc L2 k)) keys;
         o_dat_len2 := len dat2; o_idx_len2 := ilen2;
         o_load3 := match l3 with Loaded _ => 0 | LNotLoaded => 1 end;
         o_readonly3 := match l3 with Loaded L3 => l_nwod L3 | LNotLoaded => false end;
         o_reads3 := match l3 with Loaded L3 => map (fun k => rres_proj (l_read crc L3 k)) keys | LNotLoaded => [] end;
         o_dat_len3 := match l3 with Loaded L3 => len (d_bytes (l_dat L3)) | LNotLoaded => 0 end;
         o_idx_len3 := match l3 with Loaded L3 => NeedleMapEntrySize * len (l_idx L3) | LNotLoaded => 0 end |}
  end.

(* ---------- admissible crash points and the triggers of the known findings ---------- *)
(* end offset of the i-th appended record (i >= 1); the super block for i = 0 *)
Definition rec_end (st : pstate) (i : N) : N :=
  match i with
  | 0 => SuperBlockSize
  | _ => match nth_error (p_recs st) (N.to_nat (N.pred i)) with
         | Some (off, r) => off + len (encode Ver (a_n r))
         | None => len (p_dat st)
         end
  end.

(* write order: an index entry is appended only after its data record, so the whole entries
   that survive have their records in full (so has the entry that tore, but nothing depends
   on that: crash points with a torn entry whose record is incomplete are admitted too) *)
Definition admissible (st : pstate) (dcut icut : N) : bool :=
  (icut <=? NeedleMapEntrySize * len (p_idx st)) && (dcut <=? len (p_dat st))
  && (rec_end st (icut / NeedleMapEntrySize) <=? dcut).

(* the crash points of the two repaired findings (kept to name the witnesses):
   the last surviving index entry is a tombstone and the data file does not end exactly with
   that tombstone's record; the index file ends inside an entry *)
Definition tombstone_tail (st : pstate) (dcut icut : N) : bool :=
  let ie := icut / NeedleMapEntrySize in
  match ie with
  | 0 => false
  | _ => match nth_error (p_idx st) (N.to_nat (N.pred ie)) with
         | Some e => (e_size e <? 0)%Z && negb (dcut =? rec_end st ie)
         | None => false
         end
  end.
Definition torn_index (icut : N) : bool := negb (icut mod NeedleMapEntrySize =? 0).

(* finding 0 (c03-empty-blob-gone-after-restart): a blob with an empty payload is stored as a record
   of Size 0 and an index entry of size 0; the running volume answers (0, nil) for it, but replaying
   the index treats a size-0 entry as a deletion, so after ANY restart the key is unknown (or
   deleted, when an older version existed) and its cookie is forgotten.  Triggers: the key is bound
   to an empty blob when the volume stops (state level); the history writes an empty payload under
   the key (history level, per key); the history writes an empty payload at all. *)
Definition is_nil {A} (l : list A) : bool := match l with [] => true | _ => false end.
Definition empty_bound (o : option nval) : bool :=
  match o with Some pv => (nv_size pv =? 0)%Z | None => false end.
Definition empty_live (st : pstate) (k : N) : bool := empty_bound (nm_get (p_map st) k).
Definition empty_write_of (k : N) (o : op) : bool :=
  match o with Write n => (id n =? k) && is_nil (data n) | Delete _ _ _ => false end.
Definition key_has_empty_write (h : list op) (k : N) : bool := existsb (empty_write_of k) h.
Definition has_empty_write (h : list op) : bool :=
  existsb (fun o => match o with Write n => is_nil (data n) | Delete _ _ _ => false end) h.
