(* Correspondence check for C37: histories of Write/Delete/Compact on a real source
   volume and Backup runs (runBackup's logic over the real gRPC VolumeSyncStatus /
   VolumeIncrementalCopy) into a real backup volume; after every backup run every key
   is read on both sides. *)
From Coq Require Import List NArith Bool.
From SW Require Export base.Verdict model.Backup.
Import ListNotations.
Local Open Scope N_scope.

Record case := { nkeys : N; ops : list op; impl : list obs }.

Definition read_eqb (a b : option (N * N)) : bool :=
  match a, b with
  | Some (x, y), Some (x', y') => (x =? x') && (y =? y')
  | None, None => true
  | _, _ => false
  end.

Fixpoint all2 {A} (f : A -> A -> bool) (l1 l2 : list A) : bool :=
  match l1, l2 with
  | [], [] => true
  | x :: l1', y :: l2' => f x y && all2 f l1' l2'
  | _, _ => false
  end.

Definition obs_eqb (a b : obs) : bool :=
  (o_sdat a =? o_sdat b) && (o_bdat a =? o_bdat b) && (o_srev a =? o_srev b) && (o_brev a =? o_brev b)
  && all2 read_eqb (o_sreads a) (o_sreads b) && all2 read_eqb (o_breads a) (o_breads b).

Definition is_some {A} (x : option A) : bool := match x with Some _ => true | None => false end.

Definition check (c : case) : outcome :=
  {| o_corr := hist_ok (ops c) && all2 obs_eqb (run (nkeys c) init (ops c)) (impl c);
     (* the property itself, on the implementation's answers: after every backup run
        the backup serves exactly what the source serves *)
     o_prop := forallb (fun o => all2 read_eqb (o_sreads o) (o_breads o)) (impl c);
     o_trig := if trig_compacted_before_pull (ops c) then Some 0 else None;
     o_nontrivial := existsb (fun o => existsb is_some (o_sreads o)) (impl c) |}.

Definition summarize_cases (l : list case) : summary := summarize check l.
