(* Correspondence check for C37: histories of Write/Delete/Compact on a real source
   volume and Backup runs (runBackup's logic over the real gRPC VolumeSyncStatus /
   VolumeIncrementalCopy) into a real backup volume; after every backup run every key
   is read on both sides.  AppendAtNs values are inputs (the harness overwrites the 8
   timestamp bytes of each record the real write path appended). *)
From Coq Require Import List NArith ZArith Bool.
From SW Require Export base.Verdict model.Backup.
Import ListNotations.
Local Open Scope N_scope.

(* [sync]: the harness's runBackup transcription (hook VerifC37RunBackup) is textually
   the tail of the real runBackup *)
(* [skind], [bkind]: the NeedleMapper implementation of the source volume (volume server
   -index=memory|leveldb|leveldbMedium|leveldbLarge) and the one the backup volume is
   re-opened with for the reads: 0 NeedleMapInMemory, 1 NeedleMapLevelDb,
   2 NeedleMapLevelDbMedium, 3 NeedleMapLevelDbLarge.  They are inputs of the REAL run
   only: the model has no such parameter, [check] never looks at them
   (check_kind_irrelevant below), i.e. the same model answers — reads, sizes, revisions
   and every single .idx entry — are demanded from every kind.
   [sidx]: the entries (key, byte offset, Size) of the source's .idx file after EVERY
   operation of [ops]; [bidx]: those of the backup's .idx after every backup run. *)
Record case := { nkeys : N; skind : N; bkind : N; ops : list op; sync : bool; impl : list obs;
                 sidx : list (list idx_entry); bidx : list (list idx_entry) }.

Definition read_eqb (a b : option (N * N)) : bool :=
  match a, b with
  | Some (x, y), Some (x', y') => (x =? x') && (y =? y')
  | None, None => true
  | _, _ => false
  end.

Fixpoint all2 {A} (f : A -> A -> bool) (l1 l2 : list A) : bool :=
  match l1, l2 with
  | [], [] => true
  | x :: l1', y :: l2' => f x y && all2 f l1' l2'
  | _, _ => false
  end.

Definition obs_eqb (a b : obs) : bool :=
  (o_sdat a =? o_sdat b) && (o_bdat a =? o_bdat b) && (o_srev a =? o_srev b) && (o_brev a =? o_brev b)
  && (o_sidx a =? o_sidx b) && (o_bidx a =? o_bidx b)
  && all2 read_eqb (o_sreads a) (o_sreads b) && all2 read_eqb (o_breads a) (o_breads b).

Definition entry_eqb (a b : idx_entry) : bool :=
  let '(k, off, sz) := a in let '(k', off', sz') := b in
  (k =? k') && (off =? off') && (sz =? sz')%Z.
Definition idx_eqb (a b : list idx_entry) : bool := all2 entry_eqb a b.

Definition is_some {A} (x : option A) : bool := match x with Some _ => true | None => false end.

(* the property on one observation: the backup serves exactly what the source serves *)
Definition prop_ok (o : obs) : bool := all2 read_eqb (o_sreads o) (o_breads o).

(* the history up to and including the first backup run whose observation violates the
   property (the whole history when none does): a known finding excuses a violation
   only if one of its instances happened BEFORE that run *)
Fixpoint prefix_to_fail (h : list op) (obs : list obs) : list op :=
  match h with
  | [] => []
  | Backup :: h' =>
      match obs with
      | o :: obs' => if prop_ok o then Backup :: prefix_to_fail h' obs' else [Backup]
      | [] => [Backup]
      end
  | o :: h' => o :: prefix_to_fail h' obs
  end.

Definition check (c : case) : outcome :=
  {| o_corr := sync c && hist_ok (ops c) && all2 obs_eqb (run (nkeys c) init (ops c)) (impl c)
               && all2 idx_eqb (run_sidx init (ops c)) (sidx c) && all2 idx_eqb (run_bidx init (ops c)) (bidx c);
     (* the property itself, on the implementation's answers: after every backup run
        the backup serves exactly what the source serves *)
     o_prop := forallb prop_ok (impl c);
     o_trig := trigger (prefix_to_fail (ops c) (impl c));
     o_nontrivial := existsb (fun o => existsb is_some (o_sreads o)) (impl c) |}.

(* the expected answers do not depend on the needle-map kinds *)
Lemma check_kind_irrelevant : forall c sk bk',
  check {| nkeys := nkeys c; skind := sk; bkind := bk'; ops := ops c; sync := sync c; impl := impl c;
           sidx := sidx c; bidx := bidx c |} = check c.
Proof. reflexivity. Qed.

Definition summarize_cases (l : list case) : summary := summarize check l.
