(* Correspondence check for C37: histories of Write/Delete/Compact on a real source
   volume and Backup runs (runBackup's logic over the real gRPC VolumeSyncStatus /
   VolumeIncrementalCopy) into a real backup volume; after every backup run every key
   is read on both sides.  AppendAtNs values are inputs (the harness overwrites the 8
   timestamp bytes of each record the real write path appended). *)
From Coq Require Import List NArith Bool.
From SW Require Export base.Verdict model.Backup.
Import ListNotations.
Local Open Scope N_scope.

(* [sync]: the harness's runBackup transcription (hook VerifC37RunBackup) is textually
   the tail of the real runBackup *)
Record case := { nkeys : N; ops : list op; sync : bool; impl : list obs }.

Definition read_eqb (a b : option (N * N)) : bool :=
  match a, b with
  | Some (x, y), Some (x', y') => (x =? x') && (y =? y')
  | None, None => true
  | _, _ => false
  end.

Fixpoint all2 {A} (f : A -> A -> bool) (l1 l2 : list A) : bool :=
  match l1, l2 with
  | [], [] => true
  | x :: l1', y :: l2' => f x y && all2 f l1' l2'
  | _, _ => false
  end.

Definition obs_eqb (a b : obs) : bool :=
  (o_sdat a =? o_sdat b) && (o_bdat a =? o_bdat b) && (o_srev a =? o_srev b) && (o_brev a =? o_brev b)
  && (o_sidx a =? o_sidx b) && (o_bidx a =? o_bidx b)
  && all2 read_eqb (o_sreads a) (o_sreads b) && all2 read_eqb (o_breads a) (o_breads b).

Definition is_some {A} (x : option A) : bool := match x with Some _ => true | None => false end.

(* the property on one observation: the backup serves exactly what the source serves *)
Definition prop_ok (o : obs) : bool := all2 read_eqb (o_sreads o) (o_breads o).

(* the history up to and including the first backup run whose observation violates the
   property (the whole history when none does): a known finding excuses a violation
   only if one of its instances happened BEFORE that run *)
Fixpoint prefix_to_fail (h : list op) (obs : list obs) : list op :=
  match h with
  | [] => []
  | Backup :: h' =>
      match obs with
      | o :: obs' => if prop_ok o then Backup :: prefix_to_fail h' obs' else [Backup]
      | [] => [Backup]
      end
  | o :: h' => o :: prefix_to_fail h' obs
  end.

Definition check (c : case) : outcome :=
  {| o_corr := sync c && hist_ok (ops c) && all2 obs_eqb (run (nkeys c) init (ops c)) (impl c);
     (* the property itself, on the implementation's answers: after every backup run
        the backup serves exactly what the source serves *)
     o_prop := forallb prop_ok (impl c);
     o_trig := trigger (prefix_to_fail (ops c) (impl c));
     o_nontrivial := existsb (fun o => existsb is_some (o_sreads o)) (impl c) |}.

Definition summarize_cases (l : list case) : summary := summarize check l.
