(* Correspondence check for C05: one case = one operation history run on
     - a bare needle_map.CompactMap (every Set/Delete/Get result + the final section structure),
     - a storage.NeedleMap over a temp .idx (Gets, counters, .idx bytes; then LoadCompactNeedleMap),
     - a storage.LevelDbNeedleMap (Gets, counters, .idx bytes; then reopened from the .idx alone),
     - a storage.SortedFileNeedleMap generated from the NeedleMap's .idx (lookups, counters). *)
From Coq Require Import List NArith ZArith Bool.
From SW Require Export base.Verdict model.NeedleMap.
Import ListNotations.
Local Open Scope N_scope.

(* dump of one CompactSection: start, end, values[0..counter), overflow; entries (Key, offset, size) *)
Definition isec := (N * N * list (N * N * Z) * list (N * N * Z))%type.

(* typed constructors for the harness output: their argument scopes let cases.v write plain
   numerals (scope delimiters inside [a; b; ...] lists make Coq's parser very slow) *)
Definition NV (k o : N) (s : Z) : nval := (k, o, s).
Definition SEC (st en : N) (vs os : list (N * N * Z)) : isec := (st, en, vs, os).
Definition MET (d f db fb mx : N) : metric :=
  {| m_del := d; m_file := f; m_delb := db; m_fileb := fb; m_max := mx |}.

Record case := {
  c_osz : N;                 (* types.OffsetSize of the harness build *)
  c_batch : N;               (* needle_map batch constant of the harness build *)
  c_ops : list op;
  c_probe : list N;          (* keys looked up at the end of every run *)
  (* oracle: the answers of the real willf/bloom filter (NewWithEstimates(entries, 0.001)) for the
     reverse walk of the NeedleMap's .idx resp. the LevelDB map's .idx, one per entry *)
  c_bloom_mem : list bool;
  c_bloom_ldb : list bool;
  (* bare CompactMap *)
  i_cm : list res;
  i_secs : list isec;
  (* NeedleMap in memory *)
  i_mem_gets : list (option nval);     (* answers of the Get operations, in order *)
  i_mem_met : metric;
  i_mem_idx : N * N * list N;          (* .idx: byte length, entries skipped, one number per entry *)
  i_mem_look : list (option nval);     (* probe lookups at the end of the run *)
  i_mem_met2 : metric;                 (* after LoadCompactNeedleMap(.idx) *)
  i_mem_look2 : list (option nval);
  (* LevelDbNeedleMap *)
  i_ldb_gets : list (option nval);
  i_ldb_met : metric;
  i_ldb_idx : N * N * list N;
  i_ldb_look : list (option nval);
  i_ldb_met2 : metric;                 (* reopened after removing the db directory *)
  i_ldb_look2 : list (option nval);
  (* SortedFileNeedleMap generated from the NeedleMap's .idx *)
  i_sf_met : metric;
  i_sf_look : list (option nval)
}.

(* ---------- equality helpers ---------- *)
Fixpoint list_eqb {A} (f : A -> A -> bool) (l1 l2 : list A) : bool :=
  match l1, l2 with
  | [], [] => true
  | x :: l1', y :: l2' => f x y && list_eqb f l1' l2'
  | _, _ => false
  end.
Definition nval_eqb (a b : nval) : bool :=
  let '(k, o, s) := a in let '(k', o', s') := b in (k =? k') && (o =? o') && (s =? s')%Z.
Definition onval_eqb (a b : option nval) : bool :=
  match a, b with Some x, Some y => nval_eqb x y | None, None => true | _, _ => false end.
Definition res_eqb (a b : res) : bool :=
  match a, b with
  | RSet o s, RSet o' s' => (o =? o') && (s =? s')%Z
  | RDel s, RDel s' => (s =? s')%Z
  | RGet v, RGet v' => onval_eqb v v'
  | _, _ => false
  end.
Definition ent_eqb (a b : N * N * Z) : bool := nval_eqb a b.
Definition isec_eqb (a b : isec) : bool :=
  let '(st, en, vs, os) := a in let '(st', en', vs', os') := b in
  (st =? st') && (en =? en') && list_eqb ent_eqb vs vs' && list_eqb ent_eqb os os'.

Definition dump_sval (v : sval) : N * N * Z := (sk v, sv_off v, ssz v).
Definition dump_section (s : section) : isec :=
  (s_start s, s_end s, map dump_sval (s_values s), map dump_sval (s_overflow s)).

(* .idx files are reported one number per entry: the big-endian value of its 16/17 bytes
   (far fewer list elements for Coq to parse than one per byte); the byte count is checked too *)
Fixpoint pack_fuel (fuel : nat) (n : nat) (b : list N) : list N :=
  match fuel with
  | O => []
  | S f => match b with
           | [] => []
           | _ => be_val (firstn n b) :: pack_fuel f n (skipn n b)
           end
  end.
Definition pack_entries (osz : N) (b : list N) : list N :=
  pack_fuel (length b) (N.to_nat (entry_size osz)) b.
(* impl = (byte length, number of leading entries not reported, the remaining entries).
   Only the fixed ascending fill at the start of a "long" history is ever left out. *)
Definition idx_eqb (osz : N) (model : list N) (impl : N * N * list N) : bool :=
  let '(len, skip, es) := impl in
  (N.of_nat (length model) =? len) &&
  list_eqb N.eqb (skipn (N.to_nat skip) (pack_entries osz model)) es.

Fixpoint gets_of {A} (l : list (option A)) : list A :=
  match l with [] => [] | Some x :: r => x :: gets_of r | None :: r => gets_of r end.

(* ---------- model side ---------- *)
Definition corr (c : case) : bool :=
  let osz := c_osz c in let batch := c_batch c in let ops := c_ops c in
  let '(rs, cm) := cm_run batch [] ops in
  let '(mg, ms) := nm_run osz batch nm0 ops in
  let ml := do_loading osz batch (nm_idx ms) in
  let '(lg, ls) := ldb_run osz ldb0 ops in
  let ll := ldb_load osz (l_idx ls) in
  let sdx := write_sorted_from_idx osz (nm_idx ms) in
  list_eqb res_eqb rs (i_cm c) &&
  list_eqb isec_eqb (map dump_section cm) (i_secs c) &&
  list_eqb onval_eqb (gets_of mg) (i_mem_gets c) &&
  metric_eqb (nm_met ms) (i_mem_met c) &&
  idx_eqb osz (nm_idx ms) (i_mem_idx c) &&
  list_eqb onval_eqb (map (nm_get batch ms) (c_probe c)) (i_mem_look c) &&
  metric_eqb (nm_met ml) (i_mem_met2 c) &&
  list_eqb onval_eqb (map (nm_get batch ml) (c_probe c)) (i_mem_look2 c) &&
  list_eqb onval_eqb (gets_of lg) (i_ldb_gets c) &&
  metric_eqb (l_met ls) (i_ldb_met c) &&
  idx_eqb osz (l_idx ls) (i_ldb_idx c) &&
  list_eqb onval_eqb (map (ldb_get ls) (c_probe c)) (i_ldb_look c) &&
  metric_eqb (metric_from_index_o osz (l_idx ls) (c_bloom_ldb c)) (i_ldb_met2 c) &&
  list_eqb onval_eqb (map (ldb_get ll) (c_probe c)) (i_ldb_look2 c) &&
  metric_eqb (metric_from_index_o osz (nm_idx ms) (c_bloom_mem c)) (i_sf_met c) &&
  list_eqb onval_eqb (map (sf_get osz sdx) (c_probe c)) (i_sf_look c).

(* ---------- the property oracle on the implementation's observables ---------- *)
(* the reference association list gives every answer; the counters a map should maintain are
   computed from the reference too *)
Definition ref_lookup (r : rmap) (k : N) : option nval :=
  match ref_get r k with Some (off, sz) => Some (k, off, sz) | None => None end.
(* [ref_metric] (model/NeedleMap.v): the counters computed from the reference map *)
Fixpoint res_gets (l : list res) : list (option nval) :=
  match l with [] => [] | RGet v :: r => v :: res_gets r | _ :: r => res_gets r end.

Definition prop (c : case) : bool :=
  let ops := c_ops c in
  let '(rrs, rfin) := ref_run [] ops in
  let want := map (ref_lookup rfin) (c_probe c) in
  (* every map kind answers like the reference, during and after the run *)
  let answers :=
    list_eqb res_eqb rrs (i_cm c) &&
    list_eqb onval_eqb (res_gets rrs) (i_mem_gets c) &&
    list_eqb onval_eqb (res_gets rrs) (i_ldb_gets c) &&
    list_eqb onval_eqb want (i_mem_look c) &&
    list_eqb onval_eqb want (i_ldb_look c) in
  (* reload: only for histories a volume can issue *)
  let reload :=
    if disciplined ops && forallb (op_in_range (c_osz c)) ops then
      metric_eqb (ref_metric ops) (i_mem_met c) &&
      metric_eqb (ref_metric ops) (i_ldb_met c) &&
      metric_eqb (i_mem_met c) (i_mem_met2 c) &&
      list_eqb onval_eqb (i_mem_look c) (i_mem_look2 c) &&
      metric_eqb (i_ldb_met c) (i_ldb_met2 c) &&
      list_eqb onval_eqb (map live_view (i_ldb_look c)) (map live_view (i_ldb_look2 c)) &&
      metric_eqb (i_mem_met c) (i_sf_met c) &&
      list_eqb onval_eqb (map live_view want) (i_sf_look c)
    else true in
  answers && reload.

Definition trig (c : case) : option N :=
  let ops := c_ops c in
  if disciplined ops && trig_empty_put ops then Some 0
  else if disciplined ops && trig_rewrite ops then Some 1
  else if disciplined ops &&
          (trig_bloom_fp (c_osz c) (nm_idx (snd (nm_run (c_osz c) (c_batch c) nm0 ops))) (c_bloom_mem c) ||
           trig_bloom_fp (c_osz c) (l_idx (snd (ldb_run (c_osz c) ldb0 ops))) (c_bloom_ldb c)) then Some 2
  else None.

Definition nontrivial (c : case) : bool :=
  existsb (fun r => match r with RGet (Some _) => true | RDel s => (0 <? s)%Z | _ => false end) (i_cm c).

Definition check (c : case) : outcome :=
  {| o_corr := corr c; o_prop := prop c; o_trig := trig c; o_nontrivial := nontrivial c |}.

Definition summarize_cases (l : list case) : summary := summarize check l.
