(* Correspondence check for C05: one case = one operation history run on
     - a bare needle_map.CompactMap (every Set/Delete/Get result + the final section structure),
     - a storage.NeedleMap over a temp .idx (Gets, counters, .idx bytes; then LoadCompactNeedleMap),
     - a storage.LevelDbNeedleMap (Gets, counters, .idx bytes; then reopened from the .idx alone),
     - a storage.SortedFileNeedleMap generated from the NeedleMap's .idx (lookups, counters, .sdx bytes),
   the LevelDB and sorted-file kinds also reopened with their db / .sdx file kept (isLevelDbFresh /
   isSortedFileFresh = true).  Two more shapes of case:
     - [c_fill] = (base, step, n), n > 0: the bare CompactMap first receives the n ascending Puts
       [fill_ops base step n] (n = the real section capacity 100000, or just below), then [c_ops];
       the model starts from the closed form [fill_cm] (proof/NeedleMapFill.v: [fill_then_run_both]);
       long lists are reported as (length, skipped prefix, digest of the prefix, rest);
     - [c_long] = (base, step, n), n > 0: an index file head ++ n descending keys ++ tail written
       directly (4095/4096/4097/8193... entries: the 4096-entry batches of reverseWalkIndexFile and
       the 1024-row batches of WalkIndexFile), opened as LevelDB and sorted-file map. *)
From Coq Require Import List NArith ZArith Bool.
From SW Require Export base.Verdict model.NeedleMap.
Import ListNotations.
Local Open Scope N_scope.

(* dump of one CompactSection: start, end, values[0..counter), overflow; entries (Key, offset, size) *)
(* a long list of entries: (length, number of leading entries not listed, digest of those, the rest) *)
Definition clist := (N * N * N * list (N * N * Z))%type.
Definition isec := (N * N * clist * list (N * N * Z))%type.

(* typed constructors for the harness output: their argument scopes let cases.v write plain
   numerals (scope delimiters inside [a; b; ...] lists make Coq's parser very slow) *)
Definition NV (k o : N) (s : Z) : nval := (k, o, s).
Definition CL (tot skip dg : N) (rest : list (N * N * Z)) : clist := (tot, skip, dg, rest).
Definition SEC (st en : N) (vs : clist) (os : list (N * N * Z)) : isec := (st, en, vs, os).
Definition T3 (a b c : N) : N * N * N := (a, b, c).
Definition EN (k o : N) (s : Z) : entry := {| e_key := k; e_off := o; e_size := s |}.
Definition MET (d f db fb mx : N) : metric :=
  {| m_del := d; m_file := f; m_delb := db; m_fileb := fb; m_max := mx |}.

Record case := {
  c_osz : N;                 (* types.OffsetSize of the harness build *)
  c_batch : N;               (* needle_map batch constant of the harness build *)
  c_fill : N * N * N;        (* (base, step, n): the CompactMap runs fill_ops base step n ++ c_ops; n = 0: none *)
  c_ops : list op;
  c_probe : list N;          (* keys looked up at the end of every run *)
  (* oracle: the answers of the real willf/bloom filter (NewWithEstimates(entries, 0.001)) for the
     reverse walk of the NeedleMap's .idx resp. the LevelDB map's .idx, one per entry *)
  c_bloom_mem : list bool;
  c_bloom_ldb : list bool;
  (* bare CompactMap *)
  i_fill_bad : N;            (* how many of the n fill Sets did not return (0, 0) *)
  i_cm : list res;           (* results of c_ops *)
  i_secs : list isec;
  i_asc : clist;             (* CompactMap.AscendingVisit *)
  (* NeedleMap in memory *)
  i_mem_gets : list (option nval);     (* answers of the Get operations, in order *)
  i_mem_met : metric;
  i_mem_idx : N * N * list N;          (* .idx: byte length, entries skipped, one number per entry *)
  i_mem_look : list (option nval);     (* probe lookups at the end of the run *)
  i_mem_met2 : metric;                 (* after LoadCompactNeedleMap(.idx) *)
  i_mem_look2 : list (option nval);
  (* LevelDbNeedleMap *)
  i_ldb_gets : list (option nval);
  i_ldb_met : metric;
  i_ldb_idx : N * N * list N;
  i_ldb_look : list (option nval);
  i_ldb_met2 : metric;                 (* reopened after removing the db directory *)
  i_ldb_look2 : list (option nval);
  (* SortedFileNeedleMap generated from the NeedleMap's .idx *)
  i_sf_met : metric;
  i_sf_look : list (option nval);
  i_sdx : N * N * list N;              (* the generated .sdx file *)
  (* reopened with the db directory / the .sdx file kept and newer than the .idx *)
  i_ldb_met3 : metric;
  i_ldb_look3 : list (option nval);
  i_sf_met3 : metric;
  i_sf_look3 : list (option nval);
  (* indexFileOffset of: NeedleMap after the run, reloaded; LevelDB after the run, regenerated,
     kept; sorted-file generated, kept *)
  i_offs : list N;
  (* the long index file *)
  c_long_head : list entry;
  c_long : N * N * N;
  c_long_tail : list entry;
  c_long_bloom : list bool;
  i_long_ldb_met : metric;
  i_long_ldb_look : list (option nval);
  i_long_sf_met : metric;
  i_long_sf_look : list (option nval);
  i_long_sdx_len : N
}.

(* ---------- equality helpers ---------- *)
Fixpoint list_eqb {A} (f : A -> A -> bool) (l1 l2 : list A) : bool :=
  match l1, l2 with
  | [], [] => true
  | x :: l1', y :: l2' => f x y && list_eqb f l1' l2'
  | _, _ => false
  end.
Definition nval_eqb (a b : nval) : bool :=
  let '(k, o, s) := a in let '(k', o', s') := b in (k =? k') && (o =? o') && (s =? s')%Z.
Definition onval_eqb (a b : option nval) : bool :=
  match a, b with Some x, Some y => nval_eqb x y | None, None => true | _, _ => false end.
Definition res_eqb (a b : res) : bool :=
  match a, b with
  | RSet o s, RSet o' s' => (o =? o') && (s =? s')%Z
  | RDel s, RDel s' => (s =? s')%Z
  | RGet v, RGet v' => onval_eqb v v'
  | _, _ => false
  end.
Definition ent_eqb (a b : N * N * Z) : bool := nval_eqb a b.
(* digest of a list of entries (the harness computes the same in uint64 arithmetic) *)
Definition dg_step (h : N) (e : N * N * Z) : N :=
  let '(k, o, s) := e in
  let s32 := if (s <? 0)%Z then Z.to_N (s + 4294967296)%Z else Z.to_N s in      (* uint32(Size) *)
  N.land (h * 1000003 + k * 7 + o * 13 + s32 * 17 + 1) 18446744073709551615.   (* uint64 wrap-around *)
Definition clist_eqb (model : list (N * N * Z)) (impl : clist) : bool :=
  let '(tot, skip, dg, rest) := impl in
  (N.of_nat (length model) =? tot) &&
  (fold_left dg_step (firstn (N.to_nat skip) model) 0 =? dg) &&
  list_eqb ent_eqb (skipn (N.to_nat skip) model) rest.

Definition dump_sval (v : sval) : N * N * Z := (sk v, sv_off v, ssz v).
(* model section against reported section *)
Definition sec_eqb (s : section) (b : isec) : bool :=
  let '(st', en', vs', os') := b in
  (s_start s =? st') && (s_end s =? en') && clist_eqb (map dump_sval (s_values s)) vs' &&
  list_eqb ent_eqb (map dump_sval (s_overflow s)) os'.
Fixpoint secs_eqb (cm : cmap) (l : list isec) : bool :=
  match cm, l with
  | [], [] => true
  | s :: cm', b :: l' => sec_eqb s b && secs_eqb cm' l'
  | _, _ => false
  end.

(* .idx files are reported one number per entry: the big-endian value of its 16/17 bytes
   (far fewer list elements for Coq to parse than one per byte); the byte count is checked too *)
Fixpoint pack_fuel (fuel : nat) (n : nat) (b : list N) : list N :=
  match fuel with
  | O => []
  | S f => match b with
           | [] => []
           | _ => be_val (firstn n b) :: pack_fuel f n (skipn n b)
           end
  end.
Definition pack_entries (osz : N) (b : list N) : list N :=
  pack_fuel (length b) (N.to_nat (entry_size osz)) b.
(* impl = (byte length, number of leading entries not reported, the remaining entries).
   Only the fixed ascending fill at the start of a "long" history is ever left out. *)
Definition idx_eqb (osz : N) (model : list N) (impl : N * N * list N) : bool :=
  let '(len, skip, es) := impl in
  (N.of_nat (length model) =? len) &&
  list_eqb N.eqb (skipn (N.to_nat skip) (pack_entries osz model)) es.

Fixpoint gets_of {A} (l : list (option A)) : list A :=
  match l with [] => [] | Some x :: r => x :: gets_of r | None :: r => gets_of r end.

(* ---------- model side ---------- *)
(* where the bare CompactMap and the reference start: after the fill (empty when n = 0) *)
Definition fill_fine (c : case) : bool :=
  let '(b, st, n) := c_fill c in (n =? 0) || fill_ok (c_batch c) b st n.
Definition start_cm (c : case) : cmap := let '(b, st, n) := c_fill c in fill_cm b st n.
Definition start_ref (c : case) : rmap := let '(b, st, n) := c_fill c in fill_ref b st n.
Definition long_es (c : case) : list entry :=
  let '(b, st, n) := c_long c in
  if n =? 0 then [] else long_entries (c_long_head c) b st n (c_long_tail c).
Definition metric_is0 (m : metric) : bool := metric_eqb m metric0.
Definition wf_entryb (osz : N) (e : entry) : bool :=
  (e_key e <? two64) && (e_off e <? 256 ^ osz) && (-2147483648 <=? e_size e)%Z && (e_size e <? 2147483648)%Z.

Definition corr_long (c : case) : bool :=
  let es := long_es c in
  match es with
  | [] => metric_is0 (i_long_ldb_met c) && metric_is0 (i_long_sf_met c) &&
          list_eqb onval_eqb [] (i_long_ldb_look c) && list_eqb onval_eqb [] (i_long_sf_look c) &&
          (i_long_sdx_len c =? 0)
  | _ =>
      let osz := c_osz c in
      let db := {| l_db := ldb_load_entries es; l_met := metric0; l_idx := [] |} in
      let sorted := sorted_entries es in
      let sdx := encode osz sorted in
      let met := metric_entries_o es (c_long_bloom c) in
      forallb (wf_entryb osz) es &&
      metric_eqb met (i_long_ldb_met c) && metric_eqb met (i_long_sf_met c) &&
      list_eqb onval_eqb (map (ldb_get db) (c_probe c)) (i_long_ldb_look c) &&
      list_eqb onval_eqb (map (sf_get osz sdx) (c_probe c)) (i_long_sf_look c) &&
      (N.of_nat (length sorted) * entry_size osz =? i_long_sdx_len c)
  end.

Definition corr (c : case) : bool :=
  let osz := c_osz c in let batch := c_batch c in let ops := c_ops c in
  let '(rs, cm) := cm_run batch (start_cm c) ops in
  let '(mg, ms) := nm_run osz batch nm0 ops in
  let ml := do_loading osz batch (nm_idx ms) in
  let '(lg, ls) := ldb_run osz ldb0 ops in
  let ll := ldb_load osz (l_idx ls) in
  let lf := ldb_reopen_fresh osz ls in
  let sdx := write_sorted_from_idx osz (nm_idx ms) in
  let mlen := N.of_nat (length (nm_idx ms)) in let llen := N.of_nat (length (l_idx ls)) in
  fill_fine c && (i_fill_bad c =? 0) &&
  list_eqb res_eqb rs (i_cm c) &&
  secs_eqb cm (i_secs c) &&
  clist_eqb (asc_visit cm) (i_asc c) &&
  list_eqb onval_eqb (gets_of mg) (i_mem_gets c) &&
  metric_eqb (nm_met ms) (i_mem_met c) &&
  idx_eqb osz (nm_idx ms) (i_mem_idx c) &&
  list_eqb onval_eqb (map (nm_get batch ms) (c_probe c)) (i_mem_look c) &&
  metric_eqb (nm_met ml) (i_mem_met2 c) &&
  list_eqb onval_eqb (map (nm_get batch ml) (c_probe c)) (i_mem_look2 c) &&
  list_eqb onval_eqb (gets_of lg) (i_ldb_gets c) &&
  metric_eqb (l_met ls) (i_ldb_met c) &&
  idx_eqb osz (l_idx ls) (i_ldb_idx c) &&
  list_eqb onval_eqb (map (ldb_get ls) (c_probe c)) (i_ldb_look c) &&
  metric_eqb (metric_from_index_o osz (l_idx ls) (c_bloom_ldb c)) (i_ldb_met2 c) &&
  list_eqb onval_eqb (map (ldb_get ll) (c_probe c)) (i_ldb_look2 c) &&
  metric_eqb (metric_from_index_o osz (nm_idx ms) (c_bloom_mem c)) (i_sf_met c) &&
  list_eqb onval_eqb (map (sf_get osz sdx) (c_probe c)) (i_sf_look c) &&
  idx_eqb osz sdx (i_sdx c) &&
  (* kept db: the entries as they were (deleted keys with their negated size); counters from the .idx *)
  metric_eqb (metric_from_index_o osz (l_idx lf) (c_bloom_ldb c)) (i_ldb_met3 c) &&
  list_eqb onval_eqb (map (ldb_get lf) (c_probe c)) (i_ldb_look3 c) &&
  metric_eqb (metric_from_index_o osz (nm_idx ms) (c_bloom_mem c)) (i_sf_met3 c) &&
  list_eqb onval_eqb (map (sf_get osz sdx) (c_probe c)) (i_sf_look3 c) &&
  list_eqb N.eqb [mlen; mlen; llen; llen; llen; mlen; mlen] (i_offs c) &&
  corr_long c.

(* ---------- the property oracle on the implementation's observables ---------- *)
(* the reference association list gives every answer; the counters a map should maintain are
   computed from the reference too *)
Definition ref_lookup (r : rmap) (k : N) : option nval :=
  match ref_get r k with Some (off, sz) => Some (k, off, sz) | None => None end.
(* [ref_metric] (model/NeedleMap.v): the counters computed from the reference map *)
Fixpoint res_gets (l : list res) : list (option nval) :=
  match l with [] => [] | RGet v :: r => v :: res_gets r | _ :: r => res_gets r end.

(* the parts of the property, each on the implementation's observables only *)
(* (a) every map kind answers like the reference, during and after the run; the kept LevelDB db
   answers as before it was closed; the kept .sdx as the generated one; append offsets = file sizes *)
Definition p_answers (c : case) : bool :=
  let ops := c_ops c in
  let '(crs, _) := ref_run (start_ref c) ops in
  let '(rrs, rfin) := ref_run [] ops in
  let want := map (ref_lookup rfin) (c_probe c) in
  let '(mlen, _, _) := i_mem_idx c in let '(llen, _, _) := i_ldb_idx c in
  (i_fill_bad c =? 0) &&
  list_eqb res_eqb crs (i_cm c) &&
  list_eqb onval_eqb (res_gets rrs) (i_mem_gets c) &&
  list_eqb onval_eqb (res_gets rrs) (i_ldb_gets c) &&
  list_eqb onval_eqb want (i_mem_look c) &&
  list_eqb onval_eqb want (i_ldb_look c) &&
  list_eqb onval_eqb (i_ldb_look c) (i_ldb_look3 c) &&
  list_eqb onval_eqb (i_sf_look c) (i_sf_look3 c) &&
  metric_eqb (i_sf_met c) (i_sf_met3 c) &&
  metric_eqb (i_ldb_met2 c) (i_ldb_met3 c) &&
  list_eqb N.eqb [mlen; mlen; llen; llen; llen; mlen; mlen] (i_offs c).
(* AscendingVisit (only when everything is listed): ascending keys, exactly the reference's keys
   with the reference's values *)
Fixpoint asc_keys (l : list (N * N * Z)) : bool :=
  match l with
  | a :: ((b :: _) as r) => (fst (fst a) <? fst (fst b)) && asc_keys r
  | _ => true
  end.
Definition p_visit (c : case) : bool :=
  let '(tot, skip, _, l) := i_asc c in
  if skip =? 0 then
    let rfin := snd (ref_run (start_ref c) (c_ops c)) in
    asc_keys l && (N.of_nat (length rfin) =? tot) &&
    forallb (fun e => let '(k, o, sz) := e in onval_eqb (ref_lookup rfin k) (Some e)) l
  else true.
Definition is_volume_history (c : case) : bool :=
  disciplined (c_ops c) && forallb (op_in_range (c_osz c)) (c_ops c).
(* (b) running counters = reference counters *)
Definition p_running (c : case) : bool :=
  metric_eqb (ref_metric (c_ops c)) (i_mem_met c) && metric_eqb (ref_metric (c_ops c)) (i_ldb_met c).
(* (c) reload: same map and counters after LoadCompactNeedleMap; the regenerated LevelDB map and
   the sorted-file map serve the live entries *)
Definition p_reload (c : case) : bool :=
  let rfin := snd (ref_run [] (c_ops c)) in
  let want := map (ref_lookup rfin) (c_probe c) in
  metric_eqb (i_mem_met c) (i_mem_met2 c) &&
  list_eqb onval_eqb (i_mem_look c) (i_mem_look2 c) &&
  list_eqb onval_eqb (map live_view (i_ldb_look c)) (map live_view (i_ldb_look2 c)) &&
  list_eqb onval_eqb (map live_view want) (i_sf_look c).
(* (d) counters recomputed from the .idx = the running ones *)
Definition p_recount (c : case) : bool :=
  metric_eqb (i_ldb_met c) (i_ldb_met2 c) && metric_eqb (i_mem_met c) (i_sf_met c).
(* what (d) is instead when keys are rewritten (proof/NeedleMapExact.v: reload_counters_exact):
   FileCounter = keys ever put, DeletionCounter = puts + deletes - keys ever put, the rest equal *)
Definition p_recount_formula (c : case) : bool :=
  metric_eqb (reload_metric (c_ops c) (i_ldb_met c)) (i_ldb_met2 c) &&
  metric_eqb (reload_metric (c_ops c) (i_mem_met c)) (i_sf_met c).
(* (e) the long index file: both readers serve the last live entry of every key; every entry is
   counted once, as a file or as a deletion; FileByteCounter = the valid sizes *)
Definition p_long (c : case) : bool :=
  let es := long_es c in
  let want := match es with [] => [] | _ => map (replay_lookup es) (c_probe c) end in
  let vsum := fold_left (fun a e => if size_is_valid (e_size e) then a + u64_of_size (e_size e) else a) es 0 in
  let cnt m := (m_file m + m_del m =? N.of_nat (length es) mod two32) && (m_fileb m =? vsum mod two64) in
  list_eqb onval_eqb want (i_long_ldb_look c) && list_eqb onval_eqb want (i_long_sf_look c) &&
  cnt (i_long_ldb_met c) && cnt (i_long_sf_met c) && metric_eqb (i_long_ldb_met c) (i_long_sf_met c).

Definition prop (c : case) : bool :=
  p_answers c && p_visit c && p_long c &&
  (if is_volume_history c then p_running c && p_reload c && p_recount c else true).

(* A case is excused by a known finding only if everything the finding does not touch holds:
     0 (empty Put): answers and running counters must hold;
     2 (bloom false positive): everything but the recomputed counters must hold;
     1 (key put twice): additionally the recomputed counters must be exactly [reload_metric]. *)
Definition bloom_fp (c : case) : bool :=
  trig_bloom_fp (c_osz c) (nm_idx (snd (nm_run (c_osz c) (c_batch c) nm0 (c_ops c)))) (c_bloom_mem c) ||
  trig_bloom_fp (c_osz c) (l_idx (snd (ldb_run (c_osz c) ldb0 (c_ops c)))) (c_bloom_ldb c).
Definition trig (c : case) : option N :=
  let ops := c_ops c in
  if p_answers c && p_visit c && p_long c && is_volume_history c && p_running c then
    if trig_empty_put ops then Some 0
    else if p_reload c then
      if bloom_fp c then Some 2
      else if trig_rewrite ops && p_recount_formula c then Some 1
      else None
    else None
  else None.

Definition nontrivial (c : case) : bool :=
  existsb (fun r => match r with RGet (Some _) => true | RDel s => (0 <? s)%Z | _ => false end) (i_cm c).

Definition check (c : case) : outcome :=
  {| o_corr := corr c; o_prop := prop c; o_trig := trig c; o_nontrivial := nontrivial c |}.

Definition summarize_cases (l : list case) : summary := summarize check l.
